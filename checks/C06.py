PROP = {
    "id": "C06",
    "tie2": ["Tie2Hsms"],
    "harness": "c06",
    "driver": "c06",
    "n_quick": 240,
    "n_thorough": 4000,
    "harness_timeout": 2400,
    "trusted": [
        "hook hsms/verif_export_send.go: isSecondaryReply on a raw data header; a fresh sysBytesGen with a chosen start value",
        "e2e rig harness/cmd/c06/sc: scripted raw-frame peer over net.Pipe (public WithDialer/WithListener), one sequenced recorder; call -> frame attribution by a unique token in the body; log conventions stated in SendCoreMon.v",
    ],
    "assumptions": [
        "translator: hsms.IsValidSType and the SType / reject-reason / status / state constants are regenerated from /repo into Gen.v and bridged to the model (Gen/BridgeSendCore.v)",
        "atomicity of the LTS steps as read from the code (DESIGN.md Appendix A.2): one read of the supervisor state per gate, registry Store/Load/Delete linearizable, a cap-1 channel per waiter, a sequential recv goroutine",
        "abstractions that only add behaviours: writeMu not modelled, unbounded async queue, lifecycle actions enabled whenever structurally possible",
        "current step function = fx true (af6ced9: the sender ignores a routed control response) with the data-only registry DW true (b22156a); the original and the af6ced9-only step functions are kept as refuted witnesses",
        "defaults only: session-id validation, decode-error handlers, autoS9F9 and channel handlers are off in the model",
        "'no earlier than T3' is the enabledness of the timer completion (now >= t_written + T3) in the model and a lower bound on measured elapsed time in the e2e runs; timer precision is runtime behaviour",
    ],
}


MANIFEST = {
    "text": "Coq theorems over ALL runs of the send-core LTS (gate reads, register, write lock, write, timer, completion by registry channel / T3 / generation cancel / caller ctx, deregister; peer frames; the dispatcher's secondary/primary discrimination, reject routing and handler fan-out): every reply-expected send returns exactly one of its own secondary reply (same system bytes, sent by the peer, returned to no other call), a reject reason, T3 (enabled no earlier than T3 after the write), conn-closed, ctx error — never (nil, nil); each inbound data frame reaches exactly one waiter or every handler once in arrival order (a late duplicate may be absorbed); library-generated system bytes are pairwise distinct within any window of 2^32-1 draws; every exit path deregisters. Two defects were proved as witnesses on the then-current step functions and repaired in the code: (nil, nil) after a colliding control response (fix af6ced9) and the genuine reply discarded behind a colliding control response (fix b22156a: data transactions are registered data-only, the stray response is a registry miss answered Reject(3)); the current step function carries both repairs, the older ones are kept as refuted witnesses, and C06_discard_only_duplicates holds without a no-collision hypothesis. The SAME extracted monitor ok_C06 judges logs recorded from real connections against an adversarial single-goroutine peer (N in {1,2,8,64} senders); deterministic scenarios are compared for equality with the model.",
    "note": 'T3 is an enabledness lower bound (timer precision is runtime). Atomicity granularity as in DESIGN Appendix A.2; session-id validation, decode-error handlers and autoS9F9 are off in the model.',
    "technique": 'Rocq/Coq proof (inductive invariant over an executable LTS) + extracted monitor over e2e logs + deterministic scenario equality + hook differential',
}
