PROP = {
    "id": "C06",
    "harness": "c06",
    "driver": "c06",
    "n_quick": 240,
    "n_thorough": 4000,
    "harness_timeout": 2400,
    "trusted": [
        "hook hsms/verif_export_send.go: isSecondaryReply on a raw data header; a fresh sysBytesGen with a chosen start value",
        "e2e rig harness/cmd/c06/sc: scripted raw-frame peer over net.Pipe (public WithDialer/WithListener), one sequenced recorder; call -> frame attribution by a unique token in the body; log conventions stated in SendCoreMon.v",
    ],
    "assumptions": [
        "translator: hsms.IsValidSType and the SType / reject-reason / status / state constants are regenerated from /repo into Gen.v and bridged to the model (Gen/BridgeSendCore.v)",
        "atomicity of the LTS steps as read from the code (DESIGN.md Appendix A.2): one read of the supervisor state per gate, registry Store/Load/Delete linearizable, a cap-1 channel per waiter, a sequential recv goroutine",
        "abstractions that only add behaviours: writeMu not modelled, unbounded async queue, lifecycle actions enabled whenever structurally possible",
        "defaults only: session-id validation, decode-error handlers, autoS9F9 and channel handlers are off in the model",
        "'no earlier than T3' is the enabledness of the timer completion (now >= t_written + T3) in the model and a lower bound on measured elapsed time in the e2e runs; timer precision is runtime behaviour",
    ],
}
