PROP = {
    "id": "C08",
    "tie2": ["Tie2Hsms", "Tie2Responder", "Tie2ResponderModel"],
    "harness": "c08",
    "driver": "c08",
    "n_quick": 300,
    "n_thorough": 60000,
    "harness_timeout": 2400,
    "trusted": [
        "hook hsms/verif_export_runtime.go (build tag verif, add-only): the transport is handed the connection wrapped so that harness callbacks run around TCPUp / CommitSelected; used only by the held-commit scenarios, every other run uses the public API alone",
        "e2e rig harness/cmd/c08 (public API only, no hook): a real hsmsss connection over net.Pipe via WithDialer / WithListener, a raw-frame peer, a handler log; per frame the replies are fenced by a Linktest.req barrier (sequential recv goroutine + FIFO async sender)",
        "harness/cmd/c08/oracle.go: the E37 table re-stated in Go from the property text (the implementation-level oracle; no reference to the model)",
    ],
    "assumptions": [
        "every scripted answer of the regenerated dispatcher's environment (Gen2: hsms.TransportRuntime / ConnectionConfig records) and its e2e variation: ConnectionConfig.TraceTraffic -> the whole e2e matrix is crossed with WithTraceTraffic on/off (logger = discard sink; not a model parameter: the same case lines must hold), corpus sweeps (every SType x PType x body, both states), procedures, orphans, own-select, random, pipelined, held-commit and second-connection runs; TransportRuntime.State -> every class is run from Selected and NotSelected (NotConnected during dispatch is reachable only with the recv loop started before TCPUp: held-TCPUp runs); CommitSelected -> first / duplicate Select.req, accepted Select.rsp from both states, delayed in the held-commit runs; RouteReply -> hit (the active side's own Select.req answered in every way) and miss (orphans); SendAsync return value -> ignored by the code (`_ =`), non-nil only while the generation is being torn down: no variation, answers after a link end are not prescribed; DeliverOwnedFrame return value -> ignored by the code, non-nil only on a decode error that readFrame/dispatchFrame have already excluded: no variation. Session-id validation (read inside the engine) and equipment/host are model parameters and crossed as before",
        "chain for the code classes: source -> translator v2 (Gen2.v, coqc-checked: tie_hsmsss_responder_step) -> expect_dispatch -> Properties/Tie2ResponderModel.v (C08_dispatch_is_respond / C08_source_dispatch_is_respond: the call log projects to respond, in every environment that answers what the model state says) -> respond -> C08_all_sequences -> E37 table. Remaining hand-modelled step: the two classes decided inside the engine (data while Selected = DeliverOwnedFrame/checkSessionID/RouteReply/RouteData; a response hitting an open transaction = reply registry + runSelectProcedure's reaction): for these the theorems state exactly what the dispatcher logs, and respond's outcome is tied by the e2e differential only",
        "atomic action 'the TCP-up commit (NotConnected -> NotSelected) happens before the generation's first frame can be dispatched' and 'the Selected commit happens before the peer can hold Select.rsp': now EXERCISED by the held-commit runs (hook hsms/verif_export_runtime.go: the harness parks the transport inside TCPUp for 60 ms, resp. delays CommitSelected, while the peer's Select.req + data + barrier are already written in one burst; passive with/without pipelined data and with a second connection during the hold, active with simultaneous select); the exact differential runs on the outcome",
        "atomicity: one received frame = one step; CommitSelected / CommitSelectLost are synchronous on the recv goroutine; a control transaction closes in the step in which its response is routed (the waiter's deregistration runs on another goroutine shortly after: the harness fences it with an orphan-response probe and records only the probe that was answered)",
        "the supervisor does not move the logical state by itself while the link is up (T7 / linktest / Close aside, which the quiet link excludes): this is C05's theorem; before repo commit 737422e the e2e pass reproduced its violation with protocol-visible consequences (finding C08-deselect-undone, now fixed) and still recognises it by name",
        "quiet link: auto-linktest off and T3/T6/T7 at 120 s, so the only control transaction the library opens is the active side's Select.req; data transactions opened by local senders (C06) are outside this model",
        "S9F1 is a data message of this side and passes the send gate (C07): if the peer pipelines a Deselect.req right behind the offending data frame, the queued S9F1 may be dropped at the write boundary. Model and table describe the un-pipelined outcome; the pipelined pass never puts a deselecting frame behind an S9F1 in the same burst",
        "reading adopted: a transaction is identified by its system bytes (E37 8.2.6.8), so a Deselect.rsp / Linktest.rsp / Reject.req / data reply carrying the system bytes of this side's open Select.req is the (failed) answer to that Select and ends the link like a refusing Select.rsp; it is not a 'response with no open transaction'",
        "frames are well-framed (length >= 10, below the frame cap): framing errors are C03/C04",
        "the second-connection theorem is about one listener generation of the acceptor model; its tie is the scripted scenario (harness-owned listener)",
    ],
}


MANIFEST = {
    "text": "Coq theorems over ALL finite frame sequences, all configurations (role, session id, validation on/off, equipment/host) and all counter values: the responder model (which follows dispatchFrame, the control procedures, the active Select procedure and checkSessionID/RouteReply branch by branch) equals the SEMI E37 table written independently from the property statement, frame by frame (outputs byte for byte, link effect, selected state); one lemma per table row; the link ends only on Separate-while-Selected or when the peer refuses this side's own Select; the four Reject classes never disconnect or move state; a passive acceptor refuses every connection after the first without changing the live session's outputs. IsValidSType and the status/reason/SType constants are regenerated from the source and bridged. The model is compared exactly with a real connection over net.Pipe (stepwise with Linktest barriers, and pipelined bursts).",
    "note": 'Atomicity: one frame per step; a transaction closes when its response is routed (probe-fenced). Quiet link (no auto-linktest, long T3/T6/T7): timer-driven endings and local data transactions are outside this model (C06/C19). Two readings adopted and listed in the evidence: transaction identity by system bytes; an S9F1 queued behind a pipelined Deselect may be dropped by the send gate (C07).',
    "technique": 'Rocq/Coq proof (refinement of a code-shaped fold to a table spec, induction over frame lists) + translator bridge + exact extracted-model differential on a real connection + independent table oracle',
}


def custom(run, tier):
    """Floor on the held-commit scenarios: a run the rig could not set up (the transport never
    reached TCPUp / the peer never saw the active side's Select.req within the ceiling) is discarded
    and counted, never an oracle failure; but at least 80% of them must have been established, so
    that a change which breaks connecting is still reported."""
    est = run.hist.get("held:established", 0)
    dis = run.hist.get("held:discarded", 0)
    total = est + dis
    run.coverage["held_commit_runs"] = {"established": est, "discarded": dis,
                                        "discard_reasons": {k: v for k, v in run.hist.items() if k.startswith("held:discarded: ")}}
    run.oblige("held-commit scenarios established: %d of %d (floor 80%%)" % (est, total),
               total > 0 and est * 5 >= total * 4,
               "established=%d discarded=%d %s" % (est, dis, {k: v for k, v in run.hist.items() if k.startswith("held:")}))
