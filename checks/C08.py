PROP = {
    "id": "C08",
    "harness": "c08",
    "driver": "c08",
    "n_quick": 300,
    "n_thorough": 20000,
    "harness_timeout": 2400,
    "trusted": [
        "e2e rig harness/cmd/c08 (public API only, no hook): a real hsmsss connection over net.Pipe via WithDialer / WithListener, a raw-frame peer, a handler log; per frame the replies are fenced by a Linktest.req barrier (sequential recv goroutine + FIFO async sender)",
        "harness/cmd/c08/oracle.go: the E37 table re-stated in Go from the property text (the implementation-level oracle; no reference to the model)",
    ],
    "assumptions": [
        "atomicity: one received frame = one step; CommitSelected / CommitSelectLost are synchronous on the recv goroutine; a control transaction closes in the step in which its response is routed (the waiter's deregistration runs on another goroutine shortly after: the harness fences it with an orphan-response probe and records only the probe that was answered)",
        "the supervisor does not move the logical state by itself while the link is up: violated by the C05 echo-replay finding, which the e2e pass reproduces with protocol-visible consequences (known finding C08-deselect-undone)",
        "quiet link: auto-linktest off and T3/T6/T7 at 120 s, so the only control transaction the library opens is the active side's Select.req; data transactions opened by local senders (C06) are outside this model",
        "frames are well-framed (length >= 10, below the frame cap): framing errors are C03/C04",
        "the second-connection theorem is about one listener generation of the acceptor model; its tie is the scripted scenario (harness-owned listener)",
    ],
}
