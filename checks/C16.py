PROP = {
    "id": "C16",
    "tie2": ["Tie2Secs2Leaves"],
    "harness": "c16",
    "driver": "c16",
    "n_quick": 6000,
    "n_thorough": 400000,
    "trusted": [
        "no hook: the harness uses only the public API (secs2 constructors and shortcuts, secs2.Equal, hsms.NewDataMessage / Derive().Build() / NewDataMessageFromHeader, hsmsss.New over net.Pipe for the send calls)",
    ],
    "harness_timeout": 3000,
    "assumptions": [
        "strconv.ParseFloat is a parameter of the float constructor model (the driver supplies strconv's answer per string); strconv.ParseInt/ParseUint (base 0, 64 bit) are modelled in Gallina and compared on every string case",
        "binary64 ordering of finite values = (sign, magnitude bits) ordering; float64(int) exact for |int| <= 2^53; float32<->float64 conversions computed on bit patterns (NaN payloads as on amd64)",
        "theorems about element counts carry length < 2^31 (the code stores the count in an int32; C16_count_refuted shows the premise is necessary, known finding C16-count-int32)",
        "bounds per byte size (-2^(8w-1), 2^(8w-1)-1, 2^(8w)-1) are computed inline inside type-switching Go functions, outside the translator's subset: tied by the differential at and beyond every bound for every Go type and both code paths (fast scalar path, combine*Values slow path)",
        "externally implemented secs2.Item values and typed-nil built-in pointers are outside the quantifier (see report)",
    ],
}


def _args(run, tier, n, cases):
    a = ["-seed", run.seed, "-n", n, "-tier", tier, "-out", cases]
    if tier == "thorough":
        a.append("-big")   # 2^31-element BooleanItem: reproduces known finding C16-count-int32 (~5 GiB, ~25 s)
    return [a]


PROP["harness_args"] = _args


MANIFEST = {
    "text": "Coq theorems over ALL argument lists. For I/U items, every presentation (any Go integer type, slices, decimal strings of any magnitude, mixed) of numbers zs yields values map (clamp lo hi) zs in order; clamp is proved nearest-bound and bridged to the clampInt64/clampUint64 regenerated from the source. For floats, clampF4 is proved on an ordered abstraction and is the identity on float32 and integer images. All documented refusals are proved; the cached clean flag equals the recursive answer at any depth; an errored item is never Equal, is refused by the message gate, Build and all four send calls, and nothing errored reaches the wire. The model is tied by a differential over all public constructors (incl. live send calls on a selected connection with a recording peer).",
    "note": "Premise length < 2^31 on the count (C16_count_refuted; the real code was repaired by fix commit 5f82ab6). ParseFloat is a parameter of the model; ParseInt/ParseUint are modelled and compared. Per-width bounds are computed inline outside the translator subset and tied by differential only. Float order/conversions are modelled on bit patterns (amd64 NaN behaviour). Only the hsmsss send path is exercised live; external Item implementations and typed-nil pointers are outside the quantifier.",
    "technique": "Rocq/Coq proof (structural induction over argument lists and item trees) + translator bridge + extracted-model differential through the public API incl. live send calls",
}
