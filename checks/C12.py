import os

PROP = {
    "id": "C12",
    "harness": "c12",
    "driver": "c12",
    "n_quick": 1500,
    "n_thorough": 100000,
    "harness_timeout": 3000,
    "trusted": [
        "no hook: the harness uses only the public API of secs2 and hsms",
        "Go race detector (-race build of the harness) for the concurrent-reader pass: SUPPORTING EVIDENCE for data-race freedom, not a theorem",
    ],
    "assumptions": [
        "the ownership-heap model assigns ownership according to the copying discipline the code documents; the operation-sequence differential (incl. the DecodeOwned / DecodeOwnedHSMSPayload positive control) is what ties that assignment to the code",
        "C12 is PARTIAL: data-race freedom is a Go-memory-model fact outside the Gallina model (race-detector run only); at-most-once is proved for the sync.Once algorithm as an interleaving LTS whose atomic steps are Load/Lock/body/Store/Unlock",
        "strings are immutable Go values (string(b) copies); unsafe-aliased strings of decoded items are covered by the decode-copy differential",
    ],
}


def custom(run, tier):
    """Concurrent readers under the race detector: the same observations from 2..32 goroutines with
    concurrent first calls; identity of the lazily decoded body across re-stamped copies."""
    import vlib
    with vlib.Lock():
        ok, log = vlib.build_harness("c12", race=True)
    run.oblige("harness builds with -race", ok, log)
    if not ok:
        return
    n = 150 if tier == "quick" else 4000
    cases = os.path.join(vlib.BUILD, "c12_race.cases")
    rc, summary, out = vlib.run_harness("c12", ["-seed", run.seed, "-n", n, "-tier", tier, "-conc", "-out", cases],
                                        timeout=2400, race=True)
    races = out.count("WARNING: DATA RACE")
    run.notes.append("race-detector pass: %d rounds of 2..32 concurrent readers, %d race reports (supporting evidence only)" % (n, races))
    if races:
        run.failures.append({"what": "race detector reported a data race among concurrent readers", "case": out[out.find("WARNING: DATA RACE"):][:3000]})
    run.oblige("concurrent readers under -race: harness completes, no race report", rc == 0 and summary is not None and races == 0, out[-3000:])
    if summary:
        run.absorb(summary)
        ok2, nc, nm, mism, raw = vlib.run_driver("c12", cases)
        run.oblige("once monitor (extracted all_same) accepts %d recorded reader histories" % nc, ok2 and nm == 0, "\n".join(mism) or raw)


MANIFEST = {
    "text": "PARTIAL proof. Coq theorems: non-interference of every caller write and API call with every observation of every object, for all operation sequences that avoid the ownership-transferring entry points (ownership-heap invariant: caller-reachable cells and object-owned cells are disjoint), with the ownership-transfer case as a proved positive control; the lazy encode/decode body runs at most once and all readers see its result for all schedules of any number of readers (interleaving LTS of the once-cell). Tied to the real API by an operation-sequence differential (every accessor/serialiser x provenance, every input/output slice mutated and everything re-observed) and concurrent readers with pointer-identity witnesses.",
    "note": "PARTIAL: data-race freedom is a Go-memory-model fact the Gallina model cannot exhibit; the race-detector run (0 reports) is supporting evidence only. The model assigns ownership per the documented copying discipline; the differential on the real API, including the positive control, ties that assignment to the code.",
    "technique": "Rocq/Coq proof (ownership-heap invariant; interleaving LTS of sync.Once) + operation-sequence differential incl. ownership-transfer positive control + race-detector run",
}
