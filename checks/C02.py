PROP = {
    "id": "C02",
    "tie2": ["Tie2Secs2Decode"],
    "harness": "c02",
    "driver": "c02",
    "n_quick": 20000,
    "n_thorough": 600000,
    "harness_timeout": 3000,
    "trusted": [
        "harness/cmd/c02: byte-string generator (valid encodings from harness/cmd/c01/s2t, mutations, truncations, length-field rewrites, non-canonical length fields, nesting 62..66 and 100, hostile length claims, allocation-amplifying nests, random strings; payload classes the library encoder never emits — Boolean bytes 0x02..0xFF, text bytes >= 0x80, NaN payloads, negative zero, all-ones — for lengths 1/2/3/many, alone and in lists) and an independent reference decoder of VALUES (refTree) compared with the accessors of the decoded item; runtime.MemStats.TotalAlloc around secs2.Decode as the allocation observation",
        "ocaml/c02_driver.ml: case-line parser; compares status, consumed length, decoded tree, runs the instrumented twin (inputs up to 1200 bytes) and the allocation accounting",
    ],
    "assumptions": [
        "input elements are bytes (bytes_ok: 0 <= b < 256) in every theorem that needs it",
        "the allocation theorem is about the model's accounting of make/new sizes (64-bit layout, struct sizes from unsafe.Sizeof, slab tails as a constant); allocator size classes, GC and the constant-size error values are runtime behaviour: the harness allows 25% over the proved bound and the driver 25% + 1 KiB over the model's accounting per input",
        "error CLASS is a notion of the model only (the Go code returns message text); the differential compares accept/reject, consumed length and decoded value",
        "Decode and DecodeOwned run the same decodeItem on equal bytes (bytes.Clone); their agreement is checked by the harness on every input, it is not a theorem",
        "F4 elements: Go's float32->float64 widening quiets signalling NaNs in the accessor values (the retained wire bytes are unchanged); both sides canonicalise F4 NaN patterns when comparing decoded values",
    ],
}


MANIFEST = {
    "text": "Coq theorems over all byte strings: the decoder written with Go's index/slice operations never reaches outside the buffer (instrumented Panic twin) and terminates; it accepts exactly the receiver-side E5 grammar within depth 64 (soundness + completeness, canonical and non-canonical length fields), returns the grammar's value and the consumed prefix (re-encoding is byte-identical), and rejects each malformed class with a named lemma (unknown format code, zero length-byte count, truncated header/payload, payload not a multiple of the width, localized < 2, list count, depth 65); allocation accounting <= 565*len + 78144 for every input (child-count pre-check lemma; slab schedule bridged). Tied by a differential on valid encodings, all mutation kinds, hostile length claims and random strings, with measured TotalAlloc against the model's accounting.",
    "note": 'The allocation theorem is about requested make/new sizes (size classes, GC and error values are runtime; 25% slack in the oracle). Error class is model-only; Decode/DecodeOwned agreement is checked on every input rather than proved (it is vacuous in a value model). The constant is 1+52+8*MaxListDepth per input byte, not the 64 the design first guessed.',
    "technique": 'Rocq/Coq proof (fuel induction, instrumented Panic twin, cost invariant) + translator bridge + extracted-model differential on mutated bytes',
}
