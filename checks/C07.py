PROP = {
    "id": "C07",
    "harness": "c07",
    "driver": "c07",
    "tie2": ["Tie2Responder"],
    "n_quick": 8,
    "n_thorough": 300,
    "harness_timeout": 2400,
    "trusted": [
        "e2e rig harness/cmd/c06/sc (shared with C06): scripted raw-frame peer over net.Pipe (public WithDialer/WithListener), one sequenced recorder, call -> frame attribution by a unique token in the body; log conventions stated in SendCoreMon.v",
        "State() polling and the state-change notification are used only to PLACE harness events (when to call, when to deselect), never as the judged observation",
    ],
    "assumptions": [
        "translator: hsms.IsValidSType and the SType / reject-reason / status / state constants are regenerated from /repo into Gen.v and bridged to the model (Gen/BridgeSendCore.v)",
        "atomicity of the LTS steps as read from the code (DESIGN.md Appendix A.2): B1 and B2 are each ONE read of the supervisor state word; dispatchFrame runs on one goroutine, so its select commit precedes the dispatch of the next frame",
        "the supervisor state word changes only at the three synchronous commits and at disconnect/close steps (C05_causes) - the pinned tree violated this when a commit echo was replayed (DESIGN.md §5 #1), repaired in /repo by 737422e; the e2e row deselected-fast is the regression case (finding C07-deselect-replay, fixed)",
        "byte-level regrouping of the peer's stream is the reader's business (C04_segmentation); the model hands the dispatcher whole frames in stream order, the e2e pass cuts the byte string at every offset",
        "abstractions that only add behaviours: writeMu not modelled, unbounded async queue, lifecycle actions enabled whenever structurally possible",
    ],
}


MANIFEST = {
    "text": "Coq theorems over all runs: no byte of a data send refused at the B1 read or the B2 write-boundary re-check ever reaches a socket, the result is NotSelected (NotOpen before the first Open, with no counter change), the drop counter equals the number of not-selected refusals, control sends are not gated; inbound data while not Selected gets exactly one Reject(4) echoing session id and system bytes, no handler call, link untouched; an orphan Select.rsp does not select; every data frame behind the establishing Select.req / Select.rsp(0) is dispatched with state Selected for all quiet interleavings, and a length-prefixed reader fed the stream in arbitrary chunks yields exactly the frames in order (any write-size grouping). Tied by an e2e matrix (8 not-selected conditions x 7 entry points x 2 roles: result class, drop-counter delta, bytes seen by the peer, inbound Reject(4)), pipelining at every cut point, and gate scenarios (incl. the B2 re-check through the code's after-write-lock seam) compared for equality with the model; the extracted ok_C07 judges every log.",
    "note": "The log-level inbound matching clause of the monitor (greedy attribution of Reject(4) to frames) is used as a tie only, not proved for all runs. Assumes C05's theorem that the state word changes only at commits and disconnect steps.",
    "technique": 'Rocq/Coq proof (inductive invariant over an executable LTS) + extracted monitor over e2e logs + deterministic scenario equality',
}
