import os


def harness_args(run, tier, n, cases):
    base = cases[:-len(".cases")]
    return [
        ["-seed", run.seed, "-n", n, "-tier", tier, "-pass", "diff", "-out", cases],
        ["-seed", run.seed, "-n", 1, "-tier", tier, "-pass", "hostile", "-out", base + "_hostile.cases"],
        ["-seed", run.seed, "-n", 1, "-tier", tier, "-pass", "scan"],
    ]


def custom(run, tier):
    """Concurrency pass: the same harness built with -race; distinct parser / encoder instances
    in 8 goroutines on shared inputs must reproduce the sequential results, race detector silent."""
    import vlib
    with vlib.Lock():
        ok, log = vlib.build_harness("c14", race=True)
    run.oblige("Go harness builds with -race against current /repo", ok, log)
    if not ok:
        return
    n = 1500 if tier == "thorough" else 120
    rc, summary, out = vlib.run_harness("c14", ["-seed", run.seed, "-n", n, "-tier", tier, "-pass", "race"], timeout=2400, race=True)
    if "WARNING: DATA RACE" in out:
        i = out.index("WARNING: DATA RACE")
        run.failures.append({"what": "race: the Go race detector reported a data race between parser/encoder instances",
                             "case": out[i:i + 3000]})
        return
    run.oblige("race pass completes (exit 0, summary present)", rc == 0 and summary is not None, out[-3000:])
    run.absorb(summary)


PROP = {
    "id": "C14",
    "tie2": ["Tie2SmlErrPos"],
    "harness": "c14",
    "driver": "c14",
    "n_quick": 3000,
    "n_thorough": 250000,
    "harness_args": harness_args,
    "harness_timeout": 3000,
    "trusted": [
        "quick tier: 8 MiB goroutine stack limit in the child for the 50000-level nesting input; thorough tier additionally the Go default (1 GB) with 6,000,000 levels, the 2^31-1 hint for every item type, and items of MaxByteSize / MaxByteSize+1 bytes",
        "every call into package sml of the diff/hostile passes runs in a child process of the harness started by /bin/sh under `ulimit -v` (4 GiB) with a wall-clock limit; the child's crash / kill is read from its exit status and stderr (fatal error text class only)",
        "runtime.MemStats.TotalAlloc deltas for the allocation oracle; debug.SetMaxStack in the child for the quick-tier nesting case (8 MiB instead of Go's 1 GB default, stated in the evidence notes)",
        "go/parser scan of /repo/sml for package-level variables; the Go race detector (-race build of the same harness)",
    ],
    "assumptions": [
        "strconv.ParseFloat is outside go-secs: the model takes it as a parameter (any total function); the driver instantiates it per input with the results the real ParseFloat returns for every candidate token (float table in the case line)",
        "strconv.ParseInt/ParseUint (Base/Decimal.v) and utf8 decoding / unicode.IsSpace / strings.ToUpper on the value tokens (Base/Utf8.v, Parser.v) are modelled, tied by the correspondence runs only",
        "rune loops that only look for ASCII bytes (quotes, '>', digits) are modelled as byte loops (every byte of a multi-byte or invalid sequence is >= 0x80); the generator contains multi-byte runes, invalid UTF-8 and Unicode spaces",
        "fuel: the theorems are stated for fuel_for_input s = 2 len + 2 (one unit per parseItem call and per parseList iteration; the corner where parseItemSize steps back one byte costs the factor 2); the driver runs the model with exactly that fuel",
        "cost model: m_steps counts the bytes each scanning primitive of the MODEL looks at (plus the bytes copied by numStr += string(ch) in strict ASCII); it is not measured on the Go side. The allocation meter counts the capacities passed to make / strings.Builder.Grow only (append growth and value strings are linear in the consumed input)",
        "hypothesis cap_ok on every whole-run theorem: a configured depth cap is >= 0 (true for cfg_current = no cap and cfg_repaired = 64; non-vacuity example in Properties/C14.v)",
        "the positive totality / resource theorems are about the model with the corresponding repair switch on (cfg: c_quote_fix, c_cap_hint, c_depth_cap); the current code is the assignment (false,false,None) and refutes them by the recorded witnesses. The driver accepts a run only if ONE assignment of the three switches explains every observed outcome",
        "instances_independent: in the model a parse is a function of (cfg, strict, input); the code side is the source scan (no package-level variable of package sml other than never-written error values / literal tables), the reused-vs-fresh parser comparison in the child, and the -race concurrency pass",
    ],
}


MANIFEST = {
    "text": 'Coq theorems (no axioms) over an instrumented executable model of sml/parser.go + errors.go (panic sites, alloc/depth/cost meters, switches for the three repairs), for every input, both modes, every entry point and every total function standing for strconv.ParseFloat: termination (fuel 2*len+2 suffices); no panic with the repaired closing-quote bound (the pre-fix panic is kept as a refuted witness); every returned message is a valid data message; every syntax error has 0 <= offset <= len, line = 1 + newlines before the offset, col = 1 + offset - start of line; at most 40*len+40 scanning primitives and 160*(len+1)^2 steps; with the hint cap each allocation <= 16*len bytes; with the depth cap recursion <= cap+1. The three defects of the pinned code (unbounded size-hint allocation, unbounded nesting, truncated-quote panic) were refuted by vm_compute witnesses, reproduced through the harness in resource-limited child processes, and repaired in the code (fix commits 6aafc8b, 95562b6, 0a72876); the driver accepts a run only if ONE assignment of the repair switches explains every observation. Instance independence: model theorem by construction + source scan for package-level mutable state + reused-vs-fresh parser comparison + a -race pass.',
    "note": "Theorems are about the model; the tie is a differential in both modes over all entry points (accept/reject, messages, item trees, Offset/Line/Col, crash classes, measured TotalAlloc against the model's meter) run in child processes under ulimit with a wall-clock limit. ParseFloat is a parameter (its real results are passed in the case line). The total-allocation bound is quadratic (each allocation linear): the linear sum bound of the design does not hold even for the capped hint. ParseInt/ParseUint come from Base/Decimal.v and are tied by the differential.",
    "technique": 'Rocq/Coq proof (invariants over a fuelled, instrumented Gallina model with panic sites and resource meters) + extraction-based differential in resource-limited child processes + vm_compute witnesses',
}
