PROP = {
    "id": "C19",
    "harness": "c19",
    "driver": "c19",
    "n_quick": 4000,
    "n_thorough": 400000,
    "trusted": [
        "hook hsmsss/verif_export.go: scripted TransportRuntime driving the real runLinktest loop (interval 1ns, so suppression rule 1 is exercised only by the model and by e2e timelines)",
    ],
    "assumptions": [
        "the loop reads its environment exactly at the points the obs record names (probe outcome, receive stamp and in-flight count at the failure snapshot and at the final re-check)",
        "timer precision ('about threshold x (interval+T6)') is runtime behaviour, not modelled",
        "bridge lemma for linktestFailureStep carries the range hypothesis fails+1 < 2^63",
    ],
}
