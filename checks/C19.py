PROP = {
    "id": "C19",
    "harness": "c19",
    "driver": "c19",
    "n_quick": 4000,
    "n_thorough": 400000,
    "trusted": [
        "hook hsmsss/verif_export.go: scripted TransportRuntime driving the real runLinktest loop (interval 1ns, so suppression rule 1 is exercised only by the model and by e2e timelines)",
    ],
    "assumptions": [
        "the loop reads its environment exactly at the points the obs record names (probe outcome, receive stamp and in-flight count at the failure snapshot and at the final re-check)",
        "timer precision ('about threshold x (interval+T6)') is runtime behaviour, not modelled",
        "bridge lemma for linktestFailureStep carries the range hypothesis fails+1 < 2^63",
    ],
}


def custom(run, tier):
    """End-to-end timelines on a real hsmsss connection (implementation-level oracle only)."""
    import vlib
    ok, log = vlib.build_harness("c19e2e")
    run.oblige("e2e harness (c19e2e) builds", ok, log)
    if not ok:
        return
    rc, summary, out = vlib.run_harness("c19e2e", ["-seed", run.seed, "-tier", tier], timeout=900)
    run.oblige("e2e timelines complete", rc == 0 and summary is not None, out[-2000:])
    run.absorb(summary)
