PROP = {
    "id": "C19",
    "harness": "c19",
    "driver": "c19",
    "n_quick": 4000,
    "n_thorough": 400000,
    "trusted": [
        "hook hsmsss/verif_export.go: scripted TransportRuntime driving the real runLinktest loop: untimed runs (interval 1ns; rules 2, 3 and the final re-check scripted) and timed runs (interval 3ms; suppression rule 1 scripted by planting an own-send stamp inside the window; runs in which the scheduler delayed the loop past the planted window are detected by the hook and discarded, counted in the evidence)",
    ],
    "assumptions": [
        "the loop reads its environment exactly at the points the obs record names (probe outcome, receive stamp and in-flight count at the failure snapshot and at the final re-check)",
        "timer precision ('about threshold x (interval+T6)') is runtime behaviour, not modelled",
        "bridge lemma for linktestFailureStep carries the range hypothesis fails+1 < 2^63",
    ],
}


def custom(run, tier):
    """End-to-end timelines on a real hsmsss connection (implementation-level oracle only)."""
    import vlib
    ok, log = vlib.build_harness("c19e2e")
    run.oblige("e2e harness (c19e2e) builds", ok, log)
    if not ok:
        return
    rc, summary, out = vlib.run_harness("c19e2e", ["-seed", run.seed, "-tier", tier], timeout=900)
    run.oblige("e2e timelines complete", rc == 0 and summary is not None, out[-2000:])
    run.absorb(summary)


MANIFEST = {
    "text": 'Coq theorems over all observation histories, thresholds >= 1 and suppression on/off (dead peer dropped at exactly the threshold-th timeout; every disconnect justified by threshold dead, quiet probes plus a dead final re-check; probe rule). The two reducers are regenerated from the Go source on every run and bridged to the model; the loop body is tied by running the real runLinktest against scripted histories and comparing per-iteration behaviour with the extracted model.',
    "note": 'Trusted: Coq kernel, translator, extraction, harness/hook. Timer precision is runtime/e2e only; suppression rule 1 (idle < interval) is scripted in the timed runs of the real loop (own writes inside the window never forgive a counted timeout).',
    "technique": 'Rocq/Coq proof (induction over histories) + translator bridge + extracted-model differential',
}
