PROP = {
    "id": "C13",
    "harness": "c13",
    "driver": "c13",
    "n_quick": 3000,
    "n_thorough": 150000,
    "trusted": [
        "public API only (no hook): sml.EncodeMessage with every option, sml.ParseStrict, hsms.NewDataMessage, the secs2 constructors and accessors",
        "the strconv oracles of the models are instantiated per case line by tables written by the harness from Go's own strconv (FormatFloat text per float element; ParseFloat result for every token of a parsed text that ParseFloat accepts; Quote text per localized string)",
    ],
    "assumptions": [
        "oracle laws (premises of C13_encode_parse / C13_parse_encode_parse, validated by the harness on every generated float and localized string): ParseFloat(FormatFloat(v,'G',9|17,32|64)) has the same wire bits as v for non-NaN v in the item's range and is NaN for NaN; FormatFloat output is non-empty and uses only [0-9A-Za-z+.-]; strconv.Quote(s) = '\"'+s+'\"' exactly when the oracle predicate quote_plain s holds (it holds for printable ASCII without '\"' and '\\')",
        "strconv.ParseInt/ParseUint (base 0 and 10, underscores, prefixes, range) and FormatInt/Itoa are MODELLED in Base/Decimal.v, validated by the Q case lines and by every parsed text",
        "Unicode facts used by the parser model: unicode.IsSpace is the listed set; U+017F and U+0131 are the only non-ASCII code points whose upper case is an ASCII letter (strings.ToUpper on boolean tokens and on the BOOLEAN keyword)",
        "the indent option ranges over strings of SML whitespace (space, tab, CR, LF); any other indent text is not parseable SML by construction and is outside the theorem",
        "the grammar of the statement has no EmptyItem below the top level (an EmptyItem list child renders as an empty line and is not read back: C01 edge, DESIGN section 5 #6)",
    ],
}
