PROP = {
    "id": "C13",
    "harness": "c13",
    "driver": "c13",
    "n_quick": 3000,
    "n_thorough": 150000,
    "trusted": [
        "public API only (no hook): sml.EncodeMessage with every option, sml.ParseStrict, hsms.NewDataMessage, the secs2 constructors and accessors",
        "the strconv oracles of the models are instantiated per case line by tables written by the harness from Go's own strconv (FormatFloat text per float element; ParseFloat result for every token of a parsed text that ParseFloat accepts; Quote text per localized string)",
    ],
    "assumptions": [
        "oracle laws — explicit premises of C13_encode_parse / C13_parse_encode_parse (and the _fixed variants), validated by the harness on every generated float element and localized string: (L1) FormatFloat(v,'G',9|17,32|64) is non-empty and uses only [0-9A-Za-z+.-]; (L2) ParseFloat of that text succeeds with the same wire value (F8: same bits; F4: same float32 bits), or with a NaN when v is a NaN; (L3) strconv.Quote(s) = '\"'+s+'\"' whenever the oracle predicate quote_plain s holds; (L4, second half only) ParseFloat(_,32) returns a value a float32 holds. C13_encode_parse_localized_refuted carries as premise what strconv.Quote returns for U+00A0.",
        "float32 conversion (narrow32) is an uninterpreted function: only equality of its results is used, as secs2.Equal does for F4",
        "strconv.ParseInt/ParseUint (base 0 and 10: prefixes, underscores, range errors) and FormatInt/Itoa/%02X are MODELLED in Base/Decimal.v and validated by the Q case lines and by every parsed / encoded text",
        "Unicode facts used by the parser model: unicode.IsSpace is the listed set of code points; U+017F and U+0131 are the only non-ASCII code points whose upper case is an ASCII letter (strings.ToUpper on boolean tokens and on the BOOLEAN keyword); Go's range-over-string decoding as in Base/Utf8.v",
        "the indent option ranges over strings of SML whitespace (space, tab, CR, LF); any other indent text is not parseable SML by construction and is outside the theorem; strict mode is on (the statement is about the strict encoder)",
        "the grammar of the statement has no EmptyItem below the top level (an EmptyItem list child renders as an empty line and is not read back: C01 edge, DESIGN section 5 #6); items are within the secs2 size limits (otherwise they carry a deferred error and are no message body)",
        "positive theorems for the code AS IT IS exclude ASCII items containing '>' (finding C13-ascii-gt, refuted with witness) and localized text that strconv.Quote escapes (finding C13-localized-quote, refuted with witness); the theorems named _fixed are about the repaired writer of fixes/C13-escape-gt.diff, not about the code",
    ],
}


MANIFEST = {
    "text": "Coq theorems: the strict parser model reads back the strict encoder model's text for EVERY message of the stated grammar and EVERY option combination (quote style, S/F quote style, indent, binary style), with the same S/F/W and an equal body (NaN payload and localized header aside), and every accepted text re-encodes and re-parses to an equal message; the ASCII core is proved for all 256 byte values (runs, escapes, 0xHH tokens, empty string). One input class is refuted with a witness and recorded as a known finding (localized text that strconv.Quote escapes); the '>' class was refuted, then repaired in the code (fix a839e6b) and the theorem now holds for all bytes. Tied by a differential on EncodeMessage text and ParseStrict results (accept/reject, messages, error class and offset).",
    "note": 'strconv.FormatFloat / ParseFloat / Quote and the float32 conversion are Section oracles whose laws are explicit premises of the theorems that use them, validated on every generated value; ParseInt/ParseUint are modelled and compared. Positive theorems exclude the refuted localized class.',
    "technique": 'Rocq/Coq proof (structural induction over item trees; rune-level model of parseASCIIStrict) + extracted-model differential both directions incl. error class and offset',
}
