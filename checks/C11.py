import hashlib
import os
import re

REPO = os.environ.get("VERIF_REPO", "/repo")

# normalised text (comments and all whitespace removed) of the two pieces of source the hand-written
# Flocq model transcribes; a change makes the guard obligation fail (the check then widens its search)
EXPECT_NEXT = "funcnextBackoffDelay(curtime.Duration,multiplierfloat64,ceiltime.Duration)time.Duration{next:=time.Duration(float64(cur)*multiplier)ifnext<=0{returnceil}ifnext<cur{next=cur}ifnext>ceil{returnceil}returnnext}"
EXPECT_LOOP = [
    "delay:=c.cfg.Load().reconnectBackoffInitial",
    "sleepFor:=delayifceil:=cfg.timers.T5;sleepFor>ceil{sleepFor=ceil}",
    "if!c.reconnectSleep(sleepFor,stop){return}delay=nextBackoffDelay(delay,cfg.reconnectBackoffMultiplier,cfg.timers.T5)",
]


def _norm(src):
    src = re.sub(r"//[^\n]*", "", src)
    return re.sub(r"\s+", "", src)


def source_guard(run, tier):
    try:
        src = open(os.path.join(REPO, "hsms", "connection_lifecycle.go")).read()
    except OSError as e:
        run.oblige("source-shape guard: hsms/connection_lifecycle.go readable", False, str(e))
        return
    m = re.search(r"func nextBackoffDelay\(.*?\n}\n", src, re.S)
    got = _norm(m.group(0)) if m else ""
    run.oblige("source-shape guard: nextBackoffDelay is the function the Flocq model transcribes (sha %s)" % hashlib.sha256(got.encode()).hexdigest()[:12],
               got == EXPECT_NEXT, "normalised source now reads:\n%s\nexpected:\n%s" % (got, EXPECT_NEXT))
    whole = _norm(src)
    missing = [p for p in EXPECT_LOOP if p not in whole]
    run.oblige("source-shape guard: connectLoop computes sleep=min(delay,T5) then delay=nextBackoffDelay(delay,mult,T5)", not missing,
               "statements no longer found in connectLoop: %s" % missing)


def harness_args(run, tier, n, cases):
    base = cases[:-6] if cases.endswith(".cases") else cases
    return [
        ["-pass", "pure", "-seed", run.seed, "-n", n, "-tier", tier, "-out", base + ".pure.cases"],
        ["-pass", "e2e", "-seed", run.seed, "-n", 1, "-tier", tier, "-out", base + ".e2e.cases"],
    ]


PROP = {
    "id": "C11",
    "harness": "c11",
    "driver": "c11",
    "n_quick": 4000,
    "n_thorough": 400000,
    "harness_timeout": 2400,
    "harness_args": harness_args,
    "trusted": [
        "hook hsms/verif_export_lifecycle.go: VerifNextBackoffDelay calls nextBackoffDelay; multipliers travel as float64 bit patterns",
        "Flocq 4.1.0 (binary64 formalisation: binary_normalize, Bmult, Btrunc and their correctness theorems)",
        "e2e rig harness/cmd/c10/lc (shared with C10): harness-owned pipes via WithDialer/WithListener, scripted raw-frame peer that cuts the stream after an exact number of bytes read or written, dial timestamps taken inside the dialer wrapper",
        "amd64 semantics of float64->int64 conversion for NaN/Inf/out-of-range values (CVTTSD2SQ returns -2^63); the Go spec leaves it implementation-defined, the differential checks it on this machine",
    ],
    "assumptions": [
        "C11_backoff holds for every positive int64 initial delay / T5 and every multiplier since /repo commit 67dfa20 (the function before that commit is kept as Backoff_next_delay_old with its 2^53 refutation)",
        "the sleep sequence theorem is for a configuration that does not change while the loop runs (the loop re-reads T5 and the multiplier every iteration)",
        "liveness ('eventually re-establishes a Selected, fully working session') is OBSERVED in every e2e run (post-recovery round trip within 8 s), not proved: the theorems give the safety half (C11_loop_exists: an open NotConnected connection is always covered by a loop / Start / reaction / live listener)",
        "lifecycle theorems: same model and assumptions as C10 (atomic steps per DESIGN.md A.3, joins complete, hsmsss transport contract, environment over-approximated)",
        "dial-gap lower bounds are exact (a timer cannot fire early), upper bounds carry 2.5 s of slack",
    ],
}


def custom(run, tier):
    source_guard(run, tier)
