import hashlib
import os
import re

REPO = os.environ.get("VERIF_REPO", "/repo")

# normalised text (comments and all whitespace removed) of the two pieces of source the hand-written
# Flocq model transcribes; a change makes the guard obligation fail (the check then widens its search)
EXPECT_NEXT = "funcnextBackoffDelay(curtime.Duration,multiplierfloat64,ceiltime.Duration)time.Duration{next:=time.Duration(float64(cur)*multiplier)ifnext<=0{returnceil}ifnext<cur{next=cur}ifnext>ceil{returnceil}returnnext}"
EXPECT_LOOP = [
    "delay:=c.cfg.Load().reconnectBackoffInitial",
    "sleepFor:=delayifceil:=cfg.timers.T5;sleepFor>ceil{sleepFor=ceil}",
    "if!c.reconnectSleep(sleepFor,stop){return}delay=nextBackoffDelay(delay,cfg.reconnectBackoffMultiplier,cfg.timers.T5)",
]


def _norm(src):
    src = re.sub(r"//[^\n]*", "", src)
    return re.sub(r"\s+", "", src)


def source_guard(run, tier):
    try:
        src = open(os.path.join(REPO, "hsms", "connection_lifecycle.go")).read()
    except OSError as e:
        run.oblige("source-shape guard: hsms/connection_lifecycle.go readable", False, str(e))
        return
    m = re.search(r"func nextBackoffDelay\(.*?\n}\n", src, re.S)
    got = _norm(m.group(0)) if m else ""
    run.oblige("source-shape guard: nextBackoffDelay is the function the Flocq model transcribes (sha %s)" % hashlib.sha256(got.encode()).hexdigest()[:12],
               got == EXPECT_NEXT, "normalised source now reads:\n%s\nexpected:\n%s" % (got, EXPECT_NEXT))
    whole = _norm(src)
    missing = [p for p in EXPECT_LOOP if p not in whole]
    run.oblige("source-shape guard: connectLoop computes sleep=min(delay,T5) then delay=nextBackoffDelay(delay,mult,T5)", not missing,
               "statements no longer found in connectLoop: %s" % missing)


def harness_args(run, tier, n, cases):
    base = cases[:-6] if cases.endswith(".cases") else cases
    return [
        ["-pass", "pure", "-seed", run.seed, "-n", n, "-tier", tier, "-out", base + ".pure.cases"],
        ["-pass", "e2e", "-seed", run.seed, "-n", 1, "-tier", tier, "-out", base + ".e2e.cases"],
    ]


PROP = {
    "id": "C11",
    "harness": "c11",
    "driver": "c11",
    "n_quick": 4000,
    "n_thorough": 400000,
    "harness_timeout": 2400,
    "harness_args": harness_args,
    "trusted": [
        "hook hsms/verif_export_lifecycle.go: VerifNextBackoffDelay calls nextBackoffDelay; multipliers travel as float64 bit patterns",
        "Flocq 4.1.0 (binary64 formalisation: binary_normalize, Bmult, Btrunc and their correctness theorems)",
        "harness/cmd/c10/lc/e4.go: a minimal SEMI E4 line peer (ENQ/EOT/block/checksum/ACK, contention by role) used for the SECS-I cuts",
        "e2e rig harness/cmd/c10/lc (shared with C10): harness-owned pipes via WithDialer/WithListener, scripted raw-frame peer that cuts the stream after an exact number of bytes read or written, dial timestamps taken inside the dialer wrapper",
        "amd64 semantics of float64->int64 conversion for NaN/Inf/out-of-range values (CVTTSD2SQ returns -2^63); the Go spec leaves it implementation-defined, the differential checks it on this machine",
    ],
    "assumptions": [
        "C11_backoff holds for every positive int64 initial delay / T5 and every multiplier since /repo commit 67dfa20 (the function before that commit is kept as Backoff_next_delay_old with its 2^53 refutation)",
        "the sleep sequence theorem is for a configuration that does not change while the loop runs (the loop re-reads T5 and the multiplier every iteration)",
        "PROVED (C11_recovery_possible, Hsms/LifecycleRecovery.v): recoverability, the AG EF form of liveness - from every reachable state with Open called and Close not, a trace of cooperative actions only (library-internal steps + dial/listen succeeds, peer connects, Select answered 0; no API call, no fault) of length <= 22 + queued disconnects + linktest/T7 goroutines to join reaches a live Selected session: no reachable state of the model is wedged. It rests on the model facts that a receive goroutine ends silently only after teardown began and that the event channel is FIFO between a TCP-up echo and disconnects - the e2e cut/stall matrix (HSMS byte offsets, SECS-I E4 positions) is their correspondence",
        "NOT proved: liveness proper - that under a fair Go scheduler and an eventually reachable peer the REAL connection recovers in real time (the sleeps between attempts are finite, bounded by T5: C11_backoff)",
        "liveness ('eventually re-establishes a Selected, fully working session') is OBSERVED in every e2e run (post-recovery round trip within 8 s), not proved: the theorems give the safety half (C11_loop_exists: an open NotConnected connection is always covered by a loop / Start / reaction / live listener)",
        "lifecycle theorems: same model and assumptions as C10 (atomic steps per DESIGN.md A.3, joins complete, hsmsss transport contract, environment over-approximated)",
        "the lifecycle LTS abstracts 'the transport reports the loss of the link on ANY I/O error of a live generation' as one environment action (LcRecvExit true / LcSpuriousDown -> evDisconnect); its correspondence is the e2e cut matrix: HSMS-SS cut/stalled at every byte offset, and SECS-I killed at every position of the E4 line protocol (library-initiated O1..O6, peer-initiated P1..P5; peer closes / library's end closed underneath; active/passive x equipment/host) - each loss must lead to NotConnected, a re-dial / re-accept, Reconnects()+1 and a working round trip",
        "dial-gap lower bounds are exact (a timer cannot fire early), upper bounds carry 2.5 s of slack",
    ],
}


def custom(run, tier):
    source_guard(run, tier)


MANIFEST = {
    "text": "Coq theorems: the backoff arithmetic (Flocq binary64 model of time.Duration(float64(cur)*multiplier) with the repaired clamp, tied bit-exactly to the real nextBackoffDelay through a hook differential and a source-shape guard): for every positive int64 delay and T5 and every multiplier the sleeps start at min(initial, T5), never decrease and never exceed T5 (the pre-fix function is kept as a refuted witness beyond 2^53 ns; fix 67dfa20); lifecycle safety over all runs of the shared Lifecycle LTS: an open, not-shut-down, NotConnected connection is always covered by a connect loop / a Start / a reaction / a live listener (the safety form of 'keeps dialing'), the reconnect counter grows by exactly one per successful re-dial of a counting loop, no dial after Close; RECOVERABILITY (C11_recovery_possible): from every reachable state with Open called and Close not, a cooperative trace (library-internal steps, dials/listens succeeding, a peer connecting, Select answered 0) of length <= 22 + queued disconnects + goroutines to join reaches a live Selected session - no reachable state is wedged; the extracted monitor ok_C11 accepts every run. Tied by e2e: a cut at every byte offset of the connect/select/data/linktest exchanges in both directions and roles, timer-covered stalls (T6/T7/T8 at every inbound offset, linktest, write timeout, select reject), runs of k refused or hanging dials under five backoff configurations with dial gaps bounded below exactly by the model's sleeps, cold start, Open during retry, Close during backoff; every run requires a post-recovery round trip on a fresh peer and an exact Reconnects() count.",
    "note": "PARTIAL on real-time liveness only: recoverability is proved; 'eventually re-establishes a Selected session' under fair scheduling with an eventually reachable peer is observed in every e2e scenario. The backoff theorems depend on Flocq's real-number library axioms only (named in the evidence). Dial-gap upper bounds are checked with slack.",
    "technique": 'Rocq/Coq proof (Flocq binary64 model + shared lifecycle LTS invariant) + bit-exact hook differential with source-shape guard + byte-offset cut/stall e2e judged by an extracted monitor',
}
