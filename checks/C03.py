import os


def harness_args(run, tier, n, cases):
    base = cases[:-len(".cases")]
    wire_n = 1500 if tier == "quick" else 4000
    return [
        ["-seed", run.seed, "-n", n, "-tier", tier, "-pass", "pure", "-out", cases],
        ["-seed", run.seed, "-n", wire_n, "-tier", tier, "-pass", "wire", "-out", base + "_wire.cases"],
        ["-seed", run.seed, "-n", 1, "-tier", tier, "-pass", "big", "-out", base + "_big.cases"],
    ]


PROP = {
    "id": "C03",
    "tie2": ["Tie2Hsms"],
    "harness": "c03",
    "driver": "c03",
    "n_quick": 30000,
    "n_thorough": 250000,
    "harness_args": harness_args,
    "harness_timeout": 2400,
    "trusted": [
        "hook hsms/verif_export_frames.go: exports buildFrameBuffers (the net.Buffers writeFrame hands to the transport), decodeOwnedFrame and maxHSMSMsgLen",
        "harness-owned conn (harness/cmd/c03/xgen.go parkConn, handed over through the public WithDialer option) that can hold the send path's SetWriteDeadline call: parks a synchronous sender inside its generation's write path; net.Pipe writes block until the peer reads, which makes the cross-generation overlap deterministic",
        "scripted raw peer over net.Pipe (harness/fr/peer.go) reading what a real hsmsss connection writes (public WithDialer option, no hook)",
    ],
    "assumptions": [
        "the SECS-II body is abstract in the model: its encoded bytes, taken from Item.ToBytes() of the same item; 'equal body' = equal bytes; an item with a deferred error is the constructor input ItemErr (body encoding/decoding itself is C01/C02)",
        "both wire.Body implementations return exactly one buffer from Buffers(); the model's frame_buffers has the body as one chunk (checked against the real buildFrameBuffers on every data case)",
        "a decoded control message carries replyExpected=false: the round trip is stated up to that local flag (forget_reply), which is not on the wire",
        "C03_roundtrip carries the hypothesis 10 + body length <= frame cap; the excluded class is the recorded size-edge finding (C03_roundtrip_unbounded_refuted)",
        "re-stamped siblings share one body and one decodeState: every sibling of a fresh message (constructed / decoded provenance) is framed through the buildFrameBuffers hook and written through a real connection in forward, reverse and random orders, each frame compared with that sibling's own ToBytes()",
        "Derive() chains draw invalid arguments at every builder step (stream 128..255, errored item, W-bit on an even function) and every kind of item override (WithItem(nil), the empty item, the empty list, another item; last override wins, nil/empty = header-only frame, never overridden = the source's body) from constructed and decoded bases (incl. decoded headers no constructor produces), with a corpus violating each validation clause at each chain position; the oracle judges Build by the final requested fields (documented error order) and a successful Build by the E37 layout of exactly those fields",
        "cross-generation overlap history (sender of generation N parked in its write path, N dropped by the peer, sender of N+1 inside its transport Write with its prefix partly read, N's sender released and awaited, rest read): what the peer reads on N+1 must be that message's ToBytes(); all waits are on events (parked / dialled / Selected / sender returned / bytes read), none on quiet periods; plus an unparked race of 4 senders over 3 generations (every complete frame read must be one of the messages sent)",
        "NewDataMessageFromHeader is judged like Derive/Build: corpus over PType x SType x W-bit x function parity x (item, nil, errored items incl. an errored list child) plus random headers; refusal class in the documented order (PType, SType, item error, W-bit on an even function); a success carries the header unchanged and the item's encoding, and its frame decodes with a decodable body",
        "on-the-wire equality is observed for the sends the harness performs (sync W / sync no-W / async / reply / forward sync+async / SendSECS2Message, Select.req, Linktest.req, Separate.req); writeFrame's choice of buffers is tied by the hook on every pure case",
    ],
}


MANIFEST = {
    "text": 'Coq theorems over all inputs: E37 layout of data messages and of all nine control factories (every field at its offset; byte 2 split for all 256 values), 4-byte big-endian length prefix = 10 + body, wire buffers (what the connection hands to the socket) = ToBytes, round trip both ways at the frame cap regenerated from the source, validation iff with the error class per cause in code order, re-stamp/derive chains change only the stamped header bytes. The unbounded round trip is REFUTED by a witness (size edge, known finding C03-size-edge) and the positive theorem carries exactly the excluded class (10 + body <= cap). Tied by translator bridges (IsValidSType, MsgType constants, cap), an extracted-model differential over the public API and the buildFrameBuffers hook, and frames captured by a raw peer from a real hsmsss connection.',
    "note": 'Body modelled as its encoded bytes (C01 owns the item codec); round trip is up to the local reply-expected flag of control messages (not on the wire); on-the-wire half observed for the sends performed; 16 MB cases in the thorough tier.',
    "technique": 'Rocq/Coq proof on an executable model + translator bridge + extracted-model differential + raw-peer net.Pipe capture',
}
