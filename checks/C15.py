PROP = {
    "id": "C15",
    "harness": "c15",
    "driver": "c15",
    "n_quick": 6000,
    "n_thorough": 300000,
    "trusted": [
        "public API only (no hook): items are built with the secs2 constructors and with secs2.Decode, rendered with Item.ToSML and sml.Encode, read back with sml.Parse",
        "the model tree of an item is read back from the constructed item through its public accessors (ToInt/ToFloat/...); float and %q texts on the case line are Go's own strconv output",
    ],
    "assumptions": [
        "C15_identical holds for EVERY function in place of strconv.FormatFloat and strconv.Quote (no law needed: both renderers call the same function on the same values); fmt's %q verb and strconv.Quote are taken to be the same function, which the correspondence confirms on every generated localized string",
        "C15_readback (floats only) carries two explicit premises about strconv, validated by the C13 harness on every generated float: FormatFloat 'G' text is non-empty and uses only [0-9A-Za-z+.-]; ParseFloat of it returns the same wire value (NaN for NaN). Integers, booleans and binary bytes need no premise.",
        "integer text: strconv.FormatInt/FormatUint/Itoa and ParseInt/ParseUint (base 0) are modelled in Base/Decimal.v and validated against strconv by the N case lines and by the text comparison of every case",
        "an item's storage is what the constructors and the decoder establish (size, scalar when size = 1, values otherwise); items built by struct literal from outside the package are outside the model",
        "the parser model used by C15_readback is Sml/StrictParser.v; value items are parsed by the same code in strict and non-strict mode (tie: the C13 correspondence on ParseStrict, and this harness reads every rendered leaf back with sml.Parse)",
    ],
}


MANIFEST = {
    "text": "Coq theorem C15_identical: for every item tree (every type, empty/one/many elements, nesting, empty-item children) Item.ToSML's model equals the default sml encoder's model byte for byte — no assumption about strconv needed; C15_readback: every integer, boolean, binary (and, under two strconv laws, float) element rendered by either parses back to the same value (decimal and 0xHH print/parse round trips proved for all integers in range). Tied by a differential: ToSML() and sml.Encode() on constructor-built and decoder-built trees must both equal the model text.",
    "note": 'Float readback carries the FormatFloat/ParseFloat laws as premises (validated by the harness on every generated value).',
    "technique": 'Rocq/Coq proof (two independent renderer models + induction with generalised indentation) + extracted-model differential',
}
