PROP = {
    "id": "C15",
    "harness": "c15",
    "driver": "c15",
    "n_quick": 6000,
    "n_thorough": 300000,
    "trusted": [
        "public API only (no hook): items are built with the secs2 constructors and with secs2.Decode, rendered with Item.ToSML and sml.Encode, read back with sml.Parse",
        "the model tree of an item is read back from the constructed item through its public accessors (ToInt/ToFloat/...); float and %q texts on the case line are Go's own strconv output",
    ],
    "assumptions": [
        "oracle ffmt = strconv.FormatFloat(v,'G',9|17,32|64) and oracle quote = strconv.Quote (code outside go-secs): C15_identical holds for EVERY function in their place (no law needed); fmt's %q verb and strconv.Quote are taken to be the same function, which the correspondence confirms on every generated localized string",
        "integer text: strconv.FormatInt/FormatUint/Itoa and ParseInt/ParseUint (base 0) are modelled in Base/Decimal.v and validated against strconv by the N case lines and by the text comparison of every case",
        "an item's storage is what the constructors and the decoder establish (size, scalar when size = 1, values otherwise); items built by struct literal from outside the package are outside the model",
    ],
}
