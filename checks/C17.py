import os

BUILD = os.path.join(os.path.dirname(os.path.dirname(os.path.abspath(__file__))), "build")


def harness_args(run, tier, n, cases):
    e2e_n = max(20, n // 50) if tier == "quick" else max(200, n // 100)
    return [
        ["-mode", "unit", "-seed", run.seed, "-n", n, "-tier", tier, "-out", cases],
        ["-mode", "e2e", "-seed", run.seed, "-n", e2e_n, "-tier", tier, "-out", os.path.join(BUILD, "c17_e2e.cases")],
    ]


PROP = {
    "id": "C17",
    "harness": "c17",
    "driver": "c17",
    "n_quick": 5000,
    "n_thorough": 60000,
    "harness_args": harness_args,
    "harness_timeout": 1500,
    "trusted": [
        "hook secs1/verif_export_blocks.go: thin wrappers calling buildHeader, splitBody, transport.splitFrame, block.appendTo, parseBlock, assembleFrame and a production assembler (newAssembler) with injected clock and live T4",
        "the harness's own minimal SEMI E4 peer and reference receiver (independent of /repo) used by the implementation-level oracles",
    ],
    "assumptions": [
        "bytes are 0..255 (byte_ok) and headers have 10 bytes: what Go's types guarantee",
        "the assembler model reads the clock once per accept call; the code reads it for the T4 test and again for the T4 base within the same call",
        "bit operations of the Go code are modelled arithmetically (mod/div); the tie is the hook differential, not the translator (no secs1 function fits its subset); constants are translated and bridged",
        "deliverFrame (rt.DeliverOwnedFrame) is outside the model: a delivery is the frame handed to it",
    ],
}
