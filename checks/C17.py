import os

BUILD = os.path.join(os.path.dirname(os.path.dirname(os.path.abspath(__file__))), "build")


def harness_args(run, tier, n, cases):
    e2e_n = max(20, n // 50) if tier == "quick" else max(200, n // 100)
    return [
        ["-mode", "unit", "-seed", run.seed, "-n", n, "-tier", tier, "-out", cases],
        ["-mode", "e2e", "-seed", run.seed, "-n", e2e_n, "-tier", tier, "-out", os.path.join(BUILD, "c17_e2e.cases")],
    ]


PROP = {
    "id": "C17",
    "tie2": ["Tie2Secs1", "Tie2Secs1Asm"],
    "harness": "c17",
    "driver": "c17",
    "n_quick": 5000,
    "n_thorough": 60000,
    "harness_args": harness_args,
    "harness_timeout": 1500,
    "trusted": [
        "hook secs1/verif_export_blocks.go: thin wrappers calling buildHeader, splitBody, transport.splitFrame, block.appendTo, parseBlock, assembleFrame and a production assembler (newAssembler) with injected clock and live T4",
        "the harness's own minimal SEMI E4 peer and reference receiver (independent of /repo) used by the implementation-level oracles",
    ],
    "assumptions": [
        "bytes are 0..255 (byte_ok) and headers have 10 bytes: what Go's types guarantee",
        "the assembler model reads the clock once per accept call; the code reads it for the T4 test and again for the T4 base within the same call",
        "bit operations of the Go code are modelled arithmetically (mod/div); the tie is the hook differential, not the translator (no secs1 function fits its subset); constants are translated and bridged",
        "one assembler state per connection generation: after a line drop + reconnect the model restarts from astate0 (no partial message, no duplicate record survives); the e2e pass checks this with sequences that span a TCP drop, in all four role/mode combinations",
        "character-level receive model (Secs1/RecvStream.v): a Ch is a character arriving less than T1 after the previous one, a Silence is the line staying quiet until the timer the receiver is blocked on expires (T2 for the length character, T1 inside a block and while draining); the unit pass drives the real readByte/receiveBlock/drainUntilSilence with the harness's copy of lineEngine's idle loop over a scripted conn in virtual time",
        "the error classification of lineEngine's idle-line branch (which receiveBlock errors keep the line up) is inline code behind a wall-clock lineIO built inside the engine: it is exercised by the e2e pass only (every receiveBlock error class on the idle line of a real connection, all four role/mode combinations, each followed by a valid message on the same line session); the virtual-time unit pass drives readByte/receiveBlock/drain with the harness's copy of the idle loop",
        "deliverFrame (rt.DeliverOwnedFrame) is outside the model: a delivery is the frame handed to it",
    ],
}


MANIFEST = {
    "text": "Coq theorems over all bodies (0 .. 244*32767 bytes), headers and both roles: the split yields 1..32767 blocks of <= 244 body bytes numbered 1..N with the E-bit on exactly the last, each carrying the configured device id, the R-bit of the role, stream/function/W/system bytes and checksum = sum(header+body) mod 2^16; bodies concatenate to the message body (empty body: one header-only block); parse(append b) = b; every single replaced character of header, body or checksum is rejected (the one class the 16-bit sum cannot exclude — a shortened length byte — is exhibited explicitly); and over ALL inbound block sequences (with per-event clock and live T4): the assembler model's deliveries equal an independent declarative reading of SEMI E4 section 9.4 (complete, in order, correctly addressed, within T4, non-duplicate), soundness and completeness, never a link-fatal effect, wrong-device / wrong-direction / out-of-sequence / corrupt / duplicate blocks never delivered. Constants regenerated from the source and bridged; split/append/parse/assembleFrame and the production assembler (injected clock/T4) tied by hook differential; e2e against an independent E4 peer in all four role/mode combinations (line bytes and deliveries equal the model; State() stays Selected).",
    "note": "Functions are tied by differential testing, not translation (no secs1 function fits the translator's subset); the model reads the clock once per accept call.",
    "technique": 'Rocq/Coq proof (structural induction over bodies; fold refinement to a declarative E4 reading) + translator bridge for constants + hook differential with injected clock + e2e against an independent E4 peer',
}
