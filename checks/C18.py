import os

BUILD = os.path.join(os.path.dirname(os.path.dirname(os.path.abspath(__file__))), "build")


def harness_args(run, tier, n, cases):
    e2e_n = 40 if tier == "quick" else 1000
    if n > 100000:      # widened search after a broken obligation
        e2e_n *= 3
    return [
        ["-mode", "unit", "-seed", run.seed, "-n", n, "-tier", tier, "-out", cases],
        ["-mode", "e2e", "-seed", run.seed, "-n", e2e_n, "-tier", tier, "-out", os.path.join(BUILD, "c18_e2e.cases")],
        # targeted probe for the known finding C18-ack-into-closing-generation (no case file: oracle only)
        ["-mode", "race", "-seed", run.seed, "-n", 30 if tier == "quick" else 200, "-tier", tier],
        # configuration -> engine wiring through the public API (RetryLimit 0/1/3/5, T1, T2), both roles
        ["-mode", "config", "-seed", run.seed, "-n", 1, "-tier", tier, "-out", os.path.join(BUILD, "c18_cfg.cases")],
    ]


PROP = {
    "id": "C18",
    "tie2": ["Tie2Secs1", "Tie2Secs1Asm"],
    "harness": "c18",
    "driver": "c18",
    "n_quick": 3000,
    "n_thorough": 20000,
    "harness_args": harness_args,
    "harness_timeout": 2400,
    "trusted": [
        "hook secs1/verif_export_blocks.go: VerifNewLine builds the production lineIO (newLineIO) over a caller-supplied conn and injects the clock; SendBlock/ReceiveBlock/PollByte/PutByte call sendBlock/receiveBlock/readByte/writeByte",
        "the harness's simulated conn (virtual time, scripted line faults), its own implementation of the model's peer, and the fault-injecting middlebox of the e2e run",
    ],
    "manifest_text": "Safety AND progress of the two-engine line LTS: exactly-once/in-order, retry bound, contention, no deadlock over all runs (C18_exactly_once ...), and C18_progress: from every reachable state (through any finite fault history) every run of non-fault steps, under any scheduling of engines and timers, has at most mu(s) steps and ends settled - link down (definite failure after RetryLimit+1 attempts) or every queued message of both directions delivered exactly once with its send returned nil. Measure: mu s = (blocks not yet ACK'd) * bigK + sum over both ends of [phase term from the remaining retry budget psi r = (RetryLimit+1-r)*cst + small per-phase offsets + weight of each item in flight (ENQ 4, EOT/ACK/NAK 1, block blkw)], cst/blkw = 8*RetryLimit_slave+20 / +14 for the master, 8 / 2 for the slave. Partial only in: the synchronous-line assumption (no stale characters, T1 < T2), real-time bounds (which T2 fires first: C18_failure_by_timer_order), link re-establishment.",
    "assumptions": [
        "synchronous line: everything an end has written passes the line (delivered, dropped or garbled) before any timer of either end expires; a timeout is enabled only when nothing is in flight (no stale characters; T1, T2 far above the transit time)",
        "T1 < T2: after a bad or unexpected arrival in the receive procedure the NAK (sent after at most T1 of silence) precedes the peer's T2 expiry",
        "fault model = what E4 detects: handshake characters are delivered, dropped or replaced by a NON-control character; a block transmission arrives intact, not at all, or in a form the receive procedure rejects (one replaced character of header/body/checksum, truncation, a longer or invalid length). A character replaced BY a control character (C18_nak_to_ack_refuted) and a shortened length whose prefix happens to sum up (C17_short_length_undetected) are excluded",
        "Down is terminal: an end whose send failed takes no further line step - matches the code since fix 2852a07 (lineEngine returns on ErrSendFailed); the old behaviour (finding C18-ack-into-closing-generation, fixed) is kept as C18_served_after_failure_refuted and watched by the race probe",
        "retries exhausted => terminal state Down; link re-establishment and the idle loop / runSend of transport.lineEngine are covered by the e2e run only",
        "C18_receiver_is_C17_assembler carries as premises: the token-to-header encoding yields well-formed headers addressed to the receiver and is injective (distinct system bytes per message); block index + 1 <= 32767",
        "blocks are abstract (token, index, last); the receiver's assembler is the abstract image of the C17 assembler on in-sequence blocks addressed to us, without T4 (C17 covers addressing, T4 and byte-level reassembly); consecutive messages of one direction carry distinct tokens (distinct system bytes)",
    ],
}


MANIFEST = {
    "text": "Safety and progress. Coq theorems over ALL runs, interleavings, fault patterns the E4 checksum/handshake detects, retry limits, queue contents and simultaneous sends of a two-engine (master/slave) LTS on a synchronous lossy line: the delivered sequence at each end is a duplicate-free, order-preserving image of the sequence successfully sent by the other (exactly-once, intact, in order); a block is attempted at most retry+1 times; the master never yields, the slave yields and its postponed send follows; no reachable state is a deadlock (56-state control skeleton closed by vm_compute + data invariants); byte-level fault classes (intact / corrupt / truncated / lengthened) via the C17 block theorems; the model's receiver is proved to be the abstraction of the C17 assembler. Tied by the REAL lineIO.sendBlock/receiveBlock over a simulated conn in virtual time replayed label by label in the extracted LTS (equal character traces), and by two real endpoints through a fault-injecting middlebox judged by the extracted monitor. PROGRESS (C18_progress, explicit decreasing measure mu): from any state reached through any finite fault history, every fault-free continuation (any scheduling of the two engines and their timers) has at most mu(s) steps, is never stuck, and ends settled - every queued message of both directions delivered exactly once, in order, with its send returned nil, or the link down. One defect found (blocks acknowledged after the engine's own send had failed were lost) and repaired in the code (fix 2852a07); the regenerated assembler and splitBody are bridged to the model (Tie2Secs1Asm, Tie2Secs1).",
    "note": "PARTIAL only in this: which end's T2 fires first is left open, so 'a send fails only after its budget was exhausted by real faults' and link re-establishment are real-time statements observed e2e; modelling assumptions: no stale characters (synchronous line: a timeout is enabled only when nothing is in flight), T1 < T2, only E4-detectable faults (a NAK replaced by ACK is outside E4's detection, exhibited as a witness).",
    "technique": 'Rocq/Coq proof (LTS invariants, finite control skeleton closed by vm_compute) + correspondence replay of the real line engine in virtual time + e2e middlebox judged by the extracted monitor',
}
