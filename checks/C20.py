def _args(run, tier, n, cases):
    """two harness passes: HSMS-SS and SECS-I under the same engine"""
    return [["-proto", "hsmsss", "-seed", run.seed, "-n", n, "-tier", tier, "-out", cases],
            ["-proto", "secs1", "-seed", run.seed, "-n", max(1, n // 3), "-tier", tier, "-out", cases.replace(".cases", "_s1.cases")]]


PROP = {
    "harness_args": _args,
    "id": "C20",
    "harness": "c20",
    "driver": "c20",
    "tie2": ["Tie2Secs1Asm"],
    "n_quick": 40,
    "n_thorough": 1500,
    "harness_timeout": 1500,
    "trusted": [
        "hooks hsms/verif_export_generations.go + hsmsss/verif_export_generations.go: make the connection's existing testHookAfterWriteLock seam settable (parks a sender inside writeFrame for the B2 and queued-async outcomes); no production code path is changed",
        "harness/genx: scripted per-generation peers over net.Pipe keeping independent frame counts, recorder, canonical per-call ordering of the log",
    ],
    "assumptions": [
        "the counters are part of the LTS state (Hsms/Generations.v) and are updated at exactly the inc/dec call sites read from hsms/connection_metrics.go, connection_send.go, connection_runtime.go, connection_lifecycle.go; atomicity as listed in Generations.v",
        "per-outcome table = the table in Hsms/Metrics.v (read from the code and its comments): a synchronous data write error counts as an error also for a W-clear send (the doc comment of DataMsgErrCount is ambiguous on W-clear sends; code, in-code comments and connection_forward_test.go agree on counting it)",
        "session-id validation and decode-error handlers are off (defaults); decodeErr/bodyDecodeErr are not modelled; autoS9F9 (on in the SECS-I equipment role used by pass 1) is an ordinary asynchronous data send entered by the environment after a T3 (logged as an anonymous wire event)",
        "connection options the counters depend on are varied on the HSMS-SS pass (scenario options-v*-a*-h*: session-ID validation x autoS9F9 x handler present/absent/with decode-error handler, trace on/off; also drawn at random in the random histories); a foreign-session data frame is a frame the peer sent while Selected: counted as received, then (validation on) dropped and answered S9F1, which the peer reads back and which counts as a data send; the list of options and their coverage is in the evidence notes",
        "both transports: pass 0 HSMS-SS, pass 1 SECS-I over TCP (equipment role; no Reject/Deselect outcomes there; the peer counts a block as received only when its ACK got through)",
        "e2e: dataRecv is compared with the peers' count of completely written data frames only when every such frame shows evidence of dispatch (a reply result or a handler call); otherwise only the bounds evidence <= recv <= written are asserted and the history is not passed to the monitor (histogram bucket recv-unsettled)",
        "e2e: 'quiescent' = every call returned, the async sender flushed, the state reads Selected (or Close returned) and the reconnecting gauge was polled to zero within 5 s (the loop's deferred decrement runs just after the successful dial)",
    ],
}


MANIFEST = {
    "text": "Coq theorems over ALL action sequences: the counters are part of the LTS state, updated at the code's inc/dec sites; ok_C20 accepts every run; inflight = number of W-bit calls in the waiting phase (>= 0, 0 at quiescence); dataSent = data frames appended to sockets; dataRecv counts only well-formed data frames dispatched while Selected; the per-outcome delta table (reply, peer reject: none, T3, disconnect, cancel, B1/B2 refusal, write error); the reconnecting gauge = number of running loops (>= 0, > 0 while a loop runs, 0 when quiet). Tied by e2e histories on HSMS-SS and SECS-I exercising every outcome, drops and reconnects, with the peer and the harness keeping independent frame counts; getters must equal them at quiescent points and the extracted monitor judges the logs. One SECS-I defect found (a block acknowledged at the instant of Close left uncounted) and repaired in the code (fix 56c729b).",
    "note": 'dataRecv is compared only when every peer-written frame shows dispatch evidence. Two documentation ambiguities noted in the evidence (write errors on W-clear sends are counted; two reconnect loops can overlap for a moment). Passive roles and multi-block SECS-I peers not yet exercised.',
    "technique": 'Rocq/Coq proof (counters as LTS state, inductive invariant) + extracted monitor over e2e logs + independent peer counts on both transports',
}
