def _args(run, tier, n, cases):
    """two harness passes: HSMS-SS and SECS-I under the same engine"""
    return [["-proto", "hsmsss", "-seed", run.seed, "-n", n, "-tier", tier, "-out", cases],
            ["-proto", "secs1", "-seed", run.seed, "-n", max(1, n // 3), "-tier", tier, "-out", cases.replace(".cases", "_s1.cases")]]


PROP = {
    "harness_args": _args,
    "id": "C09",
    "harness": "c09",
    "driver": "c09",
    "n_quick": 60,
    "n_thorough": 3000,
    "harness_timeout": 1500,
    "trusted": [
        "hooks hsms/verif_export_generations.go + hsmsss/verif_export_generations.go: make the connection's two existing test seams settable (testHookAfterWriteLock is what parks a sender inside writeFrame after the socket capture); no production code path is changed",
        "harness/genx: scripted per-generation peers over net.Pipe, recorder, canonical per-call ordering of the log (A before W/C/E; sync: W before C; async: C(enqueue) before W/E)",
    ],
    "assumptions": [
        "atomicity: one LTS action per atomic step listed in Hsms/Generations.v (cur.Load, one state read for B1/B2, registry store/delete, socket capture under writeMu, the write, the 4-way select, closeSocket+cancel as one Teardown step, readFrame, the routing step)",
        "supersets for safety: writeMu not modelled as a lock; async queue unbounded/unordered; sender goroutine may pop after cancellation; writes, caller ctx and timers may fire at any time",
        "timing: the bounded join of a torn-down generation returns (normally or by close-timeout) only when that generation's recv loop holds no un-routed frame (the recv loop blocks only in application handlers, which run after the routing step; a read on the closed socket fails) - Join g requires g_rbuf g = None",
        "system bytes of registered calls are unique (key = call id); uniqueness modulo 2^32 is C06's lemma",
        "'promptly' is a runtime bound: the harness asserts release within closeTimeout + 3 s slack; the theorem covers which completions are possible and that ConnClosed is enabled",
        "e2e acceptance generation = number of successful dials - 1 sampled before the call and again inside writeFrame on the caller's goroutine; calls for which the two differ are judged leniently (counted in the histogram as ambiguous-acceptance)",
        "both transports: pass 0 runs HSMS-SS (active, all causes), pass 1 runs SECS-I over TCP (active, equipment role, causes: peer close, Close, retry exhaustion) against an independent single-block E4 peer; the passive HSMS-SS role is exercised by the accept-racing-teardown scenarios (harness-owned listener, public WithListener: a connection handed out just before / from inside / after the listener Close); passive SECS-I is not exercised",
        "M lines (deterministic scenarios) are compared for equality with the model run modulo the position of T events (T g is where the peer of g noticed the end, not the instant of the library's teardown)",
    ],
}


MANIFEST = {
    "text": "Coq theorems over ALL action sequences of the Generations LTS (per-generation sockets, send queues and reply registries; the atomic steps of epoch / send / runtime / lifecycle): the observable log is accepted by ok_C09 — a frame appears only on the socket of the generation that accepted the call, only before that generation's teardown and at most once; a reply or reject completes a call only if it was received on the call's own generation; after teardown a waiter can only complete with ConnClosed / T3 / ctx error / a reply from its own generation; frames queued on a cancelled generation never reach any wire. Tied by e2e runs on real HSMS-SS and SECS-I connections over successive net.Pipe generations with generation-tagged payloads (generation ends injected while queued, parked at the write lock, mid-write and awaiting a reply; by peer close, Close+reopen, linktest, T7, T8, write timeout), logs judged by the extracted monitor and deterministic scenarios compared for equality with the model.",
    "note": "'Promptly' is a run-time bound (closeTimeout + 3 s), observed not proved. Modelling assumption: the bounded join of a torn-down generation returns only when its recv loop holds no un-routed frame. Calls whose accepted generation is ambiguous (sampled before the call and inside writeFrame differ) are judged leniently and counted in the evidence. Passive roles not yet exercised.",
    "technique": 'Rocq/Coq proof (inductive invariant with the monitor state as a function of the model state) + extracted monitor over e2e logs on both transports + deterministic scenario equality',
}
