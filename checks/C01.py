PROP = {
    "id": "C01",
    "tie2": ["Tie2Secs2", "Tie2Secs2Leaves", "Tie2Secs2Decode"],
    "harness": "c01",
    "driver": "c01",
    "n_quick": 3000,
    "n_thorough": 30000,
    "harness_timeout": 3000,
    "trusted": [
        "harness/cmd/c01/s2t: logical-tree generator, construction through the public secs2 constructors (argument shapes drawn from the PRNG), canonical rendering of items through public accessors, independent reference encoder used by the implementation-level oracle; AppendTo is run over destinations whose spare capacity is pre-filled with non-zero bytes (prefix lengths 0/1/7, exact and generous capacity) and over a buffer recycled across cases (buf = item.AppendTo(buf[:0]))",
        "ocaml/c01_driver.ml: case-line parser, expansion of '#seed,count' leaves (same LCG as the harness), MD5 digests for long fields",
    ],
    "assumptions": [
        "floats are modelled as IEEE-754 bit patterns as they are on the wire (32-bit patterns for F4). The binary64->binary32 rounding Go's float32(v) conversion performs when an F4 item built from an inexact float64 is encoded is NOT modelled in Coq: for such arguments (shape F/inexact64) the harness takes the logical element to be Float32bits(float32(v)) computed by the Go compiler's own conversion. Quieting of signalling NaNs by float32<->float64 conversions is likewise outside the model (the generator uses quiet F4 NaNs; both sides canonicalise F4 NaN patterns). Magnitudes beyond MaxFloat32 (clamping) are C16's subject",
        "well-formedness (wf) excludes an EmptyItem below the root: for that class the statement is refuted (C01_empty_child_refuted, known finding C01-empty-child)",
        "trees with decoded children: an 'R:<hex>' child is the item secs2.Decode/DecodeOwned returns for those bytes (canonical or with non-canonical length fields); the model (Secs2/Raw.v) re-emits the retained bytes, as the code does",
        "constructor argument conversion/clamping (which Go value denotes which element) is C16's subject; here every argument denotes its element exactly",
    ],
}


MANIFEST = {
    "text": 'Coq theorems over all well-formed item trees (every type, counts to 2^24-1, nesting to 64): encode x is the canonical SEMI E5 encoding (grammar as an inductive relation; minimal length-byte count proved for all n), its length is EncodedLen, decode(encode x ++ rest) = (x, rest), encoding is a function, AppendTo(dst) = dst ++ encode x (prefix untouched); extended to trees containing decoded items that re-emit their retained bytes. Format codes, size/depth caps and headerLen are regenerated from the source and bridged each run; each generated tree is built through the PUBLIC constructors with varied argument shapes and ToBytes/EncodedLen/AppendTo/Decode/DecodeOwned/Equal/accessors are compared with the extracted model.',
    "note": "wf excludes an EmptyItem below the root: refuted there by a witness (C01_empty_child_refuted; known finding C01-empty-child: L(NewEmptyItem()) is error-free but encodes to 01 01 which Decode rejects). F4 binary64->binary32 rounding and NaN quieting are Go conversions outside the model (taken from Go in the harness); argument clamping is C16's.",
    "technique": 'Rocq/Coq proof (rose-tree induction, E5 grammar relation) + translator bridge + extracted-model differential through the public constructors',
}
