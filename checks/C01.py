PROP = {
    "id": "C01",
    "harness": "c01",
    "driver": "c01",
    "n_quick": 3000,
    "n_thorough": 60000,
    "harness_timeout": 3000,
    "trusted": [
        "harness/cmd/c01/s2t: logical-tree generator, construction through the public secs2 constructors (argument shapes drawn from the PRNG), canonical rendering of items through public accessors, independent reference encoder used by the implementation-level oracle",
        "ocaml/c01_driver.ml: case-line parser, expansion of '#seed,count' leaves (same LCG as the harness), MD5 digests for long fields",
    ],
    "assumptions": [
        "floats are modelled as IEEE-754 bit patterns as they are on the wire (32-bit patterns for F4); the binary64->binary32 narrowing NewFloatItem applies to inexact float64 arguments and the quieting of signalling NaNs by Go's float32<->float64 conversions are outside the model (the generator passes exactly representable values and quiet F4 NaNs; both sides canonicalise F4 NaNs)",
        "well-formedness (wf) excludes an EmptyItem below the root: for that class the statement is refuted (C01_empty_child_refuted, known finding C01-empty-child)",
        "constructor argument conversion/clamping (which Go value denotes which element) is C16's subject; here every argument denotes its element exactly",
    ],
}
