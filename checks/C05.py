PROP = {
    "id": "C05",
    "tie2": ["Tie2Supervisor"],
    "harness": "c05",
    "driver": "c05",
    "n_quick": 3000,
    "n_thorough": 200000,
    "trusted": [
        "hook hsms/verif_export_supervisor.go: goroutine-free driver of the real supervisor; commits inside step()'s load/store window run through the code's own testHookAfterStateLoad seam",
    ],
    "assumptions": [
        "atomicity: a commit's CAS and its enqueue are one action; step() is split only at its state load (the seam the code itself exposes); one supervisor goroutine, one notifier goroutine",
        "the events channel is modelled unbounded (a superset of the capped channel: sound for safety); the harness keeps at most 12 events pending",
        "after-Close behaviour of the whole connection (Open/Close/reconnect histories on both transports) is observed by the e2e pass, not proved: the theorem covers the supervisor, whose close latch now fences the commits",
    ],
}


# ---------------------------------------------------------------------------------------------
# end-to-end (connection-level) pass: real hsmsss / secs1 connections over net.Pipe under random
# Open/Close/peer histories; a Go-side monitor checks the recorded log (harness/cmd/c05e2e).

E2E_N = {"quick": 644, "thorough": 12000}


def custom(run, tier):
    import os
    import sys
    sys.path.insert(0, os.path.join(os.path.dirname(os.path.dirname(os.path.abspath(__file__))), "lib"))
    import vlib
    with vlib.Lock():
        ok, log = vlib.build_harness("c05e2e")
    run.oblige("e2e harness (c05e2e) builds against current /repo", ok, log)
    if not ok:
        return
    n = E2E_N["thorough" if tier == "thorough" else "quick"]
    if run.broken:
        n *= 5  # a broken obligation widens the search for a failing input
    cases = os.path.join(vlib.BUILD, "c05e2e.cases")
    rc, summary, out = vlib.run_harness("c05e2e", ["-seed", run.seed, "-n", n, "-tier", tier, "-out", cases], timeout=2400)
    if rc != 0 or summary is None:
        run.oblige("e2e harness run completes", False, out[-3000:])
        return
    run.absorb(summary)
    hist = summary.get("histogram") or {}
    total = summary.get("evaluations", 0)
    anomalies = hist.get("rig-anomaly", 0)
    # a scenario the rig could not drive as planned gives no verdict for the affected step; a run
    # where that is common has not checked what it claims to
    run.oblige("e2e: rig anomalies in at most 5%% of the scenarios (%d of %d)" % (anomalies, total),
               total > 0 and anomalies * 20 <= total, "\n".join(summary.get("notes") or []))
    # the schedule of the repaired Close-vs-reconnect defect must have been exercised
    late = hist.get("blockdial:late-live-conn-returned-during-close", 0)
    run.oblige("e2e: blocked dialer returned a live conn during Close in %d runs (at least 100 of >= 300 blockdial runs)" % late,
               hist.get("class:blockdial", 0) >= 300 and late >= 100, str(hist))
    run.oblige("e2e: both T7 outcomes seen (selected before expiry %d, expired first %d)" % (hist.get("t7:selected", 0), hist.get("t7:expired", 0)),
               hist.get("t7:selected", 0) > 0 and hist.get("t7:expired", 0) > 0, str(hist))
    run.oblige("e2e: the coalesce warning was produced under a stalled handler (%d runs)" % hist.get("coal:warning-logged", 0),
               hist.get("coal:warning-logged", 0) > 0, str(hist))
    run.oblige("e2e: abandoned-straggler history reached its release point with both dropping causes (linktest T6 %d, peer close %d, released %d)"
               % (hist.get("straggler:linktestT6", 0), hist.get("straggler:peerClose", 0), hist.get("straggler:released-after-gen2-selected", 0)),
               hist.get("straggler:linktestT6", 0) > 0 and hist.get("straggler:peerClose", 0) > 0
               and hist.get("straggler:released-after-gen2-selected", 0) * 2 >= hist.get("class:straggler", 0) > 0, str(hist))
    pw = {k: v for k, v in hist.items() if k.startswith("parkwrite:") and "active=" in k}
    run.oblige("e2e: parked-write history (late write failure of generation N after N+1 is Selected) reached its release point in %d of %d runs; variants %s"
               % (hist.get("parkwrite:released-after-gen2-selected", 0), hist.get("class:parkwrite", 0), sorted(pw)),
               hist.get("parkwrite:released-after-gen2-selected", 0) * 2 >= hist.get("class:parkwrite", 0) > 0
               and any("peerClose" in k for k in pw) and any("closeOpen" in k for k in pw)
               and any("active=True" in k or "active=true" in k for k in pw) and any("active=False" in k or "active=false" in k for k in pw), str(hist))
    td = {k: v for k, v in hist.items() if k.startswith("t7desel:active=")}
    run.oblige("e2e: T7 dwell after a Deselect (responder-path select, d swept over 0.2/0.5/0.9/1.5 x T7, re-Select inside the dwell): %d of %d runs reached a verdict, %d variants"
               % (hist.get("t7desel:verdict", 0), hist.get("class:t7desel", 0), len(td)),
               hist.get("class:t7desel", 0) > 0 and hist.get("t7desel:verdict", 0) * 10 >= hist.get("class:t7desel", 0) * 8 and len(td) >= 10, str(hist))
    run.oblige("e2e: no goroutine of the rig or of the library outlives the last Close", hist.get("goroutines-left", 0) == 0,
               "\n".join(summary.get("notes") or []))
    run.trusted.append("e2e rig harness/cmd/c05e2e: scripted raw-frame HSMS peer (and an idle SECS-I line) over net.Pipe through the public "
                       "WithDialer/WithListener options, one mutex-sequenced recorder, Go-side log monitor (rig.go: monitor); no model driver in this pass")
    run.assumptions.append("e2e: State() is sampled (after API calls, inside handlers, while polling), not traced: the edge set of State() is the theorem's; "
                           "the e2e monitor checks sample values, the notification chain, the closed interval after Close, quiescence, T7 and timer lower bounds")
    run.assumptions.append("e2e: a NotConnected->Selected notification (the select commit overtook the supervisor's TCP-up step; always on SECS-I) is counted, "
                           "not failed: the property and the proved monitor (mon_step Delivered) constrain the chain of notifications, not their edge set")
    run.coverage["e2e_scenarios"] = total
    run.coverage["e2e_classes"] = {k[6:]: v for k, v in hist.items() if k.startswith("class:")}


MANIFEST = {
    "text": "Coq theorems over ALL interleavings of the supervisor's atomic steps (three CAS commits, injected disconnect/T7/close, the supervisor's step split at its state load so commits land between read and write, notifier deliveries): every change of State() is a legal E37 edge, a T7 expiry never leaves Selected, emitted/delivered notifications are chained (modulo reported coalescing) and never self-transitions, nothing changes after the close latch, quiescent => last reported = State(), drained => last delivered = last reported. No processed transition is ever replayed (C05_no_replay, for all action lists, after fix 737422e: commit echoes are report-only and disconnect/T7 are ignored while a TCP-up echo is queued; the pre-fix witness is kept as a regression schedule). The transition table (v1) and the whole supervisor - transition, Commit*, inject, requestClose, emit, fireTransition, step - (v2, family Tie2Supervisor, 14 theorems) are regenerated from the source and bridged to the model per atomic step; the real supervisor is driven goroutine-free through random/boundary schedules (directly and through the connection's runtime glue) and must equal the extracted model after every action; e2e histories on real connections (parked writes across generations, T7 dwell after Deselect, straggler events) are judged by the Go-side log monitor.",
    "note": 'Trusted: Coq kernel, translator, extraction, hook driver. Connection-level Open/Close/reconnect histories on both transports are observed e2e, not proved. Atomicity granularity as stated in the evidence assumptions.',
    "technique": 'Rocq/Coq proof (inductive invariant over an LTS) + translator bridge + extracted-model differential on the real supervisor',
}
