PROP = {
    "id": "C05",
    "harness": "c05",
    "driver": "c05",
    "n_quick": 3000,
    "n_thorough": 200000,
    "trusted": [
        "hook hsms/verif_export_supervisor.go: goroutine-free driver of the real supervisor; commits inside step()'s load/store window run through the code's own testHookAfterStateLoad seam",
    ],
    "assumptions": [
        "atomicity: a commit's CAS and its enqueue are one action; step() is split only at its state load (the seam the code itself exposes); one supervisor goroutine, one notifier goroutine",
        "the events channel is modelled unbounded (a superset of the capped channel: sound for safety); the harness keeps at most 12 events pending",
        "after-Close behaviour of the whole connection (Open/Close/reconnect histories on both transports) is observed by the e2e pass, not proved: the theorem covers the supervisor, whose close latch now fences the commits",
    ],
}
