def harness_args(run, tier, n, cases):
    base = cases[:-6] if cases.endswith(".cases") else cases
    nseq = max(6, n // 12)
    return [
        ["-pass", "seq", "-seed", run.seed, "-n", nseq, "-tier", tier, "-out", base + ".seq.cases"],
        ["-pass", "hist", "-seed", run.seed, "-n", n, "-tier", tier, "-out", base + ".hist.cases"],
        ["-pass", "block", "-seed", run.seed, "-n", 1, "-tier", tier, "-out", base + ".block.cases"],
        # last but one, own process: a Close that hangs on the farewell write is abandoned after 15 s
        ["-pass", "closestall", "-seed", run.seed, "-n", 1, "-tier", tier, "-out", base + ".closestall.cases"],
        ["-pass", "acceptrace", "-seed", run.seed, "-n", 1, "-tier", tier, "-out", base + ".acceptrace.cases"],
        ["-pass", "armpark", "-seed", run.seed, "-n", 1, "-tier", tier, "-out", base + ".armpark.cases"],
        # last, in its own process: a Close that fails to abort a dial leaves a loop alive for 30 s
        ["-pass", "blackhole", "-seed", run.seed, "-n", 1, "-tier", tier, "-out", base + ".blackhole.cases"],
    ]


PROP = {
    "id": "C10",
    "harness": "c10",
    "driver": "c10",
    "n_quick": 250,
    "n_thorough": 3000,
    "harness_timeout": 2400,
    "harness_args": harness_args,
    "trusted": [
        "e2e rig harness/cmd/c10/lc: every socket and listener is harness-owned (public WithDialer/WithListener over net.Pipe); scripted raw-frame peer; hygiene probes = goroutines whose creator frame is library code in a runtime.Stack dump (polled up to 2 s after a calm Close), Close() seen on every conn/listener handed out, the reconnecting gauge, State(); Open/Close overlap bookkeeping decides which results are judged exactly (solo / calm)",
        "hook hsms/verif_export_lifecycle_park.go: transport decorator calling the harness at the entry of tr.ArmStart / tr.Start",
        "Hsms/LifecycleSat.v: the verified propositional refutation procedure (unit propagation + splitting, run by vm_compute) behind every invariant-preservation lemma",
    ],
    "assumptions": [
        "atomicity of the LTS steps as read from the code (DESIGN.md Appendix A.3): atomic loads/stores/CAS, publishMu and startGate critical sections, channel operations; lifeMu is the API program counter",
        "LcLPublish models {re-check shutdown/reconnectGen; ArmStart; cur.Store} as ONE action (the publishMu critical section): the e2e pass armpark (the loop parked at the entry of ArmStart through the verif seam hsms.VerifParkTransport, Close called, loop released; passive/active x HSMS-SS/SECS-I) is the correspondence for that atomic-action assumption; invariant clause 7 (a Stop-sealed generation keeps the start gate sealed) is what a split would break",
        "option matrix crossed with the calm-Close hygiene scenarios (e2e): WithWriteTimeout 0 / 60 ms / default(30 s) x Close-from-Selected against a peer that is up but not reading x a send parked awaiting its reply (pass closestall); closeTimeout 200 ms / 400 ms / 1 s (passes block, hist, blackhole); T5/backoff at initial >/=/< T5 and live changes (C11 e2e); T6/T7/T8/linktest in the tens of milliseconds; ConnectTimeout set and unset (hist)",
        "handlers return, so every bounded join completes: the ErrCloseTimeout path (which deliberately abandons goroutines) is not modelled",
        "transport contract as implemented by hsmsss (Start fails only before TCPUp; Stop = seal, close, join); the SECS-I transport shares the connection core and is exercised by the e2e passes (seq cycles and a quarter of the random histories run secs1.New over the same rig, against a line that is held / dropped / cut but does not speak E4) but is not modelled separately",
        "environment actions (peer connect/drop, dial results, T7/linktest expiry, write errors) are enabled whenever structurally possible - a superset of real behaviours",
        "goroutine leaks, blocking bounds and panics of the running library are runtime facts observed by the e2e harness (level: proof partial); 'Close returns within closeTimeout' is REFUTED when a blocking Open holds lifeMu (known finding C10-close-blocked-by-open); a dial that never returns is outside the environment assumption (the rig caps a hanging dial at 150 ms like an OS connect timeout)",
    ],
}


def custom(run, tier):
    """thorough: the random histories once more under the race detector (a data race inside the
    library or the rig makes the binary exit 66 and print WARNING: DATA RACE)."""
    if tier != "thorough":
        return
    import os, sys
    sys.path.insert(0, os.path.join(os.path.dirname(os.path.dirname(os.path.abspath(__file__))), "lib"))
    import vlib
    ok, log = vlib.build_harness("c10", race=True)
    run.oblige("Go harness builds with -race", ok, log)
    if not ok:
        return
    cases = os.path.join(vlib.BUILD, "c10.race.cases")
    rc, summary, out = vlib.run_harness("c10", ["-pass", "hist", "-seed", run.seed + 1000, "-n", 600, "-tier", tier, "-out", cases],
                                         timeout=2400, race=True)
    run.oblige("random histories under -race: no data race reported, run completes", rc == 0 and summary is not None and "DATA RACE" not in out, out[-3000:])
    run.absorb(summary)
    ok, nc, nm, mism, raw = vlib.run_driver("c10", cases)
    run.oblige("correspondence (race run): monitor accepts %d logs" % nc, ok and nm == 0, "\n".join(mism) or raw)


MANIFEST = {
    "text": "PARTIAL proof. Coq theorems over ALL runs of an executable LTS of Open / Close / react / connect loop / epoch / transport gate (70 actions; a 48-clause inductive invariant discharged by a verified unit-propagation/splitting procedure run by vm_compute): generations never overlap; Open on an open connection returns ErrAlreadyOpen with the whole state unchanged; Close is idempotent; in every state in which Close has returned there are 0 library goroutines (by class accounting), 0 sockets/listeners, no reconnect loop, State NotConnected, supervisor stopped, and from there only an Open call is enabled (no dial / listen / publish); a closed connection reopens to the state of a fresh Open (up to counters); the extracted monitor ok_C10 accepts every run. 'Close returns within the close timeout' is REFUTED by a witness (Close is not enabled while a blocking Open holds the lifecycle lock; known finding C10-close-blocked-by-open, reproduced on every run). Tied by e2e histories on harness-owned pipes (HSMS-SS and SECS-I, both roles): sequences and random concurrent histories of Open (blocking/background), Close, sends, UpdateConfigOptions against connects, drops, cuts, stalls, rejects, refusals and hangs; after every calm Close: no goroutine created by library code, Close() seen on every conn and listener, no later dial, latency bound, ErrAlreadyOpen exact, no panic; logs judged by the extracted monitor.",
    "note": 'PARTIAL: goroutine leaks, blocking bounds and panics are runtime facts observed by the harness; joins are assumed to complete (the ErrCloseTimeout path that abandons stragglers is not modelled); reopen is proved as state equality after the setup steps, not as a bisimulation.',
    "technique": 'Rocq/Coq proof (48-clause inductive invariant over an executable LTS, discharged by a verified SAT procedure) + extracted monitor over e2e histories on both transports + hygiene probes',
}
