def harness_args(run, tier, n, cases):
    base = cases[:-len(".cases")]
    e2e = 18 if tier == "quick" else 126
    return [
        ["-seed", run.seed, "-n", n, "-tier", tier, "-pass", "decode", "-out", cases],
        ["-seed", run.seed, "-n", max(500, n // 2), "-tier", tier, "-pass", "reader", "-out", base + "_reader.cases"],
        ["-seed", run.seed, "-n", e2e, "-tier", tier, "-pass", "e2e"],
    ]


PROP = {
    "id": "C04",
    "tie2": ["Tie2Hsms"],
    "harness": "c04",
    "driver": "c04",
    "n_quick": 30000,
    "n_thorough": 250000,
    "harness_args": harness_args,
    "harness_timeout": 2400,
    "trusted": [
        "hook hsms/verif_export_frames.go: exports decodeOwnedFrame (the decode the receive path runs) and maxHSMSMsgLen",
        "hook hsmsss/verif_export_reader.go: the REAL readFrame on a transport built by newTransport with the two existing test seams (now, allocFrame) and a stub runtime that only answers Timers()",
        "hook hsmsss/verif_export_deadline.go: the write-deadline bracket of one frame write (SetWriteDeadline(deadline) ... SetWriteDeadline(zero)) through the REAL transport methods, invoked on the simulated conn while a Read of readFrame is parked (SetDeadline on that conn also moves the read deadline, as on a net.Conn)",
        "simulated net.Conn with virtual time (harness/cmd/c04/reader.go): a Read never spans two segments; a read deadline fires iff the next arrival is strictly later; time advances only while a Read waits",
        "scripted raw peer over net.Pipe (harness/fr/peer.go) for the real-time end-to-end pass (T8 = 200 ms; in-frame gaps 0-2 ms, idle gaps 500 ms, stall 800 ms)",
    ],
    "assumptions": [
        "the receive loop is modelled one byte at a time (grouping of bytes into Reads is irrelevant except for time); virtual time advances only between segments; readFrame/readN process arrived bytes in zero time",
        "a segment without bytes is one conn.Read returning (0, nil) (net.Pipe zero-length Write, wrapped conns via WithDialer; never on *net.TCPConn): it never starts a frame (idle stays idle); inside a frame it re-arms the deadline like any other Read return, so T8 counts from it - this is what readN's loop does and the model (arrive) follows the code here; the harness oracle uses the same reading",
        "a gap of exactly T8 is not a timeout (deadline = now+T8, fires only if the next arrival is strictly later) - the simulated conn and the model agree on this reading; real timers are the runtime's",
        "the SECS-II body decoder is abstract in the cell model (any function of the body bytes); the harness feeds the outcome of secs2.Decode on the same bytes as that function's value",
        "sync.Once and the shared decodeState pointer are modelled as one option cell per message family (modelled, not verified: Go memory model)",
        "DataMessageCodec.UnmarshalBinary (zero-value codec and a codec wrapping a message) is a fifth decode entry point on every decode case: same acceptance and same message as DecodeHSMSMessage (the model's whole-buffer decode), except that a frame decoding to a control message is refused (class C) and a failed call leaves the wrapped message in place",
        "a control frame with a body is well-formed at the decode entry points (property text lists only length, PType, SType); rejecting it is the live responder's job (C08)",
        "local frame writes are not part of the reader model (the model is indifferent to them, like read sizes): scripts carry them as a conn behaviour, and the e2e stall scenarios (with / without local writes) assert the drop no earlier than T8 after the partial frame began and within T8 + 2 s",
        "real-time e2e outcomes are load-sensitive (a descheduled writer stretches an in-frame gap; a loaded machine closes the socket seconds after the state change): a failing scenario is re-run once with every duration scaled by 4 (T8 = 800 ms) and reported only if it fails again (first failure quoted; unconfirmed ones are listed in the evidence notes); the drop is observed as an event (peer read loop ending) with a 10 s ceiling; a drop EARLIER than T8 bypasses the re-run and is reported at once; local writes are issued as soon as the partial frame is in, and a stall scenario whose writes did not land inside the gap is counted void, not failed",
        "the e2e pass judges real-time behaviour with wide margins only (idle 2.5 x T8 must not drop; stall 4 x T8 must drop; in-frame gaps are 100x below T8)",
    ],
}


MANIFEST = {
    "text": 'Coq theorems over all byte strings, segmentations and gap sequences: the decode entry points are total (instrumented Panic twins), accept iff wf_frame (length field = remaining, within [10, cap], PType 0, defined SType) and agree with each other; body-error stability for ANY body decoder (once-cell: every holder, every call, at most one decode); the receive loop as a machine over timed segments: segmentation independence against an independent reference frame parser, idle gaps of any duration never drop, an in-frame gap > T8 drops exactly there, every allocation lies in [10, cap] and a bad length drops with no allocation of the claimed size. Tied by bridges (SType set, cap), a decode differential under recover, the REAL readFrame run over a simulated conn in virtual time (injected now/allocFrame; event lists must be equal) and an e2e pass with a scripted peer writing random segmentations.',
    "note": 'Virtual-time model: a gap of exactly T8 is not a timeout; real timer accuracy observed only with wide margins (e2e); sync.Once modelled as an option cell.',
    "technique": 'Rocq/Coq proof (instrumented twins, machine over timed segments) + real readFrame over a simulated conn with injected clock/allocator + decode differential + e2e scripted peer',
}
