"""Shared engine behind bin/vcheck.

One check run = (1) regenerate Gen.v from /repo with the translator, (2) build the Coq
dependencies of Properties/<ID>.v and re-check that file capturing Print Assumptions,
(3) extract the model and build the OCaml correspondence driver, (4) build the Go harness against
the current /repo with -tags verif, (5) run harness -> case file -> driver, (6) apply the verdict
rules of DESIGN.md §2.3, (7) write evidence/<ID>.json.

Per-property configuration lives in checks/<ID>.py (a dict PROP and optional hooks).
"""
import fcntl
import glob
import hashlib
import json
import os
import re
import shutil
import subprocess
import sys
import time

ROOT = os.path.dirname(os.path.dirname(os.path.abspath(__file__)))
REPO = os.environ.get("VERIF_REPO", "/repo")
BUILD = os.path.join(ROOT, "build")
COQ = os.path.join(ROOT, "coq")
GOENV = dict(os.environ, GOFLAGS="-mod=mod", GOPROXY="off", GOSUMDB="off", GOTOOLCHAIN="local",
             GOCACHE=os.environ.get("GOCACHE", os.path.join(os.path.expanduser("~"), ".cache", "go-build")))
GO = "go1.26"

ALLOWED_AXIOMS = {
    # axioms the Coq standard library / Flocq's dependencies declare; each is named in the
    # evidence whenever Print Assumptions lists it
    "ClassicalDedekindReals.sig_forall_dec", "ClassicalDedekindReals.sig_not_dec",
    "FunctionalExtensionality.functional_extensionality_dep", "functional_extensionality_dep",
    "Classical_Prop.classic", "classic", "Eqdep.Eq_rect_eq.eq_rect_eq", "eq_rect_eq",
    "JMeq.JMeq_eq", "JMeq_eq", "ProofIrrelevance.proof_irrelevance", "proof_irrelevance",
    "sig_forall_dec", "sig_not_dec", "PropExtensionality.propositional_extensionality",
    "propositional_extensionality", "ClassicalEpsilon.constructive_indefinite_description",
    "constructive_indefinite_description",
}

FORBIDDEN = re.compile(r"\b(Admitted|admit|Axiom|Axioms|Parameter|Parameters|Conjecture|Conjectures)\b|Unset\s+Guard|bypass_check|type-in-type|impredicative-set|Admit\s+Obligations")


def sh(cmd, cwd=None, env=None, timeout=None, stdin=None):
    """Run a command; return (rc, stdout+stderr). Never raises on non-zero."""
    try:
        p = subprocess.run(cmd, cwd=cwd, env=env, timeout=timeout, input=stdin, shell=isinstance(cmd, str),
                           stdout=subprocess.PIPE, stderr=subprocess.STDOUT, text=True, errors="replace")
        return p.returncode, p.stdout
    except subprocess.TimeoutExpired as e:
        out = e.stdout if isinstance(e.stdout, str) else (e.stdout or b"").decode("utf8", "replace")
        return 124, out + "\n[timeout after %ss]" % timeout


class Lock:
    """flock on build/.lock: build steps of concurrent vcheck runs are serialised."""

    def __enter__(self):
        os.makedirs(BUILD, exist_ok=True)
        self.f = open(os.path.join(BUILD, ".lock"), "w")
        fcntl.flock(self.f, fcntl.LOCK_EX)
        return self

    def __exit__(self, *a):
        fcntl.flock(self.f, fcntl.LOCK_UN)
        self.f.close()


def repo_tree_hash():
    rc, head = sh(["git", "-C", REPO, "rev-parse", "HEAD"])
    rc, diff = sh(["git", "-C", REPO, "diff", "HEAD"])
    return head.strip()[:12] + ("+dirty:" + hashlib.sha256(diff.encode()).hexdigest()[:8] if diff.strip() else "")


# ----------------------------------------------------------------------------------------------
# build steps; each returns (ok, log)

def build_translator():
    src = os.path.join(ROOT, "translator")
    out = os.path.join(BUILD, "translator")
    if os.path.exists(out) and os.path.getmtime(out) >= max(os.path.getmtime(p) for p in glob.glob(src + "/*")):
        return True, ""
    rc, log = sh([GO, "build", "-o", out, "."], cwd=src, env=GOENV, timeout=600)
    return rc == 0, log


# The translator's source importer (go/importer "source") runs cgo for packages such as net and
# os/user and leaves its object files in the temp directory on every run; type-checking needs none
# of that, the output is byte-identical with cgo off.
TRENV = dict(GOENV, CGO_ENABLED="0")


def run_translator():
    ok, log = build_translator()
    if not ok:
        return False, "translator build failed:\n" + log
    os.makedirs(os.path.join(COQ, "theories", "Gen"), exist_ok=True)
    rc, log = sh([os.path.join(BUILD, "translator"), "-repo", REPO, "-out", os.path.join(COQ, "theories", "Gen", "Gen.v"),
                  "-manifest", os.path.join(BUILD, "gen_manifest.json")], env=TRENV, timeout=300)
    return rc == 0, log


def run_translator2():
    """Translator v2 (byte-slice code with loops) -> Gen/Gen2.v. Run separately from v1 so that a
    function leaving the v2 subset can only affect the properties that declare tie2 theorems."""
    ok, log = build_translator()
    if not ok:
        return False, "translator build failed:\n" + log
    tmp = os.path.join(BUILD, "gen_v1_scratch.v")
    rc, log = sh([os.path.join(BUILD, "translator"), "-repo", REPO, "-out", tmp,
                  "-out2", os.path.join(COQ, "theories", "Gen", "Gen2.v"),
                  "-manifest2", os.path.join(BUILD, "gen2_manifest.json")], env=TRENV, timeout=300)
    return rc == 0, log


def coq_makefile():
    """(Re)generate _CoqProject (all .v under theories/) and the Makefile."""
    files = sorted(os.path.relpath(p, COQ) for p in glob.glob(os.path.join(COQ, "theories", "**", "*.v"), recursive=True))
    proj = "-Q theories GoSecs\n-arg -w -arg -notation-overridden,-deprecated-hint-without-locality,-deprecated-instance-without-locality\n" + "\n".join(files) + "\n"
    pp = os.path.join(COQ, "_CoqProject")
    old = open(pp).read() if os.path.exists(pp) else ""
    if old != proj or not os.path.exists(os.path.join(COQ, "Makefile")):
        open(pp, "w").write(proj)
        rc, log = sh(["coq_makefile", "-f", "_CoqProject", "-o", "Makefile"], cwd=COQ, timeout=120)
        return rc == 0, log
    return True, ""


def coq_make(targets=None, jobs=16, timeout=3000):
    ok, log = coq_makefile()
    if not ok:
        return False, log
    cmd = ["make", "-j%d" % jobs] + (targets or [])
    rc, log2 = sh(cmd, cwd=COQ, timeout=timeout)
    return rc == 0, log + log2


def coq_check_props(prop_file, timeout=900):
    """Re-check Properties/<ID>.v with coqc, capturing Print Assumptions. Returns dict."""
    rel = os.path.join("theories", "Properties", prop_file)
    src = open(os.path.join(COQ, rel)).read()
    theorems = re.findall(r"^\s*(?:Theorem|Corollary)\s+([A-Za-z0-9_']+)", src, re.M)
    examples = re.findall(r"^\s*Example\s+([A-Za-z0-9_']+)", src, re.M)
    t0 = time.time()
    rc, out = sh(["coqc", "-Q", "theories", "GoSecs", rel], cwd=COQ, timeout=timeout)
    res = {"file": rel, "theorems": theorems, "examples": examples, "ok": rc == 0, "log": out[-4000:], "wall_s": round(time.time() - t0, 2)}
    axioms = set()
    closed = out.count("Closed under the global context")
    in_block = False
    for line in out.splitlines():
        if line.startswith("Axioms:"):
            in_block = True
            continue
        if line.startswith("Closed under") or line.startswith("File ") or line.startswith("Error"):
            in_block = False
            continue
        if in_block and line and not line[0].isspace():
            axioms.add(line.split()[0].rstrip(":"))
    res["assumption_reports"] = closed + len(re.findall(r"^Axioms:", out, re.M))
    res["axioms"] = sorted(axioms)
    res["bad_axioms"] = sorted(a for a in axioms if a not in ALLOWED_AXIOMS and a.split(".")[-1] not in ALLOWED_AXIOMS)
    return res


def coq_closure(pid):
    """The .v files Properties/<pid>.v depends on (transitively), from coqdep."""
    rc, out = sh(["coqdep", "-Q", "theories", "GoSecs", "-sort", "theories/Properties/%s.v" % pid], cwd=COQ, timeout=120)
    files = [os.path.join(COQ, f) for f in out.split() if f.endswith(".v")]
    return [f for f in files if os.path.exists(f)]


def forbidden_scan(pid=None):
    """Scan for Admitted/admit/Axiom/... With pid: the files that property's theorems depend on plus
    its extraction file (so that another property's work in progress cannot fail this check); without:
    the whole development (bin/vaudit, run before every release of the evidence)."""
    bad = []
    if pid:
        files = coq_closure(pid) + glob.glob(os.path.join(COQ, "extraction", "Extract%s*.v" % pid))
    else:
        files = glob.glob(os.path.join(COQ, "theories", "**", "*.v"), recursive=True) + glob.glob(os.path.join(COQ, "extraction", "*.v"))
    for p in files:
        for i, line in enumerate(open(p, errors="replace"), 1):
            code = re.sub(r"\(\*.*?\*\)", "", line)
            if FORBIDDEN.search(code):
                bad.append("%s:%d: %s" % (os.path.relpath(p, ROOT), i, line.strip()[:120]))
    return bad


def build_driver(name):
    """Extract coq/extraction/Extract<NAME>.v and build ocaml/<name>_driver.ml -> build/drv_<name>."""
    d = os.path.join(BUILD, "ocaml", name)
    os.makedirs(d, exist_ok=True)
    ext = os.path.join(COQ, "extraction", "Extract%s.v" % name.upper())
    for f in glob.glob(os.path.join(d, "*.ml*")):
        os.remove(f)
    rc, log = sh(["coqc", "-Q", os.path.join(COQ, "theories"), "GoSecs", ext], cwd=d, timeout=900)
    if rc != 0:
        return False, "extraction failed:\n" + log
    model = "%s_model" % name
    with open(os.path.join(d, "driver.ml"), "w") as f:
        f.write("open %s\n" % model.capitalize())
        f.write(open(os.path.join(ROOT, "ocaml", "vutil.ml")).read())
        f.write(open(os.path.join(ROOT, "ocaml", "%s_driver.ml" % name)).read())
    rc, log2 = sh(["ocamlfind", "ocamlopt", "-O3", "-unboxed-types", "-w", "-a", model + ".mli", model + ".ml", "driver.ml", "-o", os.path.join(BUILD, "drv_" + name)], cwd=d, timeout=900)
    if rc != 0:
        rc, log2 = sh(["ocamlfind", "ocamlopt", "-w", "-a", model + ".mli", model + ".ml", "driver.ml", "-o", os.path.join(BUILD, "drv_" + name)], cwd=d, timeout=900)
    return rc == 0, log + log2


def build_harness(name, race=False):
    hd = os.path.join(ROOT, "harness")
    shutil.copyfile(os.path.join(REPO, "go.sum"), os.path.join(hd, "go.sum"))
    out = os.path.join(BUILD, "h_" + name + ("_race" if race else ""))
    modfile = []
    if os.path.realpath(REPO) != "/repo":
        # development aid (bin/vmut): build against a scratch copy of the repository
        alt = os.path.join(BUILD, "altmod")
        os.makedirs(alt, exist_ok=True)
        gm = open(os.path.join(hd, "go.mod")).read().replace("=> /repo", "=> " + os.path.realpath(REPO))
        open(os.path.join(alt, "go.mod"), "w").write(gm)
        shutil.copyfile(os.path.join(REPO, "go.sum"), os.path.join(alt, "go.sum"))
        modfile = ["-modfile=" + os.path.join(alt, "go.mod")]
    cmd = [GO, "build", "-tags", "verif"] + modfile + (["-race"] if race else []) + ["-o", out, "./cmd/" + name]
    rc, log = sh(cmd, cwd=hd, env=GOENV, timeout=1200)
    return rc == 0, log


def run_harness(name, args, timeout=1800, race=False, env=None):
    """Returns (rc, summary dict or None, raw output)."""
    exe = os.path.join(BUILD, "h_" + name + ("_race" if race else ""))
    rc, out = sh([exe] + [str(a) for a in args], timeout=timeout, env=env)
    summary = None
    for line in out.splitlines():
        if line.startswith("SUMMARY "):
            try:
                summary = json.loads(line[8:])
            except Exception:
                pass
    return rc, summary, out


def run_driver(name, cases, timeout=3600):
    """Returns (ok, n_cases, n_mismatch, mismatch lines, raw)."""
    env = dict(os.environ, OCAMLRUNPARAM="l=8G")
    rc, out = sh("ulimit -s unlimited 2>/dev/null; exec %s %s" % (os.path.join(BUILD, "drv_" + name), cases), timeout=timeout, env=env)
    m = re.search(r"CASES (\d+) MISMATCHES (\d+)", out)
    mism = [l for l in out.splitlines() if l.startswith("MISMATCH")]
    if rc != 0 or not m:
        return False, 0, 0, mism, out[-3000:]
    return True, int(m.group(1)), int(m.group(2)), mism, out[-3000:]


# ----------------------------------------------------------------------------------------------
# known findings

def load_known(pid):
    out = []
    for p in [os.path.join(ROOT, "known_findings.json")] + sorted(glob.glob(os.path.join(ROOT, "known_findings.d", "*.json"))):
        if os.path.exists(p):
            out += [k for k in json.load(open(p)) if k.get("property") == pid]
    return out


def match_known(known, failure):
    """A failure {what, case} is suppressed only by a `known` entry whose match.what_regex matches
    the failure description AND whose match.case_regex matches the failing case."""
    for k in known:
        if k.get("status") != "known":
            continue
        m = k.get("match", {})
        if re.search(m.get("what_regex", "^$"), failure.get("what", "")) and re.search(m.get("case_regex", ""), failure.get("case", ""), re.S):
            return k
    return None


# ----------------------------------------------------------------------------------------------
# evidence / verdict

class Run:
    def __init__(self, pid, tier):
        self.pid = pid
        self.tier = tier
        self.seed = int(os.environ.get("VERIF_SEED", "1") or 1)
        self.t0 = time.time()
        self.obligations = []       # list of (name, ok)
        self.broken = []            # names of broken obligations / correspondences
        self.failures = []          # implementation-level oracle failures (dicts what/case)
        self.known_hits = []        # (entry, failure)
        self.coverage = {}
        self.assumptions = []
        self.trusted = []
        self.samples = []
        self.evaluations = 0
        self.distinct = 0
        self.hist = {}
        self.notes = []
        self.logs = []

    def oblige(self, name, ok, log=""):
        self.obligations.append((name, bool(ok)))
        if not ok:
            self.broken.append(name)
            self.logs.append("== %s ==\n%s" % (name, log[-3000:]))

    def absorb(self, summary):
        if not summary:
            return
        self.evaluations += summary.get("evaluations", 0)
        self.distinct += summary.get("distinct_nontrivial", 0)
        for k, v in (summary.get("histogram") or {}).items():
            self.hist[k] = self.hist.get(k, 0) + v
        for s in summary.get("samples") or []:
            if len(self.samples) < 8:
                self.samples.append(s)
        for n in summary.get("notes") or []:
            self.notes.append(n)
        for f in summary.get("oracle_failures") or []:
            self.failures.append(f)

    def write_replay(self, kind, payload):
        d = os.path.join(ROOT, "replays")
        os.makedirs(d, exist_ok=True)
        n = 1
        while os.path.exists(os.path.join(d, "%s-%d.json" % (self.pid, n))):
            n += 1
        path = os.path.join(d, "%s-%d.json" % (self.pid, n))
        payload = dict(payload, property=self.pid, kind=kind, seed=self.seed, tier=self.tier, repo=repo_tree_hash())
        json.dump(payload, open(path, "w"), indent=1)
        return os.path.relpath(path, ROOT)

    def finish(self, level="proof", checker_cmd="", extra_cov=None):
        known = load_known(self.pid)
        unlisted = []
        for f in self.failures:
            k = match_known(known, f)
            if k:
                self.known_hits.append((k, f))
            else:
                unlisted.append(f)
        lines = []
        seen = set()
        for k, f in self.known_hits:
            if k["id"] not in seen:
                seen.add(k["id"])
                lines.append("KNOWN-FINDING: property=%s %s" % (self.pid, k.get("summary", k["id"])))
        violations = 0
        if unlisted:
            violations = len(unlisted)
            path = self.write_replay("input", {"failures": unlisted[:10], "broken_obligations": self.broken})
            lines.append("VIOLATION property=%s replay=%s" % (self.pid, path))
        elif self.broken:
            violations = 1
            path = self.write_replay("broken-obligation", {"obligations": self.broken, "logs": self.logs[:5],
                                                          "searched": {"evaluations": self.evaluations, "oracle_failures": 0}})
            lines.append("VIOLATION property=%s replay=%s no-failing-input-found" % (self.pid, path))
        n_obl = len(self.obligations)
        n_ok = sum(1 for _, ok in self.obligations if ok)
        cov = {
            "obligations": n_obl, "discharged": n_ok,
            "checker_cmd": checker_cmd,
            "trusted_base": self.trusted,
            "obligation_names": [n for n, _ in self.obligations],
            "broken": self.broken,
            "evaluations": self.evaluations, "distinct_nontrivial": self.distinct,
            "rule": "cases come from one PRNG (VERIF_SEED); distinct = distinct case lines; non-trivial per harness rule",
            "samples": self.samples or ["(no cases run)"],
            "input_distribution": self.hist,
            "known_findings_reproduced": sorted(seen),
            "notes": self.notes,
            "repo_tree": repo_tree_hash(),
        }
        if extra_cov:
            cov.update(extra_cov)
        ev = {"property_id": self.pid, "tier": self.tier, "seed": self.seed, "level": level, "coverage": cov,
              "assumptions": self.assumptions, "wall_s": round(time.time() - self.t0, 2), "violations": violations}
        os.makedirs(os.path.join(ROOT, "evidence"), exist_ok=True)
        json.dump(ev, open(os.path.join(ROOT, "evidence", self.pid + ".json"), "w"), indent=1)
        for l in lines:
            print(l)
        print("%s %s: obligations %d/%d, cases %d (distinct non-trivial %d), oracle failures %d (known %d), %.1fs" % (
            self.pid, self.tier, n_ok, n_obl, self.evaluations, self.distinct, len(self.failures), len(self.known_hits), time.time() - self.t0))
        if self.broken:
            print("broken: " + ", ".join(self.broken))
            for l in self.logs[:3]:
                print(l[-1500:])
        return 1 if violations else 0


BASE_TRUST = [
    "Coq 8.16.1 kernel (coqc); vm_compute only where a theorem says so; no native_compute",
    "no axioms declared by the development (forbidden-token scan + Print Assumptions on every property theorem)",
    "translator (/verif/translator: Go subset -> Gallina) for Gen.v",
    "extraction (ExtrOcamlBasic only: Extract Inductive bool/option/unit/list/prod/sumbool/sumor; no Extract Constant) + OCaml 4.13.1 compiler + ocaml/vutil.ml + the per-property driver's case parser",
    "Go harness (generators, hooks under build tag verif, canonicalisation of observed behaviour)",
]


def standard_check(prop, tier, custom=None):
    """The default flow. prop keys: id, props (file in Properties/), harness (cmd name) or None,
    driver (name) or None, n_quick, n_thorough, trusted (list), assumptions (list),
    harness_args (fn(run, tier) -> list of arg lists)."""
    pid = prop["id"]
    run = Run(pid, tier)
    run.trusted = BASE_TRUST + prop.get("trusted", [])
    run.assumptions = prop.get("assumptions", [])
    n = prop.get("n_thorough", 20000) if tier == "thorough" else prop.get("n_quick", 1000)
    cases = os.path.join(BUILD, "%s.cases" % pid.lower())
    model_ok = True
    with Lock():
        ok, log = run_translator()
        run.oblige("translator: Gen.v regenerated from /repo", ok, log)
        gen_ok = ok
        bad = forbidden_scan(pid) if gen_ok else []
        run.oblige("no Admitted/admit/Axiom/Parameter/Conjecture/guard-off in any file Properties/%s.v depends on" % pid, not bad, "\n".join(bad))
        allbad = forbidden_scan()
        if allbad and not bad:
            run.notes.append("forbidden tokens elsewhere in the development (not a dependency of this property): " + "; ".join(allbad[:5]))
        target = "theories/Properties/%s.vo" % pid
        if tier == "thorough" and os.environ.get("VERIF_CLEAN", "1") == "1" and prop.get("clean_thorough", False):
            sh(["make", "clean"], cwd=COQ, timeout=300)
        ok, log = coq_make([target]) if gen_ok else (False, "Gen.v not generated")
        if not ok:
            # name the first file that failed
            m = re.findall(r"File \"\./(theories/[^\"]+)\"", log)
            run.oblige("coq build of %s%s" % (target, " (first error in %s)" % m[0] if m else ""), False, log)
            model_ok = False
        else:
            res = coq_check_props(pid + ".v")
            for th in res["theorems"]:
                run.oblige("theorem " + th, res["ok"], res["log"])
            if res["bad_axioms"]:
                run.oblige("Print Assumptions: only library axioms", False, "unexpected axioms: %s" % res["bad_axioms"])
            elif res["ok"]:
                run.oblige("Print Assumptions: closed or library axioms only %s" % res["axioms"], True)
            if res["axioms"]:
                run.trusted.append("library axioms reported by Print Assumptions: " + ", ".join(res["axioms"]))
            run.coverage["examples"] = res["examples"]
            model_ok = res["ok"]
            if tier == "thorough" and model_ok and os.environ.get("VERIF_COQCHK", "1") == "1":
                # independent re-check of the compiled theory and everything it depends on
                rc, out = sh(["coqchk", "-silent", "-o", "-Q", "theories", "GoSecs", "GoSecs.Properties." + pid], cwd=COQ, timeout=2400)
                m = re.search(r"\* Axioms:(.*?)\n\s*\n\* Constants/Inductives relying on type-in-type:(.*?)\n", out, re.S)
                ax = " ".join(m.group(1).split()) if m else "?"
                run.oblige("coqchk re-check of GoSecs.Properties.%s (axioms: %s)" % (pid, ax), rc == 0, out[-3000:])
                if rc == 0 and ax not in ("<none>", "?"):
                    run.trusted.append("coqchk axiom summary: " + ax)
        # tie2: functions REGENERATED by translator v2 and bridged to this property's model
        for fam in prop.get("tie2", []):
            ok2, log2 = run_translator2() if gen_ok else (False, "Gen.v not generated")
            refused = [l for l in log2.splitlines() if "REFUSED" in l]
            if ok2:
                ok2, log2 = coq_make(["theories/Properties/%s.vo" % fam])
            if ok2:
                r2 = coq_check_props(fam + ".v")
                for th in r2["theorems"]:
                    run.oblige("tie2 " + th + " (function regenerated from the source = model function)", r2["ok"], r2["log"])
                if r2["bad_axioms"]:
                    run.oblige("tie2 %s: only library axioms" % fam, False, "unexpected axioms: %s" % r2["bad_axioms"])
            else:
                run.oblige("tie2 %s: Gen2.v regenerated and bridge lemmas re-checked" % fam, False, "\n".join(refused) + "\n" + log2)
        drv = prop.get("driver")
        drv_ok = False
        if drv and gen_ok:
            drv_ok, log = build_driver(drv)
            if model_ok or not drv_ok:
                run.oblige("extraction + OCaml driver build (%s)" % drv, drv_ok, log)
        h = prop.get("harness")
        h_ok = False
        if h:
            h_ok, log = build_harness(h)
            run.oblige("Go harness builds against current /repo with -tags verif", h_ok, log)
    # ---- correspondence + oracle search (outside the build lock) ----
    if h and h_ok:
        widen = 1 if not run.broken else 5   # a broken obligation widens the search for a failing input
        argsets = prop["harness_args"](run, tier, n * widen, cases) if "harness_args" in prop else [["-seed", run.seed, "-n", n * widen, "-tier", tier, "-out", cases]]
        for i, args in enumerate(argsets):
            rc, summary, out = run_harness(h, args, timeout=prop.get("harness_timeout", 3000))
            if rc != 0 or summary is None:
                run.oblige("harness run %d completes" % i, False, out[-3000:])
                continue
            run.absorb(summary)
            casefile = args[args.index("-out") + 1] if "-out" in args else None
            if drv and drv_ok and casefile:
                ok, nc, nm, mism, raw = run_driver(drv, casefile)
                if not ok:
                    run.oblige("correspondence driver run %d" % i, False, raw)
                else:
                    run.oblige("correspondence run %d: model = implementation on %d cases" % (i, nc), nm == 0, "\n".join(mism))
                    run.coverage["traces_validated_against_impl"] = run.coverage.get("traces_validated_against_impl", 0) + nc
    if custom:
        custom(run, tier)
    return run.finish(level="proof",
                      checker_cmd="make -C coq theories/Properties/%s.vo && coqc -Q theories GoSecs theories/Properties/%s.v (Print Assumptions under every theorem)" % (pid, pid),
                      extra_cov=run.coverage)
