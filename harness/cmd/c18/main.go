// Harness for C18.
//
// unit: the REAL lineIO (sendBlock / receiveBlock through the verif hook, with an injected clock)
// runs over a simulated conn in VIRTUAL time against the harness's own implementation of the line
// model's peer, with scripted line faults. Every character either end writes, every pass through
// the line (with its fault) and every T2 expiry is logged; the extracted Coq model replays the
// log (correspondence), and the property is checked directly (oracle).
//
// e2e: two REAL secs1 endpoints (equipment passive, host active) through a fault-injecting
// middlebox in real time; send results and handler deliveries are judged by the extracted monitor
// ok_dir and by the oracle (exactly once, in order, intact).
package main

import (
	"context"
	"errors"
	"flag"
	"fmt"
	"math/rand"
	"net"
	"os"
	"strings"
	"time"

	"github.com/arloliu/go-secs/v2/hsms"
	"github.com/arloliu/go-secs/v2/secs1"

	"verifharness/vh"
)

var mode = flag.String("mode", "unit", "unit | e2e")

func main() {
	c := vh.New()
	switch *mode {
	case "unit":
		unit(c)
	case "e2e":
		e2e(c)
	case "race":
		raceProbe(c)
	case "config":
		configPass(c)
	default:
		panic("unknown mode")
	}
	c.Finish()
}

const (
	chENQ = 0x05
	chEOT = 0x04
	chACK = 0x06
	chNAK = 0x15
)

func chName(b byte) string {
	switch b {
	case chENQ:
		return "ENQ"
	case chEOT:
		return "EOT"
	case chACK:
		return "ACK"
	case chNAK:
		return "NAK"
	}
	return "NOISE"
}

// ---------------------------------------------------------------------------------------------
// E4 block bytes (independent of /repo)

func wireOf(hdr [10]byte, body []byte) []byte {
	w := []byte{byte(10 + len(body))}
	w = append(w, hdr[:]...)
	w = append(w, body...)
	sum := 0
	for _, v := range w[1:] {
		sum += int(v)
	}
	return append(w, byte(sum>>8), byte(sum))
}

// recvBytes is the receive procedure on the characters that arrive before the line falls silent.
func recvBytes(l []byte) ([]byte, bool) {
	if len(l) == 0 {
		return nil, false
	}
	n := int(l[0])
	if n < 10 || n > 254 || len(l)-1 < n+2 {
		return nil, false
	}
	sum := 0
	for _, v := range l[1 : 1+n] {
		sum += int(v)
	}
	if sum&0xFFFF != int(l[1+n])<<8|int(l[2+n]) {
		return nil, false
	}
	return l[:n+3], true
}

// tokenBlock builds block idx (0-based) of a message carrying a token: (header, body).
func tokenBlock(toEquip bool, tok int) ([10]byte, []byte) { return tokenBlockAt(toEquip, tok, 0, true) }

func tokenBlockAt(toEquip bool, tok, idx int, last bool) ([10]byte, []byte) {
	var h [10]byte
	if !toEquip {
		h[0] = 0x80
	}
	h[1] = 1
	h[2], h[3] = 1, 1
	h[4], h[5] = byte((idx+1)>>8), byte(idx+1)
	if last {
		h[4] |= 0x80
	}
	h[6], h[7], h[8], h[9] = 0, 0, byte(tok>>8), byte(tok)
	return h, []byte{0x21, 0x02, byte(tok >> 8), byte(tok)}
}

// phantomTok is the token of a block that is never sent: it only exists as bytes INSIDE the body of
// real messages (after an ENQ), where a receiver that fails to listen the line silent after a
// damaged transmission (E4 7.8.5) would find it.
const phantomTok = 999

// embeddingBody: [token item][FF FF][ENQ][a complete, checksum-valid block][EE EE EE]. A length
// character lowered to (index of the ENQ - 3) makes the receiver read a frame that ends right
// before the ENQ and whose checksum (FF FF) cannot match.
func embeddingBody(toEquip bool, tok int) []byte {
	ph, pb := tokenBlockAt(toEquip, phantomTok, 0, true)
	body := []byte{0x21, 0x02, byte(tok >> 8), byte(tok), 0xFF, 0xFF, chENQ}
	body = append(body, wireOf(ph, pb)...)
	return append(body, 0xEE, 0xEE, 0xEE)
}

// ---------------------------------------------------------------------------------------------
// The model's peer, written for this harness from Secs1/Line.v (phases, react, timeout).

const (
	phIdle = iota
	phWaitEOT
	phWaitACK
	phRecvIdle
	phRecvYield
	phDown
)

type simPeer struct {
	master   bool
	limit    int
	ph       int
	retry    int
	todo     []int // tokens of single-block messages still to send
	done     []int
	handed   int
	yields   int
	deliv    []int
	lastHdr  [10]byte
	haveLast bool
	openTok  int // message in progress: token and next expected index; openNext == 0: none
	openNext int
	outq     [][]byte // written, not yet through the line
	waitFrom time.Duration
}

func (p *simPeer) waits() bool {
	return p.ph == phWaitEOT || p.ph == phWaitACK || p.ph == phRecvIdle || p.ph == phRecvYield
}

func (p *simPeer) push(b ...byte) { p.outq = append(p.outq, append([]byte(nil), b...)) }

func (p *simPeer) retryStep() {
	if p.retry+1 <= p.limit {
		p.retry++
		p.ph = phWaitEOT
		p.push(chENQ)
	} else {
		p.ph = phDown
	}
}

func (p *simPeer) finishRecv(yield bool, ok bool) {
	if !yield {
		p.ph = phIdle
		return
	}
	if ok {
		p.retry = 0
		p.ph = phWaitEOT
		p.push(chENQ)
	} else {
		p.retryStep()
	}
}

func (p *simPeer) start() {
	p.ph, p.retry = phWaitEOT, 0
	p.push(chENQ)
}

// arrive: a single character (len 1) or a block transmission (possibly mutilated).
func (p *simPeer) arrive(data []byte, peerToEquip bool) {
	isChar := len(data) == 1
	switch p.ph {
	case phIdle:
		if isChar && data[0] == chENQ {
			p.ph = phRecvIdle
			p.push(chEOT)
		}
	case phWaitEOT:
		if isChar && data[0] == chEOT {
			h, _ := tokenBlock(peerToEquip, p.todo[0])
			p.ph = phWaitACK
			p.push(wireOf(h, embeddingBody(peerToEquip, p.todo[0]))...)
		} else if isChar && data[0] == chENQ && !p.master {
			p.yields++
			p.ph = phRecvYield
			p.push(chEOT)
		}
	case phWaitACK:
		if isChar && data[0] == chACK {
			p.done = append(p.done, p.todo[0])
			p.todo = p.todo[1:]
			p.ph = phIdle
		} else {
			p.retryStep()
		}
	case phRecvIdle, phRecvYield:
		yield := p.ph == phRecvYield
		if blk, ok := recvBytes(data); ok && !isChar {
			var hdr [10]byte
			copy(hdr[:], blk[1:11])
			tok := int(hdr[8])<<8 | int(hdr[9])
			idx := (int(hdr[4]&0x7F)<<8 | int(hdr[5])) - 1
			last := hdr[4]&0x80 != 0
			p.handed++
			if !(p.haveLast && p.lastHdr == hdr) { // the assembler: duplicate record, expected index, restart
				continues := p.openNext > 0 && p.openTok == tok && p.openNext == idx
				if continues || idx == 0 {
					p.haveLast, p.lastHdr = true, hdr
					if last {
						p.deliv = append(p.deliv, tok)
						p.openNext = 0
					} else {
						p.openTok, p.openNext = tok, idx+1
					}
				} else {
					p.openNext = 0
				}
			}
			p.push(chACK)
			p.finishRecv(yield, true)
		} else {
			p.push(chNAK)
			p.finishRecv(yield, false)
		}
	}
}

func (p *simPeer) timeout() {
	switch p.ph {
	case phWaitEOT, phWaitACK:
		p.retryStep()
	case phRecvIdle:
		p.push(chNAK)
		p.finishRecv(false, false)
	case phRecvYield:
		p.push(chNAK)
		p.finishRecv(true, false)
	}
}

// ---------------------------------------------------------------------------------------------
// simulated conn in virtual time

type timeoutErr struct{}

func (timeoutErr) Error() string   { return "i/o timeout (virtual)" }
func (timeoutErr) Timeout() bool   { return true }
func (timeoutErr) Temporary() bool { return true }

type simConn struct {
	c                *vh.Ctx
	now              time.Duration
	t1, t2           time.Duration
	peerT2           time.Duration // the peer's T2, never equal to ours: no two timers expire at the same instant
	rbuf             []byte
	deadline         time.Duration
	dlen             time.Duration // duration of the armed deadline (T1-class reads are not model timeouts)
	peer             *simPeer
	realSide         string // "A" (master) or "B" (slave)
	peerSide         string
	log              []string
	holdPeer         bool // keep the peer's already written ENQ in flight until the real end has written
	pFault           [3]int
	peerStartAt      time.Duration // virtual time at which an idle peer with a queued message starts; <0 never
	tail             []byte        // the rest of a transmission whose length character was lowered: arrives after a pause < T1
	tailAt           time.Duration
	garblePeerBlocks bool // every block transmission of the peer arrives damaged (characters pass intact)
	polling          bool // the harness's idle-loop poll: its deadline expiries are idle ticks, not model timeouts
	steps            int
}

func (s *simConn) clock() time.Time { return time.Unix(1_700_000_000, 0).Add(s.now) }

func (s *simConn) fault() string {
	r := s.c.Rng.Intn(100)
	switch {
	case r < s.pFault[0]:
		return "drop"
	case r < s.pFault[0]+s.pFault[1]:
		return "garble"
	}
	return "ok"
}

func kindOf(data []byte) string {
	if len(data) == 1 {
		return chName(data[0])
	}
	return "BLK"
}

func (s *simConn) noise() byte {
	for {
		b := byte(s.c.Rng.Intn(256))
		if b != chENQ && b != chEOT && b != chACK && b != chNAK {
			return b
		}
	}
}

// mutilate applies a detectable fault to a block transmission.
func (s *simConn) mutilate(w []byte) []byte {
	r := s.c.Rng
	out := append([]byte(nil), w...)
	switch r.Intn(4) {
	case 0, 1: // one replaced character of header/body/checksum
		i := 1 + r.Intn(len(out)-1)
		out[i] += byte(1 + r.Intn(255))
	case 2: // truncated: at least one character arrives
		out = out[:1+r.Intn(len(out)-1)]
	default: // length character replaced by a larger or invalid one
		if r.Intn(2) == 0 {
			out[0] = byte(int(out[0]) + 1 + r.Intn(255-int(out[0])))
		} else {
			out[0] = byte(r.Intn(10))
		}
	}
	return out
}

func (s *simConn) through(data []byte) ([]byte, string) {
	f := s.fault() // transit takes no virtual time: the line is synchronous
	switch f {
	case "drop":
		return nil, f
	case "garble":
		if len(data) == 1 {
			return []byte{s.noise()}, f
		}
		return s.mutilate(data), f
	}
	return data, f
}

// flushOne lets the oldest item the peer has written pass the line (into our read buffer).
func (s *simConn) flushOne() {
	d := s.peer.outq[0]
	s.peer.outq = s.peer.outq[1:]
	out, f := s.through(d)
	if s.garblePeerBlocks && len(d) > 1 {
		out, f = s.mutilate(d), "garble"
	}
	s.log = append(s.log, "L "+s.peerSide+" "+f)
	s.rbuf = append(s.rbuf, out...)
	// Fault class "length character lowered + the tail delayed by less than T1" (a block whose
	// body embeds ENQ + a valid block): the receive procedure must reject the short frame and
	// listen the line silent, swallowing the tail. One garbled transmission in the model.
	if f == "garble" && len(d) > 1 && s.c.Rng.Intn(2) == 0 {
		if at := embeddedAt(d); at > 0 {
			first := append([]byte(nil), d[:at]...)
			first[0] = byte(at - 3)
			s.rbuf = append(s.rbuf[:len(s.rbuf)-len(out)], first...)
			s.tail = append([]byte(nil), d[at:]...)
			s.tailAt = s.now + time.Duration(1+s.c.Rng.Intn(450))*time.Millisecond // < T1
			s.c.Count("U/fault=length-down+delayed-tail")
		}
	}
}

// embeddedAt finds an ENQ inside a block transmission that is followed by a checksum-valid block
// and such that a frame cut right before it has a legal length and a failing checksum.
func embeddedAt(w []byte) int {
	for at := 13; at < len(w)-13; at++ {
		if w[at] != chENQ || at-3 < 10 || at-3 >= int(w[0]) {
			continue
		}
		if _, ok := recvBytes(w[at+1:]); !ok {
			continue
		}
		short := append([]byte{byte(at - 3)}, w[1:at]...)
		if _, ok := recvBytes(short); !ok {
			return at
		}
	}
	return -1
}

func (s *simConn) armPeer() {
	if s.peer.waits() {
		s.peer.waitFrom = s.now
	}
}

func (s *simConn) logPeerWrites(from int) {
	for _, d := range s.peer.outq[from:] {
		s.log = append(s.log, "W "+s.peerSide+" "+kindOf(d))
	}
}

func (s *simConn) Write(p []byte) (int, error) {
	s.steps++
	data := append([]byte(nil), p...)
	s.log = append(s.log, "W "+s.realSide+" "+kindOf(data))
	if s.holdPeer { // contention: the peer's ENQ was written first and is still in flight
		s.holdPeer = false
	}
	out, f := s.through(data)
	s.log = append(s.log, "L "+s.realSide+" "+f)
	if out != nil {
		n0 := len(s.peer.outq)
		s.peer.arrive(out, s.realSide == "A")
		s.logPeerWrites(n0)
		s.armPeer()
	}
	return len(p), nil
}

func (s *simConn) Read(p []byte) (int, error) {
	for {
		s.steps++
		if s.steps > 20000 {
			return 0, errors.New("simulation step budget exhausted")
		}
		if len(s.rbuf) > 0 {
			n := copy(p, s.rbuf)
			s.rbuf = s.rbuf[n:]
			return n, nil
		}
		if s.tail != nil && s.tailAt <= s.deadline { // still in flight ahead of anything written later
			if s.tailAt > s.now {
				s.now = s.tailAt
			}
			s.rbuf, s.tail = append(s.rbuf, s.tail...), nil
			continue
		}
		if s.peer.ph == phDown {
			return 0, errors.New("peer gave up: link down")
		}
		if len(s.peer.outq) > 0 && !s.holdPeer {
			s.flushOne()
			continue
		}
		// the line is quiet: the earliest timer fires
		peerAt := time.Duration(-1)
		peerKind := ""
		if s.peer.waits() {
			peerAt, peerKind = s.peer.waitFrom+s.peerT2, "T"
		} else if s.peer.ph == phIdle && len(s.peer.todo) > 0 && s.peerStartAt >= 0 {
			peerAt, peerKind = s.peerStartAt, "S"
			if peerAt < s.now {
				peerAt = s.now
			}
		}
		if peerAt >= 0 && (peerAt < s.deadline || (peerAt == s.deadline && s.c.Rng.Intn(2) == 0)) {
			s.now = peerAt
			n0 := len(s.peer.outq)
			if peerKind == "T" {
				s.log = append(s.log, "T "+s.peerSide)
				s.peer.timeout()
			} else {
				s.log = append(s.log, "S "+s.peerSide)
				s.peer.start()
			}
			s.logPeerWrites(n0)
			s.armPeer()
			continue
		}
		if s.deadline > s.now {
			s.now = s.deadline
		}
		if s.dlen != s.t1 && !s.polling { // a T2 read of the handshake: a timeout step of the model
			s.log = append(s.log, "T "+s.realSide)
		}
		return 0, timeoutErr{}
	}
}

func (s *simConn) SetReadDeadline(t time.Time) error {
	s.deadline = t.Sub(time.Unix(1_700_000_000, 0))
	s.dlen = s.deadline - s.now
	return nil
}
func (s *simConn) Close() error                     { return nil }
func (s *simConn) LocalAddr() net.Addr              { return &net.TCPAddr{} }
func (s *simConn) RemoteAddr() net.Addr             { return &net.TCPAddr{} }
func (s *simConn) SetDeadline(time.Time) error      { return nil }
func (s *simConn) SetWriteDeadline(time.Time) error { return nil }

// ---------------------------------------------------------------------------------------------

func unit(c *vh.Ctx) {
	r := c.Rng
	for i := 0; i < c.N; i++ {
		realMaster := r.Intn(2) == 0
		limit := r.Intn(4)
		peerLimit := r.Intn(4)
		op := []string{"send", "send", "send-contend", "recv"}[r.Intn(4)]
		// A scripted master that contends again and again with a DAMAGED block, more often than the
		// host's retry limit allows: every failed yield counts against the host's budget, so the host
		// gives up after exactly limit+1 line requests.
		yieldFail := i%12 == 0
		if yieldFail {
			realMaster, op, peerLimit = false, "send-contend", 12
		}
		s := &simConn{c: c, t1: 500*time.Millisecond + 7, t2: 10 * time.Second, peerStartAt: -1}
		s.peerT2 = s.t2 + time.Duration(r.Intn(9)-4)*time.Millisecond + 500*time.Microsecond
		switch r.Intn(20) {
		case 0, 1, 2, 3, 4: // fault-free
		case 5, 6, 7, 8, 9, 10, 11:
			s.pFault = [3]int{6, 6, 0}
		case 12, 13, 14, 15, 16:
			s.pFault = [3]int{15, 15, 0}
		case 17, 18:
			s.pFault = [3]int{40, 15, 0}
		default: // mostly garbled: the mutilated-block classes
			s.pFault = [3]int{5, 40, 0}
		}
		if yieldFail {
			s.pFault, s.garblePeerBlocks = [3]int{0, 0, 0}, true
		}
		s.realSide, s.peerSide = "B", "A"
		if realMaster {
			s.realSide, s.peerSide = "A", "B"
		}
		s.peer = &simPeer{master: !realMaster, limit: peerLimit}
		line, err := secs1.VerifNewLine(s, realMaster, s.clock, func() hsms.TimerConfig {
			return hsms.TimerConfig{T1: s.t1, T2: s.t2, T4: 45 * time.Second}
		})
		if err != nil {
			panic(err)
		}
		realTok, peerTok := 100+r.Intn(50), 200+r.Intn(50)
		realBlocks := []int{1, 1, 2, 3}[r.Intn(4)]
		var realTodo, peerTodo []int
		result := ""
		var delivered []int
		deliver := func(b secs1.VerifBlock) {
			delivered = append(delivered, int(b.Header[8])<<8|int(b.Header[9]))
		}
		ctx := context.Background()
		switch op {
		case "send", "send-contend":
			realTodo = []int{realTok}
			if op == "send-contend" {
				peerTodo = []int{peerTok}
				s.peer.todo = []int{peerTok}
				if yieldFail || r.Intn(2) == 0 { // the peer has already written its ENQ: simultaneous request
					s.log = append(s.log, "S "+s.peerSide)
					s.peer.start()
					s.logPeerWrites(0)
					s.holdPeer = true
				} else { // the peer starts some time later, while the real end is busy or waiting
					s.peerStartAt = time.Duration(r.Intn(30000))*time.Millisecond + 250*time.Microsecond
				}
			}
			s.log = append(s.log, "S "+s.realSide)
			// runSend: the blocks of one message, each through sendBlock, stop at the first error
			ec := secs1.VerifOK
			for idx := 0; idx < realBlocks && ec == secs1.VerifOK; idx++ {
				h, b := tokenBlockAt(!realMaster, realTok, idx, idx == realBlocks-1)
				ec = line.SendBlock(ctx, secs1.VerifBlock{Header: h, Body: b}, limit, deliver)
			}
			switch ec {
			case secs1.VerifOK:
				result = "ok"
			case secs1.VerifErrSendFailed:
				result = "failed"
			default:
				result = fmt.Sprintf("err%d", ec)
			}
		case "recv":
			peerTodo = []int{peerTok}
			s.peer.todo = []int{peerTok}
			s.peerStartAt = time.Duration(r.Intn(100))*time.Millisecond + 250*time.Microsecond
			result = "idle"
			// the idle loop of lineEngine: poll one character; ENQ -> EOT, receiveBlock, hand over
			for polls := 0; polls < 4000 && s.peer.ph != phDown && len(s.peer.todo) > 0; polls++ {
				s.polling = true
				b, err := line.PollByte(2 * time.Second)
				s.polling = false
				if err != nil {
					var ne net.Error
					if errors.As(err, &ne) && ne.Timeout() {
						continue
					}
					if s.peer.ph != phDown {
						result = "readerr"
					}
					break
				}
				if b != chENQ {
					continue
				}
				if err := line.PutByte(chEOT); err != nil {
					result = "writeerr"
					break
				}
				blk, ec := line.ReceiveBlock(ctx)
				if ec == secs1.VerifOK {
					deliver(blk)
				}
			}
		}
		m := line.Metrics()
		obs := fmt.Sprintf("%s handed=%d yields=%d sendok=%d failed=%d", result, m.BlockRecvCount(), m.ContentionYieldCount(),
			m.BlockSendCount(), m.BlockSendFailedCount())
		rt := toks(realTodo)
		if len(realTodo) > 0 {
			rt = fmt.Sprintf("%d:%d", realTok, realBlocks)
		}
		lhs := fmt.Sprintf("U %s %d %d %s %s %s", s.realSide, limit, peerLimit, rt, toks(peerTodo), strings.Join(s.log, " ; "))
		lineS := lhs + " | " + obs
		c.Case(lineS, lineS, len(s.log) > 6)
		c.Count("U/" + op + "/" + result)
		if op != "recv" {
			c.Count(fmt.Sprintf("U/blocks=%d", realBlocks))
		}

		// oracle (property on the real code, no model)
		attempts := 0
		for _, e := range s.log {
			if e == "W "+s.realSide+" ENQ" {
				attempts++
			}
		}
		if yieldFail {
			c.Count(fmt.Sprintf("U/yield-fail/limit=%d", limit))
			if attempts != limit+1 || result != "failed" || len(delivered) != 0 || m.BlockSendFailedCount() != 1 {
				c.Fail(fmt.Sprintf("a master contending with damaged blocks: the host requested the line %d times with retry limit %d (want exactly %d), result %s, deliveries %d, BlockSendFailedCount %d",
					attempts, limit, limit+1, result, len(delivered), m.BlockSendFailedCount()), lineS)
			}
		}
		if op != "recv" {
			y := int(m.ContentionYieldCount())
			if realMaster && y != 0 {
				c.Fail("the master yielded to a contending ENQ", lineS)
			}
			if attempts > (limit+1)*(y+realBlocks) {
				c.Fail(fmt.Sprintf("block attempted %d times with retry limit %d and %d yields", attempts, limit, y), lineS)
			}
			if result == "ok" {
				n := 0
				for _, t := range s.peer.deliv {
					if t == realTok {
						n++
					}
				}
				if n != 1 {
					c.Fail(fmt.Sprintf("send returned nil but the peer accepted the block %d times", n), lineS)
				}
			}
			if result != "ok" && result != "failed" {
				c.Fail("sendBlock returned an unexpected error class over a line that only drops and garbles", lineS)
			}
		}
		seen := map[int]int{}
		for _, t := range delivered {
			seen[t]++
			if t != peerTok {
				c.Fail("the real end accepted a block the peer never sent", lineS)
			}
		}
		if len(s.peer.done) > 0 && len(delivered) == 0 {
			c.Fail("the peer's send succeeded but the real end never accepted its block", lineS)
		}
		if s.steps > 20000 {
			c.Fail("simulation did not terminate", lineS)
		}
	}
	_ = os.Stderr
	_ = rand.Int
}

func toks(l []int) string {
	if len(l) == 0 {
		return "-"
	}
	parts := []string{}
	for _, t := range l {
		parts = append(parts, fmt.Sprint(t))
	}
	return strings.Join(parts, ",")
}
