package main

// race: a targeted probe for the window between a failed send (retries exhausted, the core starts
// tearing the generation down) and the line engine noticing it. A scripted E4 master makes the
// real host's send fail during a contention yield (it never transmits after the host's EOT), and
// the moment it sees the host's NAK it sends its own single-block message. If the host still
// answers EOT and ACKs the block while its generation is closing, the master's send has
// succeeded on the line — C18 then requires the host's handler to see the message.

import (
	"context"
	"fmt"
	"net"
	"sync"
	"time"

	"github.com/arloliu/go-secs/v2/hsms"
	"github.com/arloliu/go-secs/v2/logger"
	"github.com/arloliu/go-secs/v2/secs1"

	"verifharness/vh"
)

func raceProbe(c *vh.Ctx) {
	logger.SetLevel(logger.FatalLevel)
	acked, lost := 0, 0
	for i := 0; i < c.N; i++ {
		a, b := net.Pipe()
		handed := false
		cfg, err := secs1.NewConfig("127.0.0.1", 5000, secs1.WithHost(), secs1.WithActive(), secs1.WithDeviceID(7),
			secs1.WithT1(mbT1), secs1.WithT2(mbT2), secs1.WithRetryLimit(0), secs1.WithT5(time.Second),
			secs1.WithConnectionOption(hsms.WithLogger(logger.NewSlog(logger.FatalLevel, false))),
			secs1.WithDialer(func(ctx context.Context, _, _ string) (net.Conn, error) {
				if handed {
					<-ctx.Done()
					return nil, ctx.Err()
				}
				handed = true
				return a, nil
			}))
		if err != nil {
			panic(err)
		}
		conn, err := secs1.New(cfg)
		if err != nil {
			panic(err)
		}
		var mu sync.Mutex
		got := 0
		conn.AddDataMessageHandler(func(msg *hsms.DataMessage, _ hsms.SECS2Endpoint) {
			mu.Lock()
			got++
			mu.Unlock()
		})
		ctx, cancel := context.WithTimeout(context.Background(), 5*time.Second)
		if err := conn.Open(ctx, hsms.OpenWaitSelected); err != nil {
			cancel()
			c.Note("open: " + err.Error())
			continue
		}
		cancel()
		in := make(chan byte, 4096)
		go func() {
			buf := make([]byte, 512)
			for {
				n, err := b.Read(buf)
				for _, x := range buf[:n] {
					in <- x
				}
				if err != nil {
					close(in)
					return
				}
			}
		}()
		read := func(d time.Duration) (byte, bool) {
			select {
			case x, ok := <-in:
				return x, ok
			case <-time.After(d):
				return 0, false
			}
		}
		go func() {
			sctx, scancel := context.WithTimeout(context.Background(), 3*time.Second)
			defer scancel()
			item, _ := tokenItem(c.Rng, 1, 1, true)
			_, _ = conn.SendDataMessage(sctx, 1, 1, false, item)
		}()
		gotAck := false
		if x, ok := read(2 * time.Second); ok && x == chENQ { // the host requests the line
			_, _ = b.Write([]byte{chENQ})                      // contend: the host (slave) yields
			if x, ok := read(time.Second); ok && x == chEOT {  // ... and now waits T2 for our block; stay silent
				if x, ok := read(time.Second); ok && x == chNAK { // T2 expired: its send is failing (retry limit 0)
					_, _ = b.Write([]byte{chENQ})
					if x, ok := read(60 * time.Millisecond); ok && x == chEOT {
						h, body := tokenBlock(false, 4242)
						_ = b.SetWriteDeadline(time.Now().Add(time.Second))
						_, _ = b.Write(wireOf(h, body))
						if x, ok := read(80 * time.Millisecond); ok && x == chACK {
							gotAck = true
						}
					}
				}
			}
		}
		time.Sleep(150 * time.Millisecond)
		mu.Lock()
		n := got
		mu.Unlock()
		if gotAck {
			acked++
			if n == 0 {
				lost++
				c.Fail("a block ACK'd on the line while the receiver's failed send was tearing the link down never reached the handler",
					fmt.Sprintf("race attempt=%d host retry-limit=0: master contends, stays silent after the host's EOT, sends ENQ+block right after the host's NAK; ACK received, handler deliveries=0", i))
			}
		}
		done := make(chan struct{})
		go func() { _ = conn.Close(); close(done) }()
		select {
		case <-done:
		case <-time.After(5 * time.Second):
		}
		_ = b.Close()
	}
	c.Count(fmt.Sprintf("race/acked=%d/lost=%d", acked, lost))
	c.Note(fmt.Sprintf("race probe: %d attempts, %d blocks ACK'd after the failed send, %d of them never delivered", c.N, acked, lost))
}
