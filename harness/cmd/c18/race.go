package main

// race: a targeted probe for the window between a failed send (retries exhausted, the core starts
// tearing the generation down) and the line engine noticing it. A scripted E4 master makes the
// real host's send fail during a contention yield (it never transmits after the host's EOT), and
// the moment it sees the host's NAK it sends its own single-block message. If the host still
// answers EOT and ACKs the block while its generation is closing, the master's send has
// succeeded on the line — C18 then requires the host's handler to see the message.

import (
	"context"
	"errors"
	"fmt"
	"net"
	"sync"
	"time"

	"github.com/arloliu/go-secs/v2/hsms"
	"github.com/arloliu/go-secs/v2/logger"
	"github.com/arloliu/go-secs/v2/secs1"

	"verifharness/vh"
)

func raceProbe(c *vh.Ctx) {
	logger.SetLevel(logger.FatalLevel)
	acked, lost, sentinelBad := 0, 0, 0
	for i := 0; i < c.N; i++ {
		// variant 0: the original single-block schedule (host, failed contention yield).
		// variants 1..: a THREE-block outbound message whose block k (2 or 3 = last) is NAK'd
		// retry-limit+1 times after the earlier blocks were ACK'd; the peer's ENQ + block follow the
		// last NAK at once. Host and equipment in turn.
		variant := i % 5
		equip := variant == 2 || variant == 4
		failAt := 0
		switch variant {
		case 1, 2:
			failAt = 2
		case 3, 4:
			failAt = 3
		}
		limit := 0
		if failAt > 0 && i%2 == 0 {
			limit = 1
		}
		a, b := net.Pipe()
		handed := false
		opts := []secs1.Option{secs1.WithActive(), secs1.WithDeviceID(7),
			secs1.WithT1(mbT1), secs1.WithT2(mbT2), secs1.WithRetryLimit(limit), secs1.WithT5(time.Second),
			secs1.WithConnectionOption(hsms.WithLogger(logger.NewSlog(logger.FatalLevel, false))),
			secs1.WithDialer(func(ctx context.Context, _, _ string) (net.Conn, error) {
				if handed {
					<-ctx.Done()
					return nil, ctx.Err()
				}
				handed = true
				return a, nil
			})}
		if equip {
			opts = append(opts, secs1.WithEquipment())
		} else {
			opts = append(opts, secs1.WithHost())
		}
		cfg, err := secs1.NewConfig("127.0.0.1", 5000, opts...)
		if err != nil {
			panic(err)
		}
		conn, err := secs1.New(cfg)
		if err != nil {
			panic(err)
		}
		var mu sync.Mutex
		got := 0
		conn.AddDataMessageHandler(func(msg *hsms.DataMessage, _ hsms.SECS2Endpoint) {
			mu.Lock()
			got++
			mu.Unlock()
		})
		ctx, cancel := context.WithTimeout(context.Background(), 5*time.Second)
		if err := conn.Open(ctx, hsms.OpenWaitSelected); err != nil {
			cancel()
			c.Note("open: " + err.Error())
			continue
		}
		cancel()
		in := make(chan byte, 8192)
		go func() {
			buf := make([]byte, 1024)
			for {
				n, err := b.Read(buf)
				for _, x := range buf[:n] {
					in <- x
				}
				if err != nil {
					close(in)
					return
				}
			}
		}()
		read := func(d time.Duration) (byte, bool) {
			select {
			case x, ok := <-in:
				return x, ok
			case <-time.After(d):
				return 0, false
			}
		}
		sendRes := make(chan error, 1)
		go func() {
			sctx, scancel := context.WithTimeout(context.Background(), 3*time.Second)
			defer scancel()
			nb := 1
			if failAt > 0 {
				nb = 3
			}
			item, _ := tokenItem(c.Rng, 1, nb, !equip)
			_, err := conn.SendDataMessage(sctx, 1, 1, false, item)
			sendRes <- err
		}()
		// our own block: ENQ, wait for the grant, transmit, wait for ACK
		ownBlock := func() bool {
			if x, ok := read(60 * time.Millisecond); ok && x == chEOT {
				h, body := tokenBlock(equip, 4242)
				_ = b.SetWriteDeadline(time.Now().Add(time.Second))
				_, _ = b.Write(wireOf(h, body))
				if x, ok := read(80 * time.Millisecond); ok && x == chACK {
					return true
				}
			}
			return false
		}
		gotAck := false
		desc := ""
		if failAt == 0 {
			desc = "host retry-limit=0: master contends, stays silent after the host's EOT, sends ENQ+block right after the host's NAK"
			if x, ok := read(2 * time.Second); ok && x == chENQ { // the host requests the line
				_, _ = b.Write([]byte{chENQ})                     // contend: the host (slave) yields
				if x, ok := read(time.Second); ok && x == chEOT { // ... and now waits T2 for our block; stay silent
					if x, ok := read(time.Second); ok && x == chNAK { // T2 expired: its send is failing (retry limit 0)
						_, _ = b.Write([]byte{chENQ})
						gotAck = ownBlock()
					}
				}
			}
		} else {
			desc = fmt.Sprintf("equip=%v retry-limit=%d: blocks before %d of a 3-block message ACK'd, block %d NAK'd %d times, then ENQ+block at once",
				equip, limit, failAt, failAt, limit+1)
			naks := 0
			for blk := 1; naks <= limit; {
				x, ok := read(2 * time.Second)
				if !ok {
					break
				}
				if x != chENQ {
					continue
				}
				_, _ = b.Write([]byte{chEOT})
				lb, ok := read(time.Second)
				if !ok {
					break
				}
				for k := 0; k < int(lb)+2; k++ {
					if _, ok := read(time.Second); !ok {
						break
					}
				}
				if blk < failAt {
					_, _ = b.Write([]byte{chACK})
					blk++
					continue
				}
				naks++
				if naks <= limit {
					_, _ = b.Write([]byte{chNAK})
					continue
				}
				_, _ = b.Write([]byte{chNAK, chENQ}) // the last NAK and our own request, back to back
				gotAck = ownBlock()
			}
		}
		var sendErr error
		select {
		case sendErr = <-sendRes:
		case <-time.After(4 * time.Second):
			sendErr = context.DeadlineExceeded
		}
		time.Sleep(150 * time.Millisecond)
		mu.Lock()
		n := got
		mu.Unlock()
		c.Count(fmt.Sprintf("race/variant=%d", variant))
		if gotAck {
			acked++
			if n == 0 {
				lost++
				c.Fail("a block ACK'd on the line while the receiver's failed send was tearing the link down never reached the handler",
					fmt.Sprintf("race attempt=%d %s; ACK received, handler deliveries=0", i, desc))
			}
		}
		if sendErr == nil || !errors.Is(sendErr, secs1.ErrSendFailed) {
			sentinelBad++
			c.Fail("the error of a send whose retries were exhausted does not satisfy errors.Is(err, secs1.ErrSendFailed)",
				fmt.Sprintf("race attempt=%d %s; error: %v", i, desc, sendErr))
		}
		done := make(chan struct{})
		go func() { _ = conn.Close(); close(done) }()
		select {
		case <-done:
		case <-time.After(5 * time.Second):
		}
		_ = b.Close()
	}
	c.Count(fmt.Sprintf("race/acked=%d/lost=%d", acked, lost))
	c.Note(fmt.Sprintf("race probe: %d attempts, %d blocks ACK'd after the failed send, %d of them never delivered, %d send errors without the ErrSendFailed sentinel",
		c.N, acked, lost, sentinelBad))
}
