package main

// E2E for C18: two REAL secs1 endpoints — equipment (master, passive) and host (slave, active) —
// joined by a fault-injecting middlebox over net.Pipe, in real time (T1 = 30 ms, T2 = 100 ms,
// retry limit 0..3, messages of 1..3 blocks, simultaneous sends from both ends). The middlebox
// drops or garbles handshake characters and drops, truncates or corrupts block transmissions —
// only in ways SEMI E4 is guaranteed to detect. Send results and handler deliveries (payload
// tokens, bodies) are judged by the oracle below and, through the case file, by the extracted
// monitor ok_dir: every message whose send returned nil is delivered exactly once and intact,
// deliveries keep the send order, nothing is delivered twice or altered.

import (
	"context"
	"errors"
	"fmt"
	"math/rand"
	"net"
	"os"
	"sort"
	"strings"
	"sync"
	"time"

	"github.com/arloliu/go-secs/v2/hsms"
	"github.com/arloliu/go-secs/v2/logger"
	"github.com/arloliu/go-secs/v2/secs1"
	"github.com/arloliu/go-secs/v2/secs2"

	"verifharness/vh"
)

const (
	mbT1 = 30 * time.Millisecond
	mbT2 = 100 * time.Millisecond
)

type mbListener struct {
	ch     chan net.Conn
	closed chan struct{}
	once   sync.Once
}

func (l *mbListener) Accept() (net.Conn, error) {
	select {
	case c := <-l.ch:
		return c, nil
	case <-l.closed:
		return nil, errors.New("listener closed")
	}
}
func (l *mbListener) Close() error   { l.once.Do(func() { close(l.closed) }); return nil }
func (l *mbListener) Addr() net.Addr { return &net.TCPAddr{IP: net.IPv4(127, 0, 0, 1), Port: 5000} }

// middlebox relays between the two ends and injects faults while `on` is set.
type middlebox struct {
	mu      sync.Mutex
	rng     *rand.Rand
	pct     int // per-transmission fault probability in percent
	on      bool
	cur     *mbListener
	faults  map[string]int
	gens    int
	allConn []net.Conn
}

func (m *middlebox) decide(isBlock bool, data []byte) ([]byte, string) {
	m.mu.Lock()
	defer m.mu.Unlock()
	if !m.on || m.rng.Intn(100) >= m.pct {
		return data, ""
	}
	out := append([]byte(nil), data...)
	// Length character lowered to just before an embedded "ENQ + valid block", the rest of the
	// transmission following in a second burst (well within T1). E4 7.8.5: the receiver rejects the
	// short frame and listens the line silent, so the tail is swallowed and the block retransmitted.
	if isBlock && m.rng.Intn(2) == 0 {
		if at := embeddedAt(out); at > 0 {
			out[0] = byte(at - 3)
			m.faults["block-length-down+tail"]++
			return out, fmt.Sprintf("split%d", at)
		}
	}
	if !isBlock {
		if m.rng.Intn(2) == 0 {
			m.faults["char-drop"]++
			return nil, "drop"
		}
		for {
			b := byte(m.rng.Intn(256))
			if b != chENQ && b != chEOT && b != chACK && b != chNAK {
				out[0] = b
				break
			}
		}
		m.faults["char-garble"]++
		return out, "garble"
	}
	switch m.rng.Intn(5) {
	case 0:
		m.faults["block-drop"]++
		return nil, "drop"
	case 1:
		m.faults["block-truncate"]++
		return out[:1+m.rng.Intn(len(out)-1)], "truncate"
	case 2: // the length character may only grow (a smaller one is not guaranteed to be detected)
		if int(out[0]) < 254 {
			out[0] = byte(int(out[0]) + 1 + m.rng.Intn(254-int(out[0])))
			m.faults["block-length-up"]++
			return out, "length"
		}
		fallthrough
	default:
		i := 1 + m.rng.Intn(len(out)-1)
		out[i] += byte(1 + m.rng.Intn(255))
		m.faults["block-corrupt"]++
		return out, "corrupt"
	}
}

func (m *middlebox) relay(src, dst net.Conn) {
	buf := make([]byte, 8192)
	for {
		n, err := src.Read(buf)
		if n > 0 {
			data := append([]byte(nil), buf[:n]...)
			out, how := m.decide(n > 1, data)
			parts := [][]byte{out}
			if strings.HasPrefix(how, "split") {
				var at int
				_, _ = fmt.Sscanf(how, "split%d", &at)
				parts = [][]byte{out[:at], out[at:]} // two bursts: the second one waits for the reader
			}
			for _, part := range parts {
				if len(part) == 0 {
					continue
				}
				_ = dst.SetWriteDeadline(time.Now().Add(3 * time.Second))
				if _, werr := dst.Write(part); werr != nil {
					_ = src.Close()
					_ = dst.Close()
					return
				}
			}
		}
		if err != nil {
			_ = dst.Close()
			return
		}
	}
}

type e2eEnd struct {
	conn      secs1.Connection
	mu        sync.Mutex
	delivered []int          // tokens in delivery order
	bodies    map[int][]byte // first delivered body per token
	dupBody   bool
}

// e2ePhantomTok is the payload token of a block that is never sent: it only exists as bytes inside
// the first block of every test message, right after an ENQ.
const e2ePhantomTok = 7777

// phantomWire is a complete, checksum-valid single-block message (device 7, S1F1) addressed like the
// carrier (toEquip), whose body is a test payload with the phantom token.
func phantomWire(toEquip bool) []byte {
	var h [10]byte
	h[1] = 7
	if !toEquip {
		h[0] = 0x80
	}
	h[2], h[3] = 1, 1
	h[4], h[5] = 0x80, 1
	h[6], h[7], h[8], h[9] = 0x50, 0x48, 0x41, 0x4E
	return wireOf(h, []byte{0x21, 0x04, 0xC1, 0x8E, byte(e2ePhantomTok >> 8), byte(e2ePhantomTok & 0xFF)})
}

// tokenItem: a binary item [C1 8E token][FF FF][ENQ][phantom block][random...]: a length character
// lowered to just before the ENQ gives a frame with a legal length and a failing checksum (FF FF),
// after which "ENQ, <valid block>" follows on the line.
func tokenItem(r *rand.Rand, tok, blocks int, toEquip bool) (secs2.Item, []byte) {
	n := []int{60, 300, 600}[blocks-1]
	vals := make([]any, n)
	raw := make([]byte, n)
	raw[0], raw[1], raw[2], raw[3] = 0xC1, 0x8E, byte(tok>>8), byte(tok)
	raw[4], raw[5], raw[6] = 0xFF, 0xFF, chENQ
	pw := phantomWire(toEquip)
	copy(raw[7:], pw)
	for i := 7 + len(pw); i < n; i++ {
		raw[i] = byte(r.Intn(256))
	}
	for i, v := range raw {
		vals[i] = v
	}
	it := secs2.NewBinaryItem(vals...)
	return it, it.ToBytes()
}

func (e *e2eEnd) handler(msg *hsms.DataMessage, _ hsms.SECS2Endpoint) {
	body := msg.AppendBodyTo(nil)
	// our payloads: B item, magic C1 8E, token
	off := -1
	switch {
	case len(body) >= 6 && body[0] == 0x21:
		off = 2
	case len(body) >= 7 && body[0] == 0x22:
		off = 3
	}
	if off < 0 || body[off] != 0xC1 || body[off+1] != 0x8E {
		return // an S9Fx notice or anything else that is not a test payload
	}
	tok := int(body[off+2])<<8 | int(body[off+3])
	e.mu.Lock()
	e.delivered = append(e.delivered, tok)
	if _, ok := e.bodies[tok]; !ok {
		e.bodies[tok] = body
	}
	e.mu.Unlock()
}

type sendRec struct {
	tok  int
	ok   bool
	body []byte
}

func waitSelected(c hsms.Connection, d time.Duration) bool {
	deadline := time.Now().Add(d)
	for time.Now().Before(deadline) {
		if c.State() == hsms.SelectedState {
			return true
		}
		time.Sleep(2 * time.Millisecond)
	}
	return false
}

func e2eSession(c *vh.Ctx, idx int) {
	r := c.Rng
	limit := r.Intn(4)
	pct := []int{0, 4, 8, 15}[r.Intn(4)]
	mb := &middlebox{rng: rand.New(rand.NewSource(r.Int63())), pct: pct, on: true, faults: map[string]int{}}

	listen := func(context.Context, string, string) (net.Listener, error) {
		l := &mbListener{ch: make(chan net.Conn, 4), closed: make(chan struct{})}
		mb.mu.Lock()
		mb.cur = l
		mb.mu.Unlock()
		return l, nil
	}
	dial := func(ctx context.Context, _, _ string) (net.Conn, error) {
		for {
			mb.mu.Lock()
			l := mb.cur
			mb.mu.Unlock()
			if l != nil {
				select {
				case <-l.closed:
				default:
					hostEnd, mbH := net.Pipe()
					mbE, equipEnd := net.Pipe()
					mb.mu.Lock()
					mb.gens++
					mb.allConn = append(mb.allConn, hostEnd, mbH, mbE, equipEnd)
					mb.mu.Unlock()
					go mb.relay(mbH, mbE)
					go mb.relay(mbE, mbH)
					select {
					case l.ch <- equipEnd:
						return hostEnd, nil
					case <-l.closed:
					case <-ctx.Done():
						return nil, ctx.Err()
					}
				}
			}
			select {
			case <-ctx.Done():
				return nil, ctx.Err()
			case <-time.After(5 * time.Millisecond):
			}
		}
	}
	common := []secs1.Option{secs1.WithDeviceID(7), secs1.WithT1(mbT1), secs1.WithT2(mbT2), secs1.WithT4(3 * time.Second),
		secs1.WithRetryLimit(limit), secs1.WithT5(100 * time.Millisecond),
		secs1.WithConnectionOption(hsms.WithReconnectBackoff(20*time.Millisecond, 1.5)),
		secs1.WithConnectionOption(hsms.WithCloseTimeout(2 * time.Second)),
		secs1.WithConnectionOption(hsms.WithLogger(logger.NewSlog(logger.FatalLevel, false)))}
	mk := func(opts ...secs1.Option) (*e2eEnd, error) {
		cfg, err := secs1.NewConfig("127.0.0.1", 5000, append(append([]secs1.Option{}, common...), opts...)...)
		if err != nil {
			return nil, err
		}
		conn, err := secs1.New(cfg)
		if err != nil {
			return nil, err
		}
		e := &e2eEnd{conn: conn, bodies: map[int][]byte{}}
		conn.AddDataMessageHandler(e.handler)
		return e, nil
	}
	equip, err := mk(secs1.WithEquipment(), secs1.WithPassive(), secs1.WithListener(listen))
	if err != nil {
		c.Fail("cannot build the equipment endpoint", err.Error())
		return
	}
	host, err := mk(secs1.WithHost(), secs1.WithActive(), secs1.WithDialer(dial))
	if err != nil {
		c.Fail("cannot build the host endpoint", err.Error())
		return
	}
	cleanup := func() {
		done := make(chan struct{})
		go func() { _ = host.conn.Close(); _ = equip.conn.Close(); close(done) }()
		select {
		case <-done:
		case <-time.After(8 * time.Second):
		}
		mb.mu.Lock()
		for _, x := range mb.allConn {
			_ = x.Close()
		}
		mb.mu.Unlock()
	}
	defer cleanup()
	octx, ocancel := context.WithTimeout(context.Background(), 10*time.Second)
	if err := equip.conn.Open(octx, hsms.OpenBackground); err != nil {
		ocancel()
		c.Fail("equipment Open failed", err.Error())
		return
	}
	if err := host.conn.Open(octx, hsms.OpenBackground); err != nil {
		ocancel()
		c.Fail("host Open failed", err.Error())
		return
	}
	ocancel()
	if !waitSelected(host.conn, 5*time.Second) || !waitSelected(equip.conn, 5*time.Second) {
		c.Fail("endpoints never reached Selected through the middlebox", fmt.Sprintf("limit=%d pct=%d", limit, pct))
		return
	}

	// both directions send concurrently; the first sends of both ends start at the same instant
	k := 2 + r.Intn(3)
	type plan struct {
		tok, blocks int
		pause       time.Duration
		item        secs2.Item
		body        []byte
	}
	mkPlan := func(base int, toEquip bool) []plan {
		var ps []plan
		for i := 0; i < k; i++ {
			p := plan{tok: base + i, blocks: 1 + r.Intn(3), pause: time.Duration(r.Intn(15)) * time.Millisecond}
			p.item, p.body = tokenItem(r, p.tok, p.blocks, toEquip)
			ps = append(ps, p)
		}
		return ps
	}
	planE, planH := mkPlan(1000, false), mkPlan(2000, true) // tokens are per session: fresh endpoints, fresh logs
	start := make(chan struct{})
	var wg sync.WaitGroup
	run := func(e *e2eEnd, ps []plan, out *[]sendRec) {
		defer wg.Done()
		<-start
		for _, p := range ps {
			ctx, cancel := context.WithTimeout(context.Background(), 6*time.Second)
			_, err := e.conn.SendDataMessage(ctx, 1, 1, false, p.item)
			cancel()
			*out = append(*out, sendRec{tok: p.tok, ok: err == nil, body: p.body})
			time.Sleep(p.pause)
			if err != nil { // the link is being re-established: give it a moment, then go on regardless
				waitSelected(e.conn, 400*time.Millisecond)
			}
		}
	}
	var sentE, sentH []sendRec
	wg.Add(2)
	go run(equip, planE, &sentE)
	go run(host, planH, &sentH)
	close(start)
	wg.Wait()

	// quiesce: faults off, link up, then one sentinel each way; once it is delivered every earlier
	// delivery of that direction has happened
	mb.mu.Lock()
	mb.on = false
	mb.mu.Unlock()
	sentinel := func(from, to *e2eEnd, tok int) bool {
		item, _ := tokenItem(r, tok, 1, to == equip)
		for try := 0; try < 40; try++ {
			if !waitSelected(from.conn, 3*time.Second) || !waitSelected(to.conn, 3*time.Second) {
				continue
			}
			ctx, cancel := context.WithTimeout(context.Background(), 3*time.Second)
			_, err := from.conn.SendDataMessage(ctx, 1, 1, false, item)
			cancel()
			if err != nil {
				time.Sleep(30 * time.Millisecond)
				continue
			}
			for w := 0; w < 400; w++ {
				to.mu.Lock()
				n := len(to.delivered)
				got := n > 0 && to.delivered[n-1] == tok
				to.mu.Unlock()
				if got {
					return true
				}
				time.Sleep(5 * time.Millisecond)
			}
			tok++ // never reuse a token whose fate is unknown
			item, _ = tokenItem(r, tok, 1, to == equip)
		}
		return false
	}
	okE := sentinel(equip, host, 9000)
	okH := sentinel(host, equip, 9500)
	if !okE || !okH {
		c.Fail("the link did not recover after the faults stopped (sentinel never delivered)", fmt.Sprintf("limit=%d pct=%d equip->host=%v host->equip=%v", limit, pct, okE, okH))
		return
	}
	for name, n := range mb.faults {
		c.Sum.Histogram["M/fault="+name] += n
	}
	c.Count(fmt.Sprintf("M/limit=%d", limit))
	c.Count(fmt.Sprintf("M/generations=%d", min(mb.gens, 4)))

	judge := func(dir string, sent []sendRec, to *e2eEnd) {
		to.mu.Lock()
		var deliv []int
		for _, t := range to.delivered {
			if t < 9000 {
				deliv = append(deliv, t)
			}
		}
		bodies := to.bodies
		to.mu.Unlock()
		var sp, dp []string
		nOK := 0
		for _, s := range sent {
			sp = append(sp, fmt.Sprintf("%d:%s", s.tok, vh.B01(s.ok)))
			if s.ok {
				nOK++
			}
		}
		for _, t := range deliv {
			dp = append(dp, fmt.Sprint(t))
		}
		ds := "-"
		if len(dp) > 0 {
			ds = strings.Join(dp, ",")
		}
		line := fmt.Sprintf("M %s | %s", strings.Join(sp, ","), ds)
		ctxs := fmt.Sprintf("%s limit=%d pct=%d gens=%d %s", dir, limit, pct, mb.gens, line)
		before := len(c.Sum.OracleFailures)
		defer func() {
			// logs the oracle already rejected are reported as its failure (with the session's
			// context for the known-findings match), not a second time through the monitor
			if len(c.Sum.OracleFailures) == before {
				c.Case(line, fmt.Sprintf("%d/%s", idx, line), true)
			}
		}()
		c.Count(fmt.Sprintf("M/%s/ok=%d/of=%d", dir, nOK, len(sent)))
		// oracle
		cnt := map[int]int{}
		for _, t := range deliv {
			cnt[t]++
		}
		pos := map[int]int{}
		for i, s := range sent {
			pos[s.tok] = i
			if s.ok && cnt[s.tok] != 1 {
				c.Fail(fmt.Sprintf("a message whose send returned nil was delivered %d times", cnt[s.tok]), ctxs)
			}
			if cnt[s.tok] > 1 {
				c.Fail("a message was delivered twice", ctxs)
			}
			if b, ok := bodies[s.tok]; ok && string(b) != string(s.body) {
				c.Fail("a delivered message body differs from the body sent", ctxs)
			}
		}
		last := -1
		for _, t := range deliv {
			p, known := pos[t]
			if !known {
				c.Fail("a message was delivered that was never sent", ctxs)
				continue
			}
			if p < last {
				c.Fail("messages were delivered out of the order sent", ctxs)
			}
			last = p
		}
	}
	judge("equip->host", sentE, host)
	judge("host->equip", sentH, equip)

	// retry bound on the real counters: per block sent, at most limit+1 attempts between yields
	me, mh := equip.conn.BlockMetrics(), host.conn.BlockMetrics()
	if me.ContentionYieldCount() != 0 {
		c.Fail("the equipment (master) yielded to a contending ENQ", fmt.Sprintf("yields=%d", me.ContentionYieldCount()))
	}
	_ = mh
	_ = sort.Ints
}

func e2e(c *vh.Ctx) {
	logger.SetLevel(logger.FatalLevel)
	for i := 0; i < c.N; i++ {
		t0 := time.Now()
		e2eSession(c, i)
		if d := time.Since(t0); d > 5*time.Second {
			c.Count("M/slow-session")
			fmt.Fprintf(os.Stderr, "slow session %d: %v\n", i, d)
		}
	}
}
