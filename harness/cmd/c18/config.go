package main

// config: the values given to the PUBLIC configuration API (NewConfig(..., WithRetryLimit(k),
// WithT1, WithT2, ...) -> New) must be the ones the line engine uses. A real connection (host and
// equipment in turn) sends one single-block message to a scripted E4 peer that either NAKs every
// block or never grants the line; the peer counts ENQs and block transmissions — exactly k+1 each
// for retry limit k in {0, 1, 3, 5} —, measures the spacing of the ENQs (>= the configured T2,
// exact lower bound) and, for T1, the delay of the NAK after a truncated block it sends itself
// (>= the configured T1). After the k+1 attempts the send call fails and the connection
// re-establishes the link (it dials again). The counts are also replayed in the extracted model
// (case lines K).

import (
	"context"
	"fmt"
	"net"
	"sync"
	"time"

	"github.com/arloliu/go-secs/v2/hsms"
	"github.com/arloliu/go-secs/v2/logger"
	"github.com/arloliu/go-secs/v2/secs1"

	"verifharness/vh"
)

type cfgPeer struct {
	conn net.Conn
	in   chan byte
}

func newCfgPeer(conn net.Conn) *cfgPeer {
	p := &cfgPeer{conn: conn, in: make(chan byte, 1<<14)}
	go func() {
		buf := make([]byte, 1024)
		for {
			n, err := conn.Read(buf)
			for _, b := range buf[:n] {
				p.in <- b
			}
			if err != nil {
				close(p.in)
				return
			}
		}
	}()
	return p
}

func (p *cfgPeer) read(d time.Duration) (byte, bool) {
	select {
	case b, ok := <-p.in:
		return b, ok
	case <-time.After(d):
		return 0, false
	}
}

func (p *cfgPeer) write(b ...byte) {
	_ = p.conn.SetWriteDeadline(time.Now().Add(2 * time.Second))
	_, _ = p.conn.Write(b)
}

func configPass(c *vh.Ctx) {
	logger.SetLevel(logger.FatalLevel)
	type knob struct {
		k      int
		t1, t2 time.Duration
	}
	knobs := []knob{{0, 40 * time.Millisecond, 60 * time.Millisecond}, {1, 90 * time.Millisecond, 110 * time.Millisecond},
		{3, 40 * time.Millisecond, 50 * time.Millisecond}, {5, 60 * time.Millisecond, 40 * time.Millisecond}}
	idx := 0
	for _, kb := range knobs {
		for _, scenario := range []string{"nak-all", "never-grant"} {
			idx++
			equip := idx%2 == 0
			dials := make(chan net.Conn, 8)
			var mu sync.Mutex
			nDials := 0
			opts := []secs1.Option{secs1.WithActive(), secs1.WithDeviceID(3), secs1.WithT1(kb.t1), secs1.WithT2(kb.t2),
				secs1.WithRetryLimit(kb.k), secs1.WithT5(100 * time.Millisecond),
				secs1.WithConnectionOption(hsms.WithReconnectBackoff(20*time.Millisecond, 1.5)),
				secs1.WithConnectionOption(hsms.WithLogger(logger.NewSlog(logger.FatalLevel, false))),
				secs1.WithDialer(func(ctx context.Context, _, _ string) (net.Conn, error) {
					a, b := net.Pipe()
					mu.Lock()
					nDials++
					mu.Unlock()
					select {
					case dials <- b:
						return a, nil
					case <-ctx.Done():
						return nil, ctx.Err()
					}
				})}
			if equip {
				opts = append(opts, secs1.WithEquipment())
			} else {
				opts = append(opts, secs1.WithHost())
			}
			cfg, err := secs1.NewConfig("127.0.0.1", 5000, opts...)
			if err != nil {
				c.Fail("NewConfig refused a legal configuration", fmt.Sprintf("k=%d: %v", kb.k, err))
				continue
			}
			ctxs := fmt.Sprintf("config scenario=%s equip=%v RetryLimit=%d T1=%v T2=%v", scenario, equip, kb.k, kb.t1, kb.t2)
			if cfg.RetryLimit() != kb.k || cfg.T1() != kb.t1 || cfg.T2() != kb.t2 {
				c.Fail("Config accessors do not return the configured values", ctxs)
			}
			conn, err := secs1.New(cfg)
			if err != nil {
				c.Fail("secs1.New failed", ctxs)
				continue
			}
			octx, cancel := context.WithTimeout(context.Background(), 5*time.Second)
			err = conn.Open(octx, hsms.OpenWaitSelected)
			cancel()
			if err != nil {
				c.Fail("Open failed", ctxs)
				continue
			}
			p := newCfgPeer(<-dials)

			// T1 as configured: a truncated block of ours is NAK'd no earlier than T1 after its last character
			p.write(chENQ)
			if b, ok := p.read(time.Second); !ok || b != chEOT {
				c.Fail("the connection did not grant the line", ctxs)
			} else {
				h, body := tokenBlockAt(equip, 50, 0, true)
				w := wireOf(h, body)
				p.write(w[:6]...)
				t0 := time.Now()
				b, ok := p.read(2 * time.Second)
				d := time.Since(t0)
				if !ok || b != chNAK {
					c.Fail("a truncated block was not NAK'd", ctxs)
				} else if d < kb.t1 || d > kb.t1+time.Second {
					c.Fail(fmt.Sprintf("the NAK after a truncated block came after %v: not the configured T1", d), ctxs)
				}
			}

			// RetryLimit and T2 as configured
			res := make(chan error, 1)
			go func() {
				sctx, scancel := context.WithTimeout(context.Background(), 10*time.Second)
				defer scancel()
				item, _ := tokenItem(c.Rng, 1, 1, !equip)
				_, err := conn.SendDataMessage(sctx, 1, 1, false, item)
				res <- err
			}()
			enqs, blocks := 0, 0
			var enqAt []time.Time
			var sendErr error
			returned := false
			for deadline := time.Now().Add(8 * time.Second); time.Now().Before(deadline) && !returned; {
				select {
				case sendErr = <-res:
					returned = true
					continue
				default:
				}
				b, ok := p.read(10 * time.Millisecond)
				if !ok {
					continue
				}
				if b != chENQ {
					continue
				}
				enqs++
				enqAt = append(enqAt, time.Now())
				if scenario == "never-grant" {
					continue
				}
				p.write(chEOT)
				lb, ok := p.read(time.Second)
				if !ok {
					continue
				}
				for i := 0; i < int(lb)+2; i++ {
					if _, ok := p.read(time.Second); !ok {
						break
					}
				}
				blocks++
				p.write(chNAK)
			}
			// late characters of the failing transaction
			for {
				b, ok := p.read(50 * time.Millisecond)
				if !ok {
					break
				}
				if b == chENQ {
					enqs++
				}
			}
			line := fmt.Sprintf("K %s %d | %d %d %s", scenario, kb.k, enqs, blocks, vh.B01(returned && sendErr != nil))
			c.Case(line, line+ctxs, true)
			c.Count("K/" + scenario)
			if !returned || sendErr == nil {
				c.Fail("the send did not fail although the peer never accepted the block", ctxs)
			}
			if enqs != kb.k+1 {
				c.Fail(fmt.Sprintf("the block was attempted %d times (ENQs), the configured retry limit allows exactly %d", enqs, kb.k+1), ctxs)
			}
			if scenario == "nak-all" && blocks != kb.k+1 {
				c.Fail(fmt.Sprintf("the block was transmitted %d times, the configured retry limit allows exactly %d", blocks, kb.k+1), ctxs)
			}
			if scenario == "never-grant" {
				for i := 1; i < len(enqAt); i++ {
					if gap := enqAt[i].Sub(enqAt[i-1]); gap < kb.t2-12*time.Millisecond || gap > kb.t2+time.Second {
						c.Fail(fmt.Sprintf("consecutive ENQs %v apart: not the configured T2", gap), ctxs)
					}
				}
			}
			// the link is re-established: the connection dials again
			redialed := false
			for deadline := time.Now().Add(5 * time.Second); time.Now().Before(deadline) && !redialed; {
				mu.Lock()
				redialed = nDials >= 2
				mu.Unlock()
				time.Sleep(5 * time.Millisecond)
			}
			if !redialed {
				c.Fail("the link was not re-established after the failed send", ctxs)
			}
			done := make(chan struct{})
			go func() { _ = conn.Close(); close(done) }()
			select {
			case <-done:
			case <-time.After(5 * time.Second):
			}
			_ = p.conn.Close()
		}
	}
}
