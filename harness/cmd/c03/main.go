// Harness for C03: runs the real HSMS message constructors, serialisers, frame-buffer builder,
// decoders and re-stampers on generated inputs and records input + observed behaviour for the
// Coq model (one case per line), plus an implementation-level oracle (the property itself, no
// model). Pass `-pass wire` for the on-the-wire half: what a real hsmsss connection writes to a
// raw net.Pipe peer.
package main

import (
	"bytes"
	"encoding/binary"
	"flag"
	"fmt"
	"strings"

	"github.com/arloliu/go-secs/v2/hsms"
	"github.com/arloliu/go-secs/v2/secs2"

	"verifharness/fr"
	"verifharness/vh"
)

var pass = flag.String("pass", "pure", "pure | wire | big")

type dataIn struct {
	stream, fn byte
	w          bool
	sid        uint16
	sb         [4]byte
	kind       byte // 'N' nil, 'O' ok, 'E' errored
	item       secs2.Item
}

func (d dataIn) bodyBytes() []byte {
	if d.kind == 'O' {
		return d.item.ToBytes()
	}
	return nil
}

func (d dataIn) lhs() string {
	return fmt.Sprintf("D %d %d %s %d %s %c %s", d.stream, d.fn, vh.B01(d.w), d.sid, fr.SB(d.sb), d.kind, fr.Hex(d.bodyBytes()))
}

// e37Header is the header the standard prescribes, written independently of the library.
func e37Header(d dataIn) [10]byte {
	var h [10]byte
	h[0] = byte(d.sid >> 8)
	h[1] = byte(d.sid & 0xff)
	h[2] = d.stream
	if d.w {
		h[2] += 128
	}
	h[3] = d.fn
	copy(h[6:], d.sb[:])
	return h
}

func runData(c *vh.Ctx, d dataIn) *hsms.DataMessage {
	var it secs2.Item
	if d.kind != 'N' {
		it = d.item
	}
	m, err := hsms.NewDataMessage(d.stream, d.fn, d.w, d.sid, d.sb, it)
	lhs := d.lhs()
	wantErr := d.stream > 127 || d.kind == 'E' || (d.w && d.fn%2 == 0)
	if (err != nil) != wantErr {
		c.Fail(fmt.Sprintf("construction validation: err=%v but invalid-combination=%v", err != nil, wantErr), lhs)
	}
	if err != nil {
		line := lhs + " | E " + fr.ConsErr(err)
		c.Case(line, line, true)
		c.Count("D/err=" + fr.ConsErr(err))
		return nil
	}
	frame := m.ToBytes()
	bufs := hsms.VerifFrameBuffers(m)
	hb := m.HeaderBytes()
	dec, derr := hsms.DecodeHSMSMessage(frame)
	rs := "-"
	if derr == nil {
		rs = fr.Hex(dec.ToBytes())
	}
	line := fmt.Sprintf("%s | OK %s %s | %d %d %d %s %d %d %s | %s | %s", lhs, fr.Hex(frame), fr.Bufs(bufs),
		m.Type(), m.Stream(), m.Function(), vh.B01(m.WaitBit()), m.SessionID(), m.ID(), fr.Hex(hb[:]),
		fr.RenderDecode(dec, derr), rs)
	c.Case(line, line, true)
	c.Count(fmt.Sprintf("D/ok/kind=%c/bodylen<%d", d.kind, bucket(len(frame)-14)))

	// ---- implementation-level oracle ----
	body := d.bodyBytes()
	want := make([]byte, 0, 14+len(body))
	want = binary.BigEndian.AppendUint32(want, uint32(10+len(body)))
	eh := e37Header(d)
	want = append(want, eh[:]...)
	want = append(want, body...)
	if !bytes.Equal(frame, want) {
		c.Fail("ToBytes differs from the E37 frame (length prefix, header field offsets, body)", line)
	}
	if cat := bytes.Join(bufs, nil); !bytes.Equal(cat, frame) {
		c.Fail("buildFrameBuffers concatenation differs from ToBytes", line)
	}
	if derr != nil {
		c.Fail("DecodeHSMSMessage rejects the frame ToBytes produced: class "+fr.DecErr(derr)+fmt.Sprintf(" bodylen=%d", len(body)), sizeCase(lhs, len(body)))
	} else {
		dd, ok := dec.ToDataMessage()
		if !ok || dd.HeaderBytes() != hb || !m.Equal(dd) || !bytes.Equal(dd.AppendBodyTo(nil), body) {
			c.Fail("decoded message differs from the original (header / body / Equal)", line)
		}
		if !bytes.Equal(dec.ToBytes(), frame) {
			c.Fail("re-serialising the decoded message does not reproduce the frame", line)
		}
	}
	if mb, e := m.Codec().MarshalBinary(); e != nil || !bytes.Equal(mb, frame) {
		c.Fail("Codec().MarshalBinary differs from ToBytes", line)
	}
	if derr == nil {
		var cd hsms.DataMessageCodec
		if e := cd.UnmarshalBinary(frame); e != nil || cd.Message == nil || cd.HeaderBytes() != hb || !bytes.Equal(cd.ToBytes(), frame) {
			c.Fail("DataMessageCodec.UnmarshalBinary does not reproduce the message", line)
		}
	}
	if m.Stream() != d.stream || m.Function() != d.fn || m.WaitBit() != d.w || m.SessionID() != d.sid || m.SystemBytes() != d.sb ||
		m.ID() != binary.BigEndian.Uint32(d.sb[:]) || m.BodyLen() != len(body) {
		c.Fail("accessors do not read back the constructor arguments", line)
	}
	return m
}

// sizeCase keeps the case text of an oversize failure short and recognisable.
func sizeCase(lhs string, n int) string {
	if n > 1<<20 {
		f := strings.Fields(lhs)
		return strings.Join(f[:10], " ") + fmt.Sprintf(" bodylen=%d", n)
	}
	return lhs
}

func bucket(n int) int {
	for _, b := range []int{1, 16, 256, 4096, 65536, 1 << 20} {
		if n < b {
			return b
		}
	}
	return 1 << 30
}

func randData(c *vh.Ctx) dataIn {
	r := c.Rng
	d := dataIn{}
	switch r.Intn(5) {
	case 0:
		d.stream = []byte{0, 1, 126, 127, 128, 129, 254, 255}[r.Intn(8)]
	case 1:
		d.stream = byte(r.Intn(256))
	default:
		d.stream = byte(r.Intn(128))
	}
	d.fn = byte(r.Intn(256))
	d.w = r.Intn(2) == 0
	if d.w && r.Intn(4) != 0 {
		d.fn |= 1
	}
	switch r.Intn(3) {
	case 0:
		d.sid = []uint16{0, 1, 255, 256, 0x7fff, 0x8000, 0xff00, 0x00ff, 0xffff}[r.Intn(9)]
	default:
		d.sid = uint16(r.Intn(65536))
	}
	if r.Intn(4) == 0 {
		binary.BigEndian.PutUint32(d.sb[:], []uint32{0, 1, 255, 256, 0x01020304, 0x80000000, 0xffffffff, 0xff000000}[r.Intn(8)])
	} else {
		binary.BigEndian.PutUint32(d.sb[:], r.Uint32())
	}
	switch k := r.Intn(10); {
	case k == 0:
		d.kind = 'N'
	case k == 1:
		d.kind, d.item = 'E', fr.ErrItem(r)
	default:
		d.kind, d.item = 'O', fr.RandItem(r, 3)
	}
	return d
}

// ---- control factories ----

func ctrlLine(c *vh.Ctx, lhs string, m *hsms.ControlMessage, err error, wantHdr *[10]byte) {
	if err != nil || m == nil {
		line := lhs + " | ERR"
		c.Case(line, line, true)
		c.Count("C/err")
		return
	}
	frame := m.ToBytes()
	bufs := hsms.VerifFrameBuffers(m)
	dec, derr := hsms.DecodeHSMSMessage(frame)
	rs := "-"
	if derr == nil {
		rs = fr.Hex(dec.ToBytes())
	}
	line := fmt.Sprintf("%s | OK %s %s %d %s | %s | %s", lhs, fr.Hex(frame), vh.B01(m.WaitBit()), m.Type(), fr.Bufs(bufs), fr.RenderDecode(dec, derr), rs)
	c.Case(line, line, true)
	c.Count("C/ok/" + strings.Fields(lhs)[1])
	hb := m.HeaderBytes()
	if len(frame) != 14 || !bytes.Equal(frame[:4], []byte{0, 0, 0, 10}) || !bytes.Equal(frame[4:], hb[:]) {
		c.Fail("control ToBytes is not 00 00 00 0A + header", line)
	}
	if wantHdr != nil && hb != *wantHdr {
		c.Fail("control header differs from the E37 layout", line)
	}
	if !bytes.Equal(bytes.Join(bufs, nil), frame) {
		c.Fail("buildFrameBuffers concatenation differs from ToBytes (control)", line)
	}
	if derr != nil {
		c.Fail("DecodeHSMSMessage rejects a factory-built control frame", line)
	} else if dec.HeaderBytes() != hb || !bytes.Equal(dec.ToBytes(), frame) || dec.Type() != m.Type() {
		c.Fail("control round trip differs", line)
	}
}

func hdr(sid uint16, b2, b3, st byte, sb [4]byte) *[10]byte {
	h := [10]byte{byte(sid >> 8), byte(sid), b2, b3, 0, st, sb[0], sb[1], sb[2], sb[3]}
	return &h
}

// a control message of the given SType with arbitrary other header bytes, obtained through the
// public decoder (the only public way to get one that no factory builds)
func ctrlOf(st byte, sid uint16, b2, b3 byte, sb [4]byte) *hsms.ControlMessage {
	f := []byte{0, 0, 0, 10, byte(sid >> 8), byte(sid), b2, b3, 0, st, sb[0], sb[1], sb[2], sb[3]}
	m, err := hsms.DecodeHSMSMessage(f)
	if err != nil {
		panic(err)
	}
	return m.(*hsms.ControlMessage)
}

var ctrlSTypes = []byte{1, 2, 3, 4, 5, 6, 7, 9}

func runCtrl(c *vh.Ctx, kind int, sid uint16, sb [4]byte, status byte, reqST byte, b2, b3 byte) {
	sbs := fr.SB(sb)
	switch kind {
	case 0:
		ctrlLine(c, fmt.Sprintf("C selreq %d %s", sid, sbs), hsms.NewSelectReq(sid, sb), nil, hdr(sid, 0, 0, 1, sb))
	case 1:
		ctrlLine(c, fmt.Sprintf("C deselreq %d %s", sid, sbs), hsms.NewDeselectReq(sid, sb), nil, hdr(sid, 0, 0, 3, sb))
	case 2:
		ctrlLine(c, fmt.Sprintf("C sepreq %d %s", sid, sbs), hsms.NewSeparateReq(sid, sb), nil, hdr(sid, 0, 0, 9, sb))
	case 3:
		ctrlLine(c, fmt.Sprintf("C ltreq %s", sbs), hsms.NewLinktestReq(sb), nil, hdr(0xffff, 0, 0, 5, sb))
	case 4, 5, 6:
		req := ctrlOf(reqST, sid, b2, b3, sb)
		rh := req.HeaderBytes()
		var m *hsms.ControlMessage
		var err error
		var want *[10]byte
		name := ""
		switch kind {
		case 4:
			name = "selrsp"
			m, err = hsms.NewSelectRsp(req, status)
			want = hdr(sid, 0, status, 2, sb)
			if (err == nil) != (reqST == 1) {
				c.Fail("NewSelectRsp accepts/rejects the wrong request type", fmt.Sprintf("req stype %d", reqST))
			}
		case 5:
			name = "deselrsp"
			m, err = hsms.NewDeselectRsp(req, status)
			want = hdr(sid, 0, status, 4, sb)
			if (err == nil) != (reqST == 3) {
				c.Fail("NewDeselectRsp accepts/rejects the wrong request type", fmt.Sprintf("req stype %d", reqST))
			}
		default:
			name = "ltrsp"
			m, err = hsms.NewLinktestRsp(req)
			want = hdr(0xffff, 0, 0, 6, sb)
			status = 0
			if (err == nil) != (reqST == 5) {
				c.Fail("NewLinktestRsp accepts/rejects the wrong request type", fmt.Sprintf("req stype %d", reqST))
			}
		}
		ctrlLine(c, fmt.Sprintf("C %s %s %d", name, fr.Hex(rh[:]), status), m, err, want)
	case 7:
		pt, st := b2, b3
		m := hsms.NewRejectReqRaw(sid, pt, st, sb, status)
		w2 := st
		if status == 2 {
			w2 = pt
		}
		ctrlLine(c, fmt.Sprintf("C rejraw %d %d %d %s %d", sid, pt, st, sbs, status), m, nil, hdr(sid, w2, status, 7, sb))
	case 8:
		// reject of a control message
		rej := ctrlOf(reqST, sid, b2, b3, sb)
		rh := rej.HeaderBytes()
		m := hsms.NewRejectReq(rej, status)
		w2 := reqST
		if status == 2 {
			w2 = 0 // PType of a decodable control message is always 0
		}
		ctrlLine(c, fmt.Sprintf("C rej C %s - %d", fr.Hex(rh[:]), status), m, nil, hdr(sid, w2, status, 7, sb))
	}
}

func runRejectData(c *vh.Ctx, dm *hsms.DataMessage, reason byte) {
	rh := dm.HeaderBytes()
	m := hsms.NewRejectReq(dm, reason)
	ctrlLine(c, fmt.Sprintf("C rej D %s %s %d", fr.Hex(rh[:]), fr.Hex(dm.AppendBodyTo(nil)), reason), m, nil,
		hdr(dm.SessionID(), 0, reason, 7, dm.SystemBytes()))
	code, err := hsms.GetRejectReasonCode(m)
	if (err == nil) != (reason >= 1 && reason <= 4) || (err == nil && code != reason) {
		c.Fail("GetRejectReasonCode disagrees with the reason byte", fmt.Sprint(reason))
	}
}

// ---- re-stamp chains ----

type stampOp struct {
	kind int // 0 sid, 1 sys, 2 id
	sid  uint16
	sb   [4]byte
	id   uint32
}

func (o stampOp) String() string {
	switch o.kind {
	case 0:
		return fmt.Sprintf("sid:%d", o.sid)
	case 1:
		return fmt.Sprintf("sys:%d,%d,%d,%d", o.sb[0], o.sb[1], o.sb[2], o.sb[3])
	default:
		return fmt.Sprintf("id:%d", o.id)
	}
}

func randOps(c *vh.Ctx, allowID bool) []stampOp {
	r := c.Rng
	n := r.Intn(6)
	ops := make([]stampOp, n)
	mode := r.Intn(3) // 0 mixed, 1 sid only, 2 sys only
	for i := range ops {
		k := r.Intn(3)
		if mode == 1 {
			k = 0
		} else if mode == 2 {
			k = 1 + r.Intn(2)
		}
		if k == 2 && !allowID {
			k = 1
		}
		ops[i].kind = k
		ops[i].sid = uint16(r.Intn(65536))
		binary.BigEndian.PutUint32(ops[i].sb[:], r.Uint32())
		ops[i].id = r.Uint32()
	}
	return ops
}

func checkStampBytes(c *vh.Ctx, what string, before, after []byte, ops []stampOp, line string) {
	sidTouched, sysTouched := false, false
	wantSid := append([]byte(nil), before[4:6]...)
	wantSys := append([]byte(nil), before[10:14]...)
	for _, o := range ops {
		switch o.kind {
		case 0:
			sidTouched = true
			wantSid = []byte{byte(o.sid >> 8), byte(o.sid)}
		case 1:
			sysTouched = true
			wantSys = o.sb[:]
		default:
			sysTouched = true
			wantSys = []byte{byte(o.id >> 24), byte(o.id >> 16), byte(o.id >> 8), byte(o.id)}
		}
	}
	if len(after) == len(before) && (!bytes.Equal(after[4:6], wantSid) || !bytes.Equal(after[10:14], wantSys)) {
		c.Fail(what+": after the chain the session-id / system-bytes field is not the last value stamped (big-endian)", line)
	}
	if len(before) != len(after) {
		c.Fail(what+": frame length changed by re-stamping", line)
		return
	}
	for i := range before {
		if before[i] == after[i] {
			continue
		}
		inSid := i >= 4 && i < 6
		inSys := i >= 10 && i < 14
		if !(inSid && sidTouched) && !(inSys && sysTouched) {
			c.Fail(fmt.Sprintf("%s: byte %d of the frame changed although it is outside the re-stamped field", what, i), line)
			return
		}
	}
}

func runStampData(c *vh.Ctx, base *hsms.DataMessage) {
	ops := randOps(c, true)
	before := base.ToBytes()
	cur := base
	names := make([]string, len(ops))
	for i, o := range ops {
		names[i] = o.String()
		switch o.kind {
		case 0:
			cur = cur.WithSessionID(o.sid)
		case 1:
			cur = cur.WithSystemBytes(o.sb)
		default:
			cur = cur.WithID(o.id)
		}
	}
	after := cur.ToBytes()
	line := fmt.Sprintf("R %s %d %s | %s", fr.Hex(before), len(ops), strings.Join(names, " "), fr.Hex(after))
	c.Case(line, line, len(ops) > 0)
	c.Count(fmt.Sprintf("R/data/ops=%d", len(ops)))
	checkStampBytes(c, "data", before, after, ops, line)
	if !bytes.Equal(base.ToBytes(), before) {
		c.Fail("re-stamping mutated the original message", line)
	}
	ia, ea := base.Item()
	ib, eb := cur.Item()
	if ea != nil || eb != nil || !secs2.Equal(ia, ib) {
		c.Fail("re-stamped copy does not share an equal item", line)
	}
}

func runStampCtrl(c *vh.Ctx, base *hsms.ControlMessage) {
	ops := randOps(c, false)
	before := base.ToBytes()
	cur := base
	names := make([]string, len(ops))
	for i, o := range ops {
		names[i] = o.String()
		if o.kind == 0 {
			cur = cur.WithSessionID(o.sid)
		} else {
			cur = cur.WithSystemBytes(o.sb)
		}
	}
	after := cur.ToBytes()
	line := fmt.Sprintf("R %s %d %s | %s", fr.Hex(before), len(ops), strings.Join(names, " "), fr.Hex(after))
	c.Case(line, line, len(ops) > 0)
	c.Count(fmt.Sprintf("R/ctrl/ops=%d", len(ops)))
	checkStampBytes(c, "control", before, after, ops, line)
	if !bytes.Equal(base.ToBytes(), before) || cur.WaitBit() != base.WaitBit() {
		c.Fail("re-stamping mutated the original control message or lost the reply flag", line)
	}
}

// ---- siblings through the frame-buffer builder ----

// freshBase returns a data message that has never been framed, serialised or decoded, of the
// given provenance (constructed by NewDataMessage / decoded from a frame).
func freshBase(c *vh.Ctx, decoded bool) (*hsms.DataMessage, []byte) {
	r := c.Rng
	var sb [4]byte
	binary.BigEndian.PutUint32(sb[:], r.Uint32())
	fn := byte(r.Intn(256))
	w := r.Intn(3) == 0 && fn%2 == 1
	var it secs2.Item
	if r.Intn(5) != 0 { // also the empty body (single-buffer path)
		it = fr.RandItem(r, 2)
	}
	m, err := hsms.NewDataMessage(byte(r.Intn(128)), fn, w, uint16(r.Intn(65536)), sb, it)
	if err != nil {
		panic(err)
	}
	if !decoded {
		m2, _ := hsms.NewDataMessage(m.Stream(), fn, w, m.SessionID(), sb, it)
		return m2, m.ToBytes()
	}
	frame := m.ToBytes()
	d, err := hsms.DecodeHSMSMessage(frame)
	if err != nil {
		panic(err)
	}
	dm, _ := d.ToDataMessage()
	return dm, frame
}

// siblingsOf applies a re-stamp chain: result[0] is base, result[i] the copy after op i.
func siblingsOf(base *hsms.DataMessage, ops []stampOp) []*hsms.DataMessage {
	sibs := []*hsms.DataMessage{base}
	cur := base
	for _, o := range ops {
		switch o.kind {
		case 0:
			cur = cur.WithSessionID(o.sid)
		case 1:
			cur = cur.WithSystemBytes(o.sb)
		default:
			cur = cur.WithID(o.id)
		}
		sibs = append(sibs, cur)
	}
	return sibs
}

// framingOrder: forward, reverse, or a random permutation (each sibling may be framed twice).
func framingOrder(c *vh.Ctx, n int) []int {
	r := c.Rng
	ord := make([]int, n)
	switch r.Intn(3) {
	case 0:
		for i := range ord {
			ord[i] = i
		}
	case 1:
		for i := range ord {
			ord[i] = n - 1 - i
		}
	default:
		copy(ord, r.Perm(n))
	}
	if r.Intn(2) == 0 {
		ord = append(ord, r.Intn(n))
	}
	return ord
}

// runFamily frames a message and its re-stamped siblings (one shared body and decode state)
// through the real buildFrameBuffers in some order: what would be written for each sibling must
// be that sibling's ToBytes(), whichever of them was framed first.
func runFamily(c *vh.Ctx) {
	r := c.Rng
	decoded := r.Intn(2) == 0
	base, baseFrame := freshBase(c, decoded)
	ops := randOps(c, true)
	for len(ops) == 0 {
		ops = randOps(c, true)
	}
	sibs := siblingsOf(base, ops)
	names := make([]string, len(ops))
	for i, o := range ops {
		names[i] = o.String()
	}
	ord := framingOrder(c, len(sibs))
	got := make([][]byte, len(sibs))
	for _, i := range ord {
		got[i] = bytes.Join(hsms.VerifFrameBuffers(sibs[i]), nil) // framed BEFORE any ToBytes of this family
	}
	hexes := make([]string, len(sibs))
	for i := range sibs {
		hexes[i] = fr.Hex(got[i])
	}
	line := fmt.Sprintf("Q %s %d %s | %s", fr.Hex(baseFrame), len(ops), strings.Join(names, " "), strings.Join(hexes, " "))
	c.Case(line, line, true)
	c.Count(fmt.Sprintf("Q/decoded=%v/first=%d", decoded, ord[0]))
	for _, i := range ord {
		if !bytes.Equal(got[i], sibs[i].ToBytes()) {
			c.Fail(fmt.Sprintf("frame buffers of re-stamped sibling %d differ from its ToBytes() (framing order %v, base %s)", i, ord,
				map[bool]string{true: "decoded from a frame", false: "constructed"}[decoded]), line)
			break
		}
	}
}

// ---- Derive().Build() ----

// deriveStep is one builder call; kind: 0 stream 1 function 2 wait 3 item 4 sid 5 sys 6 id
type deriveStep struct {
	kind   int
	v      byte
	w      bool
	sid    uint16
	sb     [4]byte
	id     uint32
	item   secs2.Item
	itemOK bool
}

func (st deriveStep) String() string {
	switch st.kind {
	case 0:
		return fmt.Sprintf("stream:%d", st.v)
	case 1:
		return fmt.Sprintf("fn:%d", st.v)
	case 2:
		return "w:" + vh.B01(st.w)
	case 3:
		if st.item == nil {
			return "item:N:-" // WithItem(nil): documented as the empty body
		}
		if !st.itemOK {
			return "item:E:-"
		}
		return "item:O:" + fr.Hex(st.item.ToBytes())
	case 4:
		return fmt.Sprintf("sid:%d", st.sid)
	case 5:
		return fmt.Sprintf("sys:%d,%d,%d,%d", st.sb[0], st.sb[1], st.sb[2], st.sb[3])
	default:
		return fmt.Sprintf("id:%d", st.id)
	}
}

// randStep draws one builder call; invalid arguments (stream 128..255, errored item, a W-bit /
// function pair the constructor rejects) are as likely as valid ones.
func randStep(c *vh.Ctx, kind int) deriveStep {
	r := c.Rng
	st := deriveStep{kind: kind}
	switch kind {
	case 0:
		switch r.Intn(4) {
		case 0:
			st.v = []byte{128, 129, 200, 254, 255}[r.Intn(5)]
		case 1:
			st.v = byte(128 + r.Intn(128))
		case 2:
			st.v = []byte{0, 1, 126, 127}[r.Intn(4)]
		default:
			st.v = byte(r.Intn(128))
		}
	case 1:
		st.v = byte(r.Intn(256))
		if r.Intn(3) == 0 {
			st.v = []byte{0, 1, 2, 254, 255}[r.Intn(5)]
		}
	case 2:
		st.w = r.Intn(2) == 0
	case 3:
		switch r.Intn(8) {
		case 0, 1:
			st.item = fr.ErrItem(r)
		case 2, 3:
			st.item, st.itemOK = nil, true // WithItem(nil)
		case 4:
			st.item, st.itemOK = secs2.NewEmptyItem(), true
		case 5:
			st.item, st.itemOK = secs2.L(), true
		default:
			st.item, st.itemOK = fr.RandItem(r, 2), true
		}
	case 4:
		st.sid = uint16(r.Intn(65536))
	case 5:
		binary.BigEndian.PutUint32(st.sb[:], r.Uint32())
	default:
		st.id = r.Uint32()
	}
	return st
}

func applyStep(b *hsms.DataMessageBuilder, st deriveStep) {
	switch st.kind {
	case 0:
		b.WithStream(st.v)
	case 1:
		b.WithFunction(st.v)
	case 2:
		b.WithWaitBit(st.w)
	case 3:
		b.WithItem(st.item)
	case 4:
		b.WithSessionID(st.sid)
	case 5:
		b.WithSystemBytes(st.sb)
	default:
		b.WithID(st.id)
	}
}

// runDeriveSteps runs base.Derive() + steps + Build(), writes the B line for the model and judges
// the outcome against the property itself: Build fails exactly when the FINAL requested fields
// are an invalid combination, with the documented error in the documented order (stream, item,
// W-bit on an even function); a successful Build carries exactly the requested fields.
func runDeriveSteps(c *vh.Ctx, base *hsms.DataMessage, steps []deriveStep, tag string) {
	b := base.Derive()
	names := make([]string, len(steps))
	// what was requested: the source message's fields, overridden by the last call of each kind
	stream, fn, w, sid, sb := base.Stream(), base.Function(), base.WaitBit(), base.SessionID(), base.SystemBytes()
	body, itemOK, stampsOnly := base.AppendBodyTo(nil), true, true
	for i, st := range steps {
		names[i] = st.String()
		applyStep(b, st)
		switch st.kind {
		case 0:
			stream, stampsOnly = st.v, false
		case 1:
			fn, stampsOnly = st.v, false
		case 2:
			w, stampsOnly = st.w, false
		case 3:
			itemOK, stampsOnly = st.itemOK, false
			body = nil // the LAST item override decides the body; nil and the empty item mean no body
			if st.itemOK && st.item != nil {
				body = st.item.ToBytes()
			}
		case 4:
			sid = st.sid
		case 5:
			sb = st.sb
		default:
			binary.BigEndian.PutUint32(sb[:], st.id)
		}
	}
	m, err := b.Build()
	before := base.ToBytes()
	res := "E " + fr.ConsErr(err)
	if err == nil {
		res = "OK " + fr.Hex(m.ToBytes())
	}
	line := fmt.Sprintf("B %s 1 %d %s | %s", fr.Hex(before), len(names), strings.Join(names, " "), res)
	c.Case(line, line, true)
	c.Count("B/" + tag + "/" + strings.Fields(res)[0] + fr.ConsErr(err))

	want := "ok"
	switch {
	case stream > 127:
		want = "S"
	case !itemOK:
		want = "I"
	case w && fn%2 == 0:
		want = "R"
	}
	if got := fr.ConsErr(err); got != want {
		c.Fail(fmt.Sprintf("Derive()...Build(): outcome %s, but the requested fields (stream %d, function %d, W %v, item ok %v) call for %s (ok / S stream / I item / R W-bit on even function)",
			got, stream, fn, w, itemOK, want), line)
		return
	}
	if err != nil {
		return
	}
	after := m.ToBytes()
	if got := m.AppendBodyTo(nil); !bytes.Equal(got, body) || m.BodyLen() != len(body) || binary.BigEndian.Uint32(after[:4]) != uint32(10+len(body)) {
		c.Fail(fmt.Sprintf("Derive()...Build(): body of the built message (%d bytes) is not the encoding of the last item override (nil / empty item = no body), or the source's body when the item was never overridden (%d bytes expected)", len(got), len(body)), line)
	}
	if m.Stream() != stream || m.Function() != fn || m.WaitBit() != w || m.SessionID() != sid || m.SystemBytes() != sb {
		c.Fail(fmt.Sprintf("Derive()...Build(): the built message does not carry the requested stream %d / function %d / W %v / session %d / system bytes %v", stream, fn, w, sid, sb), line)
	}
	eh := e37Header(dataIn{stream: stream, fn: fn, w: w, sid: sid, sb: sb})
	if !bytes.Equal(after[4:14], eh[:]) {
		c.Fail("Derive()...Build(): header of the built frame differs from the E37 layout of the requested fields", line)
	}
	if stampsOnly {
		if len(after) != len(before) || !bytes.Equal(after[6:10], before[6:10]) || !bytes.Equal(after[14:], before[14:]) || !bytes.Equal(after[:4], before[:4]) {
			c.Fail("Derive().Build() with only session-id/system-bytes overrides changed other bytes", line)
		}
	}
}

// deriveBase: a constructed message, or one decoded from a frame (possibly carrying a W-bit /
// function pair no constructor would have produced: decoding does not validate).
func deriveBase(c *vh.Ctx, made []*hsms.DataMessage) (*hsms.DataMessage, string) {
	r := c.Rng
	switch r.Intn(3) {
	case 0:
		if len(made) > 0 {
			return made[r.Intn(len(made))], "constructed"
		}
		fallthrough
	case 1:
		m, _ := freshBase(c, true)
		return m, "decoded"
	default:
		m, _ := freshBase(c, false)
		f := m.ToBytes()
		f[6] = byte(r.Intn(256)) // any W-bit / stream
		f[7] = byte(r.Intn(256)) // any function
		d, err := hsms.DecodeHSMSMessage(f)
		if err != nil {
			panic(err)
		}
		dm, _ := d.ToDataMessage()
		return dm, "decoded-any-header"
	}
}

func runDerive(c *vh.Ctx, made []*hsms.DataMessage) {
	r := c.Rng
	base, tag := deriveBase(c, made)
	n := r.Intn(6)
	steps := make([]deriveStep, n)
	for i := range steps {
		steps[i] = randStep(c, r.Intn(7))
	}
	runDeriveSteps(c, base, steps, tag)
}

// deriveCorpus: every validation clause violated at every position of a chain, followed or not
// by a call that repairs it; every stream value through WithStream on both W settings.
func deriveCorpus(c *vh.Ctx) {
	ok := func(kind int) deriveStep {
		st := deriveStep{kind: kind, v: 5, sid: 0x1234, sb: [4]byte{1, 2, 3, 4}, id: 0x0a0b0c0d}
		if kind == 3 {
			st.item, st.itemOK = secs2.A("ok"), true
		}
		if kind == 1 {
			st.v = 7
		}
		return st
	}
	bad := []deriveStep{
		{kind: 0, v: 128}, {kind: 0, v: 200}, {kind: 0, v: 255},
		{kind: 3, item: secs2.B(300)},
		{kind: 1, v: 4}, // even function under a W-bit base
	}
	for _, decoded := range []bool{false, true} {
		for _, w := range []bool{false, true} {
			mk := func() *hsms.DataMessage {
				m, err := hsms.NewDataMessage(9, 3, w, 0x8001, [4]byte{0, 0, 1, 0}, secs2.U1(1, 2))
				if err != nil {
					panic(err)
				}
				if decoded {
					d, _ := hsms.DecodeHSMSMessage(m.ToBytes())
					m, _ = d.ToDataMessage()
				}
				return m
			}
			tag := fmt.Sprintf("corpus/decoded=%v", decoded)
			for s := 0; s < 256; s++ {
				runDeriveSteps(c, mk(), []deriveStep{{kind: 0, v: byte(s)}}, tag)
			}
			fillers := []int{4, 6, 2, 5}
			for _, bd := range bad {
				for pos := 0; pos < 4; pos++ {
					steps := make([]deriveStep, 0, 5)
					for i := 0; i < 4; i++ {
						if i == pos {
							steps = append(steps, bd)
						} else {
							st := ok(fillers[i])
							if st.kind == 2 {
								st.w = w
							}
							steps = append(steps, st)
						}
					}
					runDeriveSteps(c, mk(), steps, tag)
					// ... and repaired by a later call of the same kind
					runDeriveSteps(c, mk(), append(append([]deriveStep(nil), steps...), ok(bd.kind)), tag)
				}
			}
			// item overrides at every position of a chain, from a source with a NON-EMPTY body:
			// WithItem(nil) / the empty item (header-only frame), the empty list, another item;
			// as the last override, overridden again later, before and after the other With* steps
			items := []deriveStep{
				{kind: 3, item: nil, itemOK: true},
				{kind: 3, item: secs2.NewEmptyItem(), itemOK: true},
				{kind: 3, item: secs2.L(), itemOK: true},
				{kind: 3, item: secs2.A("other"), itemOK: true},
			}
			for _, it := range items {
				runDeriveSteps(c, mk(), []deriveStep{it}, tag)
				for pos := 0; pos < 4; pos++ {
					steps := make([]deriveStep, 0, 6)
					for i := 0; i < 4; i++ {
						if i == pos {
							steps = append(steps, it)
						} else {
							st := ok(fillers[i])
							if st.kind == 2 {
								st.w = w
							}
							steps = append(steps, st)
						}
					}
					runDeriveSteps(c, mk(), steps, tag)
					for _, later := range items {
						runDeriveSteps(c, mk(), append(append([]deriveStep(nil), steps...), later), tag)
						runDeriveSteps(c, mk(), append(append([]deriveStep(nil), steps...), ok(0), later, ok(4)), tag)
					}
				}
			}
			// W-bit set on an even function through WithWaitBit / WithFunction in both orders
			runDeriveSteps(c, mk(), []deriveStep{{kind: 1, v: 2}, {kind: 2, w: true}}, tag)
			runDeriveSteps(c, mk(), []deriveStep{{kind: 2, w: true}, {kind: 1, v: 2}}, tag)
			runDeriveSteps(c, mk(), []deriveStep{{kind: 2, w: true}, {kind: 1, v: 2}, {kind: 2, w: false}}, tag)
			runDeriveSteps(c, mk(), []deriveStep{{kind: 0, v: 255}, {kind: 3, item: secs2.B(300)}, {kind: 2, w: true}, {kind: 1, v: 2}}, tag)
		}
	}
}

// runFromHeaderCase: NewDataMessageFromHeader on one (header, item), judged against the property
// itself: PType / SType other than 0 are refused first, then the Q3 rules of NewDataMessage on the
// fields read from the header (an errored item is refused with the item error, a W-bit on an even
// function is refused); a success carries exactly the header and the item's encoding.
func runFromHeaderCase(c *vh.Ctx, h [10]byte, kind byte, it secs2.Item) {
	var body []byte
	if kind == 'O' {
		body = it.ToBytes()
	}
	var arg secs2.Item
	if kind != 'N' {
		arg = it
	}
	m, err := hsms.NewDataMessageFromHeader(h, arg)
	got := "ok"
	if err != nil {
		got = fr.DecErr(err)
		if got == "B" || got == "H" {
			got = fr.ConsErr(err)
		} else if got == "S" {
			got = "T" // SType (ConsErr uses S for the stream)
		}
	}
	res := "E " + got
	if got == "T" {
		res = "E S" // case-line syntax of the model driver
	}
	if err == nil {
		res = "OK " + fr.Hex(m.ToBytes())
	}
	line := fmt.Sprintf("H %s %c %s | %s", fr.Hex(h[:]), kind, fr.Hex(body), res)
	c.Case(line, line, true)
	c.Count("H/" + got)

	want := "ok"
	switch {
	case h[4] != 0:
		want = "P"
	case h[5] != 0:
		want = "T"
	case kind == 'E':
		want = "I"
	case h[2]&0x80 != 0 && h[3]%2 == 0:
		want = "R"
	}
	if got != want {
		c.Fail(fmt.Sprintf("NewDataMessageFromHeader: outcome %s, but the header / item (PType %d, SType %d, W %v, function %d, item kind %c) call for %s (ok / P ptype / T stype / I item error / R W-bit on even function)",
			got, h[4], h[5], h[2]&0x80 != 0, h[3], kind, want), line)
		return
	}
	if err != nil {
		return
	}
	f := m.ToBytes()
	if !bytes.Equal(f[4:14], h[:]) {
		c.Fail("NewDataMessageFromHeader changed the header", line)
	}
	if !bytes.Equal(f[14:], body) || binary.BigEndian.Uint32(f[:4]) != uint32(10+len(body)) || m.BodyLen() != len(body) {
		c.Fail("NewDataMessageFromHeader: the body of the built frame is not the item's encoding", line)
	}
	if e := m.DecodeErr(); e != nil {
		c.Fail("NewDataMessageFromHeader built a message that reports a body error", line)
	}
	if d, derr := hsms.DecodeHSMSMessage(f); derr != nil {
		c.Fail("NewDataMessageFromHeader built a frame its own decoder rejects", line)
	} else if dd, ok := d.ToDataMessage(); !ok || dd.DecodeErr() != nil {
		c.Fail("NewDataMessageFromHeader built a frame whose body does not decode (malformed SECS-II on the wire)", line)
	}
}

func runFromHeader(c *vh.Ctx) {
	r := c.Rng
	var h [10]byte
	for i := range h {
		h[i] = byte(r.Intn(256))
	}
	if r.Intn(4) != 0 {
		h[4] = 0
	}
	if r.Intn(4) != 0 {
		h[5] = 0
	}
	if r.Intn(2) == 0 {
		h[2] &= 0x7f
	}
	switch k := r.Intn(8); {
	case k < 2:
		runFromHeaderCase(c, h, 'E', fr.ErrItem(r))
	case k == 2:
		runFromHeaderCase(c, h, 'N', nil)
	default:
		runFromHeaderCase(c, h, 'O', fr.RandItem(r, 2))
	}
}

// fromHeaderCorpus: every refusal clause on its own and combined (the order of the checks shows).
func fromHeaderCorpus(c *vh.Ctx) {
	errItems := []secs2.Item{secs2.B(300), secs2.L(secs2.A("ok"), secs2.B(300)), secs2.L(secs2.L(secs2.U1("abc")), secs2.U2(1))}
	for _, pt := range []byte{0, 1, 255} {
		for _, st := range []byte{0, 1, 9, 255} {
			for _, b2 := range []byte{0x01, 0x7f, 0x81, 0xff} {
				for _, fn := range []byte{0, 1, 2, 255} {
					h := [10]byte{0x12, 0x34, b2, fn, pt, st, 9, 8, 7, 6}
					runFromHeaderCase(c, h, 'O', secs2.U2(1, 2, 3))
					runFromHeaderCase(c, h, 'N', nil)
					for _, e := range errItems {
						runFromHeaderCase(c, h, 'E', e)
					}
				}
			}
		}
	}
}

func main() {
	c := vh.New()
	switch *pass {
	case "wire":
		wirePass(c)
		c.Finish()
		return
	case "big":
		bigPass(c)
		c.Finish()
		return
	}
	r := c.Rng
	var made []*hsms.DataMessage

	// ---- corpus: every byte-2 combination (256 streams x W) and every function parity ----
	sb0 := [4]byte{1, 2, 3, 4}
	for s := 0; s < 256; s++ {
		for _, w := range []bool{false, true} {
			for _, fn := range []byte{1, 2} {
				d := dataIn{stream: byte(s), fn: fn, w: w, sid: uint16(s*257) ^ 0x8001, sb: sb0, kind: 'O', item: secs2.A("x")}
				if m := runData(c, d); m != nil && s%16 == 0 {
					made = append(made, m)
				}
			}
		}
	}
	for fn := 0; fn < 256; fn++ {
		for _, w := range []bool{false, true} {
			runData(c, dataIn{stream: 127, fn: byte(fn), w: w, sid: 0xfffe, sb: [4]byte{0xff, 0, 0x80, 1}, kind: 'N'})
		}
	}
	for _, sid := range []uint16{0, 1, 255, 256, 0x7fff, 0x8000, 0xff00, 0x00ff, 0xffff} {
		for _, id := range []uint32{0, 1, 255, 256, 65535, 65536, 0x00ffffff, 0x01000000, 0x7fffffff, 0x80000000, 0xffffffff} {
			var sb [4]byte
			binary.BigEndian.PutUint32(sb[:], id)
			if sb != hsms.ToSystemBytes(id) || hsms.FromSystemBytes(sb) != id {
				c.Fail("ToSystemBytes/FromSystemBytes are not big-endian inverses", fmt.Sprint(id))
			}
			runData(c, dataIn{stream: 1, fn: 3, w: true, sid: sid, sb: sb, kind: 'O', item: secs2.L()})
		}
	}
	// body length boundaries around the 1/2/3-byte item length field
	for _, n := range []int{0, 1, 254, 255, 256, 257, 65535, 65536, 65537} {
		runData(c, dataIn{stream: 6, fn: 11, w: true, sid: 9, sb: sb0, kind: 'O', item: secs2.B(anyBytes(n)...)})
	}
	// control factories: all status / reason bytes, every request SType for the .rsp factories
	for st := 0; st < 256; st++ {
		sb := [4]byte{byte(st), 0xa5, 0, byte(255 - st)}
		runCtrl(c, 4, uint16(st)<<8|0x5a, sb, byte(st), 1, 0, 0)
		runCtrl(c, 5, uint16(st)<<8|0x5a, sb, byte(st), 3, 0, 0)
		runCtrl(c, 7, 0x1234, sb, byte(st), 0, 0x11, 0x22)
		runCtrl(c, 8, 0x4321, sb, byte(st), ctrlSTypes[st%len(ctrlSTypes)], byte(st), byte(255-st))
		if len(made) > 0 {
			runRejectData(c, made[st%len(made)], byte(st))
		}
	}
	for _, rst := range ctrlSTypes {
		for k := 4; k <= 6; k++ {
			runCtrl(c, k, 0xbeef, [4]byte{9, 8, 7, 6}, 3, rst, 0x81, 0x42)
		}
	}

	deriveCorpus(c)
	fromHeaderCorpus(c)

	// ---- random ----
	for i := 0; i < c.N; i++ {
		switch k := r.Intn(20); {
		case k < 9:
			if m := runData(c, randData(c)); m != nil && (len(made) < 64 || r.Intn(8) == 0) {
				if len(made) < 64 {
					made = append(made, m)
				} else {
					made[r.Intn(len(made))] = m
				}
			}
		case k < 12:
			var sb [4]byte
			binary.BigEndian.PutUint32(sb[:], r.Uint32())
			runCtrl(c, r.Intn(9), uint16(r.Intn(65536)), sb, byte(r.Intn(256)), ctrlSTypes[r.Intn(len(ctrlSTypes))], byte(r.Intn(256)), byte(r.Intn(256)))
		case k < 15:
			if len(made) > 0 && r.Intn(3) != 0 {
				runStampData(c, made[r.Intn(len(made))])
			} else {
				var sb [4]byte
				binary.BigEndian.PutUint32(sb[:], r.Uint32())
				var base *hsms.ControlMessage
				if r.Intn(2) == 0 {
					base = hsms.NewSelectReq(uint16(r.Intn(65536)), sb) // reply flag set
				} else {
					base = ctrlOf(ctrlSTypes[r.Intn(len(ctrlSTypes))], uint16(r.Intn(65536)), byte(r.Intn(256)), byte(r.Intn(256)), sb)
				}
				runStampCtrl(c, base)
			}
		case k < 17:
			runDerive(c, made)
		case k < 19:
			runFamily(c)
		default:
			runFromHeader(c)
		}
	}
	c.Finish()
}

func anyBytes(n int) []any {
	v := make([]any, n)
	for i := range v {
		v[i] = byte(i)
	}
	return v
}
