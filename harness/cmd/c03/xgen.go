package main

import (
	"bytes"
	"context"
	"encoding/binary"
	"fmt"
	"io"
	"net"
	"sync"
	"time"

	"github.com/arloliu/go-secs/v2/hsms"
	"github.com/arloliu/go-secs/v2/hsmsss"
	"github.com/arloliu/go-secs/v2/secs2"

	"verifharness/fr"
	"verifharness/vh"
)

// parkConn is the harness-owned conn handed to the library through the public WithDialer option.
// When armed, the next SetWriteDeadline(non-zero) call — which the send path makes on the conn
// after its guards and before the transport Write — is held until released: a synchronous sender
// is parked INSIDE the write path of its generation, deterministically.
type parkConn struct {
	net.Conn
	mu      sync.Mutex
	armed   bool
	parked  chan struct{}
	release chan struct{}
}

func (p *parkConn) arm() (parked, release chan struct{}) {
	p.mu.Lock()
	defer p.mu.Unlock()
	p.armed, p.parked, p.release = true, make(chan struct{}), make(chan struct{})
	return p.parked, p.release
}

func (p *parkConn) SetWriteDeadline(t time.Time) error {
	p.mu.Lock()
	if p.armed && !t.IsZero() {
		p.armed = false
		parked, release := p.parked, p.release
		p.mu.Unlock()
		close(parked)
		<-release
		return p.Conn.SetWriteDeadline(t)
	}
	p.mu.Unlock()
	return p.Conn.SetWriteDeadline(t)
}

// genLink: an active hsmsss connection whose every generation dials a fresh net.Pipe; the far
// ends are handed to the harness raw (after it answered Select.req), one per generation.
type genLink struct {
	conn  hsmsss.Connection
	local chan *parkConn // library-side end of each generation, in dial order
	far   chan net.Conn  // peer-side end of each generation, after the Select handshake
}

func openGenLink(sid uint16) (*genLink, error) {
	g := &genLink{local: make(chan *parkConn, 16), far: make(chan net.Conn, 16)}
	dial := func(ctx context.Context, network, address string) (net.Conn, error) {
		a, b := net.Pipe()
		pc := &parkConn{Conn: a}
		g.local <- pc
		go func() {
			var req [14]byte
			if _, err := io.ReadFull(b, req[:]); err != nil || req[9] != 1 {
				return
			}
			rsp := append([]byte{0, 0, 0, 10}, req[4:]...)
			rsp[7], rsp[9] = 0, 2
			if _, err := b.Write(rsp); err != nil {
				return
			}
			g.far <- b
		}()
		return pc, nil
	}
	opts := []hsmsss.Option{hsmsss.WithActive(), hsmsss.WithDialer(dial)}
	for _, o := range []hsms.ConnOption{
		hsms.WithLogger(fr.NopLogger{}), hsms.WithSessionID(sid), hsms.WithT3(3 * time.Second), hsms.WithT5(time.Second),
		hsms.WithT6(3 * time.Second), hsms.WithT7(3 * time.Second), hsms.WithCloseTimeout(3 * time.Second),
		hsms.WithReconnectBackoff(5*time.Millisecond, 1.0),
	} {
		opts = append(opts, hsmsss.WithConnectionOption(o))
	}
	cfg, err := hsmsss.NewConfig("pipe", 5000, opts...)
	if err != nil {
		return nil, err
	}
	conn, err := hsmsss.New(cfg)
	if err != nil {
		return nil, err
	}
	g.conn = conn
	ctx, cancel := context.WithTimeout(context.Background(), 10*time.Second)
	defer cancel()
	if err := conn.Open(ctx, hsms.OpenWaitSelected); err != nil {
		_ = conn.Close()
		return nil, err
	}
	return g, nil
}

func waitSelected(c hsmsss.Connection, d time.Duration) bool {
	deadline := time.Now().Add(d)
	for time.Now().Before(deadline) {
		if c.State() == hsms.SelectedState {
			return true
		}
		time.Sleep(time.Millisecond)
	}
	return false
}

func recvT[T any](ch chan T, d time.Duration) (v T, ok bool) {
	select {
	case v = <-ch:
		return v, true
	case <-time.After(d):
		return v, false
	}
}

// crossGenOverlap: generation N Selected; a synchronous send of A is parked inside generation N's
// write path; the peer drops N, N+1 comes up; a send of B starts on N+1 and the peer takes k bytes
// of its prefix off the socket; A's sender is released and runs the rest of its write path (its
// socket is gone: it fails); the peer reads the rest of B. What the peer read on N+1 must be
// B.ToBytes(): a write path that belongs to another generation must not reach into it.
func crossGenOverlap(c *vh.Ctx, rep int) {
	r := c.Rng
	sid := uint16(0x4000 + rep)
	const step = 5 * time.Second
	fail := func(what, kase string) { c.Fail("wire/cross-generation: "+what, kase) }

	mk := func(stream, fn byte, msgSid uint16, id uint32, it secs2.Item) *hsms.DataMessage {
		var sb [4]byte
		binary.BigEndian.PutUint32(sb[:], id)
		m, err := hsms.NewDataMessage(stream, fn, false, msgSid, sb, it)
		if err != nil {
			panic(err)
		}
		return m
	}
	itA := secs2.B(anyBytes(20 + r.Intn(200))...)
	itB := fr.RandItem(r, 2)
	for len(itB.ToBytes()) == len(itA.ToBytes()) || len(itB.ToBytes()) == 0 {
		itB = secs2.L(itB, secs2.U1(1))
	}
	msgA := mk(byte(1+r.Intn(60)), byte(r.Intn(128))*2+1, 0x1111+uint16(r.Intn(100)), 0xa1a2a300+uint32(r.Intn(200)), itA)
	msgB := mk(byte(64+r.Intn(60)), byte(r.Intn(128))*2, 0x2222+uint16(r.Intn(100)), 0x0b0c0d00+uint32(r.Intn(200)), itB)
	frameA, frameB := msgA.ToBytes(), msgB.ToBytes()
	k := 1 + r.Intn(13) // bytes of B's prefix the peer has taken when A's sender runs
	if rep == 0 {
		k = 2
	}
	hist := fmt.Sprintf("history: gen1 selected; park sync send A (%d bytes) in gen1's write path; peer closes gen1; gen2 selected; sync send B (%d bytes) on gen2, peer reads %d bytes; release A's sender and wait for it; peer reads the rest of B",
		len(frameA), len(frameB), k)
	kase := func(extra string) string {
		return fmt.Sprintf("%s | A=%s B=%s%s", hist, fr.Hex(frameA[:14]), fr.Hex(frameB[:14]), extra)
	}
	c.Count("W/cross-generation-overlap")

	g, err := openGenLink(sid)
	if err != nil {
		fail("cannot open a link over net.Pipe: "+err.Error(), kase(""))
		return
	}
	defer func() { _ = g.conn.Close() }()
	local1, ok1 := recvT(g.local, step)
	far1, ok2 := recvT(g.far, step)
	if !ok1 || !ok2 || !waitSelected(g.conn, step) {
		fail("generation 1 did not reach Selected", kase(""))
		return
	}
	ctx, cancel := context.WithTimeout(context.Background(), 30*time.Second)
	defer cancel()

	parked, release := local1.arm()
	doneA := make(chan error, 1)
	go func() { doneA <- g.conn.ForwardDataMessage(ctx, msgA) }()
	if _, ok := recvT(parked, step); !ok {
		close(release)
		fail("the send path did not arm a write deadline on the generation's conn (cannot park the sender)", kase(""))
		return
	}
	// drop generation 1 from the peer side; generation 2 is dialled by the reconnect loop
	_ = far1.Close()
	_, ok1 = recvT(g.local, step)
	far2, ok2 := recvT(g.far, step)
	if !ok1 || !ok2 || !waitSelected(g.conn, step) {
		close(release)
		fail("generation 2 did not come up while a sender of generation 1 was parked", kase(""))
		return
	}
	doneB := make(chan error, 1)
	go func() { doneB <- g.conn.ForwardDataMessage(ctx, msgB) }()
	got := make([]byte, len(frameB))
	_ = far2.SetReadDeadline(time.Now().Add(step))
	if _, err := io.ReadFull(far2, got[:k]); err != nil {
		close(release)
		fail("the peer could not read the first bytes of B on generation 2: "+err.Error(), kase(""))
		return
	}
	// B's sender is now inside the transport Write with its prefix partly taken. Let A's sender run.
	close(release)
	errA, ok := recvT(doneA, step)
	if !ok {
		fail("A's sender did not return after its generation was dropped", kase(""))
		return
	}
	_ = far2.SetReadDeadline(time.Now().Add(step))
	if _, err := io.ReadFull(far2, got[k:]); err != nil {
		fail("the peer could not read the rest of B on generation 2: "+err.Error(), kase(""))
		return
	}
	errB, ok := recvT(doneB, step)
	if !ok || errB != nil {
		fail(fmt.Sprintf("B's send on the live generation did not succeed (%v)", errB), kase(""))
	}
	if errA == nil {
		fail("A's send reported success although its generation's socket was closed before it wrote", kase(""))
	}
	body := msgB.AppendBodyTo(nil)
	line := fmt.Sprintf("W data 8 %d %d 0 %d %s O %s | %s", msgB.Stream(), msgB.Function(), msgB.SessionID(), fr.SB(msgB.SystemBytes()), fr.Hex(body), fr.Hex(got))
	c.Case(line, line, true)
	if !bytes.Equal(got, frameB) {
		what := "bytes read on generation 2 differ from B.ToBytes()"
		if bytes.Equal(got[k:14], frameA[k:14]) {
			what += fmt.Sprintf(": prefix bytes %d..13 are those of A, a message sent on generation 1", k)
		}
		fail(what, kase(" got="+fr.Hex(got[:14])))
	}
	go func() { _, _ = io.Copy(io.Discard, far2) }() // the farewell Separate.req of Close
}

// crossGenRace: several synchronous senders keep forwarding distinct messages while the peer
// drops the link again and again (no parking). Every complete data frame any generation's peer
// read must be exactly one of the messages sent.
func crossGenRace(c *vh.Ctx) {
	r := c.Rng
	const senders, perSender, gens, perGen = 4, 30, 3, 12
	sent := map[string]bool{}
	msgs := make([][]*hsms.DataMessage, senders)
	for s := range msgs {
		for i := 0; i < perSender; i++ {
			var sb [4]byte
			binary.BigEndian.PutUint32(sb[:], uint32(s)<<24|uint32(i)<<8|uint32(r.Intn(256)))
			m, _ := hsms.NewDataMessage(byte(s*20+r.Intn(20)), byte(r.Intn(128))*2, false, uint16(0x100*s+i), sb, fr.RandItem(r, 2))
			msgs[s] = append(msgs[s], m)
			sent[string(m.ToBytes())] = true
		}
	}
	l, err := fr.OpenLink(0x5001, nil, hsms.WithReconnectBackoff(5*time.Millisecond, 1.0))
	if err != nil {
		c.Fail("wire/race: cannot open a link over net.Pipe: "+err.Error(), "race")
		return
	}
	c.Count("W/cross-generation-race")
	stop := make(chan struct{})
	var wg sync.WaitGroup
	for s := 0; s < senders; s++ {
		wg.Add(1)
		go func(s int) {
			defer wg.Done()
			for i := 0; i < perSender; {
				select {
				case <-stop:
					return
				default:
				}
				ctx, cancel := context.WithTimeout(context.Background(), time.Second)
				err := l.Conn.ForwardDataMessage(ctx, msgs[s][i])
				cancel()
				if err == nil {
					i++
				} else {
					time.Sleep(time.Millisecond) // between generations: not selected / closed
				}
			}
		}(s)
	}
	dataFrames := func(p *fr.Peer) int {
		n := 0
		for _, f := range p.Snapshot() {
			if isData(f) {
				n++
			}
		}
		return n
	}
	deadline := time.Now().Add(10 * time.Second)
	for gi := 0; gi < gens && time.Now().Before(deadline); gi++ {
		p := l.Peer()
		for dataFrames(p) < perGen && time.Now().Before(deadline) && !p.ReadClosed() {
			time.Sleep(time.Millisecond)
		}
		_ = p.Conn.Close()
		for l.Peer() == p && time.Now().Before(deadline) {
			time.Sleep(time.Millisecond)
		}
	}
	done := make(chan struct{})
	go func() { wg.Wait(); close(done) }()
	select {
	case <-done:
	case <-time.After(time.Until(deadline) + time.Second):
		close(stop)
		<-done
	}
	_ = l.Conn.Close()
	l.PeersMu(func(peers []*fr.Peer) {
		for gi, p := range peers {
			for _, f := range p.Snapshot() {
				if isData(f) && !sent[string(f)] {
					c.Fail("wire/race: a data frame read by the peer is none of the messages sent",
						fmt.Sprintf("history: 4 synchronous senders x 30 distinct messages, peer closes each generation after 12 data frames; generation %d read %s", gi+1, fr.Hex(f)))
					return
				}
			}
		}
	})
}
