package main

import (
	"bytes"
	"context"
	"encoding/binary"
	"fmt"
	"time"

	"github.com/arloliu/go-secs/v2/hsms"
	"github.com/arloliu/go-secs/v2/secs2"

	"verifharness/fr"
	"verifharness/vh"
)

func isData(f []byte) bool { return len(f) >= 14 && f[9] == 0 }

// wirePass: what a real hsmsss connection writes to a raw net.Pipe peer must be ToBytes() of the
// message it was asked to send (sync send, async send, reply, forward), and the control frames it
// originates must be the factory frames.
func wirePass(c *vh.Ctx) {
	r := c.Rng
	// senders of two generations in their write paths at the same time
	reps := 6
	if c.Tier == "thorough" {
		reps = 40
	}
	for rep := 0; rep < reps; rep++ {
		crossGenOverlap(c, rep)
	}
	crossGenRace(c)
	nLinks := 3
	perLink := c.N / nLinks
	if perLink < 20 {
		perLink = 20
	}
	for li := 0; li < nLinks; li++ {
		sid := uint16(r.Intn(65536))
		if li == 0 {
			sid = 0x8001
		}
		replyItem := fr.RandItem(r, 2)
		setup := func(p *fr.Peer) {
			p.OnData = func(p *fr.Peer, f []byte) {
				if f[6]&0x80 != 0 { // W-bit primary from the connection: answer with the secondary
					h := append([]byte(nil), f[4:14]...)
					h[2] &= 0x7f
					h[3]++
					body := replyItem.ToBytes()
					out := binary.BigEndian.AppendUint32(nil, uint32(10+len(body)))
					out = append(append(out, h...), body...)
					go p.Write(out)
				}
			}
		}
		opts := []hsms.ConnOption{}
		if li == 1 {
			opts = append(opts, hsms.WithLinktestInterval(20*time.Millisecond))
		}
		l, err := fr.OpenLink(sid, setup, opts...)
		if err != nil {
			c.Fail("wire: cannot open a link over net.Pipe: "+err.Error(), fmt.Sprint(li))
			continue
		}
		peer := l.Peer()
		// the Select.req that opened the link
		if f := peer.WaitFrame(func(f []byte) bool { return len(f) == 14 && f[9] == 1 }, 3*time.Second); f == nil {
			c.Fail("wire: no Select.req seen by the peer", fmt.Sprint(li))
		} else {
			var sb [4]byte
			copy(sb[:], f[10:14])
			line := fmt.Sprintf("W selreq %d %s | %s", sid, fr.SB(sb), fr.Hex(f))
			c.Case(line, line, true)
			if !bytes.Equal(f, hsms.NewSelectReq(sid, sb).ToBytes()) {
				c.Fail("wire: Select.req on the socket differs from NewSelectReq(...).ToBytes()", line)
			}
		}
		// handler: reply to every W-bit primary the peer sends
		type pend struct {
			item secs2.Item
		}
		replyWith := make(chan secs2.Item, 1)
		l.Conn.AddDataMessageHandler(func(m *hsms.DataMessage, ep hsms.SECS2Endpoint) {
			if m.WaitBit() {
				it := <-replyWith
				_ = ep.ReplyDataMessage(context.Background(), m, it)
			}
		})
		seen := map[[4]byte]bool{}
		ctx := context.Background()
		for i := 0; i < perLink; i++ {
			mode := r.Intn(7)
			stream := byte(r.Intn(128))
			fn := byte(r.Intn(256))
			w := false
			it := fr.RandItem(r, 3)
			if r.Intn(40) == 0 {
				it = secs2.B(anyBytes(60000 + r.Intn(10000))...)
			}
			msgSid := sid
			var wantSB *[4]byte
			var sendErr error
			switch mode {
			case 0: // sync, W-bit, waits for the peer's secondary
				fn |= 1
				w = true
				_, sendErr = l.Conn.SendDataMessage(ctx, stream, fn, true, it)
			case 1: // sync, no W-bit
				_, sendErr = l.Conn.SendDataMessage(ctx, stream, fn, false, it)
			case 2: // async
				w = r.Intn(2) == 0 && fn%2 == 1
				sendErr = l.Conn.SendDataMessageAsync(ctx, stream, fn, w, it)
			case 3: // reply to a peer primary
				fn |= 1
				var sb [4]byte
				binary.BigEndian.PutUint32(sb[:], r.Uint32())
				prim, perr := hsms.NewDataMessage(stream, fn, true, sid, sb, fr.RandItem(r, 1))
				if perr != nil {
					c.Fail("wire: cannot build a W-bit primary with an odd function", fmt.Sprint(fn))
					continue
				}
				replyWith <- it
				sendErr = peer.Write(prim.ToBytes())
				fn++
				wantSB = &sb
			case 4, 5: // forward a pre-built message verbatim (any session id / system bytes)
				var sb [4]byte
				binary.BigEndian.PutUint32(sb[:], r.Uint32())
				msgSid = uint16(r.Intn(65536))
				w = r.Intn(2) == 0 && fn%2 == 1
				m, err := hsms.NewDataMessage(stream, fn, w, msgSid, sb, it)
				if err != nil {
					continue
				}
				if r.Intn(2) == 0 { // also through a re-stamp chain
					m = m.WithSessionID(msgSid ^ 0x00ff).WithSystemBytes([4]byte{9, 9, 9, 9}).WithSessionID(msgSid).WithSystemBytes(sb)
				}
				if mode == 4 {
					sendErr = l.Conn.ForwardDataMessage(ctx, m)
				} else {
					sendErr = l.Conn.ForwardDataMessageAsync(ctx, m)
				}
				wantSB = &sb
				if !bytes.Equal(bytes.Join(hsms.VerifFrameBuffers(m), nil), m.ToBytes()) {
					c.Fail("wire: frame buffers of the forwarded message differ from ToBytes", fmt.Sprint(i))
				}
			default: // SendSECS2Message
				fn |= 1
				w = true
				_, sendErr = l.Conn.SendSECS2Message(ctx, secs2.NewMessage(stream, fn, true, it))
			}
			if sendErr != nil {
				c.Fail("wire: send failed on an open, selected link: "+sendErr.Error(), fmt.Sprintf("mode=%d", mode))
				break
			}
			f := peer.WaitFrame(isData, 5*time.Second)
			if f == nil {
				c.Fail("wire: the peer did not receive the data frame", fmt.Sprintf("mode=%d", mode))
				break
			}
			var sb [4]byte
			copy(sb[:], f[10:14])
			body := it.ToBytes()
			line := fmt.Sprintf("W data %d %d %d %s %d %s O %s | %s", mode, stream, fn, vh.B01(w), msgSid, fr.SB(sb), fr.Hex(body), fr.Hex(f))
			c.Case(line, line, true)
			c.Count(fmt.Sprintf("W/mode=%d", mode))
			want, err := hsms.NewDataMessage(stream, fn, w, msgSid, sb, it)
			if err != nil || !bytes.Equal(want.ToBytes(), f) {
				c.Fail("wire: bytes on the socket differ from ToBytes() of the message sent", line)
			}
			if wantSB != nil {
				if *wantSB != sb {
					c.Fail("wire: system bytes on the socket are not the ones of the message/primary", line)
				}
			} else {
				if seen[sb] {
					c.Fail("wire: connection-assigned system bytes repeat within one link", line)
				}
				seen[sb] = true
			}
		}
		// one message object and its re-stamped siblings written through the connection, in some
		// order: every frame on the socket must be THAT sibling's ToBytes()
		for fi := 0; fi < perLink/8+2; fi++ {
			decoded := r.Intn(2) == 0
			base, _ := freshBase(c, decoded)
			ops := randOps(c, true)
			for len(ops) == 0 {
				ops = randOps(c, true)
			}
			sibs := siblingsOf(base, ops)
			ord := framingOrder(c, len(sibs))
			broken := false
			for _, i := range ord {
				m := sibs[i]
				var sendErr error
				if r.Intn(2) == 0 {
					sendErr = l.Conn.ForwardDataMessage(ctx, m)
				} else {
					sendErr = l.Conn.ForwardDataMessageAsync(ctx, m)
				}
				if sendErr != nil {
					c.Fail("wire: forward failed on an open, selected link: "+sendErr.Error(), "family")
					broken = true
					break
				}
				f := peer.WaitFrame(isData, 5*time.Second)
				if f == nil {
					c.Fail("wire: the peer did not receive the data frame", "family")
					broken = true
					break
				}
				body := m.AppendBodyTo(nil)
				kind := "O"
				if len(body) == 0 {
					kind = "N"
				}
				line := fmt.Sprintf("W data 7 %d %d %s %d %s %s %s | %s", m.Stream(), m.Function(), vh.B01(m.WaitBit()), m.SessionID(),
					fr.SB(m.SystemBytes()), kind, fr.Hex(body), fr.Hex(f))
				c.Case(line, line, true)
				c.Count(fmt.Sprintf("W/family/decoded=%v/sibling>0=%v", decoded, i > 0))
				if !bytes.Equal(f, m.ToBytes()) {
					c.Fail(fmt.Sprintf("wire: bytes on the socket for re-stamped sibling %d differ from its ToBytes() (write order %v, base %s)", i, ord,
						map[bool]string{true: "decoded from a frame", false: "constructed"}[decoded]), line)
				}
			}
			if broken {
				break
			}
		}
		if li == 1 {
			if f := peer.WaitFrame(func(f []byte) bool { return len(f) == 14 && f[9] == 5 }, 2*time.Second); f != nil {
				var sb [4]byte
				copy(sb[:], f[10:14])
				line := fmt.Sprintf("W ltreq %s | %s", fr.SB(sb), fr.Hex(f))
				c.Case(line, line, true)
				if !bytes.Equal(f, hsms.NewLinktestReq(sb).ToBytes()) {
					c.Fail("wire: Linktest.req on the socket differs from NewLinktestReq(...).ToBytes()", line)
				}
			} else {
				c.Note("wire: no Linktest.req observed on the linktest-enabled link (traffic kept it suppressed)")
			}
		}
		_ = l.Conn.Close()
		select {
		case <-peer.Done:
		case <-time.After(5 * time.Second):
		}
		for _, f := range peer.Snapshot() {
			if len(f) == 14 && f[9] == 9 {
				var sb [4]byte
				copy(sb[:], f[10:14])
				line := fmt.Sprintf("W sepreq %d %s | %s", sid, fr.SB(sb), fr.Hex(f))
				c.Case(line, line, true)
				if !bytes.Equal(f, hsms.NewSeparateReq(sid, sb).ToBytes()) {
					c.Fail("wire: Separate.req on the socket differs from NewSeparateReq(...).ToBytes()", line)
				}
			}
		}
	}
}

// bigPass: the size edge (DESIGN §5 #10). A single binary item may carry up to MaxByteSize
// payload bytes; the frame cap counts header + body. The constructor accepts, the frame's own
// decoder must accept too — the oracle reports when it does not.
func bigPass(c *vh.Ctx) {
	cap := hsms.VerifFrameCap()
	sizes := []int{70000, cap - 14, cap - 13}
	if c.Tier == "thorough" {
		sizes = append(sizes, cap-1, cap)
	}
	for _, n := range sizes {
		payload := make([]byte, n)
		it := secs2.NewBinaryItem(payload)
		if it.Error() != nil {
			c.Fail("big: a binary item within MaxByteSize is refused", fmt.Sprint(n))
			continue
		}
		m, err := hsms.NewDataMessage(1, 1, true, 7, [4]byte{0, 0, 0, 1}, it)
		if err != nil {
			line := fmt.Sprintf("G %d | E %s", n, fr.ConsErr(err))
			c.Case(line, line, true)
			continue
		}
		frame := m.ToBytes()
		bodyLen := len(frame) - 14
		_, derr := hsms.DecodeHSMSMessage(frame)
		_, perr := hsms.DecodeHSMSPayload(frame[4:])
		// G <payload bytes> | OK <frame length> <first 18 bytes> <decode class> <payload-decode class>
		line := fmt.Sprintf("G %d | OK %d %s %s %s", n, len(frame), fr.Hex(frame[:18]), fr.DecErr(derr), fr.DecErr(perr))
		if c.Tier == "thorough" || n < 1<<20 {
			c.Case(line, line, true) // the model builds the same 16 MB frame: thorough tier only
		}
		c.Count(fmt.Sprintf("G/decode=%s", fr.DecErr(derr)))
		if derr != nil {
			c.Fail(fmt.Sprintf("DecodeHSMSMessage rejects the frame ToBytes produced: class %s bodylen=%d", fr.DecErr(derr), bodyLen),
				fmt.Sprintf("D 1 1 1 7 0 0 0 1 O binary-item payload=%d bodylen=%d", n, bodyLen))
		}
	}
}
