// Harness for C05, end-to-end (connection-level) pass: REAL hsmsss (active and passive) and secs1
// connections over net.Pipe, opened through the public WithDialer / WithListener options against
// scripted peers, under random Open/Close/peer histories. One sequenced log per scenario (handler
// callbacks, State() samples right after API calls and inside handlers, Open/Close returns, the
// coalesce warning captured through the logger) is judged by a Go-side monitor (rig.go: monitor):
//
//	check1  notifications in order, chained unless a coalesce warning lies between, no self-transition
//	check2  every State() sample is one of the three states; every notification is an E37 edge
//	check3  after Close returns State() is NotConnected and stays so, no callback until the next Open
//	check4  at harness-declared quiescence the last notification's next state equals State()
//	check5  a session that reached Selected is not disconnected by T7 (select swept across T7)
//	cause   at quiescence State() equals what the procedures the peer completed imply
//	timer   lower bounds (a link is not dropped before T6 / T7), asserted exactly
//
// There is no model driver for this pass: the case file is written for replay / inspection only.
package main

import (
	"flag"
	"fmt"
	"math/rand"
	"runtime"
	"sort"
	"strings"
	"sync"
	"time"

	"verifharness/vh"
)

type planFn func(rg *rand.Rand) (cfgT, runFn)

type class struct {
	name   string
	plan   planFn
	weight int // scenarios per 644 (the quick -n)
	min    int
}

var classes = []class{
	{"act", planAct, 60, 8},
	{"pas", planPas, 60, 8},
	{"pipe", planPipe, 80, 10},
	{"t7", planT7, 40, 8},
	{"blockdial", planBlockDial, 300, 300},
	{"coc", planCOC, 40, 6},
	{"coal", planCoal, 6, 3},
	{"s1", planS1, 20, 4},
	{"firstdial", planFirstDial, 10, 4},
	{"straggler", planStraggler, 8, 8},
	{"parkwrite", planParkWrite, 10, 10},
	{"t7desel", planT7Desel, 10, 10},
}

type job struct {
	class string
	idx   int
	seed  int64
	plan  planFn
}

type result struct {
	job    job
	hdr    string
	text   string
	notifs string
	fails  []failure
	anoms  []string
	tags   []string
	nNotif int
	wall   time.Duration
}

func runJob(j job) (res result) {
	res.job = j
	t0 := time.Now()
	rg := rand.New(rand.NewSource(j.seed))
	cfg, fn := j.plan(rg)
	e, err := newEnv(cfg)
	if err != nil {
		res.anoms = append(res.anoms, "cannot build the connection: "+err.Error())
		return res
	}
	done := make(chan struct{})
	go func() {
		defer close(done)
		defer func() {
			if r := recover(); r != nil {
				e.anomaly("scenario panicked: %v", r)
			}
		}()
		res.hdr, res.tags = fn(e)
		e.finish()
		e.postClose(2 * time.Millisecond)
	}()
	select {
	case <-done:
	case <-time.After(120 * time.Second):
		e.anomaly("scenario did not finish within 120 s")
	}
	log := e.r.snapshot()
	res.text = e.r.text()
	var ns []string
	for _, en := range log {
		switch en.k {
		case 'N':
			ns = append(ns, fmt.Sprintf("%d%d", en.a, en.b))
			res.nNotif++
		case 'W':
			ns = append(ns, "W")
		case 'R':
			res.anoms = append(res.anoms, en.s)
		}
	}
	res.notifs = strings.Join(ns, ",")
	var mtags []string
	res.fails, mtags = monitor(log, cfg.transport)
	res.tags = append(res.tags, mtags...)
	res.wall = time.Since(t0)
	return res
}

func main() {
	workers := flag.Int("workers", 8, "scenarios run concurrently")
	only := flag.String("class", "", "run only this scenario class")
	verbose := flag.Bool("v", false, "print every scenario log")
	scnSeed := flag.Int64("scnseed", 0, "with -class: replay the scenario with this seed (the seed= field of a case) -n times")
	c := vh.New()
	base := runtime.NumGoroutine()

	var jobs []job
	for _, cl := range classes {
		if *only != "" && *only != cl.name {
			continue
		}
		n := cl.weight * c.N / 644
		if n < cl.min {
			n = cl.min
		}
		if *only != "" {
			n = c.N
		}
		for i := 0; i < n; i++ {
			sd := c.Rng.Int63()
			if *scnSeed != 0 {
				sd = *scnSeed
			}
			jobs = append(jobs, job{class: cl.name, idx: i, seed: sd, plan: cl.plan})
		}
	}
	// interleave the classes so that slow and fast scenarios share the workers
	c.Rng.Shuffle(len(jobs), func(i, k int) { jobs[i], jobs[k] = jobs[k], jobs[i] })

	results := make([]result, len(jobs))
	var wg sync.WaitGroup
	next := make(chan int)
	for w := 0; w < *workers; w++ {
		wg.Add(1)
		go func() {
			defer wg.Done()
			for i := range next {
				results[i] = runJob(jobs[i])
			}
		}()
	}
	for i := range jobs {
		next <- i
	}
	close(next)
	wg.Wait()

	anoms := 0
	perClass := map[string]time.Duration{}
	for _, r := range results {
		c.Count("class:" + r.job.class)
		for _, t := range r.tags {
			c.Count(t)
		}
		perClass[r.job.class] += r.wall
		kase := fmt.Sprintf("class=%s idx=%d seed=%d %s | %s", r.job.class, r.job.idx, r.job.seed, r.hdr, r.text)
		if *verbose {
			fmt.Println(kase)
		}
		c.Case(kase, r.job.class+"|"+r.hdr+"|"+r.notifs, r.nNotif > 0)
		if len(r.anoms) > 0 {
			anoms++
			c.Count("rig-anomaly")
			if anoms <= 5 {
				c.Note(fmt.Sprintf("rig anomaly (no verdict for the affected step) class=%s idx=%d seed=%d: %s", r.job.class, r.job.idx, r.job.seed, strings.Join(r.anoms, "; ")))
			}
		}
		seen := map[string]bool{}
		for _, f := range r.fails {
			if seen[f.what] {
				continue
			}
			seen[f.what] = true
			c.Count("FAIL:" + strings.SplitN(f.what, ":", 2)[0])
			c.Fail(f.what, kase)
		}
	}
	// every goroutine of the rig and of the library must be gone once all connections are closed
	leaked := 0
	for i := 0; i < 100; i++ {
		if leaked = runtime.NumGoroutine() - base; leaked <= 0 {
			break
		}
		time.Sleep(50 * time.Millisecond)
	}
	if leaked > 0 {
		c.Count("goroutines-left")
		buf := make([]byte, 1<<16)
		buf = buf[:runtime.Stack(buf, true)]
		c.Note(fmt.Sprintf("%d goroutines still alive 5 s after the last Close: %.1500s", leaked, string(buf)))
	}
	var ks []string
	for k := range perClass {
		ks = append(ks, k)
	}
	sort.Strings(ks)
	var sb strings.Builder
	for _, k := range ks {
		fmt.Fprintf(&sb, " %s=%.1fs", k, perClass[k].Seconds())
	}
	c.Note(fmt.Sprintf("e2e: %d scenarios, %d with rig anomalies, scenario time by class (sum over %d workers):%s", len(results), anoms, *workers, sb.String()))
	c.Finish()
}
