// Rig for the C05 end-to-end pass: one sequenced recorder, a scripted raw-frame HSMS peer over
// net.Pipe, a connection under test built through the PUBLIC API only (hsmsss.New / secs1.New with
// WithDialer / WithListener), and the log monitor (the implementation-level oracle).
package main

import (
	"bufio"
	"context"
	"encoding/binary"
	"errors"
	"fmt"
	"io"
	"net"
	"strings"
	"sync"
	"sync/atomic"
	"time"

	"github.com/arloliu/go-secs/v2/hsms"
	"github.com/arloliu/go-secs/v2/hsmsss"
	"github.com/arloliu/go-secs/v2/logger"
	"github.com/arloliu/go-secs/v2/secs1"
)

// ---------------------------------------------------------------------------------------------
// recorder: ONE mutex-protected sequence; the position in es is the sequence number.
//
//	N a b   state-change handler callback (prev=a, next=b)          h a   State() sampled inside it
//	S a     State() sampled by the harness right after an API call / while polling (s = where)
//	O       Open about to be called      o a   Open returned (a = error class, see errClass)
//	C       Close about to be called     c a   Close returned (a = error class)
//	W a     coalesce warning seen by the logger (a = dropped_total)
//	Q a b   harness-declared quiescence: a = State() sample, b = state the peer-completed
//	        procedures imply (-1: no expectation)
//	P       peer / rig event (s = text), only for the case text
//	F       failure found by a scenario-local check (s = what)
//	R       rig anomaly (s = text): the scenario could not be driven as planned (no verdict)
type ent struct {
	k    byte
	a, b int
	s    string
	at   time.Duration
}

type rec struct {
	mu sync.Mutex
	es []ent
	t0 time.Time
}

func newRec() *rec { return &rec{t0: time.Now()} }

func (r *rec) add(k byte, a, b int, s string) {
	r.mu.Lock()
	r.es = append(r.es, ent{k: k, a: a, b: b, s: s, at: time.Since(r.t0)})
	r.mu.Unlock()
}

// lastNext is the next-state of the last recorded notification (0 when there is none: the
// connection starts NotConnected).
func (r *rec) lastNext() int {
	r.mu.Lock()
	defer r.mu.Unlock()
	for i := len(r.es) - 1; i >= 0; i-- {
		if r.es[i].k == 'N' {
			return r.es[i].b
		}
	}
	return 0
}

func (r *rec) snapshot() []ent {
	r.mu.Lock()
	defer r.mu.Unlock()
	return append([]ent(nil), r.es...)
}

func (r *rec) text() string {
	var sb strings.Builder
	for i, e := range r.snapshot() {
		if i > 0 {
			sb.WriteByte(' ')
		}
		switch e.k {
		case 'N':
			fmt.Fprintf(&sb, "%d:N%d%d", i, e.a, e.b)
		case 'h':
			fmt.Fprintf(&sb, "%d:h%d", i, e.a)
		case 'S':
			fmt.Fprintf(&sb, "%d:S%d[%s]", i, e.a, e.s)
		case 'O', 'C':
			fmt.Fprintf(&sb, "%d:%c", i, e.k)
		case 'o', 'c':
			fmt.Fprintf(&sb, "%d:%c%d", i, e.k, e.a)
		case 'W':
			fmt.Fprintf(&sb, "%d:W%d", i, e.a)
		case 'Q':
			fmt.Fprintf(&sb, "%d:Q%d/%d", i, e.a, e.b)
		default:
			fmt.Fprintf(&sb, "%d:%c[%s]", i, e.k, e.s)
		}
	}
	return sb.String()
}

// error classes (projected observable; never message text)
const (
	eOK = iota
	eAlreadyOpen
	eNotOpen
	eCtx
	eConnClosed
	eCloseTimeout
	eOther
)

func errClass(err error) int {
	switch {
	case err == nil:
		return eOK
	case errors.Is(err, hsms.ErrAlreadyOpen):
		return eAlreadyOpen
	case errors.Is(err, hsms.ErrNotOpen):
		return eNotOpen
	case errors.Is(err, context.DeadlineExceeded), errors.Is(err, context.Canceled):
		return eCtx
	case errors.Is(err, hsms.ErrConnClosed):
		return eConnClosed
	case errors.Is(err, hsms.ErrCloseTimeout):
		return eCloseTimeout
	}
	return eOther
}

// ---------------------------------------------------------------------------------------------
// the monitor: the five checks on one recorded log

type failure struct{ what string }

func legalEdge(a, b int) bool {
	switch [2]int{a, b} {
	case [2]int{0, 1}, [2]int{1, 2}, [2]int{2, 1}, [2]int{1, 0}, [2]int{2, 0}:
		return true
	}
	return false
}

// monitor returns the failures of checks 1-4 (and the scenario-local F entries, which carry
// check 5 and the timer lower bounds). secs1 says whether the log is from a SECS-I connection
// (only used to word the NotConnected->Selected notification precisely).
func monitor(log []ent, tr string) ([]failure, []string) {
	var out []failure
	var tags []string
	fail := func(f string, a ...any) { out = append(out, failure{fmt.Sprintf(f, a...)}) }
	closedSure := true // before the first Open the connection is closed
	opensInFlight := 0
	var lastN *ent
	wSince := false
	for i := range log {
		e := &log[i]
		switch e.k {
		case 'O':
			opensInFlight++
			closedSure = false
		case 'o':
			opensInFlight--
			// a Start failure rolls the Open back (supervisor stopped and joined): closed again
			if e.a == eOther && opensInFlight == 0 {
				closedSure = true
			}
		case 'c':
			if opensInFlight == 0 {
				closedSure = true
			}
		case 'W':
			wSince = true
		case 'N':
			if closedSure {
				fail("check3: state-change handler called (%d->%d) after Close returned and before the next Open", e.a, e.b)
			}
			if e.a == e.b {
				fail("check1: self-transition notification %d->%d", e.a, e.b)
			} else if !legalEdge(e.a, e.b) {
				// The only pair that is neither an edge nor a self-transition is 0->2: the
				// notification key is the supervisor's last REACTED state, so when the select commit
				// lands before the supervisor has taken the TCP-up echo (always on SECS-I, which
				// commits both back to back) one notification NotConnected->Selected stands for the
				// two edges State() went through. The property constrains the chain, not the edge
				// set, of notifications (and so does the proved monitor, Supervisor.v mon_step
				// Delivered): counted and reported, not a failure.
				tags = append(tags, fmt.Sprintf("notif:%d->%d(dedup-jump):%s", e.a, e.b, tr))
			}
			prevNext := 0
			if lastN != nil {
				prevNext = lastN.b
			}
			if prevNext != e.a && !wSince {
				fail("check1: notification %d->%d does not continue the preceding one (next=%d) and no coalesce warning was logged in between", e.a, e.b, prevNext)
			}
			wSince = false
			lastN = e
		case 'S', 'h':
			if e.a < 0 || e.a > 2 {
				fail("check2: State() returned %d, not one of the three states", e.a)
			}
			if closedSure && e.a != 0 {
				fail("check3: State()=%d after Close returned (sample %q)", e.a, strings.SplitN(e.s, "/", 2)[0])
			}
		case 'Q':
			ln := 0
			if lastN != nil {
				ln = lastN.b
			}
			if ln != e.a {
				fail("check4: at quiescence the last notification's next state is %d but State()=%d", ln, e.a)
			}
			if e.b >= 0 && e.a != e.b {
				fail("e2e cause: State() settled at %d but the procedures the peer completed imply %d (%s)", e.a, e.b, e.s)
			}
		case 'F':
			fail("%s", e.s)
		}
	}
	return out, tags
}

// ---------------------------------------------------------------------------------------------
// raw HSMS frames

type frame struct {
	sid           uint16
	b2, b3, ptype byte
	stype         byte
	sys           uint32
	body          []byte
}

func ctl(sid uint16, b2, b3, stype byte, sys uint32) []byte {
	b := make([]byte, 14)
	binary.BigEndian.PutUint32(b[0:4], 10)
	binary.BigEndian.PutUint16(b[4:6], sid)
	b[6], b[7], b[8], b[9] = b2, b3, 0, stype
	binary.BigEndian.PutUint32(b[10:14], sys)
	return b
}

const (
	stSelectReq   = 1
	stSelectRsp   = 2
	stDeselectReq = 3
	stDeselectRsp = 4
	stLinktestReq = 5
	stLinktestRsp = 6
	stRejectReq   = 7
	stSeparateReq = 9
)

// peer is the scripted entity at the other end of a pipe. Its reader goroutine always drains (so
// the library's synchronous pipe writes never block on the rig) and answers Linktest.req.
type peer struct {
	c      net.Conn
	frames chan frame
	dead   chan struct{} // closed when the reader sees EOF / an error: the library closed the link
	deadAt atomic.Int64  // ns since the recorder's t0
	r      *rec
	born   time.Time
}

func newPeer(c net.Conn, r *rec, wg *sync.WaitGroup, raw bool) *peer {
	p := &peer{c: c, frames: make(chan frame, 512), dead: make(chan struct{}), r: r, born: time.Now()}
	wg.Add(1)
	go func() {
		defer wg.Done()
		defer close(p.dead)
		if raw { // SECS-I line: no HSMS framing, just keep the line drained
			_, _ = io.Copy(io.Discard, c)
			p.deadAt.Store(int64(time.Since(r.t0)))
			return
		}
		br := bufio.NewReader(c)
		var l [4]byte
		for {
			if _, err := io.ReadFull(br, l[:]); err != nil {
				p.deadAt.Store(int64(time.Since(r.t0)))
				return
			}
			n := binary.BigEndian.Uint32(l[:])
			if n < 10 || n > 1<<20 {
				p.deadAt.Store(int64(time.Since(r.t0)))
				return
			}
			buf := make([]byte, n)
			if _, err := io.ReadFull(br, buf); err != nil {
				p.deadAt.Store(int64(time.Since(r.t0)))
				return
			}
			f := frame{sid: binary.BigEndian.Uint16(buf[0:2]), b2: buf[2], b3: buf[3], ptype: buf[4], stype: buf[5],
				sys: binary.BigEndian.Uint32(buf[6:10]), body: buf[10:]}
			if f.stype == stLinktestReq {
				_ = p.send(ctl(0xFFFF, 0, 0, stLinktestRsp, f.sys))
				continue
			}
			select {
			case p.frames <- f:
			default:
			}
		}
	}()
	return p
}

func (p *peer) send(b []byte) error {
	_ = p.c.SetWriteDeadline(time.Now().Add(3 * time.Second))
	_, err := p.c.Write(b)
	return err
}

// wait returns the first frame satisfying pred; ok=false on timeout or when the link died first.
func (p *peer) wait(d time.Duration, pred func(frame) bool) (frame, bool) {
	t := time.NewTimer(d)
	defer t.Stop()
	for {
		select {
		case f := <-p.frames:
			if pred(f) {
				return f, true
			}
		case <-p.dead:
			// drain what was read before the drop
			for {
				select {
				case f := <-p.frames:
					if pred(f) {
						return f, true
					}
				default:
					return frame{}, false
				}
			}
		case <-t.C:
			return frame{}, false
		}
	}
}

func (p *peer) isDead() bool {
	select {
	case <-p.dead:
		return true
	default:
		return false
	}
}

func (p *peer) waitDead(d time.Duration) bool {
	select {
	case <-p.dead:
		return true
	case <-time.After(d):
		return false
	}
}

func (p *peer) drop() { _ = p.c.Close() }

// ---------------------------------------------------------------------------------------------
// logger capturing the coalesce warning (identified by its structured key, not its text)

type capLogger struct{ r *rec }

func (capLogger) Debug(string, ...any) {}
func (capLogger) Info(string, ...any)  {}
func (l capLogger) Warn(msg string, kv ...any) {
	for i := 0; i+1 < len(kv); i += 2 {
		if k, ok := kv[i].(string); ok && k == "dropped_total" {
			n := 0
			switch v := kv[i+1].(type) {
			case uint64:
				n = int(v)
			case int:
				n = v
			case int64:
				n = int(v)
			}
			l.r.add('W', n, 0, "")
			return
		}
	}
}
func (capLogger) Error(string, ...any)        {}
func (capLogger) Fatal(string, ...any)        {}
func (l capLogger) With(...any) logger.Logger { return l }
func (capLogger) Level() logger.LogLevel      { return logger.WarnLevel }
func (capLogger) SetLevel(logger.LogLevel)    {}

// ---------------------------------------------------------------------------------------------
// pipe plumbing

type pipeListener struct {
	conns  chan net.Conn
	closed chan struct{}
	once   sync.Once
}

func (l *pipeListener) Accept() (net.Conn, error) {
	select {
	case c := <-l.conns:
		return c, nil
	case <-l.closed:
		return nil, net.ErrClosed
	}
}
func (l *pipeListener) Close() error   { l.once.Do(func() { close(l.closed) }); return nil }
func (l *pipeListener) Addr() net.Addr { return pipeAddr{} }

type pipeAddr struct{}

func (pipeAddr) Network() string { return "pipe" }
func (pipeAddr) String() string  { return "pipe" }

// bufConn gives the library's end of a pipe the read behaviour of a socket with a kernel buffer:
// one underlying read pulls everything the peer wrote in one Write, later reads are served from
// the buffer without a goroutine hand-off (the production shape of "two frames in one segment").
type bufConn struct {
	net.Conn
	br *bufio.Reader
}

func (b *bufConn) Read(p []byte) (int, error) { return b.br.Read(p) }

// ---------------------------------------------------------------------------------------------
// the connection under test

type cfgT struct {
	transport  string // "hsmsss" | "secs1"
	active     bool
	t5, t6, t7 time.Duration
	backoff    time.Duration
	mult       float64
	buffered   bool
	stallAt    int // >=0: the handler blocks at its stallAt-th callback until env.release is closed
	// straggler class: a small close timeout, auto-linktest, and a data handler whose FIRST call
	// blocks inline on the recv goroutine until env.dataRelease is closed
	closeTimeout time.Duration // 0: 3 s
	linktest     time.Duration // 0: disabled
	blockData    bool
	parkable     bool // the library's pipe ends are parkConns (parkwrite class)
}

type dialFn func(attempt int, ctx context.Context) (net.Conn, error)

// dialed is the peer end of a pipe the library dialed; at is taken BEFORE the dialer returns, so it
// is a lower bound for every timer the library arms on that connection.
type dialed struct {
	c  net.Conn
	at time.Time
}

type env struct {
	r           *rec
	conn        hsms.Connection
	cfg         cfgT
	sid         uint16
	wg          sync.WaitGroup // every rig goroutine of this scenario
	dialCh      chan dialed    // active: peer ends of the pipes the library dialed
	lisCh       chan *pipeListener
	dialMu      sync.Mutex
	dial        dialFn
	nDial       int
	inH         atomic.Int32
	nCb         atomic.Int32
	release     chan struct{}
	dataRelease chan struct{}
	dataEntered chan struct{}
	nDials      atomic.Int32
	nListens    atomic.Int32
	parkMu      sync.Mutex
	parks       []*parkConn
	hung        bool
	allConns    struct {
		sync.Mutex
		cs []io.Closer
	}
}

func (e *env) track(c io.Closer) {
	e.allConns.Lock()
	e.allConns.cs = append(e.allConns.cs, c)
	e.allConns.Unlock()
}

// pipe makes a fresh pipe; lib is the end handed to the library (optionally buffered).
func (e *env) pipe() (lib net.Conn, peerEnd net.Conn) {
	a, b := net.Pipe()
	e.track(a)
	e.track(b)
	lib = a
	if e.cfg.buffered {
		lib = &bufConn{Conn: a, br: bufio.NewReaderSize(a, 4096)}
	}
	if e.cfg.parkable {
		pk := &parkConn{Conn: lib, parked: make(chan struct{}), release: make(chan error, 1)}
		e.parkMu.Lock()
		e.parks = append(e.parks, pk)
		e.parkMu.Unlock()
		lib = pk
	}
	return lib, b
}

// parkConn is the library's end of a pipe, owned by the harness, that can PARK one Write: once
// armed, the next Write does not reach the pipe, signals parked and blocks - also across Close of
// the conn, like a write stuck below the socket layer - until the harness releases it with an
// error. Everything else passes through.
type parkConn struct {
	net.Conn
	armed   atomic.Bool
	parked  chan struct{}
	release chan error
}

func (p *parkConn) Write(b []byte) (int, error) {
	if p.armed.CompareAndSwap(true, false) {
		close(p.parked)
		return 0, <-p.release
	}
	return p.Conn.Write(b)
}

// lastPark is the parkConn of the most recent pipe handed to the library.
func (e *env) lastPark() *parkConn {
	e.parkMu.Lock()
	defer e.parkMu.Unlock()
	if len(e.parks) == 0 {
		return nil
	}
	return e.parks[len(e.parks)-1]
}

// dialOK is the default dial behaviour: a fresh pipe, its peer end queued for the scenario.
func (e *env) dialOK() (net.Conn, error) {
	a, b := e.pipe()
	select {
	case e.dialCh <- dialed{b, time.Now()}:
	default:
		_ = a.Close()
		_ = b.Close()
		return nil, errors.New("rig: dial queue full")
	}
	return a, nil
}

func newEnv(cfg cfgT) (*env, error) {
	e := &env{r: newRec(), cfg: cfg, sid: 1, dialCh: make(chan dialed, 256), lisCh: make(chan *pipeListener, 256),
		release: make(chan struct{}), dataRelease: make(chan struct{}), dataEntered: make(chan struct{}, 16)}
	lg := capLogger{e.r}
	copts := []hsms.ConnOption{
		hsms.WithT3(time.Second), hsms.WithT5(cfg.t5), hsms.WithT6(cfg.t6), hsms.WithT7(cfg.t7), hsms.WithT8(time.Second),
		hsms.WithReconnectBackoff(cfg.backoff, cfg.mult), hsms.WithLogger(lg),
	}
	ct := cfg.closeTimeout
	if ct == 0 {
		ct = 3 * time.Second
	}
	copts = append(copts, hsms.WithCloseTimeout(ct), hsms.WithLinktestInterval(cfg.linktest))
	if cfg.linktest > 0 {
		copts = append(copts, hsms.WithLinktestFailThreshold(1), hsms.WithLinktestSuppression(false))
	}
	dial := func(ctx context.Context, _, _ string) (net.Conn, error) {
		e.nDials.Add(1)
		e.dialMu.Lock()
		n := e.nDial
		e.nDial++
		f := e.dial
		e.dialMu.Unlock()
		if f == nil {
			return e.dialOK()
		}
		return f(n, ctx)
	}
	listen := func(context.Context, string, string) (net.Listener, error) {
		e.nListens.Add(1)
		l := &pipeListener{conns: make(chan net.Conn), closed: make(chan struct{})}
		select {
		case e.lisCh <- l:
		default:
		}
		return l, nil
	}
	switch cfg.transport {
	case "hsmsss":
		opts := []hsmsss.Option{}
		for _, o := range append(copts, hsms.WithSessionID(e.sid)) {
			opts = append(opts, hsmsss.WithConnectionOption(o))
		}
		if cfg.active {
			opts = append(opts, hsmsss.WithActive(), hsmsss.WithDialer(dial))
		} else {
			opts = append(opts, hsmsss.WithPassive(), hsmsss.WithListener(listen))
		}
		c, err := hsmsss.NewConfig("pipe", 5000, opts...)
		if err != nil {
			return nil, err
		}
		conn, err := hsmsss.New(c)
		if err != nil {
			return nil, err
		}
		e.conn = conn
	case "secs1":
		opts := []secs1.Option{secs1.WithDeviceID(1)}
		for _, o := range copts {
			opts = append(opts, secs1.WithConnectionOption(o))
		}
		if cfg.active {
			opts = append(opts, secs1.WithActive(), secs1.WithDialer(dial))
		} else {
			opts = append(opts, secs1.WithPassive(), secs1.WithListener(listen))
		}
		c, err := secs1.NewConfig("pipe", 5000, opts...)
		if err != nil {
			return nil, err
		}
		conn, err := secs1.New(c)
		if err != nil {
			return nil, err
		}
		e.conn = conn
	default:
		return nil, errors.New("rig: unknown transport")
	}
	if cfg.blockData {
		var first atomic.Bool
		e.conn.AddDataMessageHandler(func(*hsms.DataMessage, hsms.SECS2Endpoint) {
			if first.CompareAndSwap(false, true) {
				e.dataEntered <- struct{}{}
				<-e.dataRelease // inline on the recv goroutine of this generation: it is wedged
			}
		})
	}
	e.conn.AddConnStateChangeHandler(func(prev, next hsms.ConnState) {
		if e.inH.Add(1) > 1 {
			e.r.add('F', 0, 0, "check1: two state-change handler callbacks ran concurrently (delivery is not serial)")
		}
		e.r.add('N', int(prev), int(next), "")
		e.r.add('h', int(e.conn.State()), 0, "")
		k := int(e.nCb.Add(1)) - 1
		if cfg.stallAt >= 0 && k == cfg.stallAt {
			<-e.release
		}
		e.inH.Add(-1)
	})
	return e, nil
}

func (e *env) setDial(f dialFn) {
	e.dialMu.Lock()
	e.dial = f
	e.dialMu.Unlock()
}

func (e *env) state() int { return int(e.conn.State()) }

func (e *env) sample(where string) int {
	s := e.state()
	e.r.add('S', s, 0, where)
	return s
}

func (e *env) note(f string, a ...any)    { e.r.add('P', 0, 0, fmt.Sprintf(f, a...)) }
func (e *env) anomaly(f string, a ...any) { e.r.add('R', 0, 0, fmt.Sprintf(f, a...)) }
func (e *env) failf(f string, a ...any)   { e.r.add('F', 0, 0, fmt.Sprintf(f, a...)) }

// open calls Open under a watchdog and records O / o and a State() sample right after it returns.
func (e *env) open(mode hsms.OpenMode, d time.Duration) int {
	e.r.add('O', 0, 0, "")
	ctx, cancel := context.WithTimeout(context.Background(), d)
	defer cancel()
	done := make(chan error, 1)
	go func() { done <- e.conn.Open(ctx, mode) }()
	select {
	case err := <-done:
		cl := errClass(err)
		e.r.add('o', cl, 0, "")
		e.sample("open-ret")
		return cl
	case <-time.After(d + 20*time.Second):
		e.hung = true
		e.anomaly("Open did not return %v after its context expired", 20*time.Second)
		return -1
	}
}

// closeConn calls Close under a watchdog and records C / c and a State() sample right after.
func (e *env) closeConn() int {
	e.r.add('C', 0, 0, "")
	done := make(chan error, 1)
	go func() { done <- e.conn.Close() }()
	select {
	case err := <-done:
		cl := errClass(err)
		e.r.add('c', cl, 0, "")
		e.sample("close-ret")
		return cl
	case <-time.After(25 * time.Second):
		e.hung = true
		e.anomaly("Close did not return within 25 s")
		return -1
	}
}

// postClose samples State() repeatedly for d after a Close returned. Only the first sample, the
// last one and every sample that is not NotConnected are recorded.
func (e *env) postClose(d time.Duration) {
	end := time.Now().Add(d)
	n := 0
	for time.Now().Before(end) {
		s := e.state()
		if n == 0 || s != 0 {
			e.r.add('S', s, 0, "post-close")
		}
		n++
		time.Sleep(150 * time.Microsecond)
	}
	e.r.add('S', e.state(), 0, fmt.Sprintf("post-close-last/%d", n))
}

// waitState polls State() until it equals s.
func (e *env) waitState(s int, d time.Duration) bool {
	end := time.Now().Add(d)
	for {
		if e.state() == s {
			return true
		}
		if time.Now().After(end) {
			return false
		}
		time.Sleep(100 * time.Microsecond)
	}
}

// quiesce is the harness-declared quiescence: the peer is idle and nothing is in flight. It lets
// the handlers drain (bounded), then records Q with a State() sample and the state the completed
// procedures imply. The wait ends early once State(), the last notification and the expectation
// agree on three consecutive polls.
func (e *env) quiesce(expect int, why string) bool {
	time.Sleep(2 * time.Millisecond)
	start := time.Now()
	end := start.Add(3 * time.Second)
	stable := 0
	var drainedSince time.Time
	for time.Now().Before(end) {
		s := e.state()
		drained := s == e.r.lastNext() && e.inH.Load() == 0
		if drained && (expect < 0 || s == expect) {
			stable++
			if stable >= 3 {
				break
			}
		} else {
			stable = 0
		}
		// drained and stable on a value the completed procedures do not imply: the commit that
		// would change it is a few instructions behind the response the peer already read, so
		// 400 ms of no movement is final
		if drained {
			if drainedSince.IsZero() {
				drainedSince = time.Now()
			} else if time.Since(drainedSince) > 400*time.Millisecond {
				break
			}
		} else {
			drainedSince = time.Time{}
		}
		time.Sleep(500 * time.Microsecond)
	}
	s := e.state()
	ln := e.r.lastNext()
	e.r.add('Q', s, expect, why)
	return s == ln && (expect < 0 || s == expect)
}

// nextPeer (active): the peer end of the next pipe the library dials.
func (e *env) nextPeer(d time.Duration) *peer {
	select {
	case c := <-e.dialCh:
		p := newPeer(c.c, e.r, &e.wg, e.cfg.transport == "secs1")
		p.born = c.at
		return p
	case <-time.After(d):
		return nil
	}
}

// connect (passive): hand a fresh pipe to the library's current listener. t0 is taken BEFORE the
// hand-off, so it is a lower bound for every timer the library arms on this connection.
func (e *env) connect(d time.Duration) (*peer, time.Time) {
	end := time.Now().Add(d)
	for {
		var l *pipeListener
		select {
		case l = <-e.lisCh:
		case <-time.After(time.Until(end)):
			return nil, time.Time{}
		}
		a, b := e.pipe()
		t0 := time.Now()
		select {
		case l.conns <- a:
			return newPeer(b, e.r, &e.wg, e.cfg.transport == "secs1"), t0
		case <-l.closed:
			_ = a.Close()
			_ = b.Close()
			continue // a stale listener of an earlier generation
		case <-time.After(time.Until(end)):
			_ = a.Close()
			_ = b.Close()
			return nil, time.Time{}
		}
	}
}

// finish closes the connection if the scenario left it open, closes every pipe and joins every
// rig goroutine (bounded).
func (e *env) finish() {
	select {
	case <-e.release:
	default:
		close(e.release)
	}
	select {
	case <-e.dataRelease:
	default:
		close(e.dataRelease)
	}
	e.parkMu.Lock()
	for _, pk := range e.parks {
		select {
		case pk.release <- errors.New("rig: scenario over"):
		default:
		}
	}
	e.parkMu.Unlock()
	if !e.hung {
		e.closeConn()
	}
	e.allConns.Lock()
	for _, c := range e.allConns.cs {
		_ = c.Close()
	}
	e.allConns.Unlock()
	joined := make(chan struct{})
	go func() { e.wg.Wait(); close(joined) }()
	select {
	case <-joined:
	case <-time.After(10 * time.Second):
		e.anomaly("rig goroutines did not join within 10 s")
	}
}
