// Scenario classes of the C05 end-to-end pass. Every random choice of a scenario comes from its own
// PRNG, seeded from the harness PRNG (c.Rng) when the plan is built, so a (seed, class, index)
// triple replays the same script.
package main

import (
	"context"
	"errors"
	"fmt"
	"math/rand"
	"net"
	"strings"
	"sync"
	"sync/atomic"
	"time"

	"github.com/arloliu/go-secs/v2/hsms"
	"github.com/arloliu/go-secs/v2/secs2"
)

type runFn func(e *env) (hdr string, tags []string)

const (
	longT7   = 5 * time.Second
	stepWait = 6 * time.Second // "the library must get here eventually": generous, never asserted as a bound
)

func baseCfg(rg *rand.Rand, active bool) cfgT {
	return cfgT{transport: "hsmsss", active: active, t5: 20 * time.Millisecond, t6: time.Duration(40+rg.Intn(40)) * time.Millisecond,
		t7: longT7, backoff: time.Duration(1+rg.Intn(4)) * time.Millisecond, mult: 1.0 + float64(rg.Intn(3))*0.5,
		buffered: rg.Intn(2) == 0, stallAt: -1}
}

func (p *peer) deadTime() time.Time { return p.r.t0.Add(time.Duration(p.deadAt.Load())) }

func isST(st byte) func(frame) bool { return func(f frame) bool { return f.stype == st } }

// acceptSelect (active library): wait for the library's Select.req and answer status.
func acceptSelect(e *env, p *peer, status byte) bool {
	req, ok := p.wait(stepWait, isST(stSelectReq))
	if !ok {
		return false
	}
	return p.send(ctl(req.sid, 0, status, stSelectRsp, req.sys)) == nil
}

// peerSelect (passive library): send Select.req, return the status of the Select.rsp (-1: none).
func peerSelect(e *env, p *peer, sys uint32) int {
	if p.send(ctl(e.sid, 0, 0, stSelectReq, sys)) != nil {
		return -1
	}
	rsp, ok := p.wait(stepWait, func(f frame) bool { return f.stype == stSelectRsp && f.sys == sys })
	if !ok {
		return -1
	}
	return int(rsp.b3)
}

func peerDeselect(e *env, p *peer, sys uint32) int {
	if p.send(ctl(e.sid, 0, 0, stDeselectReq, sys)) != nil {
		return -1
	}
	rsp, ok := p.wait(stepWait, func(f frame) bool { return f.stype == stDeselectRsp && f.sys == sys })
	if !ok {
		return -1
	}
	return int(rsp.b3)
}

// ---------------------------------------------------------------------------------------------
// act: active connect; select accepted / rejected / never answered (T6) / peer drop at every phase;
// reconnect cycles with short backoff; Close, reopen.

const (
	bAccept = iota
	bReject
	bSilent
	bDropBeforeRead
	bDropAfterReq
	bDropAfterRsp
	bPartial
	bAcceptThenDrop
	bAcceptThenSeparate
	nBeh
)

var behName = []string{"accept", "reject", "silent", "dropBeforeRead", "dropAfterReq", "dropAfterRsp", "partial", "acceptDrop", "acceptSeparate"}

func planAct(rg *rand.Rand) (cfgT, runFn) {
	cfg := baseCfg(rg, true)
	gens := 1 + rg.Intn(4)
	behs := make([]int, gens)
	for i := range behs {
		behs[i] = 1 + rg.Intn(nBeh-1)
	}
	behs[gens-1] = bAccept
	mode := hsms.OpenMode(rg.Intn(2))
	ending := rg.Intn(3)
	rejStatus := byte(2 + rg.Intn(2))
	preDrop := time.Duration(rg.Intn(1500)) * time.Microsecond
	return cfg, func(e *env) (string, []string) {
		var names []string
		for _, b := range behs {
			names = append(names, behName[b])
		}
		hdr := fmt.Sprintf("mode=%d gens=%s ending=%d t6=%v backoff=%v*%.1f buffered=%v", mode, strings.Join(names, ","), ending, cfg.t6, cfg.backoff, cfg.mult, cfg.buffered)
		tags := []string{}
		opened := make(chan int, 1)
		e.wg.Add(1)
		go func() { defer e.wg.Done(); opened <- e.open(mode, 3*time.Second) }()
		var last *peer
		for g, b := range behs {
			p := e.nextPeer(stepWait)
			if p == nil {
				e.anomaly("gen %d: the library did not dial", g)
				<-opened
				return hdr, tags
			}
			tags = append(tags, "act:"+behName[b])
			e.note("gen%d:%s", g, behName[b])
			switch b {
			case bAccept, bAcceptThenDrop, bAcceptThenSeparate:
				if !acceptSelect(e, p, 0) {
					e.anomaly("gen %d: no Select.req", g)
					<-opened
					return hdr, tags
				}
				if !e.waitState(2, stepWait) {
					// the monitor judges this at the quiescence point below (for the last generation)
					e.note("gen%d: State() did not reach Selected", g)
				}
				if b == bAcceptThenDrop {
					time.Sleep(preDrop)
					p.drop()
				} else if b == bAcceptThenSeparate {
					time.Sleep(preDrop)
					_ = p.send(ctl(e.sid, 0, 0, stSeparateReq, 77))
					p.waitDead(stepWait)
				}
			case bReject:
				if !acceptSelect(e, p, rejStatus) {
					e.anomaly("gen %d: no Select.req", g)
				}
				p.waitDead(stepWait)
			case bSilent:
				if _, ok := p.wait(stepWait, isST(stSelectReq)); !ok {
					e.anomaly("gen %d: no Select.req", g)
				}
				if !p.waitDead(cfg.t6 + stepWait) {
					e.anomaly("gen %d: the library did not drop an unanswered Select within T6+%v", g, stepWait)
				} else if el := p.deadTime().Sub(p.born); el < cfg.t6 {
					e.failf("timer: the link with an unanswered Select.req was dropped %v after the dial returned, before T6=%v (T7=%v)", el, cfg.t6, cfg.t7)
				}
			case bDropBeforeRead:
				p.drop()
			case bDropAfterReq:
				p.wait(stepWait, isST(stSelectReq))
				p.drop()
			case bDropAfterRsp:
				if req, ok := p.wait(stepWait, isST(stSelectReq)); ok {
					_ = p.send(ctl(req.sid, 0, 0, stSelectRsp, req.sys))
				}
				p.drop()
			case bPartial:
				p.wait(stepWait, isST(stSelectReq))
				_ = p.send([]byte{0, 0})
				p.drop()
			}
			last = p
		}
		<-opened
		if !e.quiesce(2, "last=selectRsp:0") {
			return hdr, tags
		}
		switch ending {
		case 0:
			e.closeConn()
			e.postClose(8 * time.Millisecond)
		case 1:
			e.closeConn()
			e.postClose(3 * time.Millisecond)
			e.wg.Add(1)
			go func() { defer e.wg.Done(); opened <- e.open(mode, 3*time.Second) }()
			p := e.nextPeer(stepWait)
			if p == nil {
				e.anomaly("reopen: the library did not dial")
				<-opened
				return hdr, tags
			}
			if !acceptSelect(e, p, 0) {
				e.anomaly("reopen: no Select.req")
			}
			<-opened
			tags = append(tags, "act:reopen")
			if e.quiesce(2, "reopen last=selectRsp:0") {
				e.closeConn()
				e.postClose(5 * time.Millisecond)
			}
		case 2:
			// the peer drops and the harness closes right away: Close races the reconnect loop
			last.drop()
			time.Sleep(preDrop)
			e.closeConn()
			e.postClose(10 * time.Millisecond)
		}
		return hdr, tags
	}
}

// ---------------------------------------------------------------------------------------------
// pas: passive accept + Select.req, Deselect.req/Select.req cycles (waiting for each response or
// pipelined in one write), Separate, peer drop; the peer's own view of the session decides the
// state expected at every quiescence point.

const (
	oSelect = iota
	oDeselect
	oSelDesel // Select.req + Deselect.req in ONE write
	oDeselSel // Deselect.req + Select.req in ONE write
	oSeparate
	oDrop
	nOp
)

var opName = []string{"select", "deselect", "selDesel", "deselSel", "separate", "drop"}

func planPas(rg *rand.Rand) (cfgT, runFn) {
	cfg := baseCfg(rg, false)
	n := 3 + rg.Intn(7)
	ops := make([]int, n)
	for i := range ops {
		ops[i] = rg.Intn(nOp)
	}
	ending := rg.Intn(2)
	return cfg, func(e *env) (string, []string) {
		var names []string
		for _, o := range ops {
			names = append(names, opName[o])
		}
		hdr := fmt.Sprintf("ops=%s ending=%d backoff=%v*%.1f buffered=%v", strings.Join(names, ","), ending, cfg.backoff, cfg.mult, cfg.buffered)
		tags := []string{}
		if e.open(hsms.OpenBackground, 3*time.Second) != eOK {
			e.anomaly("passive Open failed")
			return hdr, tags
		}
		var p *peer
		view := 0
		sys := uint32(100)
		for i, o := range ops {
			if p == nil {
				p, _ = e.connect(stepWait)
				if p == nil {
					e.anomaly("op %d: the library did not listen/accept", i)
					return hdr, tags
				}
				view = 1
				if !e.quiesce(1, "last=connect") {
					return hdr, tags
				}
			}
			sys += 2
			why := ""
			switch o {
			case oSelect:
				st := peerSelect(e, p, sys)
				why = fmt.Sprintf("last=select:%d", st)
				if st < 0 {
					e.anomaly("op %d: no Select.rsp", i)
					return hdr, tags
				}
				if want := map[int]int{1: 0, 2: 1}[view]; st != want {
					e.failf("e2e cause: Select.req sent in peer view %d was answered status %d (the status of the commit on State()), expected %d", view, st, want)
					return hdr, tags
				}
				view = 2
			case oDeselect:
				st := peerDeselect(e, p, sys)
				why = fmt.Sprintf("last=deselect:%d", st)
				if st < 0 {
					e.anomaly("op %d: no Deselect.rsp", i)
					return hdr, tags
				}
				if (view == 2) != (st == 0) {
					e.failf("e2e cause: Deselect.req sent in peer view %d was answered status %d", view, st)
					return hdr, tags
				}
				view = 1
			case oSelDesel, oDeselSel:
				if (o == oSelDesel) != (view == 1) {
					continue // only from the matching state
				}
				first, second := byte(stSelectReq), byte(stDeselectReq)
				if o == oDeselSel {
					first, second = second, first
				}
				buf := append(ctl(e.sid, 0, 0, first, sys), ctl(e.sid, 0, 0, second, sys+1)...)
				if p.send(buf) != nil {
					e.anomaly("op %d: pipelined write failed", i)
					return hdr, tags
				}
				r1, ok1 := p.wait(stepWait, func(f frame) bool { return f.stype == first+1 && f.sys == sys })
				r2, ok2 := p.wait(stepWait, func(f frame) bool { return f.stype == second+1 && f.sys == sys+1 })
				if !ok1 || !ok2 {
					e.anomaly("op %d: pipelined requests not both answered", i)
					return hdr, tags
				}
				why = fmt.Sprintf("last=%s:%d,%d", opName[o], r1.b3, r2.b3)
				if r1.b3 != 0 || r2.b3 != 0 {
					e.failf("e2e cause: pipelined %s in peer view %d answered status %d,%d, expected 0,0", opName[o], view, r1.b3, r2.b3)
					return hdr, tags
				}
				sys++
			case oSeparate:
				_ = p.send(ctl(e.sid, 0, 0, stSeparateReq, sys))
				why = "last=separate"
				if view == 2 {
					if !p.waitDead(stepWait) {
						e.anomaly("op %d: Separate.req while selected did not end the link", i)
						return hdr, tags
					}
					p, view = nil, 0
				}
			case oDrop:
				p.drop()
				p.waitDead(stepWait)
				why = "last=drop"
				p, view = nil, 0
			}
			tags = append(tags, "pas:"+opName[o])
			e.note("op%d:%s", i, why)
			if !e.quiesce(view, why) {
				return hdr, tags
			}
		}
		if ending == 1 && p != nil {
			p.drop() // Close races the drop / the passive re-listen
		}
		e.closeConn()
		e.postClose(8 * time.Millisecond)
		return hdr, tags
	}
}

// ---------------------------------------------------------------------------------------------
// pipe: the production shape of the known replay finding. Passive: the peer writes Select.req and
// Deselect.req in ONE write right after connecting. Active: the peer answers the library's
// Select.req with Select.rsp(0) and a Deselect.req in ONE write. Both requests are answered status
// 0, so the peer ends deselected; State() must settle at NotSelected.

func planPipe(rg *rand.Rand) (cfgT, runFn) {
	cfg := baseCfg(rg, rg.Intn(2) == 0)
	cfg.t6 = 500 * time.Millisecond
	delay := time.Duration(rg.Intn(300)) * time.Microsecond
	return cfg, func(e *env) (string, []string) {
		hdr := fmt.Sprintf("active=%v buffered=%v delay=%v", cfg.active, cfg.buffered, delay)
		tag := "pipe:passive"
		why := ""
		if cfg.active {
			tag = "pipe:active"
			if e.open(hsms.OpenBackground, 3*time.Second) != eOK {
				e.anomaly("active Open failed")
				return hdr, nil
			}
			p := e.nextPeer(stepWait)
			if p == nil {
				e.anomaly("the library did not dial")
				return hdr, nil
			}
			req, ok := p.wait(stepWait, isST(stSelectReq))
			if !ok {
				e.anomaly("no Select.req")
				return hdr, nil
			}
			time.Sleep(delay)
			buf := append(ctl(req.sid, 0, 0, stSelectRsp, req.sys), ctl(e.sid, 0, 0, stDeselectReq, 9001)...)
			if p.send(buf) != nil {
				e.anomaly("pipelined write failed")
				return hdr, nil
			}
			r, ok := p.wait(stepWait, func(f frame) bool { return f.stype == stDeselectRsp && f.sys == 9001 })
			if !ok {
				e.anomaly("no Deselect.rsp")
				return hdr, nil
			}
			why = fmt.Sprintf("last=selRspDesel:%d", r.b3)
			if r.b3 != 0 {
				e.failf("e2e cause: Deselect.req pipelined behind Select.rsp(0) was answered status %d, expected 0", r.b3)
				return hdr, []string{tag}
			}
		} else {
			if e.open(hsms.OpenBackground, 3*time.Second) != eOK {
				e.anomaly("passive Open failed")
				return hdr, nil
			}
			p, _ := e.connect(stepWait)
			if p == nil {
				e.anomaly("the library did not accept")
				return hdr, nil
			}
			time.Sleep(delay)
			buf := append(ctl(e.sid, 0, 0, stSelectReq, 9000), ctl(e.sid, 0, 0, stDeselectReq, 9001)...)
			if p.send(buf) != nil {
				e.anomaly("pipelined write failed")
				return hdr, nil
			}
			r1, ok1 := p.wait(stepWait, func(f frame) bool { return f.stype == stSelectRsp && f.sys == 9000 })
			r2, ok2 := p.wait(stepWait, func(f frame) bool { return f.stype == stDeselectRsp && f.sys == 9001 })
			if !ok1 || !ok2 {
				e.anomaly("pipelined requests not both answered")
				return hdr, nil
			}
			why = fmt.Sprintf("last=selDesel:%d,%d", r1.b3, r2.b3)
			if r1.b3 != 0 || r2.b3 != 0 {
				e.failf("e2e cause: pipelined selDesel answered status %d,%d, expected 0,0", r1.b3, r2.b3)
				return hdr, []string{tag}
			}
		}
		e.note("%s", why)
		tags := []string{tag}
		if e.quiesce(1, why) {
			tags = append(tags, tag+":settled-NotSelected")
		} else {
			tags = append(tags, tag+fmt.Sprintf(":settled-%d", e.state()))
		}
		e.closeConn()
		e.postClose(3 * time.Millisecond)
		return hdr, tags
	}
}

// ---------------------------------------------------------------------------------------------
// t7: check 5. T7 = 40 ms; the select completes at a delay swept across the T7 boundary. A
// connection that reports Selected must stay connected for 5*T7 (the peer stays idle); a link that
// T7 drops must not be dropped before T7.

// t7Track follows the select delay (relative to T7) at which the outcome flips, separately for
// passive [0] and active [1] connections. It only steers where the scripted peer aims; no verdict
// depends on it.
type t7Tracker struct {
	mu   sync.Mutex
	off  time.Duration
	step time.Duration
}

var t7Track = [2]t7Tracker{{off: 150 * time.Microsecond, step: 400 * time.Microsecond}, {off: 150 * time.Microsecond, step: 400 * time.Microsecond}}

func (t *t7Tracker) get() time.Duration {
	t.mu.Lock()
	defer t.mu.Unlock()
	return t.off
}

func (t *t7Tracker) feed(selected bool) {
	t.mu.Lock()
	defer t.mu.Unlock()
	if selected {
		t.off += t.step
	} else {
		t.off -= t.step
	}
	if t.off < -3*time.Millisecond {
		t.off = -3 * time.Millisecond
	}
	if t.off > 3*time.Millisecond {
		t.off = 3 * time.Millisecond
	}
	if t.step = t.step * 7 / 10; t.step < 25*time.Microsecond {
		t.step = 25 * time.Microsecond
	}
}

func planT7(rg *rand.Rand) (cfgT, runFn) {
	cfg := baseCfg(rg, rg.Intn(2) == 0)
	cfg.t7 = 40 * time.Millisecond
	cfg.t6 = 600 * time.Millisecond
	cfg.backoff = 5 * time.Millisecond
	// a quarter of the runs sweep +-8 ms around T7; the others follow the boundary found so far
	// (t7Track, fed back by the outcomes: "selected" moves it later, "expired" earlier) with a
	// +-150 us jitter, which puts the select into the few microseconds between the T7 timer
	// firing and the supervisor taking its event far more often than a blind sweep would
	wide := rg.Intn(4) == 0
	off := time.Duration(rg.Intn(16001)-8000) * time.Microsecond
	jitter := time.Duration(rg.Intn(301)-150) * time.Microsecond
	tr := &t7Track[0]
	if cfg.active {
		tr = &t7Track[1]
	}
	return cfg, func(e *env) (string, []string) {
		if !wide {
			off = tr.get() + jitter
		}
		delay := cfg.t7 + off
		hdr := fmt.Sprintf("active=%v T7=%v selectAt=%v wide=%v buffered=%v", cfg.active, cfg.t7, delay, wide, cfg.buffered)
		tags := []string{}
		var p *peer
		var t0 time.Time
		selected := false
		if cfg.active {
			e.setDial(func(n int, ctx context.Context) (net.Conn, error) {
				if n == 0 {
					return e.dialOK()
				}
				<-ctx.Done() // no second generation: keeps the outcome readable
				return nil, ctx.Err()
			})
			if e.open(hsms.OpenBackground, 3*time.Second) != eOK {
				e.anomaly("active Open failed")
				return hdr, tags
			}
			if p = e.nextPeer(stepWait); p == nil {
				e.anomaly("the library did not dial")
				return hdr, tags
			}
			t0 = p.born
			req, ok := p.wait(stepWait, isST(stSelectReq))
			if !ok && !p.isDead() {
				e.anomaly("no Select.req")
				return hdr, tags
			}
			// (!ok with a dead link: the rig was scheduled so late that T7 expired before it read
			// the Select.req - the expired outcome below, with its lower bound)
			time.Sleep(time.Until(t0.Add(delay)))
			if ok && p.send(ctl(req.sid, 0, 0, stSelectRsp, req.sys)) == nil {
				// the library acknowledges nothing on the wire: Selected is what State() reports
				end := time.Now().Add(60 * time.Millisecond)
				for time.Now().Before(end) && !p.isDead() {
					if e.state() == 2 {
						selected = true
						break
					}
					time.Sleep(50 * time.Microsecond)
				}
			}
		} else {
			if e.open(hsms.OpenBackground, 3*time.Second) != eOK {
				e.anomaly("passive Open failed")
				return hdr, tags
			}
			if p, t0 = e.connect(stepWait); p == nil {
				e.anomaly("the library did not accept")
				return hdr, tags
			}
			time.Sleep(time.Until(t0.Add(delay)))
			if p.send(ctl(e.sid, 0, 0, stSelectReq, 4242)) == nil {
				if rsp, ok := p.wait(2*time.Second, func(f frame) bool { return f.stype == stSelectRsp && f.sys == 4242 }); ok && rsp.b3 == 0 {
					selected = true
				}
			}
		}
		if !wide {
			tr.feed(selected)
		}
		if selected {
			e.sample("t7-selected")
			tags = append(tags, "t7:selected")
			hold := 5 * cfg.t7
			end := time.Now().Add(hold)
			for time.Now().Before(end) {
				if s := e.state(); s != 2 || p.isDead() {
					e.r.add('S', s, 0, "t7-hold")
					e.failf("check5: a session that reached Selected %v after connect (T7=%v) was disconnected within 5*T7 although the peer stayed connected and idle (State()=%d, link closed by the library=%v)",
						time.Since(t0).Round(time.Millisecond), cfg.t7, s, p.isDead())
					return hdr, tags
				}
				time.Sleep(500 * time.Microsecond)
			}
			e.quiesce(2, "last=select:0 held 5*T7")
		} else {
			if !p.waitDead(3 * time.Second) {
				e.anomaly("neither Selected nor dropped by T7")
				return hdr, tags
			}
			tags = append(tags, "t7:expired")
			if el := p.deadTime().Sub(t0); el < cfg.t7 {
				e.failf("timer: a not-selected link was dropped %v after connect, before T7=%v", el, cfg.t7)
			}
			e.quiesce(0, "last=t7-drop")
		}
		e.closeConn()
		e.postClose(3 * time.Millisecond)
		return hdr, tags
	}
}

// ---------------------------------------------------------------------------------------------
// blockdial: the schedule of the repaired Close-vs-reconnect defect. The first link is dropped by
// the peer; the reconnect dialer blocks until its context is cancelled (by Close's teardown) and
// then returns a LIVE pipe end anyway; the former peer of that pipe keeps writing. After Close
// returns State() must be NotConnected and stay so.

func planBlockDial(rg *rand.Rand) (cfgT, runFn) {
	cfg := baseCfg(rg, true)
	cfg.t5 = time.Millisecond
	cfg.backoff = time.Millisecond
	cfg.mult = 1.0
	cfg.t6 = 200 * time.Millisecond
	withSelect := rg.Intn(3) == 0
	dropAfter := time.Duration(rg.Intn(2500)) * time.Microsecond
	waitDial := rg.Intn(4) != 0
	closeAfter := time.Duration(rg.Intn(1800)) * time.Microsecond
	late := rg.Intn(5) != 0 // else: the blocked dialer returns the context error
	return cfg, func(e *env) (string, []string) {
		hdr := fmt.Sprintf("withSelect=%v dropAfter=%v waitDial=%v closeAfter=%v lateConn=%v buffered=%v", withSelect, dropAfter, waitDial, closeAfter, late, cfg.buffered)
		tags := []string{}
		entered := make(chan struct{}, 64)
		returned := make(chan bool, 64)
		e.setDial(func(n int, ctx context.Context) (net.Conn, error) {
			if n == 0 {
				return e.dialOK()
			}
			entered <- struct{}{}
			<-ctx.Done()
			if !late {
				returned <- false
				return nil, ctx.Err()
			}
			a, b := e.pipe()
			lp := newPeer(b, e.r, &e.wg, false)
			e.wg.Add(1)
			go func() { // the former peer keeps writing
				defer e.wg.Done()
				for i := 0; i < 40 && !lp.isDead(); i++ {
					_ = lp.c.SetWriteDeadline(time.Now().Add(2 * time.Millisecond))
					_, _ = lp.c.Write(ctl(e.sid, 0, 0, stSelectReq, uint32(500+i)))
					time.Sleep(200 * time.Microsecond)
				}
			}()
			returned <- true
			return a, nil
		})
		if e.open(hsms.OpenBackground, 3*time.Second) != eOK {
			e.anomaly("active Open failed")
			return hdr, tags
		}
		p := e.nextPeer(stepWait)
		if p == nil {
			e.anomaly("the library did not dial")
			return hdr, tags
		}
		if withSelect {
			if !acceptSelect(e, p, 0) || !e.waitState(2, stepWait) {
				e.anomaly("first generation did not reach Selected")
				return hdr, tags
			}
		}
		time.Sleep(dropAfter)
		p.drop()
		if waitDial {
			select {
			case <-entered:
			case <-time.After(stepWait):
				e.anomaly("the reconnect loop did not dial")
				return hdr, tags
			}
		}
		time.Sleep(closeAfter)
		e.closeConn()
		e.postClose(12 * time.Millisecond)
		select {
		case l := <-returned:
			if l {
				tags = append(tags, "blockdial:late-live-conn-returned-during-close")
			} else {
				tags = append(tags, "blockdial:dial-cancelled")
			}
		default:
			tags = append(tags, "blockdial:close-before-reconnect-dial")
		}
		return hdr, tags
	}
}

// ---------------------------------------------------------------------------------------------
// coc: Close / Open / Close sequences and reopen, including Close before the first Open, double
// Open, double Close, and a Close racing an Open that is waiting for Selected.

func planCOC(rg *rand.Rand) (cfgT, runFn) {
	cfg := baseCfg(rg, rg.Intn(2) == 0)
	cycles := 1 + rg.Intn(3)
	closeFirst := rg.Intn(2) == 0
	dblOpen := rg.Intn(2) == 0
	dblClose := rg.Intn(2) == 0
	race := cfg.active && rg.Intn(3) == 0
	raceDelay := time.Duration(rg.Intn(30000)) * time.Microsecond
	return cfg, func(e *env) (string, []string) {
		hdr := fmt.Sprintf("active=%v cycles=%d closeFirst=%v dblOpen=%v dblClose=%v race=%v/%v buffered=%v", cfg.active, cycles, closeFirst, dblOpen, dblClose, race, raceDelay, cfg.buffered)
		tags := []string{}
		if closeFirst {
			if cl := e.closeConn(); cl != eNotOpen {
				e.note("Close before Open returned class %d", cl)
			}
			e.postClose(time.Millisecond)
		}
		for cy := 0; cy < cycles; cy++ {
			var p *peer
			if cfg.active {
				opened := make(chan int, 1)
				e.wg.Add(1)
				go func() { defer e.wg.Done(); opened <- e.open(hsms.OpenMode(cy%2), 3*time.Second) }()
				if p = e.nextPeer(stepWait); p == nil {
					e.anomaly("cycle %d: the library did not dial", cy)
					<-opened
					return hdr, tags
				}
				if !acceptSelect(e, p, 0) {
					e.anomaly("cycle %d: no Select.req", cy)
				}
				<-opened
			} else {
				if e.open(hsms.OpenBackground, 3*time.Second) != eOK {
					e.anomaly("cycle %d: passive Open failed", cy)
					return hdr, tags
				}
				if p, _ = e.connect(stepWait); p == nil {
					e.anomaly("cycle %d: the library did not accept", cy)
					return hdr, tags
				}
				if st := peerSelect(e, p, uint32(10+cy)); st != 0 {
					e.anomaly("cycle %d: Select.rsp status %d", cy, st)
					return hdr, tags
				}
			}
			if !e.quiesce(2, fmt.Sprintf("cycle%d last=select:0", cy)) {
				return hdr, tags
			}
			if dblOpen {
				if cl := e.open(hsms.OpenBackground, time.Second); cl != eAlreadyOpen {
					e.failf("lifecycle: a second Open on an open connection returned class %d, not ErrAlreadyOpen", cl)
				}
				e.quiesce(2, "after double Open")
			}
			e.closeConn()
			e.postClose(4 * time.Millisecond)
			if dblClose {
				e.closeConn()
				e.postClose(time.Millisecond)
			}
			tags = append(tags, "coc:cycle")
		}
		if race {
			// Open(WaitSelected) against a peer that never answers, Close from another goroutine
			tags = append(tags, "coc:close-races-open")
			opened := make(chan int, 1)
			e.wg.Add(1)
			go func() {
				defer e.wg.Done()
				opened <- e.open(hsms.OpenWaitSelected, 60*time.Millisecond)
			}()
			time.Sleep(raceDelay)
			e.closeConn()
			<-opened
			// whichever ran last decides; close again so the interval after it is certainly closed
			e.closeConn()
			e.postClose(6 * time.Millisecond)
		}
		return hdr, tags
	}
}

// ---------------------------------------------------------------------------------------------
// coal: a handler that stalls in its first callback while the peer runs more select/deselect
// cycles than the notification buffer holds; then it is released. The chain may break only where
// the library logged the coalesce warning.

func planCoal(rg *rand.Rand) (cfgT, runFn) {
	cfg := baseCfg(rg, false)
	cfg.stallAt = rg.Intn(3)
	cycles := 12 + rg.Intn(14)
	endSelected := rg.Intn(2) == 0
	return cfg, func(e *env) (string, []string) {
		hdr := fmt.Sprintf("stallAt=%d cycles=%d endSelected=%v", cfg.stallAt, cycles, endSelected)
		tags := []string{"coal"}
		if e.open(hsms.OpenBackground, 3*time.Second) != eOK {
			e.anomaly("passive Open failed")
			return hdr, tags
		}
		p, _ := e.connect(stepWait)
		if p == nil {
			e.anomaly("the library did not accept")
			return hdr, tags
		}
		sys := uint32(1000)
		view := 1
		// each echo is given time to be taken by the supervisor before the next request: this
		// class is about the notification buffer, not about commits overtaking the supervisor
		// (if that happens anyway the quiescence check reports it like everywhere else)
		settle := func(why string) bool {
			time.Sleep(300 * time.Microsecond)
			if e.state() != view {
				close(e.release)
				e.quiesce(view, why)
				return false
			}
			return true
		}
		for i := 0; i < cycles; i++ {
			if st := peerSelect(e, p, sys); st != 0 {
				e.anomaly("cycle %d: Select.rsp status %d", i, st)
				return hdr, tags
			}
			view = 2
			sys++
			if !settle("last=select:0") {
				return hdr, tags
			}
			if i == cycles-1 && endSelected {
				break
			}
			if st := peerDeselect(e, p, sys); st != 0 {
				e.anomaly("cycle %d: Deselect.rsp status %d", i, st)
				return hdr, tags
			}
			view = 1
			sys++
			if !settle("last=deselect:0") {
				return hdr, tags
			}
		}
		time.Sleep(5 * time.Millisecond)
		close(e.release)
		why := "last=deselect:0"
		if view == 2 {
			why = "last=select:0"
		}
		e.quiesce(view, why+" after a stalled handler")
		for _, en := range e.r.snapshot() {
			if en.k == 'W' {
				tags = append(tags, "coal:warning-logged")
				break
			}
		}
		e.closeConn()
		e.postClose(3 * time.Millisecond)
		return hdr, tags
	}
}

// ---------------------------------------------------------------------------------------------
// firstdial: the first dial fails. OpenWaitSelected: Open fails and rolls back (closed: State()
// NotConnected, no callbacks), then a reopen succeeds. OpenBackground: Open succeeds and the
// connection comes up from the background retry.

func planFirstDial(rg *rand.Rand) (cfgT, runFn) {
	cfg := baseCfg(rg, true)
	mode := hsms.OpenMode(rg.Intn(2))
	fails := 1 + rg.Intn(3)
	return cfg, func(e *env) (string, []string) {
		hdr := fmt.Sprintf("mode=%d failingDials=%d", mode, fails)
		tags := []string{fmt.Sprintf("firstdial:mode%d", mode)}
		failUntil := fails
		if mode == hsms.OpenWaitSelected {
			failUntil = 1
		}
		e.setDial(func(n int, ctx context.Context) (net.Conn, error) {
			if n < failUntil {
				return nil, fmt.Errorf("rig: connection refused")
			}
			return e.dialOK()
		})
		opened := make(chan int, 1)
		e.wg.Add(1)
		go func() { defer e.wg.Done(); opened <- e.open(mode, 3*time.Second) }()
		if mode == hsms.OpenWaitSelected {
			if cl := <-opened; cl != eOther {
				e.note("Open with a failing dial returned class %d", cl)
			}
			e.postClose(5 * time.Millisecond)
			e.wg.Add(1)
			go func() { defer e.wg.Done(); opened <- e.open(mode, 3*time.Second) }()
		}
		p := e.nextPeer(stepWait)
		if p == nil {
			e.anomaly("the library did not dial again")
			<-opened
			return hdr, tags
		}
		if !acceptSelect(e, p, 0) {
			e.anomaly("no Select.req")
		}
		<-opened
		if e.quiesce(2, "last=selectRsp:0") {
			e.closeConn()
			e.postClose(4 * time.Millisecond)
		}
		return hdr, tags
	}
}

// ---------------------------------------------------------------------------------------------
// s1: SECS-I connections (no select handshake: a live line is the selected session). Line up,
// peer drop, reconnect, Close.

func planS1(rg *rand.Rand) (cfgT, runFn) {
	cfg := baseCfg(rg, rg.Intn(2) == 0)
	cfg.transport = "secs1"
	cfg.buffered = false
	drops := rg.Intn(3)
	return cfg, func(e *env) (string, []string) {
		hdr := fmt.Sprintf("secs1 active=%v drops=%d backoff=%v", cfg.active, drops, cfg.backoff)
		tags := []string{fmt.Sprintf("s1:active=%v", cfg.active)}
		if e.open(hsms.OpenBackground, 3*time.Second) != eOK {
			e.anomaly("secs1 Open failed")
			return hdr, tags
		}
		for g := 0; g <= drops; g++ {
			var p *peer
			if cfg.active {
				p = e.nextPeer(stepWait)
			} else {
				p, _ = e.connect(stepWait)
			}
			if p == nil {
				e.anomaly("gen %d: no line", g)
				return hdr, tags
			}
			if !e.quiesce(2, "last=line-up") {
				return hdr, tags
			}
			if g < drops {
				p.drop()
				p.waitDead(stepWait)
				if !cfg.active {
					if !e.quiesce(0, "last=drop") {
						return hdr, tags
					}
				}
			}
		}
		e.closeConn()
		e.postClose(5 * time.Millisecond)
		return hdr, tags
	}
}

// ---------------------------------------------------------------------------------------------
// straggler: an event of an EARLIER generation must not be replayed onto the current connection.
// A data handler blocks inline on generation 1's recv goroutine; generation 1 is then dropped by
// something else (a linktest whose response is never read -> T6, or the peer closing the pipe ->
// the next linktest write fails); the bounded teardown join runs into a SMALL close timeout and
// abandons the wedged goroutine; the reconnect loop brings generation 2 to Selected; only then the
// handler returns and the straggler reads its long-closed socket. Nothing happens on generation
// 2's connection, so it must stay Selected: no State() change, no notification, no further dial.

var stragglerSeq atomic.Int32

func planStraggler(rg *rand.Rand) (cfgT, runFn) {
	cfg := baseCfg(rg, true)
	cfg.t6 = time.Duration(50+rg.Intn(30)) * time.Millisecond
	cfg.closeTimeout = time.Duration(60+rg.Intn(60)) * time.Millisecond
	cfg.linktest = time.Duration(15+rg.Intn(15)) * time.Millisecond
	cfg.blockData = true
	_ = rg.Intn(2)
	peerClose := stragglerSeq.Add(1)%2 == 0 // both dropping causes in every run, however few instances
	watch := time.Duration(300+rg.Intn(150)) * time.Millisecond
	return cfg, func(e *env) (string, []string) {
		cause := "linktestT6"
		if peerClose {
			cause = "peerClose"
		}
		hdr := fmt.Sprintf("cause=%s t6=%v closeTimeout=%v linktest=%v watch=%v buffered=%v", cause, cfg.t6, cfg.closeTimeout, cfg.linktest, watch, cfg.buffered)
		tags := []string{"straggler:" + cause}
		if e.open(hsms.OpenBackground, 3*time.Second) != eOK {
			e.anomaly("active Open failed")
			return hdr, tags
		}
		p1 := e.nextPeer(stepWait)
		if p1 == nil || !acceptSelect(e, p1, 0) || !e.waitState(2, stepWait) {
			e.anomaly("generation 1 did not reach Selected")
			return hdr, tags
		}
		// wedge generation 1's recv goroutine inside the data handler (S1F1, no reply expected)
		if p1.send(ctl(e.sid, 1, 1, 0, 31337)) != nil {
			e.anomaly("data frame write failed")
			return hdr, tags
		}
		select {
		case <-e.dataEntered:
		case <-time.After(stepWait):
			e.anomaly("the data handler was not invoked")
			return hdr, tags
		}
		e.note("gen1 recv goroutine wedged in the data handler")
		if peerClose {
			p1.drop()
		}
		// generation 1 is dropped by the linktest (T6 / write error), its teardown abandons the
		// wedged goroutine after the close timeout, the reconnect loop dials generation 2
		p2 := e.nextPeer(stepWait + cfg.t6 + cfg.closeTimeout)
		if p2 == nil {
			e.anomaly("the library did not dial generation 2")
			return hdr, tags
		}
		if !acceptSelect(e, p2, 0) || !e.waitState(2, stepWait) {
			e.anomaly("generation 2 did not reach Selected")
			return hdr, tags
		}
		if !e.quiesce(2, "gen2 last=selectRsp:0, gen1 handler still blocked") {
			return hdr, tags
		}
		dials := e.nDials.Load()
		nBefore := len(e.r.snapshot())
		tags = append(tags, "straggler:released-after-gen2-selected")
		e.note("release the gen1 handler (dials so far %d)", dials)
		close(e.dataRelease)
		end := time.Now().Add(watch)
		for time.Now().Before(end) {
			s := e.state()
			if s != 2 || p2.isDead() || e.nDials.Load() != dials {
				e.r.add('S', s, 0, "straggler-watch")
				e.note("State()=%d, gen2 link closed by the library=%v, dials %d->%d", s, p2.isDead(), dials, e.nDials.Load())
				e.failf("replayed generation: after the blocked generation-1 data handler returned, generation 2 (Selected, nothing happened on its connection) was disturbed (State() left Selected / its link was closed / another dial)")
				return hdr, tags
			}
			time.Sleep(500 * time.Microsecond)
		}
		for _, en := range e.r.snapshot()[nBefore:] {
			if en.k == 'N' {
				e.failf("replayed generation: notification %d->%d delivered after the blocked generation-1 data handler returned although nothing happened on generation 2's connection", en.a, en.b)
				return hdr, tags
			}
		}
		e.quiesce(2, "gen2 undisturbed after the gen1 straggler ran")
		e.closeConn()
		e.postClose(4 * time.Millisecond)
		return hdr, tags
	}
}

// ---------------------------------------------------------------------------------------------
// parkwrite: a processed disconnect of generation N must not be replayed into its successor by a
// SYNCHRONOUS sender whose write on generation N fails late. The harness owns the library's pipe
// end (parkConn) and parks the Write of one synchronous data send (caller ctx live throughout) on
// generation N; N is then ended (the peer closes the pipe and the library reconnects, or
// Close + Open); generation N+1 is brought to Selected and its notifications are delivered; only
// THEN the parked Write is released with an error. Every wait is event-driven (parked signal, send
// returned, State()/notification agreement); the only timed part is the window in which nothing
// may happen: State() stays Selected, no notification, no dial/listen, Reconnects() unchanged, the
// link stays up, and (HSMS-SS) a request/reply round trip on N+1 succeeds. SECS-I takes the
// Close + Open variant (its line engine is the only reader, so a silent peer close is not noticed
// while the engine sits in the parked write) and no round trip (the rig's SECS-I peer is idle).

var parkSeq atomic.Int32

func planParkWrite(rg *rand.Rand) (cfgT, runFn) {
	k := int(parkSeq.Add(1) - 1)
	cfg := baseCfg(rg, k%2 == 0)
	cfg.parkable = true
	cfg.closeTimeout = time.Duration(60+rg.Intn(60)) * time.Millisecond
	reopen := (k/2)%2 == 1
	if k%5 == 4 {
		cfg.transport, cfg.buffered, reopen = "secs1", false, true
	}
	watch := time.Duration(150+rg.Intn(100)) * time.Millisecond
	return cfg, func(e *env) (string, []string) {
		how := "peerClose"
		if reopen {
			how = "closeOpen"
		}
		hdr := fmt.Sprintf("%s active=%v end=%s closeTimeout=%v watch=%v buffered=%v", cfg.transport, cfg.active, how, cfg.closeTimeout, watch, cfg.buffered)
		tags := []string{fmt.Sprintf("parkwrite:%s:active=%v:%s", cfg.transport, cfg.active, how)}
		up := func(gen int) *peer { // bring one generation to Selected
			var p *peer
			if cfg.active {
				p = e.nextPeer(stepWait)
			} else {
				p, _ = e.connect(stepWait)
			}
			if p == nil {
				e.anomaly("gen %d: no link", gen)
				return nil
			}
			if cfg.transport == "hsmsss" {
				if cfg.active && !acceptSelect(e, p, 0) {
					e.anomaly("gen %d: no Select.req", gen)
					return nil
				}
				if !cfg.active && peerSelect(e, p, uint32(7000+gen)) != 0 {
					e.anomaly("gen %d: Select.req not answered status 0", gen)
					return nil
				}
			}
			if !e.waitState(2, stepWait) {
				e.anomaly("gen %d: not Selected", gen)
				return nil
			}
			return p
		}
		if e.open(hsms.OpenBackground, 3*time.Second) != eOK {
			e.anomaly("Open failed")
			return hdr, tags
		}
		p1 := up(1)
		if p1 == nil || !e.quiesce(2, "gen1 selected") {
			return hdr, tags
		}
		pk := e.lastPark()
		pk.armed.Store(true)
		sent := make(chan error, 1)
		sctx, cancel := context.WithTimeout(context.Background(), 60*time.Second) // live throughout
		defer cancel()
		e.wg.Add(1)
		go func() {
			defer e.wg.Done()
			_, err := e.conn.SendDataMessage(sctx, 1, 1, false, secs2.A("park"))
			sent <- err
		}()
		select {
		case <-pk.parked:
		case <-time.After(stepWait):
			e.anomaly("the synchronous send did not reach the transport write")
			return hdr, tags
		}
		e.note("gen1: Write of a synchronous S1F1 parked")
		if reopen {
			e.closeConn()
			if e.open(hsms.OpenBackground, 3*time.Second) != eOK {
				e.anomaly("reopen failed")
				return hdr, tags
			}
		} else {
			p1.drop()
		}
		p2 := up(2)
		if p2 == nil || !e.quiesce(2, "gen2 selected, gen1 Write still parked") {
			return hdr, tags
		}
		select {
		case err := <-sent:
			e.anomaly("the parked send returned before its release (class %d)", errClass(err))
			return hdr, tags
		default:
		}
		dials, listens, recon := e.nDials.Load(), e.nListens.Load(), e.conn.Metrics().Reconnects()
		nBefore := len(e.r.snapshot())
		tags = append(tags, "parkwrite:released-after-gen2-selected")
		e.note("release the parked gen1 Write with an error (dials %d listens %d reconnects %d)", dials, listens, recon)
		pk.release <- errors.New("rig: connection reset by peer (late)")
		select {
		case err := <-sent:
			if err == nil {
				e.failf("lifecycle: a synchronous send whose transport write failed returned nil")
			}
		case <-time.After(stepWait):
			e.anomaly("the released send did not return")
			return hdr, tags
		}
		// the send has returned: whatever it injected is already queued. Nothing may follow.
		disturbed := func() bool {
			return e.state() != 2 || p2.isDead() || e.nDials.Load() != dials || e.nListens.Load() != listens || e.conn.Metrics().Reconnects() != recon
		}
		end := time.Now().Add(watch)
		for time.Now().Before(end) && !disturbed() {
			time.Sleep(500 * time.Microsecond)
		}
		notif := false
		for _, en := range e.r.snapshot()[nBefore:] {
			notif = notif || en.k == 'N'
		}
		if disturbed() || notif {
			e.sample("parkwrite-watch")
			e.note("gen2 link closed by the library=%v dials %d->%d listens %d->%d reconnects %d->%d notification=%v", p2.isDead(), dials, e.nDials.Load(), listens, e.nListens.Load(), recon, e.conn.Metrics().Reconnects(), notif)
			e.failf("replayed generation: a synchronous send's write on generation 1 failed after generation 2 was Selected and generation 2 (nothing happened on its connection) was disturbed (State() left Selected / notification / its link closed / dial or listen / Reconnects())")
			return hdr, tags
		}
		if cfg.transport == "hsmsss" {
			type rt struct {
				m   *hsms.DataMessage
				err error
			}
			got := make(chan rt, 1)
			e.wg.Add(1)
			go func() {
				defer e.wg.Done()
				m, err := e.conn.SendDataMessage(sctx, 1, 1, true, secs2.A("ping"))
				got <- rt{m, err}
			}()
			if f, ok := p2.wait(stepWait, isST(0)); ok {
				_ = p2.send(ctl(f.sid, 1, 2, 0, f.sys)) // S1F2, same system bytes
			}
			select {
			case r := <-got:
				if r.err != nil || r.m == nil {
					e.failf("replayed generation: a request/reply round trip on generation 2 failed after the late write failure of generation 1 (error class %d)", errClass(r.err))
					return hdr, tags
				}
			case <-time.After(stepWait):
				e.anomaly("round trip did not finish")
				return hdr, tags
			}
		}
		e.quiesce(2, "gen2 undisturbed after the late gen1 write failure")
		e.closeConn()
		e.postClose(4 * time.Millisecond)
		return hdr, tags
	}
}

// ---------------------------------------------------------------------------------------------
// t7desel: the T7 dwell of the SECOND not-selected window. The session is selected through the
// library's Select RESPONDER path (passive; or active with a simultaneous Select.req from the
// peer), the peer deselects it d after TCP-up (d swept: 0.2, 0.5, 0.9, 1.5 x T7) and then stays
// silent with the link open. From an instant taken BEFORE the Deselect.req is written: State()
// stays NotSelected for at least T7 (exact lower bound) and the link is not closed before that;
// then T7 takes effect (NotConnected, link closed by the library) within T7 + a generous slack.
// Fifth variant: a re-Select half-way through the dwell cancels it (the session is held 1.2 x T7).
// Waits are on events (responses, State() values, the link closing); the only sleeps are the
// script's own stimulus times.

var t7dSeq atomic.Int32

func planT7Desel(rg *rand.Rand) (cfgT, runFn) {
	k := int(t7dSeq.Add(1) - 1)
	cfg := baseCfg(rg, (k/5)%2 == 1)
	cfg.t7 = 400 * time.Millisecond
	cfg.t6 = 3 * time.Second
	cfg.backoff = 5 * time.Millisecond
	variant := k % 5
	factor := []float64{0.2, 0.5, 0.9, 1.5, 0.2}[variant]
	d := time.Duration(factor * float64(cfg.t7))
	reselect := variant == 4
	const slack = 6 * time.Second
	return cfg, func(e *env) (string, []string) {
		hdr := fmt.Sprintf("active=%v T7=%v deselectAt=%v(%.1fxT7) reselect=%v buffered=%v", cfg.active, cfg.t7, d, factor, reselect, cfg.buffered)
		tag := fmt.Sprintf("t7desel:active=%v:d=%.1f:reselect=%v", cfg.active, factor, reselect)
		tags := []string{tag}
		var p *peer
		var t0 time.Time
		if cfg.active {
			e.setDial(func(n int, ctx context.Context) (net.Conn, error) {
				if n == 0 {
					return e.dialOK()
				}
				<-ctx.Done() // no second generation: keeps the outcome readable
				return nil, ctx.Err()
			})
		}
		if e.open(hsms.OpenBackground, 3*time.Second) != eOK {
			e.anomaly("Open failed")
			return hdr, tags
		}
		if cfg.active {
			if p = e.nextPeer(stepWait); p == nil {
				e.anomaly("the library did not dial")
				return hdr, tags
			}
			t0 = p.born
			req, ok := p.wait(stepWait, isST(stSelectReq))
			if !ok {
				e.anomaly("no Select.req")
				return hdr, tags
			}
			// simultaneous select: the peer's own Select.req goes through the library's responder
			// path first; the library's request is then answered "already active"
			if peerSelect(e, p, 8100) != 0 {
				e.anomaly("simultaneous Select.req not answered status 0")
				return hdr, tags
			}
			_ = p.send(ctl(req.sid, 0, 1, stSelectRsp, req.sys))
		} else {
			if p, t0 = e.connect(stepWait); p == nil {
				e.anomaly("the library did not accept")
				return hdr, tags
			}
			if peerSelect(e, p, 8100) != 0 {
				e.anomaly("Select.req not answered status 0")
				return hdr, tags
			}
		}
		if !e.waitState(2, stepWait) {
			e.anomaly("not Selected")
			return hdr, tags
		}
		time.Sleep(time.Until(t0.Add(d)))
		if e.state() != 2 || p.isDead() {
			e.sample("t7desel-before-deselect")
			tags = append(tags, "t7desel:verdict")
			e.failf("check5: a session selected through the responder path was disconnected before the peer deselected it (T7 armed at TCP-up)")
			return hdr, tags
		}
		tD := time.Now() // BEFORE the Deselect.req is written: lower-bound base
		if st := peerDeselect(e, p, 8200); st != 0 {
			e.anomaly("Deselect.req answered status %d", st)
			return hdr, tags
		}
		if !e.waitState(1, stepWait) {
			if e.state() == 0 {
				e.note("NotConnected %v after the Deselect.req", time.Since(tD))
				tags = append(tags, "t7desel:verdict")
				e.failf("timer: a deselected session (NotSelected on the same TCP connection) was disconnected before T7 had elapsed since the Deselect.req")
			} else {
				e.anomaly("not NotSelected after Deselect.rsp(0)")
			}
			return hdr, tags
		}
		e.note("deselected %v after TCP-up", tD.Sub(t0).Round(time.Millisecond))
		if reselect {
			time.Sleep(time.Until(tD.Add(cfg.t7 / 2)))
			st := peerSelect(e, p, 8300)
			if st != 0 {
				if el := time.Since(tD); p.isDead() && el < cfg.t7 {
					e.note("link closed %v after the Deselect.req", el)
					tags = append(tags, "t7desel:verdict")
					e.failf("timer: a deselected session (NotSelected on the same TCP connection) was disconnected before T7 had elapsed since the Deselect.req")
				} else {
					e.anomaly("re-Select answered %d", st)
				}
				return hdr, tags
			}
			end := time.Now().Add(cfg.t7 * 12 / 10)
			for time.Now().Before(end) {
				if s := e.state(); s != 2 || p.isDead() {
					e.r.add('S', s, 0, "t7desel-hold")
					tags = append(tags, "t7desel:verdict")
					e.failf("check5: a re-Select inside the T7 dwell that followed a Deselect did not keep the session (disconnected within 1.2*T7 of the re-Select, peer idle)")
					return hdr, tags
				}
				time.Sleep(500 * time.Microsecond)
			}
			tags = append(tags, "t7desel:verdict")
			e.quiesce(2, "last=select:0 (re-Select inside the dwell) held 1.2*T7")
			e.closeConn()
			e.postClose(3 * time.Millisecond)
			return hdr, tags
		}
		// the dwell: NotSelected until T7 after tD, then NotConnected
		deadline := tD.Add(cfg.t7 + slack)
		for {
			s := e.state()
			now := time.Now() // taken AFTER the observation: never earlier than the change
			if s != 1 {
				e.r.add('S', s, 0, "t7desel-left-NotSelected")
				if el := now.Sub(tD); el < cfg.t7 {
					e.note("State()=%d %v after the Deselect.req (TCP-up %v before it)", s, el, tD.Sub(t0).Round(time.Millisecond))
					tags = append(tags, "t7desel:verdict")
					e.failf("timer: a deselected session (NotSelected on the same TCP connection) was disconnected before T7 had elapsed since the Deselect.req")
					return hdr, tags
				}
				break
			}
			if now.After(deadline) {
				e.note("still NotSelected %v after the Deselect.req", now.Sub(tD))
				tags = append(tags, "t7desel:verdict")
				e.failf("timer: T7 never took effect in the not-selected window that followed a Deselect (still NotSelected T7+6s after the Deselect.req, peer silent, link open)")
				return hdr, tags
			}
			time.Sleep(200 * time.Microsecond)
		}
		if !p.waitDead(slack) {
			tags = append(tags, "t7desel:verdict")
			e.failf("timer: T7 expiry after a Deselect did not close the link")
			return hdr, tags
		}
		if el := p.deadTime().Sub(tD); el < cfg.t7 {
			e.note("link closed %v after the Deselect.req", el)
			tags = append(tags, "t7desel:verdict")
			e.failf("timer: a deselected session (NotSelected on the same TCP connection) was disconnected before T7 had elapsed since the Deselect.req")
			return hdr, tags
		}
		tags = append(tags, "t7desel:verdict")
		e.quiesce(0, "last=t7-drop after deselect")
		e.closeConn()
		e.postClose(3 * time.Millisecond)
		return hdr, tags
	}
}
