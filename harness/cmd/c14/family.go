package main

// The deterministic "sibling-then-nest" family: well-formed texts in which closed sibling lists
// (empty "<L>", "<L[0]>", non-empty "<L <A \"x\">>") stand before / around the list that nests
// further, for sibling counts and depths around secs2.MaxListDepth. A nesting counter that is not
// lowered exactly once per closed list goes wrong only on such shapes (plain "<L <L <L ..." never
// closes a list before the deepest point).
//
// What each text IS (real list depth, and the offset a parser capped at 64 must report when the
// 65th level opens) is computed from the bytes by scanShape, an independent bracket scanner —
// not by the parser and not by the model.

import (
	"fmt"
	"strings"
	"time"
)

type shape struct {
	depth            int // deepest list nesting
	closedBeforeNest int // lists already closed when the deepest level is first reached
	empty            int // lists closed without a child
	lists            int // lists opened
	off65            int // see famInfo.off65
}

func isWS(b byte) bool { return b == ' ' || b == '\t' || b == '\r' || b == '\n' }

// scanShape: '<' opens an item (a list iff the next non-space byte is L/l), '>' closes the
// innermost open item. Exact for texts without brackets inside strings (the family); a tolerant
// estimate for the histogram otherwise.
func scanShape(s string) shape {
	type fr struct {
		list bool
		kids int
	}
	sh := shape{off65: -1}
	var st []fr
	depth, closed := 0, 0
	for i := 0; i < len(s); i++ {
		switch s[i] {
		case '<':
			j := i + 1
			for j < len(s) && isWS(s[j]) {
				j++
			}
			isList := j < len(s) && (s[j] == 'L' || s[j] == 'l')
			if len(st) > 0 {
				st[len(st)-1].kids++
			}
			st = append(st, fr{list: isList})
			if isList {
				sh.lists++
				depth++
				if depth > sh.depth {
					sh.depth = depth
					sh.closedBeforeNest = closed
				}
				if depth == maxListDepth+1 && sh.off65 < 0 {
					// the position parseList reports: after the type letter, an optional [..] and white space
					j++
					for j < len(s) && isWS(s[j]) {
						j++
					}
					if j < len(s) && s[j] == '[' {
						for j < len(s) && s[j] != ']' {
							j++
						}
						j++
						for j < len(s) && isWS(s[j]) {
							j++
						}
					}
					sh.off65 = j
				}
			}
		case '>':
			if len(st) == 0 {
				continue
			}
			f := st[len(st)-1]
			st = st[:len(st)-1]
			if f.list {
				depth--
				closed++
				if f.kids == 0 {
					sh.empty++
				}
			}
		}
	}
	return sh
}

func bucket(n int) string {
	switch {
	case n <= 3:
		return fmt.Sprint(n)
	case n < 8:
		return "4-7"
	case n < 32:
		return "8-31"
	case n < 62:
		return "32-61"
	case n <= 66:
		return fmt.Sprint(n)
	case n < 1000:
		return "67-999"
	}
	return "1000+"
}

var siblingForms = []string{"<L>", "<L[0]>", "<L <A \"x\">>"}

// flatText: one list holding c closed sibling lists and then a chain of tail-1 further nested lists.
func flatText(c int, form string, tail int, after bool) string {
	var sb strings.Builder
	sb.WriteString("S1F1\n<L ")
	if !after {
		sb.WriteString(strings.Repeat(form+" ", c))
	}
	sb.WriteString(strings.Repeat("<L ", tail-1) + strings.Repeat(">", tail-1))
	if after {
		sb.WriteString(" " + strings.Repeat(form+" ", c))
	}
	sb.WriteString(">\n.")
	return sb.String()
}

// chainText: d nested lists; every level holds k closed siblings before the list that nests
// further (and, with around, k more after it); the innermost list is empty.
func chainText(d, k int, form string, around bool) string {
	var sb strings.Builder
	sb.WriteString("S1F1\n")
	sib := strings.Repeat(form+" ", k)
	for i := 1; i < d; i++ {
		sb.WriteString("<L " + sib)
	}
	sb.WriteString("<L>")
	for i := 1; i < d; i++ {
		if around {
			sb.WriteString(" " + sib)
		}
		sb.WriteString(">")
	}
	sb.WriteString("\n.")
	return sb.String()
}

func famKase(s, class string, strict bool, e byte, shallow bool) kase {
	sh := scanShape(s)
	return kase{strict: strict, entry: e, shallow: shallow, input: s, class: class, fam: &famInfo{depth: sh.depth, off65: sh.off65}}
}

// familyCases: total closed lists 0,1,62,63,64,65,200 under real depth 1..3 (before and after the
// nesting child); real depth 63,64,65,66,200 with 1..2 closed siblings per level (before / around),
// all three sibling forms, both modes, all entry points; depth 5000 through Parse and ParseMessage.
func familyCases() []kase {
	var cases []kase
	add := func(s, class string, entries []byte) {
		for _, strict := range []bool{false, true} {
			for _, e := range entries {
				cases = append(cases, famKase(s, class, strict, e, false))
			}
		}
	}
	all := []byte{'P', 'G', 'M', 'H'}
	for _, form := range siblingForms {
		for _, c := range []int{0, 1, 62, 63, 64, 65, 200} {
			for tail := 1; tail <= 3; tail++ {
				add(flatText(c, form, tail, false), "family/flat", all)
				if c > 0 && tail > 1 {
					add(flatText(c, form, tail, true), "family/flat-after", []byte{'P', 'M'})
				}
			}
		}
		for _, d := range []int{62, 63, 64, 65, 66, 200} {
			for k := 1; k <= 2; k++ {
				add(chainText(d, k, form, false), "family/chain", all)
				add(chainText(d, k, form, true), "family/chain-around", []byte{'P', 'M'})
			}
		}
		add(chainText(5000, 1, form, false), "family/chain-5000", []byte{'P', 'M'})
	}
	return cases
}

// familyHostile: depth 10^5 with closed siblings at every level, in a child whose stack is
// limited: a correct parser rejects at the 65th level without ever recursing deeper.
func familyHostile(tier string) []hostile {
	lim := limits{vKB: 4 << 20, wall: 120 * time.Second, maxStack: 8 << 20}
	hs := []hostile{
		{famKase(chainText(100000, 1, "<L>", false), "family/chain-100000", false, 'P', true), lim},
		{famKase(chainText(100000, 1, "<L>", true), "family/chain-around-100000", true, 'M', true), lim},
		{famKase(chainText(100000, 1, "<L[0]>", false), "family/chain-100000", false, 'G', true), lim},
	}
	if tier == "thorough" {
		hs = append(hs, hostile{famKase(chainText(100000, 2, "<L <A \"x\">>", true), "family/chain-around-100000", true, 'P', true), lim},
			hostile{famKase(chainText(1000000, 1, "<L>", false), "family/chain-1000000", false, 'M', true), limits{vKB: 4 << 20, wall: 300 * time.Second}})
	}
	return hs
}
