package main

// Input generators for C14: a boundary corpus, a generator of VALID SML over the whole grammar the
// parser accepts (optional message name, quoted stream/function, W bit, every item type, every
// size-hint form, comments, white space, several messages per text), grammar-directed mutations
// of valid texts, and random strings over the parser's alphabet. All randomness from c.Rng.

import (
	"fmt"
	"math/rand"
	"strings"
	"time"

	"verifharness/vh"
)

var corpus = []string{
	// comments at every position where the parser skips one, terminated and NOT terminated
	"/*", "/**", "/*/", " /*", "/* S1F1.", "/* /* */ S1F1.", "/*/*/S1F1.", "/* a */ /* b */ S1F1.", "/* a */ /* S1F1.", "//", "// S1F1.", "//\n/*", "/", "/ * */S1F1.",
	"S1F1 /*", "S1F1\n/* <L>.", "S1F1 // <L>.", "S1F1 /* c */ /* <L>.", "S1F1 W /**", "S1F1 /*/ <L>.", "S1F1 /*/", "S1F1/*", "S1F1 /* x */.", "S1F1 /* x",
	"S1F1 <L /* >.", "S1F1 <L[1] /*", "S1F1 <L[1]/**/ /* <L>>.", "S1F1 <A /* \"x\">.", "S1F1 <A /* c */ \"x\">.", "S1F1 <U1 // 1>.", "S1F1 <U1 /* 1 */ 2>.", "S1F1 <U1 /* 1>.", "S1F1 <BOOLEAN /*/ T>.", "S1F1 <J /* 'x'>.",
	"S1F1 <L <A \"x\"> /* >.", "S1F1 <L <L> /* <L>>.", "S1F1 <L <L> // x", "S1F1 <L <L> /* a */ /* b", "S1F1 <L <U1 1> /*/ <U1 2>>.", "S1F1 <L <L> /**/>.",
	"S1F1 <L> /* .", "S1F1 <L> // .", "S1F1 <L> /*/ .", "S1F1 <L> /* c */ /* .", "S1F1 <A \"x\"> /*",
	"S1F1. /*", "S1F1 <L>. /* trailing", "S1F1. //", "S1F1./*/", "S1F1. /**", "S1F1. /* c */ /*", "S1F1. /* c */ S1F2 /*", "S1F1.\n/*\nS1F2.", "S1F1. // c\n/* S1F2.",
	"S1F1 <A \"/* x\">.", "S1F1 <A \"// x\">.", "S1F1 <J '/*'>.", "S1F1 <W \"/*\">.", "S1F1 <A \"*/\" /* >.", "S1F1 <A '/*' 0x2F 0x2A>.", "name/*:S1F1.", "/*:*/S1F1.",
	"", " ", "\n\n", ".", "S1F1.", "S1F1 W.", "S1F1\n.", "S1F1 W\n.", "S0F0.", "S127F255 W.", "S128F1.", "S1F256.", "S1F2 W.",
	"S1F1", "S1", "S", "SF.", "S1F.", "S1Fx.", "Sx.", "s1f1.", "S01F001.", "S999999999999999999999F1.",
	"name:S1F1.", ":S1F1 W.", "a:b:S1F1.", "name: 'S1F1' W\n<L>.", "\"S2F3\"\n.", "'S1F1\".", "name:\n'S6F11' W <L [0]>\n.",
	"// c\nS1F1.", "/* c */S1F1.", "/*/S1F1.", "/* open S1F1.", "// only a comment", "/**/\n//\nS1F1.", "S1F1 // c\n.", "S1F1 /* c */ <L> /* d */ .",
	"S1F1 <L>.", "S1F1\n<L\n>\n.", "S1F1 <L[0]>.", "S1F1 <L [2] <A \"a\"> <A 'b'>>.", "S1F1 <L[1..2]>.", "S1F1 <L[..2]>.", "S1F1 <L[2..]>.", "S1F1 <L[3..2]>.",
	"S1F1 <L[ 1 ]>.", "S1F1 <L[1 .. 2]>.", "S1F1 <L[1.x2]>.", "S1F1 <L[.", "S1F1 <L[..", "S1F1 <L[1..", "S1F1 <L[]>.", "S1F1 <L[x]>.", "S1F1 <L[4294967296]>.", "S1F1 <L[2147483648]>.",
	"S1F1 <L[99999999999999999999]>.", "S1F1 <L", "S1F1 <L ", "S1F1 <", "S1F1 <>.", "S1F1 <L>", "S1F1 <L> x", "S1F1 <L x>.", "S1F1 <L <L <L>>>.", "S1F1 <L <L <L>>.",
	"S1F1 <L <A> /* a */ /* b */ <A>>.", "S1F1 <L /* x */>.", "S1F1 <L // x\n>.", "S1F1 <L[1]/* c */<B 1>>.",
	"S1F1 <A>.", "S1F1 <A >.", "S1F1 <A \"\">.", "S1F1 <A \"abc\">.", "S1F1 <A[3] \"abc\">.", "S1F1 <A[2] \"abc\">.", "S1F1 <A[9] \"abc\">.", "S1F1 <A[3] \"abc\"  \n>.",
	"S1F1 <A 'it''s'>.", "S1F1 <A \"a\" \"b\">.", "S1F1 <A \"a>b\">.", "S1F1 <A \"a\\\"b\">.", "S1F1 <A \"a\\>b\">.", "S1F1 <A \"a\\\\\">.", "S1F1 <A 0x41 0x0A>.", "S1F1 <A \"ab\" 0x0A \"cd\">.",
	"S1F1 <A 65>.", "S1F1 <A 0101>.", "S1F1 <A 256>.", "S1F1 <A 0x>.", "S1F1 <A 1_0>.", "S1F1 <A 0x4_1 >.", "S1F1 <A \"x\" 10\n>.", "S1F1 <A abc>.", "S1F1 <A \"abc>.", "S1F1 <A \"abc",
	"S1F1\n<A \"\" ", "S80F25\n<A[0] \"\"\n", "S1F1 <A[1] \"a\" ", "S1F1 <A \"a\"\t\r\n ", "S1F1 <A '' ", "S1F1 <A \"\xe6\x97\xa5\xe6\x9c\xac\">.", "S1F1 <A \"\xff\xc5\">.", "S1F1 <A \xe6\x97\xa5>.",
	"S1F1 <J>.", "S1F1 <J \"\">.", "S1F1 <J \"x>.", "S1F1 <J \">.", "S1F1 <J 'a\"b'>.", "S1F1 <J \"a>b\">.", "S1F1 <J \"a\" >.", "S1F1 <J \"\xb1\xb2\">.", "S1F1 <J x>.", "S1F1 <J \"abc",
	"S1F1 <W>.", "S1F1 <W \"\xe6\x97\xa5\xe6\x9c\xac\xe8\xaa\x9e\">.", "S1F1 <W 'x'>.", "S1F1 <W \"x>.", "S1F1 <W[3] \"abc\">.",
	"S1F1 <BOOLEAN T F>.", "S1F1 <Boolean true FALSE t f>.", "S1F1 <BOOLEAN[2] True False>.", "S1F1 <BOOLEAN fal\xc5\xbfe>.", "S1F1 <BOOLEAN \xc4\xb1>.", "S1F1 <BOOLEAN x>.", "S1F1 <BOOLEAN>.", "S1F1 <BOOLEAN T",
	"S1F1 <BOOLEA T>.", "S1F1 <BO>.", "S1F1 <BOOLEANT>.", "S1F1 <BOOLEAN[1]T>.", "S1F1 <BOOLEAN T\xc2\xa0F\xe3\x80\x80T\xe2\x80\x83F\xc2\x85T>.",
	"S1F1 <B>.", "S1F1 <B >.", "S1F1 <B 0x00 0xFF>.", "S1F1 <B[2] 0b101 017 255>.", "S1F1 <B 256>.", "S1F1 <B -1>.", "S1F1 <B 0o17 1_0>.", "S1F1 <B\n1>.", "S1F1 <b 1>.", "S1F1 <B[1]1>.", "S1F1 <Bx>.",
	"S1F1 <B 99999999999999999999>.", "S1F1 <B 0x>.", "S1F1 <B +5>.",
	"S1F1 <I1 -128 127>.", "S1F1 <I1 128>.", "S1F1 <I1 -129>.", "S1F1 <I2 -32768 32767>.", "S1F1 <I4 -2147483648 2147483647>.", "S1F1 <I8 -9223372036854775808 9223372036854775807>.",
	"S1F1 <I8 9223372036854775808>.", "S1F1 <I8 0x7fffffffffffffff -0x8000000000000000>.", "S1F1 <I4 1_000 0b11 -0o7 +9>.", "S1F1 <I4 _1>.", "S1F1 <I4 1__0>.", "S1F1 <I4 1_>.", "S1F1 <I4 0_7>.", "S1F1 <I4 0x_1>.",
	"S1F1 <I3 1>.", "S1F1 <I 1>.", "S1F1 <I4>.", "S1F1 <I4[0]>.", "S1F1 <I41>.", "S1F1 <i4 1>.", "S1F1 <I4 1.5>.", "S1F1 <I4 --1>.", "S1F1 <I4 1 2", "S1F1 <I4 \xef\xbc\x91>.",
	"S1F1 <U1 0 255>.", "S1F1 <U1 256>.", "S1F1 <U1 -1>.", "S1F1 <U2 65535>.", "S1F1 <U4 4294967295>.", "S1F1 <U8 18446744073709551615>.", "S1F1 <U8 18446744073709551616>.", "S1F1 <U8 0xFFFFFFFFFFFFFFFF>.",
	"S1F1 <U4 +1>.", "S1F1 <U4[2] 1 2>.", "S1F1 <U4[2..3] 1>.", "S1F1 <U9 1>.", "S1F1 <U4 0b>.", "S1F1 <U4 0B1 0O7 0XA>.",
	"S1F1 <F4 1.5 -2.5e3>.", "S1F1 <F8 1e308 4.9e-324 0x1p-2>.", "S1F1 <F4 3.5e38>.", "S1F1 <F4 1e39>.", "S1F1 <F8 1e309>.", "S1F1 <F8 inf -Inf +INFINITY nan NaN>.", "S1F1 <F4 nan inf>.",
	"S1F1 <F8 1_0>.", "S1F1 <F8 0x1_0p0>.", "S1F1 <F8 .5 5. 1e5>.", "S1F1 <F8 x>.", "S1F1 <F8>.", "S1F1 <F81>.", "S1F1 <F4[1]1.0>.", "S1F1 <F2 1>.", "S1F1 <F 1>.", "S1F1 <F8 1,2>.",
	"S1F1 <X 1>.", "S1F1 <L <X>>.", "S1F1 <L <A \"a\">.", "S1F1 <A \"a\"> <A \"b\">.", "S1F1 <L>. S1F2 <L>.", "S1F1 W <L>.\nS1F2 <A \"ok\">.\n\nS2F1 W.", "S1F1. S1F1", "S1F1 <L>.x", "S1F1 <L>.:",
	"S1F1 <L[100000]>.", "S1F1 <B[100000] 1>.", "S1F1 <BOOLEAN[100000] T>.", "S1F1 <U8[50000] 1>.", "S1F1 <A[100000]>.", "S1F1 <A[100000] \"x\">.", "S1F1 <F8[70000]>.", "S1F1 <I1[100000] 1>.",
	"S1F1\r\n<L\r\n  <A \"x\">\r\n>\r\n.\r\n", "\xef\xbb\xbfS1F1.", "S1F1\x00.", "S1F1 <A \"\x00\x01\x7f\">.", "S1F1 <L>\xc2\xa0.", "S1F1\xe3\x80\x80<L>.",
}

type gen struct{ r *rand.Rand }

func (g *gen) pick(xs ...string) string { return xs[g.r.Intn(len(xs))] }

func (g *gen) ws() string {
	switch g.r.Intn(10) {
	case 0:
		return ""
	case 1:
		return "\n"
	case 2:
		return "  "
	case 3:
		return "\t"
	case 4:
		return "\r\n"
	case 5:
		return "\n  "
	}
	return " "
}

// wsc is white space, sometimes with one comment where the parser skips one
func (g *gen) wsc() string {
	if g.r.Intn(12) == 0 {
		return g.ws() + g.pick("// note\n", "/* note */", "/*/", "//\n", "/* < > . */", "// \"q\" <L>\n") + g.pick("", " ", "\n")
	}
	return g.ws()
}

func (g *gen) caseMix(s string) string {
	switch g.r.Intn(6) {
	case 0:
		return strings.ToLower(s)
	case 1:
		b := []byte(s)
		for i := range b {
			if g.r.Intn(2) == 0 {
				b[i] = strings.ToLower(string(b[i]))[0]
			}
		}
		return string(b)
	}
	return s
}

func (g *gen) sizeHint(n int) string {
	switch g.r.Intn(16) {
	case 0, 1, 2, 3, 4, 5:
		return ""
	case 6, 7, 8:
		return fmt.Sprintf("[%d]", n)
	case 9:
		return fmt.Sprintf("[%d..%d]", g.r.Intn(n+1), n+g.r.Intn(3))
	case 10:
		return fmt.Sprintf("[..%d]", n)
	case 11:
		return fmt.Sprintf("[%d..]", n)
	case 12:
		return fmt.Sprintf(" [ %d ]", n)
	case 13:
		return fmt.Sprintf("[%d]", g.r.Intn(4))
	case 14:
		return fmt.Sprintf("[%s]", g.pick("0", "1", "2", "7", "64", "255", "256", "1000", "65536", "100000"))
	}
	return fmt.Sprintf("[%d .. %d]", n, n)
}

var asciiPool = []string{"", "a", "abc", "hello world", "x y", "A.B", "a:b", "1 2 3", "it's", "say \\\"hi\\\"", "a<b", "[1]", "/* no */", "// no", "tab\there", "\xe6\x97\xa5", "caf\xc3\xa9", ".", "S1F1", "%d"}

func (g *gen) intTok(signed bool, bits int) string {
	max := uint64(1)<<uint(bits-1) - 1
	if !signed {
		max = max*2 + 1
	}
	switch g.r.Intn(14) {
	case 0:
		return "0"
	case 1:
		return fmt.Sprint(max)
	case 2:
		if signed {
			return "-" + fmt.Sprint(max+1)
		}
		return "0"
	case 3:
		return fmt.Sprint(max + 1) // overflow (wraps to 0 for 64-bit unsigned: "0")
	case 4:
		return fmt.Sprintf("0x%X", g.r.Uint64()&max)
	case 5:
		return fmt.Sprintf("0b%b", g.r.Uint64()&max&0xff)
	case 6:
		return fmt.Sprintf("0o%o", g.r.Uint64()&max&0xfff)
	case 7:
		return fmt.Sprintf("0%o", g.r.Uint64()&max&0xfff)
	case 8:
		if signed {
			return fmt.Sprint(-int64(g.r.Uint64() & max))
		}
		return "+" + fmt.Sprint(g.r.Uint64()&max)
	case 9:
		return g.pick("1_000", "0x_F", "0b1_0", "1__0", "_1", "1_", "0_7", "-0", "+0", "00", "0x", "1e3", "1.0", "abc", "\xef\xbc\x91")
	}
	return fmt.Sprint(g.r.Uint64() & max % 1000)
}

func (g *gen) floatTok() string {
	switch g.r.Intn(10) {
	case 0:
		return g.pick("inf", "-inf", "+Inf", "NaN", "nan", "Infinity", "-INFINITY")
	case 1:
		return g.pick("1e39", "3.5e38", "3.4028235e38", "1e309", "1.7976931348623157e308", "4.9e-324", "1e-400", "1e-46")
	case 2:
		return g.pick("0x1p-2", "0x1.8p1", "0X1P+3", "0x1_0p0", "1_0", "1e", ".", "1.2.3", "+", "0x1", "1e+5", "-.5e-3", "5.")
	case 3:
		return fmt.Sprintf("%g", g.r.NormFloat64()*1e10)
	case 4:
		return fmt.Sprintf("%d", g.r.Intn(1000))
	}
	return fmt.Sprintf("%.3f", g.r.Float64()*100-50)
}

func (g *gen) sepv() string {
	switch g.r.Intn(14) {
	case 0:
		return "\n"
	case 1:
		return "  "
	case 2:
		return "\t"
	case 3:
		return g.pick("\xc2\xa0", "\xe3\x80\x80", "\xe2\x80\x83", "\xc2\x85", "\v", "\f", "\xe2\x80\xa8", "\xe1\x9a\x80")
	}
	return " "
}

func (g *gen) item(depth int, strict bool) string {
	var sb strings.Builder
	sb.WriteString("<")
	if g.r.Intn(8) == 0 {
		sb.WriteString(g.ws())
	}
	k := g.r.Intn(18)
	if depth <= 0 && k < 4 {
		k = 4 + g.r.Intn(14)
	}
	vals := func(typ string, tok func() string) {
		n := g.r.Intn(5)
		if g.r.Intn(10) == 0 {
			n = 0
		}
		sb.WriteString(g.caseMix(typ) + g.sizeHint(n))
		lead := g.sepv()
		if n == 0 && g.r.Intn(2) == 0 {
			lead = ""
		}
		sb.WriteString(lead)
		for i := 0; i < n; i++ {
			if i > 0 {
				sb.WriteString(g.sepv())
			}
			sb.WriteString(tok())
		}
		if g.r.Intn(4) == 0 {
			sb.WriteString(g.sepv())
		}
	}
	switch {
	case k < 4:
		n := g.r.Intn(4)
		sb.WriteString(g.caseMix("L") + g.sizeHint(n) + g.wsc())
		// closed sibling lists (empty, [0], one leaf) before, between and after the other children:
		// a nesting counter must come back down exactly once per closed list
		sibs := func() {
			if g.r.Intn(2) == 0 {
				for j := g.r.Intn(4); j > 0; j-- {
					sb.WriteString(g.pick("<L>", "<L[0]>", "<L <A \"x\">>", "<l\n>", "<L [0] >", "<L <L>>") + g.wsc())
				}
			}
		}
		sibs()
		for i := 0; i < n; i++ {
			sb.WriteString(g.item(depth-1, strict) + g.wsc())
			sibs()
		}
	case k < 8:
		s := asciiPool[g.r.Intn(len(asciiPool))]
		q := g.pick("\"", "\"", "'")
		sb.WriteString(g.caseMix("A") + g.sizeHint(len(s)) + g.ws())
		switch g.r.Intn(8) {
		case 0: // no body at all
		case 1: // strict-style mixture of quoted runs and numeric bytes
			sb.WriteString(q + s + q + " " + g.pick("0x0A", "10", "0x7F", "0", "255", "256", "0b1", "012", "0x", "1_0") + g.pick("", " ", " "+q+"z"+q))
		case 2:
			sb.WriteString(g.pick("0x41", "65 66", "0x0D 0x0A", "300", "x", "1 \"a\""))
		default:
			sb.WriteString(q + s + q + g.pick("", "", " ", "\n"))
		}
	case k < 9:
		s := g.pick("", "abc", "\xb1\xb2\xb3", "a\"b", "a>b", "x y")
		q := g.pick("\"", "'")
		sb.WriteString(g.caseMix("J") + g.sizeHint(len(s)) + g.ws() + q + s + q + g.pick("", " "))
	case k < 10:
		s := g.pick("", "abc", "\xe6\x97\xa5\xe6\x9c\xac", "a'b", "a>b", "\xf0\x9f\x98\x80")
		q := g.pick("\"", "'")
		sb.WriteString(g.caseMix("W") + g.sizeHint(len(s)) + g.ws() + q + s + q + g.pick("", " "))
	case k < 11:
		vals("BOOLEAN", func() string {
			return g.pick("T", "F", "true", "false", "True", "FALSE", "t", "f", "tRuE", "fal\xc5\xbfe", "1", "yes", "TRUE.", "\xc4\xb1")
		})
	case k < 12:
		vals("B", func() string {
			return g.pick("0x00", "0xFF", "0x1f", "255", "256", "0", "017", "0b101", "0o7", "-1", "1_0", "0x100", "7", "+3", "0xG")
		})
	case k < 14:
		w := []int{1, 2, 4, 8}[g.r.Intn(4)]
		vals(fmt.Sprintf("I%d", w), func() string { return g.intTok(true, 8*w) })
	case k < 16:
		w := []int{1, 2, 4, 8}[g.r.Intn(4)]
		vals(fmt.Sprintf("U%d", w), func() string { return g.intTok(false, 8*w) })
	default:
		w := []int{4, 8}[g.r.Intn(2)]
		vals(fmt.Sprintf("F%d", w), g.floatTok)
	}
	sb.WriteString(">")
	return sb.String()
}

func (g *gen) message(strict bool) string {
	var sb strings.Builder
	sb.WriteString(g.pick("", "", "", "\n", " ", "// m\n", "/* m */ "))
	if g.r.Intn(6) == 0 {
		sb.WriteString(g.pick("Name:", "AreYouThere: ", ":", "a b:", "x<y:"))
	}
	q := g.pick("", "", "", "'", "\"")
	s, f := g.r.Intn(128), g.r.Intn(256)
	if g.r.Intn(20) == 0 {
		s = 128 + g.r.Intn(200)
	}
	sb.WriteString(fmt.Sprintf("%sS%dF%d%s", q, s, f, q))
	if g.r.Intn(3) == 0 {
		sb.WriteString(g.pick(" W", "W", "  W", " w"))
	}
	sb.WriteString(g.pick("\n", "\n", " ", "", "\r\n", " // c\n"))
	if g.r.Intn(6) != 0 {
		sb.WriteString(g.item(3, strict))
		sb.WriteString(g.wsc())
	}
	sb.WriteString(g.pick(".", ".", ".", ".\n", " .", ""))
	return sb.String()
}

func (g *gen) valid(strict bool) string {
	n := 1
	if g.r.Intn(5) == 0 {
		n = 2 + g.r.Intn(3)
	}
	var sb strings.Builder
	for i := 0; i < n; i++ {
		sb.WriteString(g.message(strict))
		sb.WriteString(g.pick("\n", "\n", "", " ", "\n\n"))
	}
	return sb.String()
}

var mutAlphabet = []string{"<", ">", "[", "]", "\"", "'", ".", "..", "/*", "*/", "//", "\\", " ", "\n", "\t", "\r", ":", "S", "F", "W", "L", "A", "J", "B", "I4", "U1", "F8", "BOOLEAN", "T", "0", "1", "9", "-", "+", "_", "0x", "x",
	"\xc2\xa0", "\xe3\x80\x80", "\xe2\x80\x83", "\xc5\xbf", "\xff", "\xc5", "\xe6\x97\xa5", "\x00", "[99999]", "[0]", "[4294967296]", "[99999999999999999999]"}

func (g *gen) mutate(s string) (string, string) {
	b := []byte(s)
	at := func() int {
		if len(b) == 0 {
			return 0
		}
		return g.r.Intn(len(b) + 1)
	}
	switch g.r.Intn(11) {
	case 0: // truncate
		return string(b[:at()]), "truncate"
	case 1: // truncate right after a quote, optionally followed by white space only
		var qs []int
		for i, c := range b {
			if c == '"' || c == '\'' {
				qs = append(qs, i)
			}
		}
		if len(qs) == 0 {
			return string(b[:at()]), "truncate"
		}
		i := qs[g.r.Intn(len(qs))]
		return string(b[:i+1]) + g.pick("", " ", "\n", " \t\r\n", "  "), "truncate-after-quote"
	case 2: // delete a byte range
		i := at()
		j := i + 1 + g.r.Intn(4)
		if j > len(b) {
			j = len(b)
		}
		return string(b[:i]) + string(b[j:]), "delete"
	case 3, 4: // insert a grammar token
		i := at()
		return string(b[:i]) + mutAlphabet[g.r.Intn(len(mutAlphabet))] + string(b[i:]), "insert"
	case 5: // replace a byte
		if len(b) == 0 {
			return s, "replace"
		}
		i := g.r.Intn(len(b))
		t := mutAlphabet[g.r.Intn(len(mutAlphabet))]
		return string(b[:i]) + t + string(b[i+1:]), "replace"
	case 6: // duplicate a slice
		i := at()
		j := i + g.r.Intn(12)
		if j > len(b) {
			j = len(b)
		}
		return string(b[:j]) + string(b[i:j]) + string(b[j:]), "duplicate"
	case 7: // drop every closing bracket after a point / add extra ones
		i := at()
		if g.r.Intn(2) == 0 {
			return string(b[:i]) + strings.ReplaceAll(string(b[i:]), ">", ""), "unbalance"
		}
		return string(b[:i]) + strings.Repeat(">", 1+g.r.Intn(3)) + string(b[i:]), "unbalance"
	case 8: // wrap the body in nested lists (moderate depth here; the deep ones are in the hostile pass)
		d := 1 + g.r.Intn(80)
		i := strings.IndexByte(s, '<')
		if i < 0 {
			return s + strings.Repeat("<L ", d), "nest"
		}
		j := strings.LastIndexByte(s, '>')
		if j < i {
			j = len(s) - 1
		}
		closers := d
		if g.r.Intn(4) == 0 {
			closers = g.r.Intn(d + 1)
		}
		// half of the time every wrapping level first holds a closed sibling list
		opener := g.pick("<L ", "<L ", "<L <L> ", "<L <L[0]> ", "<L <L <A \"x\">> ")
		return s[:i] + strings.Repeat(opener, d) + s[i:j+1] + strings.Repeat(">", closers) + s[j+1:], "nest"
	case 9: // blow up a size hint
		i := strings.IndexByte(s, '[')
		h := g.pick("[2147483647]", "[99999]", "[65536]", "[100000]", "[4294967295]", "[2147483648]", "[0]", "[1]", "[00000001]", "[30000..70000]")
		if strings.HasPrefix(h, "[21474") || strings.HasPrefix(h, "[42949") {
			// the hint alone would make the child allocate GiBs: keep the moderately large ones for
			// the diff pass, the 2^31-1 class is exercised in the hostile pass
			h = g.pick("[99999]", "[100000]", "[4294967296]", "[2147483648]")
		}
		if i < 0 {
			j := strings.IndexByte(s, '<')
			if j < 0 || j+2 > len(s) {
				return s + h, "hint"
			}
			return s[:j+2] + h + s[j+2:], "hint"
		}
		j := strings.IndexByte(s[i:], ']')
		if j < 0 {
			return s[:i] + h, "hint"
		}
		return s[:i] + h + s[i+j+1:], "hint"
	}
	// swap two bytes
	if len(b) < 2 {
		return s, "swap"
	}
	i, j := g.r.Intn(len(b)), g.r.Intn(len(b))
	b[i], b[j] = b[j], b[i]
	return string(b), "swap"
}

func (g *gen) randomText() string {
	n := g.r.Intn(40)
	var sb strings.Builder
	if g.r.Intn(2) == 0 {
		sb.WriteString("S1F1 ")
	}
	for i := 0; i < n; i++ {
		sb.WriteString(mutAlphabet[g.r.Intn(len(mutAlphabet))])
	}
	return sb.String()
}

var entries = []byte{'P', 'P', 'P', 'P', 'P', 'G', 'G', 'M', 'M', 'H'}

// genCases: the corpus in both modes and every entry point, then c.N texts (40 % valid, 45 %
// mutated valid with 1-3 mutations, 15 % random), each in BOTH modes through one entry point.
func genCases(c *vh.Ctx) []kase {
	g := &gen{r: c.Rng}
	var cases []kase
	for _, s := range corpus {
		for _, strict := range []bool{false, true} {
			for _, e := range []byte{'P', 'G', 'M', 'H'} {
				cases = append(cases, kase{strict: strict, entry: e, input: s, class: "corpus"})
			}
		}
	}
	cases = append(cases, familyCases()...)
	for i := 0; i < c.N; i++ {
		var s, class string
		strictText := g.r.Intn(2) == 0
		switch k := g.r.Intn(100); {
		case k < 40:
			s, class = g.valid(strictText), "valid"
		case k < 85:
			s = g.valid(strictText)
			class = "mut"
			for j := 1 + g.r.Intn(3); j > 0; j-- {
				var m string
				s, m = g.mutate(s)
				class = "mut/" + m
			}
		default:
			s, class = g.randomText(), "random"
		}
		e := entries[g.r.Intn(len(entries))]
		for _, strict := range []bool{false, true} {
			cases = append(cases, kase{strict: strict, entry: e, input: s, class: class})
		}
	}
	return cases
}

type hostile struct {
	k   kase
	lim limits
}

// hostileCases: inputs that crash or starve an unprotected process on the pinned code.
func hostileCases(tier string) []hostile {
	var hs []hostile
	hintLim := limits{vKB: 4 << 20, wall: 60 * time.Second}
	types := []string{"L", "U8", "B"}
	if tier == "thorough" {
		types = []string{"L", "B", "BOOLEAN", "F4", "F8", "I1", "I2", "I4", "I8", "U1", "U2", "U4", "U8"}
	}
	for _, t := range types {
		hs = append(hs, hostile{kase{strict: false, entry: 'G', input: "S1F1\n<" + t + "[2147483647]>\n.", class: "hint/" + t}, hintLim})
	}
	hs = append(hs, hostile{kase{strict: true, entry: 'G', input: "S1F1\n<A[2147483647]>\n.", class: "hint/A-strict"}, hintLim})
	// deep nesting, never closed: the parser recurses once per "<L " and reports EOF at the bottom
	// — if it gets there. One level costs 200-300 bytes of goroutine stack. quick: the child limits
	// its stack to 8 MiB (debug.SetMaxStack) so that the class is reached with 150 kB of input;
	// thorough also runs the Go default (1 GB) with 6,000,000 levels (18 MB of input).
	depth := 50000
	hs = append(hs, hostile{kase{strict: false, entry: 'P', shallow: true, input: "S1F1\n" + strings.Repeat("<L ", depth), class: fmt.Sprintf("nest/%d", depth)},
		limits{vKB: 4 << 20, wall: 120 * time.Second, maxStack: 8 << 20}})
	hs = append(hs, hostile{kase{strict: true, entry: 'M', shallow: true, input: "S1F1\n" + strings.Repeat("<L", depth/2) + strings.Repeat(">", depth/2) + ".", class: fmt.Sprintf("nest-closed/%d", depth/2)},
		limits{vKB: 4 << 20, wall: 120 * time.Second, maxStack: 4 << 20}})
	if tier == "thorough" {
		hs = append(hs, hostile{kase{strict: false, entry: 'G', shallow: true, input: "S1F1\n" + strings.Repeat("<L ", 6000000), class: "nest/6000000"},
			limits{vKB: 8 << 20, wall: 600 * time.Second}})
		// one byte more than secs2.MaxByteSize in an ASCII / JIS-8 item: the message constructor
		// must refuse (a plain error, not a *ParseError); one byte less must pass
		big := strings.Repeat("x", 1<<24)
		hs = append(hs, hostile{kase{strict: false, entry: 'P', shallow: true, input: "S1F1 <A[16777216] \"" + big + "\">.", class: "big/A-over"}, hintLim})
		hs = append(hs, hostile{kase{strict: false, entry: 'M', shallow: true, input: "S1F1 <A \"" + big[1:] + "\">.", class: "big/A-max"}, hintLim})
		hs = append(hs, hostile{kase{strict: false, entry: 'P', shallow: true, input: "S1F1 <J \"" + big + "\">.", class: "big/J-over"}, hintLim})
	}
	return hs
}
