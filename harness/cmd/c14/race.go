package main

// Concurrency pass (binary built with -race): strict / non-strict parser pairs and encoders, one
// set per goroutine (distinct instances), work through the same inputs at the same time. Every
// result must equal the result of the sequential run, and the race detector must stay silent
// (a report makes the process exit with status 66, which the check treats as an oracle failure).

import (
	"fmt"
	"os"
	"sync"
	"sync/atomic"
	"time"

	"github.com/arloliu/go-secs/v2/hsms"
	"github.com/arloliu/go-secs/v2/sml"

	"verifharness/vh"
)

type encSet struct {
	plain, strict, single, lit *sml.Encoder
}

func newEncSet() encSet {
	return encSet{
		plain:  sml.NewEncoder(),
		strict: sml.NewEncoder(sml.WithEncoderStrictMode(true)),
		single: sml.NewEncoder(sml.WithASCIIQuote(sml.QuoteSingle), sml.WithSFQuote(sml.QuoteSingle), sml.WithIndent("\t")),
		lit:    sml.NewEncoder(sml.WithBinaryStyle(sml.BinaryLiteral), sml.WithEncoderStrictMode(true)),
	}
}

// parseAndRender is one unit of work: parse with the given parser, and render every returned
// message with the four encoders of the set. The result is one string.
func parseAndRender(p *sml.Parser, strict bool, es encSet, input string) (out string) {
	defer func() {
		if r := recover(); r != nil {
			out = "PANIC"
		}
	}()
	ms, err := p.Parse(input)
	out = outcome(ms, err, false)
	for _, m := range ms {
		for _, e := range []*sml.Encoder{es.plain, es.strict, es.single, es.lit} {
			s, err := e.EncodeMessage(m)
			if err != nil {
				out += "\x00ENCERR"
			} else {
				out += "\x00" + s
			}
		}
	}
	return out
}

var _ = hsms.MaxStreamCode

func racePass(c *vh.Ctx) {
	g := &gen{r: c.Rng}
	var texts []string
	// this pass runs in-process (the race detector must see all goroutines): only inputs without
	// an oversized number (no size hint above 200000) are admitted
	safe := func(s string) bool {
		for _, m := range digitRun.FindAllString(s, -1) {
			if len(m) > 6 || m > "200000" && len(m) == 6 {
				return false
			}
		}
		return true
	}
	for _, s := range corpus {
		if safe(s) {
			texts = append(texts, s)
		}
	}
	for i := 0; i < c.N; i++ {
		s := g.valid(i%2 == 0)
		if i%3 == 0 {
			s, _ = g.mutate(s)
		}
		if safe(s) {
			texts = append(texts, s)
		}
	}
	// watchdog: this pass is in-process, so a call that never returns cannot be killed on its own.
	// Every worker (slot 0 = the sequential reference run) publishes the text it is working on and
	// bumps a progress counter after each call; 15 s without progress is a non-termination: the
	// texts in flight are reported as failing inputs and the process ends with its summary.
	const workers = 8
	var progress atomic.Int64
	var inflight [workers + 1]atomic.Int64
	for i := range inflight {
		inflight[i].Store(-1)
	}
	go func() {
		last, since := int64(-1), time.Now()
		for {
			time.Sleep(500 * time.Millisecond)
			if p := progress.Load(); p != last {
				last, since = p, time.Now()
				continue
			}
			if time.Since(since) > 15*time.Second {
				for w := range inflight {
					if i := inflight[w].Load(); i >= 0 {
						c.Fail(fmt.Sprintf("termination: parser did not return within 15 s on a %d-byte input (race pass, in-process)", len(texts[i])), describe(kase{input: texts[i], entry: 'P'}))
					}
				}
				c.Note("race pass aborted by its watchdog: no call returned for 15 s")
				c.Finish()
				os.Exit(0)
			}
		}
	}()
	// sequential reference, fresh instances per call
	ref := make([][2]string, len(texts))
	for i, s := range texts {
		inflight[0].Store(int64(i))
		progress.Add(1)
		ref[i][0] = parseAndRender(sml.NewParser(), false, newEncSet(), s)
		ref[i][1] = parseAndRender(sml.NewParser(sml.WithParserStrictMode(true)), true, newEncSet(), s)
	}
	inflight[0].Store(-1)
	rounds := 2
	if c.Tier == "thorough" {
		rounds = 6
	}
	var wg sync.WaitGroup
	var mu sync.Mutex
	mismatches := 0
	for w := 0; w < workers; w++ {
		wg.Add(1)
		go func(w int) {
			defer wg.Done()
			// distinct instances per goroutine, each reused for all inputs
			pn, ps := sml.NewParser(), sml.NewParser(sml.WithParserStrictMode(true))
			es := newEncSet()
			for r := 0; r < rounds; r++ {
				for j := range texts {
					i := (j*7 + w*len(texts)/workers + r) % len(texts)
					inflight[w+1].Store(int64(i))
					progress.Add(1)
					a := parseAndRender(pn, false, es, texts[i])
					b := parseAndRender(ps, true, es, texts[i])
					if a != ref[i][0] || b != ref[i][1] {
						mu.Lock()
						mismatches++
						if mismatches <= 5 {
							c.Fail("concurrency: result under concurrent use differs from the sequential result", describe(kase{input: texts[i], entry: 'P', strict: a == ref[i][0]}))
						}
						mu.Unlock()
					}
				}
			}
			inflight[w+1].Store(-1)
		}(w)
	}
	wg.Wait()
	n := workers * rounds * len(texts) * 2
	for i := 0; i < n; i++ {
		c.Sum.Evaluations++
	}
	c.Count("race/texts")
	c.Sum.Histogram["race/texts"] = len(texts)
	c.Sum.Histogram["race/concurrent-calls"] = n
	c.Note(fmt.Sprintf("race pass: %d goroutines x %d rounds x %d texts x 2 modes, each goroutine its own parser pair and 4 encoders; %d mismatches against the sequential run", workers, rounds, len(texts), mismatches))
}
