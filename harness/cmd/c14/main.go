// Harness for C14 (SML parser: total, resource-bounded, accurate error positions, no shared
// mutable state between instances).
//
// Passes (flag -pass):
//
//	diff     corpus + grammar-directed mutations of valid SML + random strings, both modes, all
//	         public entry points; every call into package sml runs in a CHILD process started
//	         under `ulimit -v` with a wall-clock limit; case lines for the model driver.
//	hostile  the inputs that take an unprotected process down (size hints of 2^31-1, hundreds of
//	         thousands of nested lists), one child per input; a crash / timeout is an outcome.
//	race     (binary built with -race) distinct strict / non-strict parsers and encoders used
//	         concurrently on shared inputs give the results of the sequential run.
//	scan     go/parser over /repo/sml: package-level variables and who writes them.
//
// Implementation-level oracle (no model): no panic, crash or timeout; every *ParseError has
// 0 <= Offset <= len(input), Line = 1 + number of '\n' before Offset, Col = 1 + Offset - (start of
// that line); returned messages are valid; bytes allocated by one call <= allocBound(len);
// a reused parser instance gives the result of a fresh one. An over-bound allocation measurement is
// repeated in the child (GC first) and the minimum counts; the histogram records the repetitions.
package main

import (
	"bufio"
	"bytes"
	"context"
	"encoding/hex"
	"flag"
	"fmt"
	"os"
	"os/exec"
	"path/filepath"
	"regexp"
	"strconv"
	"strings"
	"time"

	"verifharness/vh"
)

type kase struct {
	strict  bool
	entry   byte
	shallow bool
	input   string
	class   string // generator class (histogram bucket)
	fam     *famInfo // set for the deterministic sibling-then-nest family: what the text is
}

// famInfo is what the generator knows about a well-formed text of the sibling-then-nest family
// (computed from the bytes by an independent bracket scanner, not by the parser or the model).
type famInfo struct {
	depth int // real nesting depth of lists
	off65 int // offset a parser capped at secs2.MaxListDepth reports when depth 65 opens (-1: never)
}

type result struct {
	out    string // canonical outcome, or "CRASH stack|oom|other", "TIMEOUT"
	alloc  uint64 // bytes allocated by the call (minimum over the re-measurements, if any)
	ns     int64
	same   bool
	remeas int // how many times the child repeated an over-bound allocation measurement
	depth  int // deepest list nesting among the returned items
	budget time.Duration // for TIMEOUT: the allowance that expired
}

type limits struct {
	vKB      int           // ulimit -v, KiB
	wall     time.Duration // per child
	maxStack int           // debug.SetMaxStack in the child (0 = Go default, 1 GB)
}

func (k kase) batchLine() string {
	fl := "-"
	if k.shallow {
		fl = "s"
	}
	return fmt.Sprintf("%s %c %s -%s", vh.B01(k.strict), k.entry, fl, hex.EncodeToString([]byte(k.input)))
}

// runProtected runs the cases in child processes: a fresh child for every chunk of at most
// chunkSize cases, restarting after the case that killed a child. A crash or timeout is only
// reported for an input that ALSO kills a fresh child that is given nothing but that input (so
// that an allocation failure caused by the age of a long-lived child under `ulimit -v` is not
// blamed on the input that happened to be running).
const chunkSize = 4000

var crashNotes []string

// lastBudget is the allowance that expired for the most recent TIMEOUT outcome (for the report).
var lastBudget time.Duration

// maxTimeouts: after this many confirmed non-terminations the pass stops (the remaining cases are
// not run; every timeout is a reported failing input, and the check must stay bounded).
const maxTimeouts = 5

// caseBudget is the wall-clock allowance for ONE call: the model's step bound is polynomial in the
// input length with small constants (microseconds for kilobytes on the real parser); 5 s plus 20 s
// per MB is orders of magnitude above anything a terminating parse needs.
func caseBudget(k kase) time.Duration {
	return 5*time.Second + time.Duration(float64(len(k.input))/(1<<20)*20*float64(time.Second))
}

func runProtected(cases []kase, lim limits, tmp string) ([]result, error) {
	results := make([]result, 0, len(cases))
	crashes, timeouts := 0, 0
	for len(results) < len(cases) {
		rest := cases[len(results):]
		if len(rest) > chunkSize {
			rest = rest[:chunkSize]
		}
		rs, died, why, err := runChunk(rest, lim, tmp)
		if err != nil {
			return nil, err
		}
		results = append(results, rs...)
		if !died {
			continue
		}
		k := rest[len(rs)]
		if len(rest) > 1 {
			// confirm on a fresh child with this input alone
			rs1, died1, why1, err := runChunk([]kase{k}, lim, tmp)
			if err != nil {
				return nil, err
			}
			if !died1 {
				crashNotes = append(crashNotes, fmt.Sprintf("child died (%s) while running %s but a fresh child handled that input: not attributed", why, describe(k)))
				results = append(results, rs1[0])
				continue
			}
			why = why1
		}
		crashes++
		if crashes > 200 {
			return nil, fmt.Errorf("more than 200 confirmed child crashes in one pass")
		}
		results = append(results, result{out: why, same: true, budget: lastBudget})
		if strings.HasPrefix(why, "TIMEOUT") {
			timeouts++
			if timeouts >= maxTimeouts {
				crashNotes = append(crashNotes, fmt.Sprintf("pass stopped after %d confirmed non-terminations: %d of %d cases not run", timeouts, len(cases)-len(results), len(cases)))
				break
			}
		}
	}
	return results, nil
}

// runChunk runs one child over the given cases. It returns the results of the cases the child
// finished, whether it died before finishing all of them, and if so the crash outcome.
func runChunk(rest []kase, lim limits, tmp string) ([]result, bool, string, error) {
	self, err := os.Executable()
	if err != nil {
		return nil, false, "", err
	}
	batch := filepath.Join(tmp, "batch.txt")
	resf := filepath.Join(tmp, "res.txt")
	os.Remove(resf)
	bf, err := os.Create(batch)
	if err != nil {
		return nil, false, "", err
	}
	bw := bufio.NewWriterSize(bf, 1<<20)
	for _, k := range rest {
		bw.WriteString(k.batchLine())
		bw.WriteByte('\n')
	}
	bw.Flush()
	bf.Close()
	ctx, cancel := context.WithTimeout(context.Background(), lim.wall)
	script := fmt.Sprintf("ulimit -v %d; exec \"$0\" \"$@\"", lim.vKB)
	cmd := exec.CommandContext(ctx, "/bin/sh", "-c", script, self, "-child", batch, "-res", resf, "-maxstack", strconv.Itoa(lim.maxStack))
	var stderr bytes.Buffer
	cmd.Stderr = &limitedWriter{buf: &stderr, max: 1 << 16}
	cmd.Stdout = nil
	if err := cmd.Start(); err != nil {
		cancel()
		return nil, false, "", err
	}
	done := make(chan error, 1)
	go func() { done <- cmd.Wait() }()
	// watch the result file: the child writes "B i" before a call and "R i ..." after it. A call
	// that has begun and not returned within caseBudget is a non-termination: kill the child.
	stalled := false
	var runErr error
	{
		var off int64
		nB, nR := 0, 0
		var lastB time.Time
		tick := time.NewTicker(100 * time.Millisecond)
	watch:
		for {
			select {
			case runErr = <-done:
				break watch
			case <-tick.C:
				if f, err := os.Open(resf); err == nil {
					if fi, err := f.Stat(); err == nil && fi.Size() > off {
						buf := make([]byte, fi.Size()-off)
						if n, _ := f.ReadAt(buf, off); n > 0 {
							// only complete lines
							if j := bytes.LastIndexByte(buf[:n], '\n'); j >= 0 {
								for _, ln := range bytes.Split(buf[:j], []byte{'\n'}) {
									if bytes.HasPrefix(ln, []byte("B ")) {
										nB++
										lastB = time.Now()
									} else if bytes.HasPrefix(ln, []byte("R ")) {
										nR++
									}
								}
								off += int64(j + 1)
							}
						}
					}
					f.Close()
				}
				if nB > nR && nB-1 < len(rest) && time.Since(lastB) > caseBudget(rest[nB-1]) {
					stalled = true
					cmd.Process.Kill()
					runErr = <-done
					break watch
				}
			}
		}
		tick.Stop()
	}
	timedOut := stalled || ctx.Err() != nil
	cancel()
	var results []result
	begun := -1
	if f, err := os.Open(resf); err == nil {
		sc := bufio.NewScanner(f)
		sc.Buffer(make([]byte, 1<<20), 1<<30)
		for sc.Scan() {
			line := sc.Text()
			switch {
			case strings.HasPrefix(line, "B "):
				begun, _ = strconv.Atoi(line[2:])
			case strings.HasPrefix(line, "R "):
				f := strings.SplitN(line, " ", 8)
				if len(f) != 8 {
					continue
				}
				a, _ := strconv.ParseUint(f[2], 10, 64)
				ns, _ := strconv.ParseInt(f[3], 10, 64)
				rm, _ := strconv.Atoi(f[5])
				dp, _ := strconv.Atoi(f[6])
				results = append(results, result{out: f[7], alloc: a, ns: ns, same: f[4] == "1", remeas: rm, depth: dp})
			}
		}
		f.Close()
	}
	if len(results) == len(rest) {
		return results, false, "", nil
	}
	if runErr == nil {
		return nil, false, "", fmt.Errorf("child exited 0 without finishing the batch (done %d of %d)", len(results), len(rest))
	}
	if begun != len(results) {
		return nil, false, "", fmt.Errorf("child died between cases (begun %d, done %d): %s", begun, len(results), tail(stderr.String(), 400))
	}
	out := "CRASH other"
	es := stderr.String()
	switch {
	case timedOut:
		out = "TIMEOUT"
		lastBudget = caseBudget(rest[len(results)])
	case strings.Contains(es, "stack overflow") || strings.Contains(es, "stack exceeds"):
		out = "CRASH stack"
	case strings.Contains(es, "out of memory") || strings.Contains(es, "cannot allocate memory"):
		out = "CRASH oom"
	}
	return results, true, out, nil
}

type limitedWriter struct {
	buf *bytes.Buffer
	max int
}

func (l *limitedWriter) Write(p []byte) (int, error) {
	if room := l.max - l.buf.Len(); room > 0 {
		if len(p) > room {
			l.buf.Write(p[:room])
		} else {
			l.buf.Write(p)
		}
	}
	return len(p), nil
}

func tail(s string, n int) string {
	if len(s) > n {
		return s[len(s)-n:]
	}
	return s
}

// allocBound is the oracle's ceiling for the bytes one call may allocate: linear in the input
// with a generous constant for the item tree, the message objects and the value strings, plus a
// quadratic term with coefficient 1 (strict ASCII numeric tokens are built by repeated string
// concatenation: t*t/2 bytes for a token of t digits — polynomial, hence inside the property).
func allocBound(n int) uint64 {
	u := uint64(n)
	return 4096 + 256*u + u*u
}

const maxListDepth = 64 // secs2.MaxListDepth

var digitRun = regexp.MustCompile(`[0-9]{1,19}`)

// a decimal run in size-hint position: after '[' (white space allowed) or after the two bytes the
// parser skips for ".." (a dot and any byte)
var hintRun = regexp.MustCompile(`(?s)(?:\[[ \t\r\n]*|\..)([0-9]{1,19})`)
var quoteWsEOF = regexp.MustCompile(`["'][ \t\r\n]*$`)

// classTags describes the input shape with respect to the three known defect classes, computed
// from the bytes alone (no parser): a decimal run in size-hint position whose value exceeds the input length, '<'
// nesting deeper than secs2.MaxListDepth, a quote followed only by white space up to the end.
func classTags(input string) string {
	var tags []string
	for _, sm := range hintRun.FindAllStringSubmatch(input, -1) {
		if v, err := strconv.ParseUint(sm[1], 10, 64); err == nil && v > uint64(len(input)) {
			tags = append(tags, "hint>len")
			break
		}
	}
	depth, maxDepth := 0, 0
	for i := 0; i < len(input); i++ {
		switch input[i] {
		case '<':
			depth++
			if depth > maxDepth {
				maxDepth = depth
			}
		case '>':
			if depth > 0 {
				depth--
			}
		}
	}
	if maxDepth > 64 {
		tags = append(tags, "nest>64")
	}
	if quoteWsEOF.MatchString(input) {
		tags = append(tags, "quote-ws-eof")
	}
	if len(tags) == 0 {
		return "plain"
	}
	return strings.Join(tags, ",")
}

func describe(k kase) string {
	in := k.input
	h := hex.EncodeToString([]byte(in))
	if len(h) > 600 {
		h = h[:600] + "..."
	}
	return fmt.Sprintf("class=%s mode=%s entry=%c len=%d input=%s", classTags(in), vh.B01(k.strict), k.entry, len(in), h)
}

// checkOracle applies the implementation-level oracle to one result.
func checkOracle(c *vh.Ctx, k kase, r result) {
	d := describe(k)
	f := strings.Fields(r.out)
	switch {
	case len(f) == 0:
		c.Fail("harness: empty outcome", d)
		return
	case f[0] == "PANIC":
		c.Fail("panic: recovered run-time panic ("+f[1]+") in sml.Parser."+f[2], d)
		return
	case f[0] == "CRASH":
		what := map[string]string{"stack": "crash: stack overflow (fatal, unrecoverable)", "oom": "crash: out of memory under ulimit -v"}[f[1]]
		if what == "" {
			what = "crash: child process died"
		}
		c.Fail(what, d)
		return
	case f[0] == "TIMEOUT":
		c.Fail(fmt.Sprintf("termination: parser did not return within %s on a %d-byte input (child killed, confirmed on a fresh child)", r.budget.Round(time.Second), len(k.input)), d)
		return
	}
	if !r.same {
		c.Fail("instance state: a reused parser returns a different result than a fresh one", d)
	}
	if r.alloc > allocBound(len(k.input)) {
		c.Fail(fmt.Sprintf("alloc: one call allocated more than allocBound(len) = 4096 + 256*len + len^2 bytes"), d+fmt.Sprintf(" allocated=%d", r.alloc))
	}
	if r.ns > int64(10*time.Second) {
		c.Fail("time: one call took more than 10 s", d)
	}
	// nesting: the parser must never hand out an item nested deeper than the binary decoder accepts
	if r.depth > maxListDepth {
		c.Fail(fmt.Sprintf("depth: accepted an item nested deeper than secs2.MaxListDepth = %d", maxListDepth), d+fmt.Sprintf(" returned-depth=%d", r.depth))
	}
	if k.fam != nil && k.entry != 'H' {
		fd := fmt.Sprintf(" family: well-formed, real list depth %d, depth-65 offset %d, got=%s", k.fam.depth, k.fam.off65, firstWords(r.out, 5))
		switch {
		case k.fam.depth <= maxListDepth && f[0] != "OK":
			c.Fail("depth: a well-formed text whose real list nesting is <= 64 was rejected", d+fd)
		case k.fam.depth > maxListDepth && f[0] == "OK" && r.depth <= maxListDepth:
			c.Fail("depth: a text nested deeper than 64 was accepted", d+fd)
		case k.fam.depth > maxListDepth && f[0] == "ERR" && !(f[1] == "syntax" && f[2] == strconv.Itoa(k.fam.off65)):
			c.Fail("depth: nesting beyond 64 not rejected with a ParseError at the offset where depth 65 opens", d+fd)
		}
	}
	switch {
	case f[0] == "ERR" && f[1] == "syntax":
		off, _ := strconv.Atoi(f[2])
		line, _ := strconv.Atoi(f[3])
		col, _ := strconv.Atoi(f[4])
		if off < 0 || off > len(k.input) {
			c.Fail("position: ParseError.Offset outside [0, len(input)]", d+" got="+r.out)
			return
		}
		wantLine := 1 + strings.Count(k.input[:off], "\n")
		wantCol := 1 + off - (strings.LastIndexByte(k.input[:off], '\n') + 1)
		if line != wantLine || col != wantCol {
			c.Fail("position: ParseError.Line/Col inconsistent with Offset", d+fmt.Sprintf(" got=%s want line %d col %d", r.out, wantLine, wantCol))
		}
	case f[0] == "ERR":
		if f[1] == "nomsg" && (k.entry == 'P' || k.entry == 'G') {
			c.Fail("result: Parse returned ErrNoMessage", d)
		}
	case f[0] == "OK":
		n, _ := strconv.Atoi(f[1])
		if (k.entry == 'M' || k.entry == 'H') && n != 1 {
			c.Fail("result: ParseMessage/ParseHeader succeeded without exactly one message", d)
		}
		// every returned message is a valid data message: stream < 128, W only on an odd function
		for i := 2; i+3 < len(f); i++ {
			if f[i] == "M" {
				s, _ := strconv.Atoi(f[i+1])
				fn, _ := strconv.Atoi(f[i+2])
				if s > 127 || (f[i+3] == "1" && fn%2 == 0) {
					c.Fail("result: returned message violates the data-message rules", d+" got="+r.out)
				}
			}
		}
		if strings.Contains(r.out, "NIL") || strings.Contains(r.out, "ERRITEM") || strings.Contains(r.out, "UNKNOWN") || strings.Contains(r.out, "ITEMERR") {
			c.Fail("result: returned message carries a nil or errored item", d+" got="+r.out)
		}
	default:
		c.Fail("harness: unparsable outcome", d+" got="+r.out)
	}
}

func hexOrDash(s string) string {
	if s == "" {
		return "-"
	}
	return hex.EncodeToString([]byte(s))
}

func emit(c *vh.Ctx, k kase, r result, lim limits) {
	// P <strict> <entry> <shallow 0|1> <hex input> <float table> | <allocated bytes> <outcome>
	line := fmt.Sprintf("P %s %c %s %s %s | %d %s", vh.B01(k.strict), k.entry, vh.B01(k.shallow), hexOrDash(k.input), floatTable(k.input), r.alloc, r.out)
	kind := strings.Fields(r.out)[0]
	c.Case(line, vh.B01(k.strict)+string(k.entry)+k.input, kind != "ERR" || len(k.input) > 8)
	c.Count("class/" + k.class)
	c.Count("outcome/" + kind + map[bool]string{false: "/nonstrict", true: "/strict"}[k.strict])
	c.Count("entry/" + string(k.entry))
	if !k.shallow && len(k.input) < 1<<16 {
		sh := scanShape(k.input)
		c.Count("shape/list-depth=" + bucket(sh.depth))
		c.Count("shape/closed-sibling-lists=" + bucket(sh.closedBeforeNest))
		c.Count("shape/empty-lists=" + bucket(sh.empty))
	}
	if k.fam != nil {
		c.Count("family/real-depth=" + bucket(k.fam.depth))
	}
	if r.remeas > 0 {
		c.Count("alloc/cases-remeasured")
		c.Sum.Histogram["alloc/remeasure-calls"] += r.remeas
		if r.alloc <= allocBound(len(k.input)) {
			c.Count("alloc/remeasured-under-bound")
		} else {
			c.Count("alloc/remeasured-still-over-bound")
		}
	}
}

func main() {
	pass := flag.String("pass", "diff", "diff|hostile|race|scan")
	child := flag.String("child", "", "(internal) batch file to process as the protected child")
	resf := flag.String("res", "", "(internal) result file of the child")
	maxStack := flag.Int("maxstack", 0, "(internal) debug.SetMaxStack for the child")
	repo := flag.String("repo", "/repo", "repository root for -pass scan")
	c := vh.New()
	if *child != "" {
		runChild(*child, *resf, *maxStack)
		return
	}
	tmp, err := os.MkdirTemp("", "c14h")
	if err != nil {
		fmt.Fprintln(os.Stderr, err)
		os.Exit(2)
	}
	defer os.RemoveAll(tmp)
	switch *pass {
	case "diff":
		cases := genCases(c)
		lim := limits{vKB: 4 << 20, wall: 600 * time.Second}
		rs, err := runProtected(cases, lim, tmp)
		if err != nil {
			fmt.Fprintln(os.Stderr, "harness:", err)
			os.RemoveAll(tmp)
			os.Exit(2)
		}
		for i := range rs { // shorter than cases only if the pass stopped after maxTimeouts
			k := cases[i]
			checkOracle(c, k, rs[i])
			emit(c, k, rs[i], lim)
		}
		for _, n := range crashNotes {
			c.Note(n)
		}
		c.Note(fmt.Sprintf("per-call wall-clock budget 5 s + 20 s/MB of input, watched by the parent on the child's result file; a call that does not return is killed, confirmed on a fresh child and reported as a termination failure; the pass stops after %d of them", maxTimeouts))
		c.Note("diff pass: every sml call ran in a child under ulimit -v 4 GiB (a fresh child per 4000 cases), 600 s wall clock per child; allocBound(len) = 4096 + 256*len + len^2 bytes")
	case "hostile":
		hs := append(hostileCases(c.Tier), familyHostile(c.Tier)...)
		hostileTimeouts := 0
		for hi, h := range hs {
			if hostileTimeouts >= maxTimeouts {
				c.Note(fmt.Sprintf("hostile pass stopped after %d non-terminations: %d of %d inputs not run", hostileTimeouts, len(hs)-hi, len(hs)))
				break
			}
			rs, err := runProtected([]kase{h.k}, h.lim, tmp)
			if err != nil {
				fmt.Fprintln(os.Stderr, "harness:", err)
				os.RemoveAll(tmp)
				os.Exit(2)
			}
			if strings.HasPrefix(rs[0].out, "TIMEOUT") {
				hostileTimeouts++
			}
			checkOracle(c, h.k, rs[0])
			emit(c, h.k, rs[0], h.lim)
			c.Note(fmt.Sprintf("hostile %s (len %d, ulimit -v %d KiB, max stack %d, wall %s): %s", h.k.class, len(h.k.input), h.lim.vKB, h.lim.maxStack, h.lim.wall, firstWords(rs[0].out, 4)))
		}
	case "race":
		racePass(c)
	case "scan":
		scanPass(c, *repo)
	default:
		fmt.Fprintln(os.Stderr, "unknown pass", *pass)
		os.Exit(2)
	}
	c.Finish()
}

func firstWords(s string, n int) string {
	f := strings.Fields(s)
	if len(f) > n {
		f = f[:n]
	}
	return strings.Join(f, " ")
}
