package main

// Source scan behind C14_instances_independent: in the model, parsing is a function of (options,
// input). The code can deviate from that only through state that outlives a Parser / Encoder
// value, i.e. package-level variables of package sml. This pass lists every package-level `var`
// of the non-test files of <repo>/sml with the kind of its initialiser and every place that writes
// it (assignment, inc/dec, address-of, or a method call on it outside its declaration), and fails the oracle if one
// is written anywhere or is neither an error value nor a literal table.

import (
	"fmt"
	"go/ast"
	"go/parser"
	"go/token"
	"os"
	"path/filepath"
	"sort"
	"strings"

	"verifharness/vh"
)

func scanPass(c *vh.Ctx, repo string) {
	dir := filepath.Join(repo, "sml")
	fset := token.NewFileSet()
	ents, err := os.ReadDir(dir)
	if err != nil {
		fmt.Fprintln(os.Stderr, "scan:", err)
		os.Exit(2)
	}
	var files []*ast.File
	for _, e := range ents {
		n := e.Name()
		if !strings.HasSuffix(n, ".go") || strings.HasSuffix(n, "_test.go") {
			continue
		}
		f, err := parser.ParseFile(fset, filepath.Join(dir, n), nil, parser.SkipObjectResolution)
		if err != nil {
			fmt.Fprintln(os.Stderr, "scan:", err)
			os.Exit(2)
		}
		files = append(files, f)
	}
	kind := map[string]string{}
	where := map[string]string{}
	for _, f := range files {
		for _, d := range f.Decls {
			gd, ok := d.(*ast.GenDecl)
			if !ok || gd.Tok != token.VAR {
				continue
			}
			for _, sp := range gd.Specs {
				vs := sp.(*ast.ValueSpec)
				for i, name := range vs.Names {
					k := "no initialiser (zero value)"
					if i < len(vs.Values) {
						switch v := vs.Values[i].(type) {
						case *ast.CallExpr:
							k = "call"
							if se, ok := v.Fun.(*ast.SelectorExpr); ok {
								if x, ok := se.X.(*ast.Ident); ok {
									k = "call " + x.Name + "." + se.Sel.Name
								}
							}
						case *ast.CompositeLit:
							k = "literal table"
						case *ast.BasicLit:
							k = "literal"
						default:
							k = fmt.Sprintf("%T", v)
						}
					}
					kind[name.Name] = k
					where[name.Name] = fset.Position(name.Pos()).String()
				}
			}
		}
	}
	root := func(e ast.Expr) string {
		for {
			switch x := e.(type) {
			case *ast.Ident:
				return x.Name
			case *ast.SelectorExpr:
				e = x.X
			case *ast.IndexExpr:
				e = x.X
			case *ast.StarExpr:
				e = x.X
			case *ast.ParenExpr:
				e = x.X
			default:
				return ""
			}
		}
	}
	writes := map[string][]string{}
	note := func(e ast.Expr, how string) {
		if n := root(e); n != "" {
			if _, ok := kind[n]; ok {
				writes[n] = append(writes[n], how+" at "+fset.Position(e.Pos()).String())
			}
		}
	}
	inits := 0
	for _, f := range files {
		for _, d := range f.Decls {
			fd, ok := d.(*ast.FuncDecl)
			if !ok || fd.Body == nil {
				continue
			}
			if fd.Recv == nil && fd.Name.Name == "init" {
				inits++
			}
			ast.Inspect(fd.Body, func(n ast.Node) bool {
				switch s := n.(type) {
				case *ast.AssignStmt:
					if s.Tok != token.DEFINE {
						for _, l := range s.Lhs {
							note(l, "assignment")
						}
					}
				case *ast.IncDecStmt:
					note(s.X, "inc/dec")
				case *ast.UnaryExpr:
					if s.Op == token.AND {
						note(s.X, "address taken")
					}
				case *ast.CallExpr:
					if se, ok := s.Fun.(*ast.SelectorExpr); ok {
						if id, ok := se.X.(*ast.Ident); ok {
							if k, ok := kind[id.Name]; ok && !strings.HasPrefix(k, "call errors.") && !strings.HasPrefix(k, "call fmt.") {
								note(id, "method "+se.Sel.Name+" called on it")
							}
						}
					}
				}
				return true
			})
		}
	}
	names := make([]string, 0, len(kind))
	for n := range kind {
		names = append(names, n)
	}
	sort.Strings(names)
	var listed []string
	for _, n := range names {
		k := kind[n]
		okKind := k == "call errors.New" || k == "call fmt.Errorf" || k == "literal table" || k == "literal"
		listed = append(listed, fmt.Sprintf("%s (%s, %s, writes: %d)", n, k, strings.TrimPrefix(where[n], repo+"/"), len(writes[n])))
		c.Sum.Evaluations++
		c.Count("scan/package-level-var")
		if len(writes[n]) > 0 {
			c.Fail("shared state: a package-level variable of package sml is written", n+": "+strings.Join(writes[n], "; "))
		} else if !okKind {
			c.Fail("shared state: a package-level variable of package sml is neither an error value nor a literal table", n+" ("+k+") "+where[n])
		}
	}
	if inits > 0 {
		c.Fail("shared state: package sml has an init function", fmt.Sprint(inits))
	}
	c.Sum.Histogram["scan/files"] = len(files)
	c.Note(fmt.Sprintf("scan of %s (%d non-test files): package-level variables: %s; init functions: %d", dir, len(files), strings.Join(listed, ", "), inits))
}
