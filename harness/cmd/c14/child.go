package main

// The child half of the C14 harness: every call into package sml happens here, in a process the
// parent started under `ulimit -v` with a wall-clock limit. The child reads a batch file of
// inputs, and for each writes a begin marker (flushed) before the call and a result line after
// it, so that the parent can attribute a crash (stack exhaustion, out of memory, kill on
// timeout) to the exact input that caused it.

import (
	"bufio"
	"encoding/hex"
	"errors"
	"fmt"
	"math"
	"os"
	"regexp"
	"runtime"
	"runtime/debug"
	"strconv"
	"strings"
	"time"

	"github.com/arloliu/go-secs/v2/hsms"
	"github.com/arloliu/go-secs/v2/secs2"
	"github.com/arloliu/go-secs/v2/sml"
)

// canonItem renders an item tree in the syntax the model driver prints:
//
//	E | L n item*n | A hex | J hex | W hex | B hex | T bits | I w n v*n | U w n v*n | F w n bits*n
func canonItem(sb *strings.Builder, it secs2.Item) {
	hx := func(s string) string {
		if s == "" {
			return "-"
		}
		return hex.EncodeToString([]byte(s))
	}
	width := func() int {
		switch {
		case it.IsInt8(), it.IsUint8():
			return 1
		case it.IsInt16(), it.IsUint16():
			return 2
		case it.IsInt32(), it.IsUint32(), it.IsFloat32():
			return 4
		}
		return 8
	}
	switch {
	case it == nil:
		sb.WriteString("NIL")
	case it.Error() != nil:
		sb.WriteString("ERRITEM")
	case it.IsEmpty():
		sb.WriteString("E")
	case it.IsList():
		cs, _ := it.ToList()
		fmt.Fprintf(sb, "L %d", len(cs))
		for _, c := range cs {
			sb.WriteByte(' ')
			canonItem(sb, c)
		}
	case it.IsASCII():
		s, _ := it.ToASCII()
		sb.WriteString("A " + hx(s))
	case it.IsJIS8():
		s, _ := it.ToJIS8()
		sb.WriteString("J " + hx(s))
	case it.IsLocalizedStr():
		s, _ := it.ToLocalizedStr()
		sb.WriteString("W " + hx(s))
	case it.IsBinary():
		b, _ := it.ToBinary()
		sb.WriteString("B " + hx(string(b)))
	case it.IsBoolean():
		vs, _ := it.ToBoolean()
		sb.WriteString("T ")
		if len(vs) == 0 {
			sb.WriteByte('-')
		}
		for _, v := range vs {
			if v {
				sb.WriteByte('1')
			} else {
				sb.WriteByte('0')
			}
		}
	case it.IsInt8(), it.IsInt16(), it.IsInt32(), it.IsInt64():
		vs, _ := it.ToInt()
		fmt.Fprintf(sb, "I %d %d", width(), len(vs))
		for _, v := range vs {
			fmt.Fprintf(sb, " %d", v)
		}
	case it.IsUint8(), it.IsUint16(), it.IsUint32(), it.IsUint64():
		vs, _ := it.ToUint()
		fmt.Fprintf(sb, "U %d %d", width(), len(vs))
		for _, v := range vs {
			fmt.Fprintf(sb, " %d", v)
		}
	case it.IsFloat32(), it.IsFloat64():
		vs, _ := it.ToFloat()
		fmt.Fprintf(sb, "F %d %d", width(), len(vs))
		for _, v := range vs {
			fmt.Fprintf(sb, " %d", math.Float64bits(v))
		}
	default:
		sb.WriteString("UNKNOWN")
	}
}

func canonMsg(sb *strings.Builder, m *hsms.DataMessage) {
	if m == nil {
		sb.WriteString(" M NILMSG")
		return
	}
	w := 0
	if m.WaitBit() {
		w = 1
	}
	fmt.Fprintf(sb, " M %d %d %d ", m.Stream(), m.Function(), w)
	it, err := m.Item()
	if err != nil {
		sb.WriteString("ITEMERR")
		return
	}
	canonItem(sb, it)
}

var smlFrame = regexp.MustCompile(`go-secs/v2/sml\.\(\*Parser\)\.(\w+)`)

// outcome canonicalises what one entry point returned (never the error text):
//
//	OK n {M s f w item}*n | ERR syntax off line col | ERR nomsg | ERR other | PANIC <top sml frame>
//
// deep=true renders only the message count and S/F/W (the item tree of a deep-nesting input is
// as large as the input and is not what that case is about).
func outcome(msgs []*hsms.DataMessage, err error, shallow bool) string {
	s, _ := outcomeD(msgs, err, shallow)
	return s
}

// listDepth is the number of nested LIST levels of the deepest item of the tree (a leaf or the
// empty item: 0; <L>: 1; <L <L>>: 2). Iterative: the tree may be deeper than any stack.
func listDepth(it secs2.Item) int {
	type fr struct {
		it secs2.Item
		d  int
	}
	max := 0
	st := []fr{{it, 0}}
	for len(st) > 0 {
		f := st[len(st)-1]
		st = st[:len(st)-1]
		if f.it == nil || !f.it.IsList() {
			continue
		}
		d := f.d + 1
		if d > max {
			max = d
		}
		cs, _ := f.it.ToList()
		for _, c := range cs {
			st = append(st, fr{c, d})
		}
	}
	return max
}

// outcomeD is outcome plus the deepest list nesting among the returned messages.
func outcomeD(msgs []*hsms.DataMessage, err error, shallow bool) (string, int) {
	depth := 0
	for _, m := range msgs {
		if m == nil {
			continue
		}
		if it, e := m.Item(); e == nil {
			if d := listDepth(it); d > depth {
				depth = d
			}
		}
	}
	return outcomeS(msgs, err, shallow), depth
}

func outcomeS(msgs []*hsms.DataMessage, err error, shallow bool) string {
	if err != nil {
		var pe *sml.ParseError
		switch {
		case errors.As(err, &pe):
			return fmt.Sprintf("ERR syntax %d %d %d", pe.Offset, pe.Line, pe.Col)
		case errors.Is(err, sml.ErrNoMessage):
			return "ERR nomsg"
		default:
			return "ERR other"
		}
	}
	var sb strings.Builder
	fmt.Fprintf(&sb, "OK %d", len(msgs))
	for _, m := range msgs {
		if shallow {
			w := 0
			if m.WaitBit() {
				w = 1
			}
			fmt.Fprintf(&sb, " M %d %d %d *", m.Stream(), m.Function(), w)
			continue
		}
		canonMsg(&sb, m)
	}
	return sb.String()
}

// call runs one entry point on one input with a parser of the requested mode. A recoverable
// panic becomes the outcome "PANIC <function>"; the function is the innermost frame of package
// sml on the panicking stack (an observable of where it happened, not message text).
func call(p *sml.Parser, strict bool, entry byte, input string, shallow bool) (out string, depth int) {
	defer func() {
		if r := recover(); r != nil {
			fn := "?"
			if m := smlFrame.FindStringSubmatch(string(debug.Stack())); m != nil {
				fn = m[1]
			}
			kind := "other"
			if e, ok := r.(runtime.Error); ok {
				switch {
				case strings.Contains(e.Error(), "index out of range"):
					kind = "index"
				case strings.Contains(e.Error(), "slice bounds out of range"):
					kind = "slice"
				case strings.Contains(e.Error(), "makeslice"), strings.Contains(e.Error(), "out of range"):
					kind = "range"
				}
			}
			out = "PANIC " + kind + " " + fn
			depth = 0
		}
	}()
	switch entry {
	case 'G':
		if strict {
			ms, err := sml.ParseStrict(input)
			return outcomeD(ms, err, shallow)
		}
		ms, err := sml.Parse(input)
		return outcomeD(ms, err, shallow)
	case 'P':
		ms, err := p.Parse(input)
		return outcomeD(ms, err, shallow)
	case 'M':
		m, err := p.ParseMessage(input)
		if err != nil {
			return outcomeD(nil, err, shallow)
		}
		return outcomeD([]*hsms.DataMessage{m}, nil, shallow)
	case 'H':
		m, err := p.ParseHeader(input)
		if err != nil {
			return outcomeD(nil, err, shallow)
		}
		return outcomeD([]*hsms.DataMessage{m}, nil, shallow)
	}
	return "BADENTRY", 0
}

// heapAllocs is the cumulative number of bytes allocated on the heap (runtime.MemStats.TotalAlloc;
// ReadMemStats flushes the per-P caches, so small allocations are counted exactly).
func heapAllocs() uint64 {
	var ms runtime.MemStats
	runtime.ReadMemStats(&ms)
	return ms.TotalAlloc
}

// runChild processes a batch: lines "<strict 0|1> <entry> <flags> <hex input>"; flags: s = shallow.
// Result file lines: "B <i>" before, "R <i> <allocBytes> <nanos> <reuseSame 0|1> <re-measurements> <deepest list nesting returned> <outcome>" after.
func runChild(batch, res string, maxStack int) {
	if maxStack > 0 {
		debug.SetMaxStack(maxStack)
	}
	in, err := os.Open(batch)
	if err != nil {
		fmt.Fprintln(os.Stderr, "child:", err)
		os.Exit(3)
	}
	defer in.Close()
	outf, err := os.Create(res)
	if err != nil {
		fmt.Fprintln(os.Stderr, "child:", err)
		os.Exit(3)
	}
	w := bufio.NewWriter(outf)
	sc := bufio.NewScanner(in)
	sc.Buffer(make([]byte, 1<<20), 1<<30)
	// one long-lived parser per mode, reused for every input of the batch: a result that depends
	// on anything but (options, input) shows up as a difference to the fresh-instance result
	reused := map[bool]*sml.Parser{false: sml.NewParser(), true: sml.NewParser(sml.WithParserStrictMode(true))}
	// warm-up: the one-time initialisation of the libraries the calls go through, and the start of
	// the runtime's GC workers (first GC cycle), happen here, not inside a measured call
	for _, st := range []bool{false, true} {
		for _, e := range []byte{'G', 'P', 'M', 'H'} {
			_, _ = call(reused[st], st, e, "S1F1 W\n<L <A \"a\"> <U1 1> <F4 1.5> <BOOLEAN T> <B 0x01>>\n.", false)
			_, _ = call(reused[st], st, e, "S1F1 <X>.", false)
		}
	}
	runtime.GC()
	i := 0
	for sc.Scan() {
		f := strings.SplitN(sc.Text(), " ", 4)
		if len(f) != 4 {
			continue
		}
		strict := f[0] == "1"
		entry := f[1][0]
		shallow := strings.Contains(f[2], "s")
		raw, _ := hex.DecodeString(strings.TrimPrefix(f[3], "-"))
		input := string(raw)
		fmt.Fprintf(w, "B %d\n", i)
		w.Flush()
		fresh := sml.NewParser(sml.WithParserStrictMode(strict))
		a0 := heapAllocs()
		t0 := time.Now()
		out, maxDepth := call(fresh, strict, entry, input, shallow)
		dt := time.Since(t0)
		a1 := heapAllocs()
		alloc := a1 - a0
		// The TotalAlloc delta is process-wide. Measured cause of the sporadic ~30 KB (and 6-8 KB)
		// deltas on tiny inputs: when an allocation inside the window starts a GC cycle, the runtime
		// creates its mark-worker goroutines and threads (about 20 g structs of 480 bytes, 16 of 512,
		// a few m structs: 30,472 bytes at the first cycle of a process, a few KB at some later
		// ones) and those count as heap allocations. They are not the parser's. An over-bound
		// measurement is therefore repeated (GC first, nothing else running, a fresh parser each
		// time) and the MINIMUM is reported: an allocation the parser really makes for this input
		// shows up in every repetition.
		remeasured := 0
		if alloc > allocBound(len(input)) && !strings.HasPrefix(out, "PANIC") {
			for rep := 0; rep < 3; rep++ {
				runtime.GC()
				p2 := sml.NewParser(sml.WithParserStrictMode(strict))
				b0 := heapAllocs()
				_, _ = call(p2, strict, entry, input, shallow)
				b1 := heapAllocs()
				remeasured++
				if b1-b0 < alloc {
					alloc = b1 - b0
				}
				if alloc <= allocBound(len(input)) {
					break
				}
			}
		}
		same := 1
		if !strings.HasPrefix(out, "PANIC") && entry != 'G' {
			if out2, _ := call(reused[strict], strict, entry, input, shallow); out2 != out {
				same = 0
			}
		}
		fmt.Fprintf(w, "R %d %d %d %d %d %d %s\n", i, alloc, dt.Nanoseconds(), same, remeasured, maxDepth, out)
		w.Flush()
		i++
	}
	w.Flush()
	outf.Close()
}

// floatTable is the oracle for strconv.ParseFloat (code outside go-secs) handed to the model:
// every token the parser can possibly pass to ParseFloat on this input is an ASCII suffix of a
// whitespace-delimited field of a '>'-free piece of the input. Entries are listed only for
// tokens ParseFloat does not reject as syntax: "hex(tok):r32:r64" with r = r (range error) or the
// decimal float64 bit pattern of the result. Absent = syntax error for both widths.
func floatTable(input string) string {
	seen := map[string]bool{}
	var parts []string
	one := func(tok string, bits int) string {
		v, err := strconv.ParseFloat(tok, bits)
		if err != nil {
			if errors.Is(err, strconv.ErrRange) {
				return "r"
			}
			return "s"
		}
		return strconv.FormatUint(math.Float64bits(v), 10)
	}
	pieces := strings.Split(input, ">")
	for _, piece := range pieces[:len(pieces)-1] {
		for _, tok := range strings.Fields(piece) {
			for k := 0; k < len(tok); k++ {
				if len(tok) > 4096 && k >= 64 && k < len(tok)-4096 {
					// a very long token: only its first 64 and its last 4096 suffixes are tabulated (a
					// float literal longer than 4 KiB glued to a longer prefix is not in the generators)
					k = len(tok) - 4096
				}
				suf := tok[k:]
				c := suf[0]
				// a float literal starts with a sign, a digit, a dot, or i/n (inf, nan)
				if !(c == '+' || c == '-' || c == '.' || (c >= '0' && c <= '9') || c == 'i' || c == 'I' || c == 'n' || c == 'N') {
					continue
				}
				if seen[suf] {
					continue
				}
				seen[suf] = true
				a, b := one(suf, 32), one(suf, 64)
				if a == "s" && b == "s" {
					continue
				}
				parts = append(parts, hex.EncodeToString([]byte(suf))+":"+a+":"+b)
			}
		}
	}
	if len(parts) == 0 {
		return "-"
	}
	return strings.Join(parts, ";")
}
