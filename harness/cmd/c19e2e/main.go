// End-to-end timelines for C19: a REAL active hsmsss connection over net.Pipe against scripted
// peers (silent, answering, slow-but-alive, chatty, alive-but-not-answering), thresholds 1..3,
// suppression on/off. Implementation-level oracle only (no model): probe counts seen by the peer,
// disconnect or not, and the timing LOWER bound threshold x (interval + T6) asserted exactly
// (a timer cannot fire early); upper bounds only with seconds of slack.
package main

import (
	"context"
	"encoding/binary"
	"fmt"
	"io"
	"net"
	"strings"
	"sync"
	"sync/atomic"
	"time"

	"github.com/arloliu/go-secs/v2/hsms"
	"github.com/arloliu/go-secs/v2/hsmsss"
	"github.com/arloliu/go-secs/v2/secs2"

	"verifharness/vh"
)

const (
	baseInterval = 40 * time.Millisecond
	baseT6       = 30 * time.Millisecond
)

type peerKind int

const (
	silent peerKind = iota
	answering
	slowAlive
	chatty
	aliveNotAnswering
	aliveSlowHandler // like aliveNotAnswering, but the local data handler blocks past T6 (life = frame ARRIVAL)
	slowAfterRetune  // T6 is widened on the LIVE connection (UpdateConfigOptions); the peer then answers every probe later than the old T6 but well within the new one
)

var kindName = []string{"silent", "answering", "slow-but-alive", "chatty", "alive-not-answering", "alive-slow-handler", "slow-after-live-T6-retune"}

type peer struct {
	conn      net.Conn
	kind      peerKind
	threshold int
	simul     bool
	initiator bool // the library is passive: this peer sends the Select.req
	interval  time.Duration
	t6        time.Duration
	wmu       sync.Mutex
	slowFrom  atomic.Int64 // slowAfterRetune: probes with this index or later are answered slowly (0 = none yet)
	probes    atomic.Int64 // Linktest.req received
	selectedT atomic.Int64 // unix nanos just before Select.rsp was written
	closedT   atomic.Int64 // unix nanos when the read side saw the link end
	stop      chan struct{}
	done      chan struct{}
}

func (p *peer) write(b []byte) error {
	p.wmu.Lock()
	defer p.wmu.Unlock()
	_ = p.conn.SetWriteDeadline(time.Now().Add(2 * time.Second))
	_, err := p.conn.Write(b)
	return err
}

func dataFrame(sys uint32) []byte {
	var sb [4]byte
	binary.BigEndian.PutUint32(sb[:], sys)
	m, err := hsms.NewDataMessage(1, 13, false, 0, sb, secs2.L())
	if err != nil {
		panic(err)
	}
	return m.ToBytes()
}

func (p *peer) run() {
	defer close(p.done)
	hdr := make([]byte, 4)
	var extra sync.WaitGroup
	defer extra.Wait()
	if p.initiator {
		p.selectedT.Store(time.Now().UnixNano()) // lower-bound reference: before the Select.req is written
		if p.write(hsms.NewSelectReq(0xFFFF, [4]byte{0x7e, 0, 0, 1}).ToBytes()) != nil {
			p.closedT.Store(time.Now().UnixNano())
			return
		}
	}
	for {
		if _, err := io.ReadFull(p.conn, hdr); err != nil {
			p.closedT.Store(time.Now().UnixNano())
			return
		}
		n := binary.BigEndian.Uint32(hdr)
		buf := make([]byte, n)
		if _, err := io.ReadFull(p.conn, buf); err != nil {
			p.closedT.Store(time.Now().UnixNano())
			return
		}
		if n < 10 {
			continue
		}
		msg, err := hsms.DecodeHSMSMessage(append(append([]byte{}, hdr...), buf...))
		if err != nil {
			continue
		}
		cm, ok := msg.(*hsms.ControlMessage)
		if !ok {
			continue
		}
		switch cm.Type() {
		case hsms.SelectReqType:
			rsp, _ := hsms.NewSelectRsp(cm, 0)
			// reference instant for the LOWER bound on the time to the disconnect: taken BEFORE the
			// Select.rsp is written (the library cannot be Selected, nor its linktest timer armed,
			// earlier than this); stamping after the write returned made the measured time too short
			// whenever this goroutine was descheduled in between (a false alarm under load)
			t0 := time.Now().UnixNano()
			if p.simul {
				// our own Select.req first: the library answers it (status 0) and is Selected by its
				// responder path before it sees the answer to its own request
				_ = p.write(hsms.NewSelectReq(cm.SessionID(), [4]byte{0x7f, 0, 0, 1}).ToBytes())
				time.Sleep(p.interval / 8)
			}
			if p.write(rsp.ToBytes()) == nil {
				p.selectedT.Store(t0)
				if p.kind == chatty {
					extra.Add(1)
					go func() {
						defer extra.Done()
						tk := time.NewTicker(p.interval / 4)
						defer tk.Stop()
						sys := uint32(1 << 20)
						for {
							select {
							case <-p.stop:
								return
							case <-tk.C:
								sys++
								if p.write(dataFrame(sys)) != nil {
									return
								}
							}
						}
					}()
				}
			}
		case hsms.LinktestReqType:
			p.probes.Add(1)
			switch p.kind {
			case answering, chatty:
				rsp, _ := hsms.NewLinktestRsp(cm)
				_ = p.write(rsp.ToBytes())
			case slowAfterRetune:
				n := p.probes.Load()
				delay := p.t6 / 3
				if from := p.slowFrom.Load(); from > 0 && n >= from {
					delay = 2 * p.t6 // later than the construction-time T6, well within the live one (6 x)
				}
				extra.Add(1)
				go func() {
					defer extra.Done()
					time.Sleep(delay)
					rsp, _ := hsms.NewLinktestRsp(cm)
					_ = p.write(rsp.ToBytes())
				}()
			case slowAlive:
				extra.Add(1)
				go func() {
					defer extra.Done()
					time.Sleep(p.t6 / 3)
					rsp, _ := hsms.NewLinktestRsp(cm)
					_ = p.write(rsp.ToBytes())
				}()
			case aliveNotAnswering, aliveSlowHandler:
				// never answers the probe, but shows life shortly after it was sent
				n := p.probes.Load()
				if p.kind == aliveSlowHandler && n < int64(p.threshold) {
					break // threshold-1 genuinely silent probes first, then life on the decisive one
				}
				extra.Add(1)
				go func() {
					defer extra.Done()
					time.Sleep(p.t6 / 3)
					_ = p.write(dataFrame(uint32(1<<21) + uint32(n)))
				}()
			}
		case hsms.SeparateReqType:
			p.closedT.Store(time.Now().UnixNano())
			return
		}
	}
}

type scenario struct {
	kind      peerKind
	threshold int
	suppress  bool
	passive   bool // PASSIVE library with stray dialers (runPassiveStray)
	simul     bool // simultaneous select (E37 7.4.3): the peer sends its OWN Select.req before answering ours, so the active library commits Selected through its responder path
	scale     int // all protocol timings are multiplied by this (1, or 4 on a re-run after a punctuality alarm)
}

func runScenario(c *vh.Ctx, sc scenario) {
	if sc.scale < 1 {
		sc.scale = 1
	}
	interval := baseInterval * time.Duration(sc.scale)
	t6 := baseT6 * time.Duration(sc.scale)
	var mu sync.Mutex
	var peers []*peer
	dials := 0
	dial := func(ctx context.Context, network, address string) (net.Conn, error) {
		mu.Lock()
		defer mu.Unlock()
		a, b := net.Pipe()
		k := sc.kind
		if dials > 0 {
			k = answering // the generation after a linktest disconnect: a healthy peer
		}
		dials++
		p := &peer{conn: b, kind: k, threshold: sc.threshold, simul: sc.simul && dials == 1, interval: interval, t6: t6, stop: make(chan struct{}), done: make(chan struct{})}
		peers = append(peers, p)
		go p.run()
		return a, nil
	}
	cfg, err := hsmsss.NewConfig("127.0.0.1", 5000, hsmsss.WithActive(), hsmsss.WithDialer(dial),
		hsmsss.WithConnectionOption(hsms.WithT6(t6)),
		hsmsss.WithConnectionOption(hsms.WithT5(20*time.Millisecond*time.Duration(sc.scale))),
		hsmsss.WithConnectionOption(hsms.WithT7(2*time.Second)),
		hsmsss.WithConnectionOption(hsms.WithLinktestInterval(interval)),
		hsmsss.WithConnectionOption(hsms.WithLinktestFailThreshold(sc.threshold)),
		hsmsss.WithConnectionOption(hsms.WithLinktestSuppression(sc.suppress)),
		hsmsss.WithConnectionOption(hsms.WithCloseTimeout(2*time.Second)),
	)
	if err != nil {
		c.Fail("config: "+err.Error(), "")
		return
	}
	conn, err := hsmsss.New(cfg)
	if err != nil {
		c.Fail("new: "+err.Error(), "")
		return
	}
	if sc.kind == aliveSlowHandler {
		// the handler runs inline on the receive path: it must not hide the frame's arrival from the
		// linktest accounting
		conn.AddDataMessageHandler(func(*hsms.DataMessage, hsms.SECS2Endpoint) { time.Sleep(t6 + 20*time.Millisecond) })
	}
	name := fmt.Sprintf("E peer=%s threshold=%d suppress=%s", kindName[sc.kind], sc.threshold, vh.B01(sc.suppress))
	if sc.simul {
		name += " simultaneous-select"
	}
	ctx, cancel := context.WithTimeout(context.Background(), 5*time.Second)
	err = conn.Open(ctx, hsms.OpenWaitSelected)
	cancel()
	if err != nil {
		c.Fail("open failed: "+err.Error(), name)
		_ = conn.Close()
		return
	}
	round := interval + t6
	expectDrop := sc.kind == silent || ((sc.kind == aliveNotAnswering || sc.kind == aliveSlowHandler) && !sc.suppress)
	watch := time.Duration(sc.threshold+4) * round
	if !expectDrop {
		watch = time.Duration(sc.threshold+5) * round
	}
	deadline := time.Now().Add(watch + 3*time.Second)
	mu.Lock()
	p0 := peers[0]
	mu.Unlock()
	if sc.kind == slowAfterRetune {
		// widen T6 on the live connection; the probe after the next one is certainly sent under the new value
		if err := conn.UpdateConfigOptions(hsms.WithT6(6 * t6)); err != nil {
			c.Fail("UpdateConfigOptions(WithT6): "+err.Error(), name)
		}
		p0.slowFrom.Store(p0.probes.Load() + 2)
	}
	dropped := false
	if expectDrop {
		for time.Now().Before(deadline) {
			if p0.closedT.Load() != 0 {
				dropped = true
				break
			}
			time.Sleep(time.Millisecond)
		}
	} else {
		time.Sleep(watch)
		dropped = p0.closedT.Load() != 0
	}
	probes := p0.probes.Load()
	elapsed := time.Duration(0)
	if dropped {
		elapsed = time.Duration(p0.closedT.Load() - p0.selectedT.Load())
	}
	suppressedCnt := conn.ControlMetrics().LinktestSuppressedCount()
	outcome := fmt.Sprintf("%s | dropped=%s probes=%d", name, vh.B01(dropped), probes)
	c.Case(outcome, name, true)
	c.Count("E/" + kindName[sc.kind] + "/dropped=" + vh.B01(dropped))

	switch {
	case expectDrop:
		if !dropped {
			c.Fail("dead peer not disconnected by the linktest", outcome)
		} else {
			if probes != int64(sc.threshold) {
				c.Fail(fmt.Sprintf("dead peer: %d probes seen before the disconnect, want exactly threshold=%d", probes, sc.threshold), outcome)
			}
			if lower := time.Duration(sc.threshold) * round; elapsed < lower {
				c.Fail(fmt.Sprintf("disconnect after %v, earlier than threshold x (interval+T6) = %v", elapsed, lower), outcome)
			}
		}
	default:
		if dropped {
			c.Fail("a peer showing life was disconnected", outcome)
		}
		switch sc.kind {
		case chatty:
			if sc.suppress && probes != 0 {
				c.Fail(fmt.Sprintf("suppression on, traffic flowing within every interval, yet %d probes were sent", probes), outcome)
			}
			if !sc.suppress && probes < int64(sc.threshold+5)/2 {
				c.Fail(fmt.Sprintf("suppression off: only %d probes in %d intervals", probes, sc.threshold+5), outcome)
			}
			if sc.suppress && suppressedCnt == 0 {
				c.Fail("suppression on and chatty peer, but the suppressed counter never moved", outcome)
			}
		case answering, slowAlive, slowAfterRetune:
			if probes == 0 {
				c.Fail("idle answering peer was never probed", outcome)
			}
		}
	}
	if err := conn.Close(); err != nil {
		c.Note("close: " + err.Error())
	}
	mu.Lock()
	for _, p := range peers {
		close(p.stop)
		_ = p.conn.Close()
		<-p.done
	}
	mu.Unlock()
}

func main() {
	c := vh.New()
	var scs []scenario
	for _, k := range []peerKind{silent, answering, slowAlive, chatty, aliveNotAnswering, aliveSlowHandler, slowAfterRetune} {
		for _, sup := range []bool{true, false} {
			ths := []int{1, 2, 3}
			if c.Tier != "thorough" {
				ths = []int{1 + c.Rng.Intn(3)}
				if k == aliveSlowHandler {
					ths = []int{1, 2}
				}
				if k == slowAfterRetune {
					ths = []int{1, 2} // threshold 1 is the decisive case when suppression is on
				}
			}
			for _, th := range ths {
				scs = append(scs, scenario{kind: k, threshold: th, suppress: sup})
			}
			if k == silent || k == answering {
				// the linktest must run whichever path made the session Selected
				scs = append(scs, scenario{kind: k, threshold: ths[0], suppress: sup, simul: true})
			}
		}
	}
	for _, sup := range []bool{true, false} {
		scs = append(scs, scenario{kind: silent, threshold: 1 + c.Rng.Intn(3), suppress: sup, passive: true})
	}
	reps := 1
	if c.Tier == "thorough" {
		reps = 5
	}
	var wg sync.WaitGroup
	sem := make(chan struct{}, 8)
	var cmu sync.Mutex
	_ = cmu
	for r := 0; r < reps; r++ {
		for _, sc := range scs {
			wg.Add(1)
			sem <- struct{}{}
			go func(sc scenario) {
				defer wg.Done()
				defer func() { <-sem }()
				runScenarioLocked(c, sc)
			}(sc)
		}
	}
	wg.Wait()
	c.Finish()
}

// chanListener is a harness-owned listener for the passive role: Accept hands out the pipe ends the
// harness pushes.
type chanListener struct {
	ch     chan net.Conn
	closed chan struct{}
	once   sync.Once
}

func (l *chanListener) Accept() (net.Conn, error) {
	select {
	case c := <-l.ch:
		return c, nil
	case <-l.closed:
		return nil, net.ErrClosed
	}
}
func (l *chanListener) Close() error   { l.once.Do(func() { close(l.closed) }); return nil }
func (l *chanListener) Addr() net.Addr { return &net.TCPAddr{IP: net.IPv4(127, 0, 0, 1), Port: 5000} }

// runPassiveStray: PASSIVE library, a peer that selects and then goes completely silent, while
// unrelated TCP clients keep connecting to the listening port (each is accepted and refused). A
// refused dialer is not life on the session: the silent peer must be dropped after exactly
// <threshold> probes, no earlier than threshold x (interval + T6).
func runPassiveStray(c *vh.Ctx, sc scenario) {
	if sc.scale < 1 {
		sc.scale = 1
	}
	interval := baseInterval * time.Duration(sc.scale)
	t6 := baseT6 * time.Duration(sc.scale)
	var mu sync.Mutex
	var cur *chanListener
	listen := func(ctx context.Context, network, address string) (net.Listener, error) {
		l := &chanListener{ch: make(chan net.Conn), closed: make(chan struct{})}
		mu.Lock()
		cur = l
		mu.Unlock()
		return l, nil
	}
	push := func(conn net.Conn, wait time.Duration) bool {
		mu.Lock()
		l := cur
		mu.Unlock()
		if l == nil {
			return false
		}
		select {
		case l.ch <- conn:
			return true
		case <-l.closed:
			return false
		case <-time.After(wait):
			return false
		}
	}
	cfg, err := hsmsss.NewConfig("127.0.0.1", 5000, hsmsss.WithPassive(), hsmsss.WithListener(listen),
		hsmsss.WithConnectionOption(hsms.WithT6(t6)),
		hsmsss.WithConnectionOption(hsms.WithT7(2*time.Second)),
		hsmsss.WithConnectionOption(hsms.WithLinktestInterval(interval)),
		hsmsss.WithConnectionOption(hsms.WithLinktestFailThreshold(sc.threshold)),
		hsmsss.WithConnectionOption(hsms.WithLinktestSuppression(sc.suppress)),
		hsmsss.WithConnectionOption(hsms.WithCloseTimeout(2*time.Second)),
	)
	if err != nil {
		c.Fail("config: "+err.Error(), "")
		return
	}
	conn, err := hsmsss.New(cfg)
	if err != nil {
		c.Fail("new: "+err.Error(), "")
		return
	}
	name := fmt.Sprintf("E passive peer=silent stray-dialers threshold=%d suppress=%s", sc.threshold, vh.B01(sc.suppress))
	opened := make(chan error, 1)
	go func() {
		ctx, cancel := context.WithTimeout(context.Background(), 5*time.Second)
		defer cancel()
		opened <- conn.Open(ctx, hsms.OpenWaitSelected)
	}()
	a, b := net.Pipe()
	p0 := &peer{conn: b, kind: silent, threshold: sc.threshold, initiator: true, interval: interval, t6: t6, stop: make(chan struct{}), done: make(chan struct{})}
	deadlineListen := time.Now().Add(3 * time.Second)
	for !push(a, 50*time.Millisecond) {
		if time.Now().After(deadlineListen) {
			c.Fail("open failed: the passive library never accepted the peer", name)
			_ = conn.Close()
			return
		}
	}
	go p0.run()
	if err := <-opened; err != nil {
		c.Fail("open failed: "+err.Error(), name)
		_ = conn.Close()
		return
	}
	// stray dialers: an unrelated client connects every interval/3 and must simply be refused
	stopStray := make(chan struct{})
	var strayWG sync.WaitGroup
	strays := 0
	strayWG.Add(1)
	go func() {
		defer strayWG.Done()
		tk := time.NewTicker(interval / 3)
		defer tk.Stop()
		for {
			select {
			case <-stopStray:
				return
			case <-tk.C:
				x, y := net.Pipe()
				if push(x, interval/3) {
					strays++
					_ = y.SetReadDeadline(time.Now().Add(time.Second))
					_, _ = y.Read(make([]byte, 1)) // the library closes a refused connection
				}
				_ = y.Close()
				_ = x.Close()
			}
		}
	}()
	round := interval + t6
	deadline := time.Now().Add(time.Duration(sc.threshold+4)*round + 3*time.Second)
	dropped := false
	for time.Now().Before(deadline) {
		if p0.closedT.Load() != 0 {
			dropped = true
			break
		}
		time.Sleep(time.Millisecond)
	}
	close(stopStray)
	strayWG.Wait()
	probes := p0.probes.Load()
	outcome := fmt.Sprintf("%s | dropped=%s probes=%d strays=%d", name, vh.B01(dropped), probes, strays)
	c.Case(outcome, name, true)
	c.Count("E/passive-stray/dropped=" + vh.B01(dropped))
	if !dropped {
		c.Fail("dead peer not disconnected by the linktest", outcome)
	} else {
		if probes != int64(sc.threshold) {
			c.Fail(fmt.Sprintf("dead peer: %d probes seen before the disconnect, want exactly threshold=%d", probes, sc.threshold), outcome)
		}
		elapsed := time.Duration(p0.closedT.Load() - p0.selectedT.Load())
		if lower := time.Duration(sc.threshold) * round; elapsed < lower {
			c.Fail(fmt.Sprintf("disconnect after %v, earlier than threshold x (interval+T6) = %v", elapsed, lower), outcome)
		}
	}
	if err := conn.Close(); err != nil {
		c.Note("close: " + err.Error())
	}
	close(p0.stop)
	_ = p0.conn.Close()
	<-p0.done
}

var ctxMu sync.Mutex

// the vh.Ctx is not goroutine-safe: scenarios run concurrently but report under one lock
func runScenarioLocked(c *vh.Ctx, sc scenario) {
	var local *vh.Ctx
	retried := false
	for attempt := 0; attempt < 3; attempt++ {
		local = &vh.Ctx{}
		*local = vh.Ctx{Seed: c.Seed, Tier: c.Tier}
		local.Sum.Histogram = map[string]int{}
		if attempt > 0 {
			sc.scale = 4
			retried = true
		}
		if sc.passive {
			runPassiveStray(local, sc)
		} else {
			runScenario(local, sc)
		}
		if !punctualityAlarm(local) {
			break
		}
	}
	ctxMu.Lock()
	defer ctxMu.Unlock()
	if retried {
		local.Count("E/re-run-at-4x-timings-after-a-punctuality-alarm")
	}
	c.Merge(local)
}

// punctualityAlarm: the scenario failed only in a way that a late harness/peer goroutine can cause
// on correct code (a "live" peer whose answer or chatter was delayed past T6 / the interval by the
// scheduler, an Open that timed out). Such a scenario is run again with every protocol timing x4,
// twice; it is reported only if it fails every time (a defect in the accounting rules fails at any
// time scale). Failures that no delay can cause (probe counts for a dead peer, a disconnect earlier
// than the lower bound, counters that never moved) are reported at once.
func punctualityAlarm(l *vh.Ctx) bool {
	if len(l.Sum.OracleFailures) == 0 {
		return false
	}
	for _, f := range l.Sum.OracleFailures {
		w := f.What
		switch {
		case strings.HasPrefix(w, "a peer showing life was disconnected"),
			strings.HasPrefix(w, "suppression on, traffic flowing within every interval"),
			strings.HasPrefix(w, "suppression off: only"),
			strings.HasPrefix(w, "open failed"),
			strings.HasPrefix(w, "dead peer not disconnected"):
		default:
			return false
		}
	}

	return true
}
