// Harness for C16: drives the PUBLIC item constructors of secs2 (under recover) with argument lists
// over every Go type x byte sizes x boundary values x shapes, observes Error()/values/Equal/
// hsms.NewDataMessage/Derive().Build()/the endpoint send calls, writes one case line per call for
// the Coq model (driver: ocaml/c16_driver.ml) and checks the property itself on the real code
// without reference to the model (c.Fail).
package main

import (
	"errors"
	"flag"
	"fmt"
	"math"
	"math/big"
	"strings"

	"github.com/arloliu/go-secs/v2/hsms"
	"github.com/arloliu/go-secs/v2/secs2"
	"github.com/arloliu/go-secs/v2/sml"

	"verifharness/vh"
)

var c *vh.Ctx

// ---------------------------------------------------------------------------------------------
// Go integer types

type gty int

const (
	tInt gty = iota
	tInt8
	tInt16
	tInt32
	tInt64
	tUint
	tUint8
	tUint16
	tUint32
	tUint64
)

var allTy = []gty{tInt, tInt8, tInt16, tInt32, tInt64, tUint, tUint8, tUint16, tUint32, tUint64}

func pow2(k uint) *big.Int { return new(big.Int).Lsh(big.NewInt(1), k) }

func tyRange(t gty) (lo, hi *big.Int) {
	switch t {
	case tInt, tInt64:
		return new(big.Int).Neg(pow2(63)), new(big.Int).Sub(pow2(63), big.NewInt(1))
	case tInt8:
		return big.NewInt(-128), big.NewInt(127)
	case tInt16:
		return big.NewInt(-32768), big.NewInt(32767)
	case tInt32:
		return big.NewInt(-1 << 31), big.NewInt(1<<31 - 1)
	case tUint, tUint64:
		return big.NewInt(0), new(big.Int).Sub(pow2(64), big.NewInt(1))
	case tUint8:
		return big.NewInt(0), big.NewInt(255)
	case tUint16:
		return big.NewInt(0), big.NewInt(65535)
	default:
		return big.NewInt(0), big.NewInt(1<<32 - 1)
	}
}

func fits(t gty, z *big.Int) bool {
	lo, hi := tyRange(t)
	return z.Cmp(lo) >= 0 && z.Cmp(hi) <= 0
}

func mkScalar(t gty, z *big.Int) any {
	switch t {
	case tInt:
		return int(z.Int64())
	case tInt8:
		return int8(z.Int64())
	case tInt16:
		return int16(z.Int64())
	case tInt32:
		return int32(z.Int64())
	case tInt64:
		return z.Int64()
	case tUint:
		return uint(z.Uint64())
	case tUint8:
		return uint8(z.Uint64())
	case tUint16:
		return uint16(z.Uint64())
	case tUint32:
		return uint32(z.Uint64())
	default:
		return z.Uint64()
	}
}

func mkSlice(t gty, zs []*big.Int) any {
	switch t {
	case tInt:
		out := make([]int, len(zs))
		for i, z := range zs {
			out[i] = int(z.Int64())
		}
		return out
	case tInt8:
		out := make([]int8, len(zs))
		for i, z := range zs {
			out[i] = int8(z.Int64())
		}
		return out
	case tInt16:
		out := make([]int16, len(zs))
		for i, z := range zs {
			out[i] = int16(z.Int64())
		}
		return out
	case tInt32:
		out := make([]int32, len(zs))
		for i, z := range zs {
			out[i] = int32(z.Int64())
		}
		return out
	case tInt64:
		out := make([]int64, len(zs))
		for i, z := range zs {
			out[i] = z.Int64()
		}
		return out
	case tUint:
		out := make([]uint, len(zs))
		for i, z := range zs {
			out[i] = uint(z.Uint64())
		}
		return out
	case tUint8:
		out := make([]uint8, len(zs))
		for i, z := range zs {
			out[i] = uint8(z.Uint64())
		}
		return out
	case tUint16:
		out := make([]uint16, len(zs))
		for i, z := range zs {
			out[i] = uint16(z.Uint64())
		}
		return out
	case tUint32:
		out := make([]uint32, len(zs))
		for i, z := range zs {
			out[i] = uint32(z.Uint64())
		}
		return out
	default:
		out := make([]uint64, len(zs))
		for i, z := range zs {
			out[i] = z.Uint64()
		}
		return out
	}
}

// boundary values: around every width's bounds, 2^53 and the 64-bit limits, and beyond them
var boundaries []*big.Int

func initBoundaries() {
	add := func(z *big.Int) { boundaries = append(boundaries, z) }
	for _, v := range []int64{0, 1, -1, 2, 100, -100} {
		add(big.NewInt(v))
	}
	for _, k := range []uint{7, 8, 15, 16, 31, 32, 53, 63, 64} {
		p := pow2(k)
		for _, d := range []int64{-2, -1, 0, 1, 2} {
			add(new(big.Int).Add(p, big.NewInt(d)))
			add(new(big.Int).Neg(new(big.Int).Add(p, big.NewInt(d))))
		}
	}
	e30 := new(big.Int).Exp(big.NewInt(10), big.NewInt(30), nil)
	add(e30)
	add(new(big.Int).Neg(e30))
}

func pickBig() *big.Int {
	r := c.Rng
	switch r.Intn(5) {
	case 0:
		return big.NewInt(int64(r.Intn(400)) - 200)
	case 1:
		return big.NewInt(r.Int63() >> uint(r.Intn(63)))
	case 2:
		return new(big.Int).Neg(big.NewInt(r.Int63() >> uint(r.Intn(63))))
	default:
		return boundaries[r.Intn(len(boundaries))]
	}
}

// pickTypeFor returns a random Go integer type that can hold z (ok=false when none can).
func pickTypeFor(z *big.Int) (gty, bool) {
	var cand []gty
	for _, t := range allTy {
		if fits(t, z) {
			cand = append(cand, t)
		}
	}
	if len(cand) == 0 {
		return 0, false
	}
	return cand[c.Rng.Intn(len(cand))], true
}

// ---------------------------------------------------------------------------------------------
// expectations computed from the property text alone (no model)

func intBounds(w int) (lo, hi *big.Int) {
	return new(big.Int).Neg(pow2(uint(8*w - 1))), new(big.Int).Sub(pow2(uint(8*w-1)), big.NewInt(1))
}

func clampBig(z, lo, hi *big.Int) *big.Int {
	if z.Cmp(lo) < 0 {
		return lo
	}
	if z.Cmp(hi) > 0 {
		return hi
	}
	return z
}

func validIntW(w int) bool { return w == 1 || w == 2 || w == 4 || w == 8 }

// checkIntegers is the "clamped to the nearest bound, never wrapped, in order" oracle for an
// I/U item built from arguments whose mathematical values are zs.
func checkIntegers(kind byte, w int, zs []*big.Int, it secs2.Item, line string) {
	if !validIntW(w) {
		if it.Error() == nil {
			c.Fail("invalid byte size accepted", line)
		}
		return
	}
	if kind == 'U' {
		for _, z := range zs {
			if z.Sign() < 0 {
				if it.Error() == nil {
					c.Fail("negative value accepted by an unsigned item", line)
				}
				return
			}
		}
	}
	if len(zs)*w > secs2.MaxByteSize {
		if it.Error() == nil {
			c.Fail("item above MaxByteSize accepted", line)
		}
		return
	}
	if it.Error() != nil {
		c.Fail("valid numeric arguments refused", line)
		return
	}
	var lo, hi *big.Int
	if kind == 'I' {
		lo, hi = intBounds(w)
	} else {
		lo, hi = big.NewInt(0), new(big.Int).Sub(pow2(uint(8*w)), big.NewInt(1))
	}
	got := make([]*big.Int, 0, len(zs))
	if kind == 'I' {
		v, _ := it.ToInt()
		for _, x := range v {
			got = append(got, big.NewInt(x))
		}
	} else {
		v, _ := it.ToUint()
		for _, x := range v {
			got = append(got, new(big.Int).SetUint64(x))
		}
	}
	if len(got) != len(zs) || it.Size() != len(zs) {
		c.Fail(fmt.Sprintf("value count %d (Size %d), want %d", len(got), it.Size(), len(zs)), line)
		return
	}
	for i, z := range zs {
		want := clampBig(z, lo, hi)
		if got[i].Cmp(want) != 0 {
			c.Fail(fmt.Sprintf("value[%d]=%s, want nearest bound/identity %s of input %s", i, got[i], want, z), line)
			return
		}
	}
}

// ---------------------------------------------------------------------------------------------
// case emission

func emitConstruct(e *expr) (secs2.Item, bool) {
	r := e.build()
	line := "C " + e.syntax() + " | "
	if r.panicked {
		c.Fail("constructor panicked: "+r.panicMsg, line)
		c.Case(line+"PANIC", line, true)
		return nil, false
	}
	var obs string
	func() {
		defer func() {
			if p := recover(); p != nil {
				c.Fail(fmt.Sprintf("accessor panicked: %v", p), line)
				obs = "PANIC"
			}
		}()
		obs = show(r.item)
	}()
	line += obs
	c.Case(line, line, true)
	return r.item, obs != "PANIC"
}

func errorClass(it secs2.Item) bool { return it != nil && it.Error() != nil }

// msgClass canonicalises the result of a message constructor.
func msgClass(m *hsms.DataMessage, err error) string {
	switch {
	case err == nil && m != nil:
		return "ok"
	case errors.Is(err, hsms.ErrInvalidStreamCode):
		return "stream"
	case errors.Is(err, hsms.ErrInvalidRspMsg):
		return "rsp"
	case err != nil:
		return "item"
	default:
		return "nilnil"
	}
}

// emitGate checks an item against every message constructor.
func emitGate(e *expr, it secs2.Item) {
	r := c.Rng
	stream := uint8(r.Intn(128))
	if r.Intn(10) == 0 {
		stream = uint8(128 + r.Intn(128))
	}
	fn := uint8(r.Intn(256))
	w := r.Intn(2) == 0
	sess := uint16(r.Intn(65536))
	sys := [4]byte{byte(r.Intn(256)), byte(r.Intn(256)), byte(r.Intn(256)), byte(r.Intn(256))}
	line := fmt.Sprintf("M %d %d %s %s | ", stream, fn, vh.B01(w), e.syntax())
	var cls string
	func() {
		defer func() {
			if p := recover(); p != nil {
				cls = "PANIC"
				c.Fail(fmt.Sprintf("NewDataMessage panicked: %v", p), line)
			}
		}()
		m, err := hsms.NewDataMessage(stream, fn, w, sess, sys, it)
		cls = msgClass(m, err)
		if errorClass(it) && err == nil {
			c.Fail("NewDataMessage accepted an item whose Error() is non-nil", line)
		}
		// the builder path and the header path go through the same gate
		base, _ := hsms.NewDataMessage(1, 1, false, sess, sys, secs2.A("seed"))
		bm, berr := base.Derive().WithStream(stream).WithFunction(fn).WithWaitBit(w).WithItem(it).Build()
		if bc := msgClass(bm, berr); bc != cls {
			c.Fail(fmt.Sprintf("Derive().Build() class %s differs from NewDataMessage %s", bc, cls), line)
		}
		if stream < 128 {
			var hdr [10]byte
			hdr[0], hdr[1] = byte(sess>>8), byte(sess)
			hdr[2] = stream
			if w {
				hdr[2] |= 0x80
			}
			hdr[3] = fn
			copy(hdr[6:], sys[:])
			hm, herr := hsms.NewDataMessageFromHeader(hdr, it)
			if hc := msgClass(hm, herr); hc != cls {
				c.Fail(fmt.Sprintf("NewDataMessageFromHeader class %s differs from NewDataMessage %s", hc, cls), line)
			}
		}
		if m != nil && it != nil {
			got, gerr := m.Item()
			if gerr != nil || !secs2.Equal(got, it) {
				c.Fail("message built from an error-free item does not carry an Equal item", line)
			}
		}
	}()
	line += cls
	c.Case(line, line, true)
	c.Count("gate/" + cls)
}

func emitEqual(a, b *expr, ia, ib secs2.Item) bool {
	line := "Q " + a.syntax() + " ; " + b.syntax() + " | "
	eq := false
	func() {
		defer func() {
			if p := recover(); p != nil {
				c.Fail(fmt.Sprintf("Equal panicked: %v", p), line)
			}
		}()
		eq = secs2.Equal(ia, ib)
		if eq && (errorClass(ia) || errorClass(ib)) {
			c.Fail("an item with a non-nil Error() compared Equal", line)
		}
		if eq != secs2.Equal(ib, ia) {
			c.Fail("Equal is not symmetric", line)
		}
	}()
	line += vh.B01(eq)
	c.Case(line, line, true)
	return eq
}

// ---------------------------------------------------------------------------------------------
// generators

func numExpr(kind byte, w int, args ...any) *expr { return &expr{kind: kind, w: w, args: args} }

var allW = []int{0, 1, 2, 3, 4, 8, 16, -1}

var otherArgs = []any{
	nil, otherT{1}, &otherT{2}, []any{1}, uintptr(5), complex128(1), map[string]int{}, myInt(3),
	[]myInt{1}, (*int)(nil), [2]int{1, 2}, struct{}{}, []otherT{}, errors.New("x"), 'a' + 0i,
}

// exoticW: byte sizes that are invalid as mathematical integers but collide with a valid width after
// a narrowing conversion (w + k*2^32, w + k*2^8, ...), and the extremes of int.
var exoticW = []int{
	1<<32 + 1, 1<<32 + 2, 1<<32 + 4, 1<<32 + 8, 3<<32 + 8, -(1 << 32) + 4, -(1 << 32) + 8, 1 << 32, 1 << 31, -(1 << 31),
	1<<8 + 1, 1<<8 + 4, 1<<16 + 2, 1<<16 + 8, 1<<63 - 1, -1 << 63, 1<<62 + 4, 5, 6, 7, 9, 32, 64, -2, -4, -8,
}

// corpusExoticSizes: the three numeric constructors at the exotic byte sizes (a few values each).
func corpusExoticSizes() {
	for _, w := range exoticW {
		for _, kind := range []byte{'I', 'U'} {
			for _, zs := range [][]*big.Int{{big.NewInt(1)}, {big.NewInt(0), big.NewInt(200), big.NewInt(7)}} {
				var e *expr
				if len(zs) == 1 {
					e = numExpr(kind, w, mkScalar(tInt, zs[0]))
				} else {
					e = numExpr(kind, w, mkSlice(tInt, zs))
				}
				it, ok := emitConstruct(e)
				if ok {
					checkIntegers(kind, w, zs, it, "C "+e.syntax())
				}
				c.Count("exotic-byte-size")
			}
		}
		checkFloat(numExpr('F', w, f64(f64Corpus[0])), w)
		checkFloat(numExpr('F', w, []float64{1.5, 2.5}), w)
	}
}

// corpusIntegers: every integer Go type x byte size x boundary value, as scalar, slice and string.
func corpusIntegers() {
	for _, kind := range []byte{'I', 'U'} {
		for _, w := range allW {
			for _, t := range allTy {
				for _, z := range boundaries {
					if !fits(t, z) {
						continue
					}
					e := numExpr(kind, w, mkScalar(t, z))
					it, ok := emitConstruct(e)
					if ok {
						checkIntegers(kind, w, []*big.Int{z}, it, "C "+e.syntax())
					}
					c.Count(fmt.Sprintf("%c/w=%d/scalar", kind, w))
					if !validIntW(w) && t != tInt {
						continue
					}
					// two scalars: the slow path (combine*Values) for this Go type
					e3 := numExpr(kind, w, mkScalar(t, z), mkScalar(t, z))
					it3, ok3 := emitConstruct(e3)
					if ok3 {
						checkIntegers(kind, w, []*big.Int{z, z}, it3, "C "+e3.syntax())
					}
					zs := []*big.Int{z, big.NewInt(0), z}
					e2 := numExpr(kind, w, mkSlice(t, zs))
					it2, ok2 := emitConstruct(e2)
					if ok2 {
						checkIntegers(kind, w, zs, it2, "C "+e2.syntax())
					}
					c.Count(fmt.Sprintf("%c/w=%d/slice", kind, w))
				}
			}
			// decimal strings of every boundary value, whatever its magnitude
			for _, z := range boundaries {
				e := numExpr(kind, w, z.String())
				it, ok := emitConstruct(e)
				if ok {
					checkIntegers(kind, w, []*big.Int{z}, it, "C "+e.syntax())
				}
				e2 := numExpr(kind, w, []string{z.String(), "7"})
				it2, ok2 := emitConstruct(e2)
				if ok2 {
					checkIntegers(kind, w, []*big.Int{z, big.NewInt(7)}, it2, "C "+e2.syntax())
				}
				c.Count(fmt.Sprintf("%c/w=%d/string", kind, w))
			}
		}
	}
}

var litStrings = []string{
	"", " ", "0", "00", "-0", "+0", "+5", "-5", "--5", "+-5", "+", "-", "0x", "0x1F", "0X1f", "0b101", "0B2", "0o17", "017", "08",
	"1_000", "_1", "1_", "1__0", "0x_1", "0_7", "0x1_", "1e3", "1.0", "abc", " 1", "1 ", "१", "0xg", "255", "256", "-1",
	"9223372036854775807", "9223372036854775808", "-9223372036854775808", "-9223372036854775809",
	"18446744073709551615", "18446744073709551616", "99999999999999999999x", "0x7fffffffffffffff", "0xffffffffffffffff",
	"0x10000000000000000", "-0x8000000000000000", "0b1111_1111", "0o377", "0377", "0400", "0xFF", "0x100", "+255", "+256",
}

func corpusStrings() {
	for _, s := range litStrings {
		for _, w := range []int{1, 8} {
			emitConstruct(numExpr('I', w, s))
			emitConstruct(numExpr('U', w, s))
			emitConstruct(numExpr('I', w, []string{"1", s, "2"}))
			emitConstruct(numExpr('U', w, []string{"1", s, "2"}))
		}
		emitConstruct(&expr{kind: 'B', args: []any{s}})
		emitConstruct(&expr{kind: 'B', args: []any{1, s, byte(2)}})
		c.Count("literal-strings")
	}
}

func f64(bits uint64) float64 { return math.Float64frombits(bits) }
func f32(bits uint32) float32 { return math.Float32frombits(bits) }

var f64Corpus = []uint64{
	0, 1 << 63, 1, 0x000fffffffffffff, 0x0010000000000000, 0x3ff0000000000000, 0xbff0000000000000,
	0x47efffffe0000000, 0x47efffffe0000001, 0x47efffffdfffffff, 0x47effffff0000000, 0x47f0000000000000,
	0xc7efffffe0000000, 0xc7efffffe0000001, 0xc7efffffdfffffff, 0x7fefffffffffffff, 0xffefffffffffffff,
	0x7ff0000000000000, 0xfff0000000000000, 0x7ff8000000000000, 0x7ff8000000000001, 0xfff8000000000000,
	0x36a0000000000000, 0x369fffffffffffff, 0x36a0000000000001, 0x3810000000000000, 0x380fffffffffffff,
	0x3ff0000010000000, 0x3ff0000030000000, 0x3ff0000010000001, 0x4340000000000000, 0x4340000000000001,
}

var f32Corpus = []uint32{
	0, 1 << 31, 1, 0x007fffff, 0x00800000, 0x3f800000, 0xbf800000, 0x7f7fffff, 0xff7fffff, 0x7f800000, 0xff800000,
	0x7fc00000, 0x7fc00001, 0x00000100, 0x00400000,
}

var floatStrings = []string{
	"0", "-0", "1", "1.5", "1e39", "-1e39", "3.4028235e38", "3.4028236e38", "3.5e38", "1e400", "-1e400", "inf", "-Inf", "+Infinity",
	"nan", "NaN", "0x1p-2", "1_0", "0x1_0p0", "", " 1", "1 ", "abc", "1e", ".5", "5.", "1e-50", "4.9e-324", "1e-400",
	"9007199254740993", "16777217", "0.1", "1,5",
}

func corpusFloats() {
	for _, w := range allW {
		for _, b := range f64Corpus {
			checkFloat(numExpr('F', w, f64(b)), w)
			checkFloat(numExpr('F', w, []float64{f64(b), 1.5}), w)
		}
		for _, b := range f32Corpus {
			checkFloat(numExpr('F', w, f32(b)), w)
			checkFloat(numExpr('F', w, []float32{f32(b), 2.5}), w)
		}
		for _, s := range floatStrings {
			checkFloat(numExpr('F', w, s), w)
			checkFloat(numExpr('F', w, []string{"1", s}), w)
		}
		if w != 4 && w != 8 {
			continue
		}
		for _, t := range allTy {
			for _, z := range boundaries {
				if !fits(t, z) {
					continue
				}
				checkFloat(numExpr('F', w, mkScalar(t, z)), w)
				checkFloat(numExpr('F', w, mkSlice(t, []*big.Int{big.NewInt(1), z})), w)
			}
		}
	}
}

const maxF32 = float64(math.MaxFloat32)

// checkFloat emits the case and checks the float half of the property on the real code.
func checkFloat(e *expr, w int) {
	it, ok := emitConstruct(e)
	if !ok {
		return
	}
	line := "C " + e.syntax()
	c.Count(fmt.Sprintf("F/w=%d", w))
	if w != 4 && w != 8 {
		if it.Error() == nil {
			c.Fail("invalid byte size accepted", line)
		}
		return
	}
	// expected inputs, when every argument is a float or a small integer
	var want []float64
	for _, a := range e.args {
		switch v := a.(type) {
		case float64:
			want = append(want, v)
		case []float64:
			want = append(want, v...)
		case float32:
			want = append(want, float64(v))
		case []float32:
			for _, x := range v {
				want = append(want, float64(x))
			}
		default:
			return
		}
	}
	if it.Error() != nil {
		c.Fail("float arguments refused", line)
		return
	}
	got, _ := it.ToFloat()
	if len(got) != len(want) {
		c.Fail("float value count differs from the input count", line)
		return
	}
	for i, x := range want {
		exp := x
		if w == 4 && !math.IsNaN(x) && !math.IsInf(x, 0) {
			if x > maxF32 {
				exp = maxF32
			} else if x < -maxF32 {
				exp = -maxF32
			}
		}
		if math.IsNaN(exp) != math.IsNaN(got[i]) || (!math.IsNaN(exp) && math.Float64bits(exp) != math.Float64bits(got[i])) {
			c.Fail(fmt.Sprintf("float value[%d]=%x, want %x (nearest bound / identity)", i, math.Float64bits(got[i]), math.Float64bits(exp)), line)
			return
		}
	}
}

// corpusNarrow: Equal on F4 items compares the float32-narrowed values; the model computes the
// narrowing (round to nearest even, overflow, gradual underflow, NaN) on bit patterns.
func corpusNarrow() {
	emitQ := func(a, b *expr) {
		ra, rb := a.build(), b.build()
		if ra.panicked || rb.panicked {
			c.Fail("constructor panicked", "Q "+a.syntax()+" ; "+b.syntax())
			return
		}
		emitEqual(a, b, ra.item, rb.item)
	}
	for _, w := range []int{4, 8} {
		for i, b := range f64Corpus {
			x := f64(b)
			emitQ(numExpr('F', w, x), numExpr('F', w, float32(x)))
			emitQ(numExpr('F', w, x), numExpr('F', w, f64(b^1)))
			emitQ(numExpr('F', w, x), numExpr('F', w, f64(f64Corpus[(i+1)%len(f64Corpus)])))
			emitQ(numExpr('F', w, []float64{1, x}), numExpr('F', w, []float32{1, float32(x)}))
		}
		for k := 0; k < 400; k++ {
			var bits uint64
			switch c.Rng.Intn(3) {
			case 0:
				bits = c.Rng.Uint64()
			case 1: // around the float32 exponent range, low mantissa bits random (rounding cases)
				bits = uint64(0x380+c.Rng.Intn(0x100))<<52 | uint64(c.Rng.Int63())&0xfffffffffffff
				if c.Rng.Intn(2) == 0 {
					bits |= 1 << 63
				}
			default: // ties: exactly half an ulp of float32, with and without sticky bits
				bits = uint64(0x360+c.Rng.Intn(0x120))<<52 | uint64(c.Rng.Intn(1<<23))<<29 | 1<<28
				if c.Rng.Intn(2) == 0 {
					bits |= uint64(c.Rng.Intn(4))
				}
			}
			x := f64(bits)
			emitQ(numExpr('F', w, x), numExpr('F', w, float32(x)))
			emitQ(numExpr('F', w, x), numExpr('F', w, f64(bits+1)))
		}
		c.Count(fmt.Sprintf("narrow/w=%d", w))
	}
}

// corpusSizeLimit: the MaxByteSize cap (oracle only: the argument lists are too long for case lines).
func corpusSizeLimit() {
	type mk struct {
		name string
		f    func(n int) secs2.Item
		per  int
	}
	for _, m := range []mk{
		{"I1", func(n int) secs2.Item { return secs2.I1(make([]int8, n)) }, 1},
		{"I8", func(n int) secs2.Item { return secs2.I8(make([]int64, n)) }, 8},
		{"U2", func(n int) secs2.Item { return secs2.U2(make([]uint16, n)) }, 2},
		{"U4", func(n int) secs2.Item { return secs2.NewUintItem(4, make([]int, n/2), make([]uint32, n-n/2)) }, 4},
		{"F4", func(n int) secs2.Item { return secs2.F4(make([]float32, n)) }, 4},
		{"F8", func(n int) secs2.Item { return secs2.F8(make([]float64, n)) }, 8},
		{"B", func(n int) secs2.Item { return secs2.B(make([]byte, n)) }, 1},
		{"BOOLEAN", func(n int) secs2.Item { return secs2.BOOLEAN(make([]bool, n)) }, 1},
		{"A", func(n int) secs2.Item { return secs2.A(strings.Repeat("a", n)) }, 1},
		{"J", func(n int) secs2.Item { return secs2.J(strings.Repeat("a", n)) }, 1},
		{"W", func(n int) secs2.Item { return secs2.W(strings.Repeat("a", n-2)) }, 1},
	} {
		lim := secs2.MaxByteSize / m.per
		for _, n := range []int{lim, lim + 1} {
			var it secs2.Item
			func() {
				defer func() {
					if r := recover(); r != nil {
						c.Fail(fmt.Sprintf("constructor panicked at the size cap: %v", r), fmt.Sprintf("Z %s %d", m.name, n))
					}
				}()
				it = m.f(n)
			}()
			if it == nil {
				continue
			}
			over := n*m.per > secs2.MaxByteSize
			if over != (it.Error() != nil) {
				c.Fail(fmt.Sprintf("size cap: %d elements of %d bytes, Error()!=nil is %v", n, m.per, it.Error() != nil), fmt.Sprintf("Z %s %d", m.name, n))
			}
			if over {
				if _, err := hsms.NewDataMessage(1, 1, false, 0, [4]byte{}, secs2.L(it)); err == nil {
					c.Fail("oversize item accepted by NewDataMessage inside a list", fmt.Sprintf("Z %s %d", m.name, n))
				}
			}
			c.Count("sizecap/" + m.name)
		}
	}
}

// corpusBigCount (thorough tier, -big): 2^31 booleans. The element count is stored in an int32.
func corpusBigCount() {
	n := 1 << 31
	var it secs2.Item
	func() {
		defer func() {
			if r := recover(); r != nil {
				c.Fail(fmt.Sprintf("constructor panicked: %v", r), fmt.Sprintf("Z BOOLEAN %d", n))
			}
		}()
		it = secs2.NewBooleanItem(make([]bool, n))
	}()
	if it == nil {
		return
	}
	c.Count("bigcount")
	if it.Error() == nil {
		c.Fail(fmt.Sprintf("item above MaxByteSize accepted: %d values, Error()==nil, Size()=%d (the element count wraps in its int32 field)", n, it.Size()),
			fmt.Sprintf("Z BOOLEAN %d", n))
	}
}

// corpusSML: numeric construction from SML text goes through the same constructors; out-of-range
// text is refused by the parser (never wrapped), in-range text yields the numbers.
func corpusSML() {
	for _, kind := range []string{"I", "U"} {
		for _, w := range []int{1, 2, 4, 8} {
			for _, z := range boundaries {
				text := fmt.Sprintf("S1F1\n<%s%d %s 7>\n.", kind, w, z.String())
				var msg *hsms.DataMessage
				var err error
				func() {
					defer func() {
						if r := recover(); r != nil {
							c.Fail(fmt.Sprintf("sml.Parse panicked: %v", r), "P "+text)
						}
					}()
					var msgs []*hsms.DataMessage
					msgs, err = sml.Parse(text)
					if err == nil && len(msgs) == 1 {
						msg = msgs[0]
					} else if err == nil {
						err = fmt.Errorf("%d messages", len(msgs))
					}
				}()
				var lo, hi *big.Int
				if kind == "I" {
					lo, hi = intBounds(w)
				} else {
					lo, hi = big.NewInt(0), new(big.Int).Sub(pow2(uint(8*w)), big.NewInt(1))
				}
				in := z.Cmp(lo) >= 0 && z.Cmp(hi) <= 0
				c.Count("sml/" + kind)
				if err != nil {
					if in {
						c.Fail("sml: in-range numeric text refused", "P "+text)
					}
					continue
				}
				if !in {
					c.Fail("sml: out-of-range numeric text accepted", "P "+text)
					continue
				}
				it, ierr := msg.Item()
				if ierr != nil || it.Error() != nil {
					c.Fail("sml: parsed item carries an error", "P "+text)
					continue
				}
				var want secs2.Item
				if kind == "I" {
					want = secs2.NewIntItem(w, z.String(), 7)
				} else {
					want = secs2.NewUintItem(w, z.String(), 7)
				}
				if !secs2.Equal(it, want) {
					c.Fail("sml: parsed numbers differ from the text", "P "+text)
				}
			}
		}
	}
}

// corpusErroredVsEmpty: for every constructor-argument error class x every item type, the errored
// item against a valid EMPTY item of the same type and width — the pair whose Type() and Size()
// agree and whose discarded accessor values (nil vs empty) agree — in both orders, alone and as the
// differing child of otherwise identical nested lists.
func corpusErroredVsEmpty() {
	big53 := int64(1)<<53 + 1
	common := []any{"notanumber", otherT{1}, nil, []any{1}, struct{}{}, myInt(1)}
	intBad := append([]any{float64(1), float32(1), true, []bool{true}, []float64{1}, "", "1.5", []string{"1", "x"}}, common...)
	uintBad := append([]any{-1, int8(-1), int16(-1), int32(-1), int64(-1), []int{1, -1}, []int8{-1}, []int64{-5}, "-1", "+1", []string{"-1"}, float64(1), true}, common...)
	floatBad := append([]any{big53, -big53, int(big53), uint64(big53), uint(big53), []int64{big53}, []uint64{uint64(big53)}, []int{1 << 60}, "abc", "1e400", "", []string{"1", "x"}, true, []bool{false}}, common...)
	binBad := append([]any{256, -1, 1 << 40, "256", "-1", "x", "", int8(1), int64(1), uint16(1), []int{1}, []string{"1"}, 1.5, true}, common...)
	boolBad := append([]any{1, "true", []int{1}, byte(1), 1.5, []string{"true"}}, common...)

	type fam struct {
		kind byte
		ws   []int
		bad  []any
	}
	fams := []fam{
		{'I', []int{1, 2, 4, 8}, intBad}, {'U', []int{1, 2, 4, 8}, uintBad}, {'F', []int{4, 8}, floatBad},
		{'B', []int{0}, binBad}, {'O', []int{0}, boolBad},
	}
	pair := func(e, v *expr) {
		re, rv := e.build(), v.build()
		if re.panicked || rv.panicked {
			c.Fail("constructor panicked", "Q "+e.syntax()+" ; "+v.syntax())
			return
		}
		if !errorClass(re.item) {
			c.Fail("an argument of a refused class was accepted", "C "+e.syntax())
			return
		}
		if errorClass(rv.item) {
			c.Fail("an empty item carries an error", "C "+v.syntax())
			return
		}
		emitEqual(e, v, re.item, rv.item)
		emitEqual(v, e, rv.item, re.item)
		// as the differing child of otherwise identical lists, at depth 1 and 2
		sib1, sib2 := &expr{kind: 'A', str: "x"}, numExpr('U', 1, 7)
		le := &expr{kind: 'L', kids: []*expr{sib1, e, sib2}}
		lv := &expr{kind: 'L', kids: []*expr{sib1, v, sib2}}
		ble, blv := le.build(), lv.build()
		emitEqual(le, lv, ble.item, blv.item)
		emitEqual(lv, le, blv.item, ble.item)
		de := &expr{kind: 'L', kids: []*expr{{kind: 'L', kids: []*expr{e}}, sib2}}
		dv := &expr{kind: 'L', kids: []*expr{{kind: 'L', kids: []*expr{v}}, sib2}}
		bde, bdv := de.build(), dv.build()
		emitEqual(de, dv, bde.item, bdv.item)
		emitEqual(dv, de, bdv.item, bde.item)
		c.Count(fmt.Sprintf("errored-vs-empty/%c", e.kind))
	}
	for _, f := range fams {
		for _, w := range f.ws {
			var empties []*expr
			empties = append(empties, numExpr(f.kind, w))
			switch f.kind {
			case 'I':
				empties = append(empties, numExpr(f.kind, w, []int{}), numExpr(f.kind, w, []string{}))
			case 'U':
				empties = append(empties, numExpr(f.kind, w, []uint8{}))
			case 'F':
				empties = append(empties, numExpr(f.kind, w, []float64{}))
			case 'B':
				empties = append(empties, numExpr(f.kind, w, []byte{}))
			case 'O':
				empties = append(empties, numExpr(f.kind, w, []bool{}))
			}
			for _, bad := range f.bad {
				for _, e := range []*expr{numExpr(f.kind, w, bad), numExpr(f.kind, w, 1 == 1 && f.kind == 'O', bad)} {
					if f.kind != 'O' && len(e.args) == 2 {
						e.args[0] = bad // (bad, bad): still errored, still no values
					}
					for _, v := range empties {
						pair(e, v)
					}
				}
			}
		}
	}
	// over-long strings and the over-long list: errored with an empty value (oracle only — the
	// arguments are too long for a case line)
	long := strings.Repeat("a", secs2.MaxByteSize+1)
	type ev struct {
		name string
		e, v secs2.Item
	}
	for _, p := range []ev{
		{"A", secs2.A(long), secs2.A("")},
		{"J", secs2.J(long), secs2.J("")},
		{"W", secs2.NewLocalizedStrItem(0, long), secs2.NewLocalizedStrItem(0, "")},
		{"W2", secs2.W(long), secs2.W("")},
		{"L", secs2.NewListItem(make([]secs2.Item, secs2.MaxByteSize+1)...), secs2.L()},
	} {
		if p.e.Error() == nil {
			c.Fail("over-long argument accepted", "Z long "+p.name)
			continue
		}
		for _, q := range [][2]secs2.Item{{p.e, p.v}, {p.v, p.e}, {secs2.L(p.e), secs2.L(p.v)}, {secs2.L(p.v), secs2.L(p.e)}} {
			if secs2.Equal(q[0], q[1]) {
				c.Fail("an item with a non-nil Error() compared Equal", "Z long "+p.name+" vs empty")
			}
		}
		c.Count("errored-vs-empty/long")
	}
}

// badArgs / goodArgs: per family, one representative of every refused argument class and of every
// accepted Go type class (fast-path and slow-path types, scalars and slices, text).
func badArgs(kind byte) []any {
	big53 := int64(1)<<53 + 1
	common := []any{"12x", "abc", otherT{1}, nil, []any{1}, struct{}{}, myInt(1), &otherT{2}}
	switch kind {
	case 'I':
		return append([]any{float64(1), true, []bool{true}, []float64{1}, "", "1.5", []string{"1", "x"}, []string{"y"}}, common...)
	case 'U':
		return append([]any{-1, int8(-1), int64(-1), []int{1, -1}, []int8{-1}, "-1", "+1", []string{"3", "-1"}, float32(1), true}, common...)
	case 'F':
		return append([]any{big53, uint64(big53), []int64{1, big53}, []uint{uint(big53)}, "1e400", "", []string{"1", "x"}, true, []bool{false}}, common...)
	case 'B':
		return append([]any{256, -1, "256", "", int8(1), int64(1), uint16(1), []int{1}, []string{"1"}, 1.5, true}, common...)
	default:
		return append([]any{1, "true", []int{1}, byte(1), 1.5, []string{"true"}}, common...)
	}
}

func goodArgs(kind byte) []any {
	switch kind {
	case 'I':
		return []any{1, []int{1, 2}, int64(3), []int64{4, 5}, int8(5), []int8{6}, int16(7), []int32{1, 2}, int32(8), uint8(9), []uint8{1},
			uint16(10), []uint16{11}, uint32(12), []uint32{13}, uint(14), []uint{15}, uint64(16), []uint64{17}, "34", []string{"1", "0x2"}, []int{}, []string{}}
	case 'U':
		return []any{uint(1), []uint{1, 2}, uint64(3), []uint64{4, 5}, uint8(5), []uint8{6}, uint16(7), []uint16{8}, uint32(9), []uint32{10},
			3, []int{4}, int8(5), []int8{6}, int16(7), []int16{8}, int32(9), []int32{10}, int64(11), []int64{12}, "34", []string{"1", "0x2"}, []uint{}}
	case 'F':
		return []any{float32(1.5), float64(2.5), []float32{1, 2}, []float64{3, 4}, 1, []int{2}, int8(3), []int16{4}, int64(5), uint8(6), []uint32{7},
			uint64(8), "1.5", []string{"2", "3e2"}, []float64{}}
	case 'B':
		return []any{byte(1), []byte{1, 2}, 7, "0x10", []byte{}}
	default:
		return []any{true, false, []bool{true, false}, []bool{}}
	}
}

// corpusMixedLists: an invalid argument at EVERY position among valid arguments of every Go type
// class. Oracle: any invalid argument anywhere => Error() != nil, never Equal to the item of the
// remaining arguments, refused by NewDataMessage.
func corpusMixedLists() {
	r := c.Rng
	check := func(kind byte, w int, args []any, pos int) {
		e := numExpr(kind, w, args...)
		it, ok := emitConstruct(e)
		if !ok {
			return
		}
		line := "C " + e.syntax()
		rest := append(append([]any(nil), args[:pos]...), args[pos+1:]...)
		er := numExpr(kind, w, rest...)
		rr := er.build()
		if it.Error() == nil {
			c.Fail(fmt.Sprintf("an invalid argument at position %d of %d was forgotten: the item is error-free", pos, len(args)), line)
			if !rr.panicked && secs2.Equal(it, rr.item) {
				c.Fail("an item built from a list with an invalid argument is Equal to the item of the remaining arguments", line)
			}
		}
		if m, err := hsms.NewDataMessage(1, 1, false, 0, [4]byte{}, it); err == nil && m != nil {
			c.Fail("NewDataMessage accepted an item built from a list with an invalid argument", line)
		}
		if !rr.panicked {
			emitEqual(e, er, it, rr.item)
		}
		if pos == 0 || r.Intn(4) == 0 {
			emitGate(e, it)
		}
		c.Count(fmt.Sprintf("mixed-lists/%c/pos=%d/%d", kind, pos, len(args)))
	}
	for _, kind := range []byte{'I', 'U', 'F', 'B', 'O'} {
		ws := []int{0}
		switch kind {
		case 'I', 'U':
			ws = []int{1, 2, 4, 8}
		case 'F':
			ws = []int{4, 8}
		}
		bad, good := badArgs(kind), goodArgs(kind)
		for bi, b := range bad {
			for gi, g := range good {
				w := ws[(bi+gi)%len(ws)]
				check(kind, w, []any{b, g}, 0) // invalid first, every valid type class behind it
				check(kind, w, []any{g, b}, 1) // invalid last
				g2 := good[r.Intn(len(good))]
				g3 := good[r.Intn(len(good))]
				switch (bi + gi) % 3 {
				case 0:
					check(kind, w, []any{b, g, g2}, 0)
				case 1:
					check(kind, w, []any{g2, b, g}, 1)
				default:
					check(kind, w, []any{g2, g, b}, 2)
				}
				if gi%5 == 0 {
					check(kind, w, []any{g3, g2, b, g, g3}, 2)
					b2 := bad[r.Intn(len(bad))]
					check(kind, w, []any{b, g, b2, g2}, 0)
				}
			}
		}
	}
	// an errored child at every position among valid children, one and two levels down
	okKids := []*expr{{kind: 'A', str: "a"}, numExpr('U', 1, 7), {kind: 'L'}, {kind: 'B', args: []any{byte(1)}}}
	for _, kind := range []byte{'I', 'U', 'F', 'B', 'O'} {
		w := 4
		for _, b := range badArgs(kind) {
			bad := numExpr(kind, w, b)
			for pos := 0; pos < 3; pos++ {
				kids := []*expr{okKids[r.Intn(len(okKids))], okKids[r.Intn(len(okKids))], okKids[r.Intn(len(okKids))]}
				kids[pos] = bad
				for _, e := range []*expr{{kind: 'L', kids: kids}, {kind: 'L', kids: []*expr{okKids[0], {kind: 'L', kids: kids}}}} {
					it, ok := emitConstruct(e)
					if ok && it.Error() == nil {
						c.Fail(fmt.Sprintf("a list with an errored child at position %d is error-free", pos), "C "+e.syntax())
					}
					if ok {
						emitGate(e, it)
					}
				}
			}
		}
		c.Count("mixed-lists/children")
	}
}

func corpusOthers() {
	for _, kind := range []byte{'I', 'U', 'F', 'B', 'O'} {
		for _, a := range otherArgs {
			w := 4
			for _, e := range []*expr{numExpr(kind, w, a), numExpr(kind, w, 1, a), numExpr(kind, w, a, a)} {
				it, ok := emitConstruct(e)
				if ok && it.Error() == nil {
					c.Fail("unsupported argument type accepted", "C "+e.syntax())
				}
			}
		}
		// arguments of a type another family accepts
		cross := []any{true, []bool{true}, float32(1), float64(1), []float32{1}, []float64{1}, "1", []string{"1"}, 1, int8(1), uint8(1), []byte{1}, []int{1}, []uint64{1}}
		for _, a := range cross {
			emitConstruct(numExpr(kind, 4, a))
			emitConstruct(numExpr(kind, 4, a, a))
		}
		emitConstruct(numExpr(kind, 4))
		emitConstruct(numExpr(kind, 1))
		c.Count("others/" + string(kind))
	}
	// binary range
	for _, v := range []int{-1, 0, 1, 255, 256, 1 << 20, -1 << 40} {
		e := &expr{kind: 'B', args: []any{v}}
		it, ok := emitConstruct(e)
		if ok && (v < 0 || v > 255) != (it.Error() != nil) {
			c.Fail("binary range rule broken", "C "+e.syntax())
		}
	}
	for _, s := range []string{"", "a", "hello \x00\xff", strings.Repeat("x", 300)} {
		emitConstruct(&expr{kind: 'A', str: s})
		emitConstruct(&expr{kind: 'J', str: s})
		emitConstruct(&expr{kind: 'W', str: s, lsh: 2})
		emitConstruct(&expr{kind: 'W', str: s, lsh: 65535})
	}
	emitConstruct(&expr{kind: 'E'})
}

// randArg draws one argument for a numeric family; errProb is the chance of an argument that the
// family must refuse.
func randArg(kind byte) any {
	r := c.Rng
	switch r.Intn(20) {
	case 0:
		return otherArgs[r.Intn(len(otherArgs))]
	case 1:
		if kind == 'F' {
			return floatStrings[r.Intn(len(floatStrings))]
		}
		return litStrings[r.Intn(len(litStrings))]
	case 2:
		if r.Intn(2) == 0 {
			return f64(f64Corpus[r.Intn(len(f64Corpus))])
		}
		return f32(f32Corpus[r.Intn(len(f32Corpus))])
	case 3:
		return r.Intn(2) == 0
	case 4, 5:
		z := pickBig()
		return z.String()
	case 6:
		n := r.Intn(4)
		ss := make([]string, n)
		for i := range ss {
			ss[i] = pickBig().String()
		}
		return ss
	}
	z := pickBig()
	t, ok := pickTypeFor(z)
	if !ok {
		return z.String()
	}
	if r.Intn(3) == 0 {
		n := r.Intn(4)
		zs := make([]*big.Int, 0, n+1)
		zs = append(zs, z)
		for i := 0; i < n; i++ {
			z2 := pickBig()
			if fits(t, z2) {
				zs = append(zs, z2)
			}
		}
		return mkSlice(t, zs)
	}
	return mkScalar(t, z)
}

func randLeaf() *expr {
	r := c.Rng
	switch r.Intn(10) {
	case 0:
		return &expr{kind: 'A', str: randStr()}
	case 1:
		return &expr{kind: 'J', str: randStr()}
	case 2:
		return &expr{kind: 'W', str: randStr(), lsh: uint16(r.Intn(65536))}
	case 3:
		n := r.Intn(4)
		args := make([]any, n)
		for i := range args {
			switch r.Intn(8) {
			case 0:
				args[i] = randArg('B')
			case 1:
				args[i] = []byte(randStr())
			case 2:
				args[i] = r.Intn(300) - 20
			default:
				args[i] = byte(r.Intn(256))
			}
		}
		return &expr{kind: 'B', args: args}
	case 4:
		n := r.Intn(4)
		args := make([]any, n)
		for i := range args {
			switch r.Intn(8) {
			case 0:
				args[i] = randArg('O')
			case 1:
				args[i] = []bool{r.Intn(2) == 0, r.Intn(2) == 0}
			default:
				args[i] = r.Intn(2) == 0
			}
		}
		return &expr{kind: 'O', args: args}
	case 5:
		return &expr{kind: 'E'}
	}
	kind := []byte{'I', 'U', 'F'}[r.Intn(3)]
	w := []int{1, 2, 4, 8}[r.Intn(4)]
	if kind == 'F' {
		w = []int{4, 8}[r.Intn(2)]
	}
	if r.Intn(25) == 0 {
		w = allW[r.Intn(len(allW))]
	}
	n := r.Intn(4)
	if r.Intn(3) == 0 {
		n = 1
	}
	args := make([]any, n)
	for i := range args {
		args[i] = randArg(kind)
		if kind == 'F' && r.Intn(2) == 0 {
			if r.Intn(2) == 0 {
				args[i] = f64(f64Corpus[r.Intn(len(f64Corpus))])
			} else {
				args[i] = []float64{f64(f64Corpus[r.Intn(len(f64Corpus))]), r.NormFloat64() * 1e38}
			}
		}
	}
	return numExpr(kind, w, args...)
}

func randStr() string {
	r := c.Rng
	n := r.Intn(6)
	b := make([]byte, n)
	for i := range b {
		b[i] = byte(r.Intn(256))
	}
	return string(b)
}

func randTree(depth int) *expr {
	r := c.Rng
	if depth <= 0 || r.Intn(3) != 0 {
		return randLeaf()
	}
	n := r.Intn(4)
	kids := make([]*expr, n)
	for i := range kids {
		if r.Intn(12) == 0 {
			kids[i] = &expr{kind: 'N'}
		} else {
			kids[i] = randTree(depth - 1)
		}
	}
	return &expr{kind: 'L', kids: kids}
}

// anyErrored walks the REAL items: does any node (transitively) carry a deferred error?
func anyErrored(it secs2.Item) bool {
	if it == nil {
		return false
	}
	if !it.IsList() {
		return it.Error() != nil
	}
	kids, err := it.ToList()
	if err != nil {
		return true
	}
	for _, k := range kids {
		if anyErrored(k) {
			return true
		}
	}
	return false
}

func randomTrees(n int) {
	for i := 0; i < n; i++ {
		e := randTree(3)
		it, ok := emitConstruct(e)
		if !ok {
			continue
		}
		if it != nil {
			// the clean flag: a list is errored exactly when some node below it is
			if anyErrored(it) != (it.Error() != nil) {
				c.Fail("Error() of the root disagrees with the errors of the nodes below it", "C "+e.syntax())
			}
			if errorClass(it) {
				c.Count("tree/errored")
				wrap := &expr{kind: 'L', kids: []*expr{{kind: 'A', str: "ok"}, e}}
				wit, wok := emitConstruct(wrap)
				if wok && wit.Error() == nil {
					c.Fail("a list with an errored child is error-free", "C "+wrap.syntax())
				}
				if secs2.Equal(it, it) {
					c.Fail("an errored item is Equal to itself", "C "+e.syntax())
				}
			} else {
				c.Count("tree/clean")
				if !secs2.Equal(it, it) {
					c.Fail("an error-free item is not Equal to itself", "C "+e.syntax())
				}
			}
		}
		emitGate(e, it)
		if i%3 == 0 {
			e2 := randTree(2)
			if c.Rng.Intn(2) == 0 {
				e2 = e
			}
			r2 := e2.build()
			if !r2.panicked {
				emitEqual(e, e2, it, r2.item)
			}
		}
	}
}

// shapes: the same numbers as scalars, one slice, mixed, strings.
func randomShapes(n int) {
	r := c.Rng
	for i := 0; i < n; i++ {
		kind := []byte{'I', 'U', 'F'}[r.Intn(3)]
		w := []int{1, 2, 4, 8}[r.Intn(4)]
		if kind == 'F' {
			w = []int{4, 8}[r.Intn(2)]
		}
		k := r.Intn(5)
		zs := make([]*big.Int, k)
		lim53 := pow2(53)
		for j := range zs {
			for {
				zs[j] = pickBig()
				if _, ok := pickTypeFor(zs[j]); !ok {
					continue
				}
				if kind == 'F' && new(big.Int).Abs(zs[j]).Cmp(lim53) > 0 {
					continue
				}
				break
			}
		}
		// (a) scalars of random fitting types
		var a []any
		for _, z := range zs {
			t, _ := pickTypeFor(z)
			a = append(a, mkScalar(t, z))
		}
		// (b) one slice of a common type, when one exists
		var b []any
		for _, t := range []gty{tInt64, tUint64, tInt32, tInt} {
			all := true
			for _, z := range zs {
				all = all && fits(t, z)
			}
			if all {
				b = []any{mkSlice(t, zs)}
				break
			}
		}
		// (c) decimal strings
		var s []any
		ss := make([]string, len(zs))
		for j, z := range zs {
			ss[j] = z.String()
		}
		if r.Intn(2) == 0 {
			s = []any{ss}
		} else {
			for _, x := range ss {
				s = append(s, x)
			}
		}
		// (d) mixed
		var m []any
		for j := 0; j < len(zs); {
			switch r.Intn(3) {
			case 0:
				t, _ := pickTypeFor(zs[j])
				m = append(m, mkScalar(t, zs[j]))
				j++
			case 1:
				m = append(m, zs[j].String())
				j++
			default:
				t, _ := pickTypeFor(zs[j])
				run := []*big.Int{zs[j]}
				j++
				for j < len(zs) && fits(t, zs[j]) && r.Intn(2) == 0 {
					run = append(run, zs[j])
					j++
				}
				m = append(m, mkSlice(t, run))
			}
		}
		forms := [][]any{a, s, m}
		if b != nil {
			forms = append(forms, b)
		}
		var first *expr
		var firstIt secs2.Item
		for fi, f := range forms {
			e := numExpr(kind, w, f...)
			it, ok := emitConstruct(e)
			if !ok {
				continue
			}
			if kind != 'F' {
				checkIntegers(kind, w, zs, it, "C "+e.syntax())
			}
			if fi == 0 {
				first, firstIt = e, it
				continue
			}
			if first == nil {
				continue
			}
			eq := emitEqual(first, e, firstIt, it)
			neg := false
			for _, z := range zs {
				neg = neg || z.Sign() < 0
			}
			expectErr := kind == 'U' && neg
			if !expectErr && !eq {
				c.Fail("the same numbers in two presentations give items that are not Equal", "Q "+first.syntax()+" ; "+e.syntax())
			}
			if !expectErr && show(firstIt) != show(it) {
				c.Fail("the same numbers in two presentations give different values", "Q "+first.syntax()+" ; "+e.syntax())
			}
		}
		c.Count(fmt.Sprintf("shape/%c", kind))
	}
}

func main() {
	noLive := flag.Bool("nolive", false, "skip the live-connection send checks")
	big31 := flag.Bool("big", false, "also build a 2^31-element BooleanItem (needs ~5 GiB)")
	c = vh.New()
	initBoundaries()

	corpusIntegers()
	corpusExoticSizes()
	corpusStrings()
	corpusFloats()
	corpusOthers()
	corpusNarrow()
	corpusErroredVsEmpty()
	corpusMixedLists()
	corpusSizeLimit()
	corpusSML()
	if *big31 {
		corpusBigCount()
	}
	budget := c.N
	randomTrees(budget / 2)
	randomShapes(budget / 4)
	if !*noLive {
		liveSends(budget / 15)
	}
	c.Finish()
}
