package main

import (
	"context"
	"encoding/binary"
	"errors"
	"fmt"
	"io"
	"net"
	"sync"
	"time"

	"github.com/arloliu/go-secs/v2/hsms"
	"github.com/arloliu/go-secs/v2/hsmsss"
	"github.com/arloliu/go-secs/v2/logger"
	"github.com/arloliu/go-secs/v2/secs2"

	"verifharness/vh"
)

type nopLogger struct{}

func (nopLogger) Debug(string, ...any)        {}
func (nopLogger) Info(string, ...any)         {}
func (nopLogger) Warn(string, ...any)         {}
func (nopLogger) Error(string, ...any)        {}
func (nopLogger) Fatal(string, ...any)        {}
func (l nopLogger) With(...any) logger.Logger { return l }
func (nopLogger) Level() logger.LogLevel      { return logger.FatalLevel }
func (nopLogger) SetLevel(logger.LogLevel)    {}

// peer is a scripted HSMS entity on the other end of a net.Pipe: it accepts Select, answers
// Linktest, answers every W-bit primary with an empty secondary and RECORDS every data frame.
type peer struct {
	conn net.Conn
	mu   sync.Mutex
	data [][]byte // header+body of every data frame seen
	out  chan []byte
	done chan struct{}
}

const markerStream, markerFunction = 99, 97

func newPeer(conn net.Conn) *peer {
	p := &peer{conn: conn, out: make(chan []byte, 256), done: make(chan struct{})}
	go p.writer()
	go p.reader()
	return p
}

func (p *peer) writer() {
	for f := range p.out {
		if _, err := p.conn.Write(f); err != nil {
			return
		}
	}
}

func frame(hdr [10]byte, body []byte) []byte {
	f := make([]byte, 4, 14+len(body))
	binary.BigEndian.PutUint32(f, uint32(10+len(body)))
	f = append(f, hdr[:]...)
	return append(f, body...)
}

func (p *peer) reader() {
	defer close(p.done)
	for {
		var lb [4]byte
		if _, err := io.ReadFull(p.conn, lb[:]); err != nil {
			return
		}
		n := binary.BigEndian.Uint32(lb[:])
		buf := make([]byte, n)
		if _, err := io.ReadFull(p.conn, buf); err != nil {
			return
		}
		if n < 10 {
			return
		}
		var hdr [10]byte
		copy(hdr[:], buf[:10])
		switch hdr[5] {
		case 0: // data
			p.mu.Lock()
			p.data = append(p.data, buf)
			p.mu.Unlock()
			if hdr[2]&0x80 != 0 {
				r := hdr
				r[2] &= 0x7F
				r[3]++
				p.out <- frame(r, nil)
			}
		case 1: // select.req
			r := hdr
			r[2], r[3], r[5] = 0, 0, 2
			p.out <- frame(r, nil)
		case 5: // linktest.req
			r := hdr
			r[5] = 6
			p.out <- frame(r, nil)
		case 9: // separate.req
			return
		}
	}
}

// nonMarker returns how many data frames other than the marker the peer has seen.
func (p *peer) nonMarker() int {
	p.mu.Lock()
	defer p.mu.Unlock()
	n := 0
	for _, d := range p.data {
		if !(d[2]&0x7F == markerStream && d[3] == markerFunction) {
			n++
		}
	}
	return n
}

func isErr(err, target error) bool { return errors.Is(err, target) }

func sendClass(err error) string {
	switch {
	case err == nil:
		return "ok"
	case isErr(err, hsms.ErrInvalidStreamCode):
		return "stream"
	case isErr(err, hsms.ErrInvalidRspMsg):
		return "rsp"
	default:
		return "item"
	}
}

// liveSends: the four item-taking send calls of a live, selected HSMS-SS connection, with errored
// and error-free items. The peer must see NOTHING for a refused call and exactly one frame
// otherwise.
func liveSends(n int) {
	if n < 40 {
		n = 40
	}
	a, b := net.Pipe()
	p := newPeer(b)
	var dialOnce sync.Once
	dial := func(ctx context.Context, _, _ string) (net.Conn, error) {
		var c net.Conn
		dialOnce.Do(func() { c = a })
		if c != nil {
			return c, nil
		}
		<-ctx.Done()
		return nil, ctx.Err()
	}
	cfg, err := hsmsss.NewConfig("pipe", 5000, hsmsss.WithActive(), hsmsss.WithDialer(dial),
		hsmsss.WithConnectionOption(hsms.WithLogger(nopLogger{})),
		hsmsss.WithConnectionOption(hsms.WithT3(5*time.Second)),
		hsmsss.WithConnectionOption(hsms.WithCloseTimeout(3*time.Second)))
	if err != nil {
		c.Note("live: config error " + err.Error())
		return
	}
	conn, err := hsmsss.New(cfg)
	if err != nil {
		c.Note("live: New error " + err.Error())
		return
	}
	ctx, cancel := context.WithTimeout(context.Background(), 60*time.Second)
	defer cancel()
	if err := conn.Open(ctx, hsms.OpenWaitSelected); err != nil {
		c.Fail("live: Open failed: "+err.Error(), "S open")
		return
	}
	defer func() {
		_ = conn.Close()
		_ = a.Close()
		_ = b.Close()
	}()

	marker := func() bool {
		_, err := conn.SendDataMessage(ctx, markerStream, markerFunction, true, nil)
		return err == nil
	}
	if !marker() {
		c.Fail("live: marker round trip failed", "S marker")
		return
	}
	primary, _ := hsms.NewDataMessage(5, 7, true, 1, [4]byte{0, 0, 9, 9}, secs2.A("primary"))

	r := c.Rng
	calls := []string{"data", "async", "secs2", "reply"}
	for i := 0; i < n; i++ {
		var e *expr
		var it secs2.Item
		wantErr := i%2 == 0
		for tries := 0; ; tries++ {
			e = randTree(2)
			res := e.build()
			if res.panicked {
				continue
			}
			it = res.item
			if errorClass(it) == wantErr || tries > 200 {
				break
			}
		}
		call := calls[r.Intn(len(calls))]
		stream := byte(r.Intn(128))
		if r.Intn(12) == 0 {
			stream = byte(128 + r.Intn(128))
		}
		fn := byte(r.Intn(256))
		w := r.Intn(3) == 0
		if call == "reply" {
			stream, fn, w = primary.Stream(), primary.Function(), false
		}
		before := p.nonMarker()
		line := fmt.Sprintf("S %s %d %d %s %s | ", call, stream, fn, vh.B01(w), e.syntax())
		var cerr error
		func() {
			defer func() {
				if rec := recover(); rec != nil {
					c.Fail(fmt.Sprintf("send call panicked: %v", rec), line)
					cerr = fmt.Errorf("panic")
				}
			}()
			switch call {
			case "data":
				_, cerr = conn.SendDataMessage(ctx, stream, fn, w, it)
			case "async":
				cerr = conn.SendDataMessageAsync(ctx, stream, fn, w, it)
			case "secs2":
				_, cerr = conn.SendSECS2Message(ctx, secs2.NewMessage(stream, fn, w, it))
			case "reply":
				cerr = conn.ReplyDataMessage(ctx, primary, it)
			}
		}()
		cls := sendClass(cerr)
		want := 0
		if cerr == nil {
			want = 1
			deadline := time.Now().Add(3 * time.Second)
			for p.nonMarker() < before+1 && time.Now().Before(deadline) {
				time.Sleep(200 * time.Microsecond)
			}
		}
		// flush: a synchronous round trip behind the call, then a short settle for the async queue
		if !marker() {
			c.Fail("live: marker round trip failed after a send call", line)
			return
		}
		if cerr != nil && (call == "async" || call == "reply") {
			time.Sleep(300 * time.Microsecond)
		}
		got := p.nonMarker() - before
		if errorClass(it) && cerr == nil {
			c.Fail("a send call accepted an item whose Error() is non-nil", line)
		}
		if errorClass(it) && got != 0 {
			c.Fail("the peer received a frame for an item whose Error() is non-nil", line)
		}
		if got != want {
			c.Fail(fmt.Sprintf("peer saw %d frames for this call, want %d", got, want), line)
		}
		line += fmt.Sprintf("%s %d", cls, got)
		c.Case(line, line, true)
		c.Count("live/" + call + "/" + cls)
	}
	// final settle: nothing may trickle in after the last call
	time.Sleep(20 * time.Millisecond)
	total := p.nonMarker()
	okCalls := 0
	for k, v := range c.Sum.Histogram {
		if len(k) > 5 && k[:5] == "live/" && k[len(k)-3:] == "/ok" {
			okCalls += v
		}
	}
	if total != okCalls {
		c.Fail(fmt.Sprintf("peer saw %d data frames in total, %d calls succeeded", total, okCalls), "S total")
	}
}
