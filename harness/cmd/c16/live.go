package main

func liveSends(n int) {}
