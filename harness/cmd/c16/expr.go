package main

import (
	"encoding/hex"
	"fmt"
	"math"
	"strconv"
	"strings"

	"github.com/arloliu/go-secs/v2/secs2"
)

// expr is a constructor call tree: it can build the real item through the PUBLIC constructors and
// print itself in the model's case-line syntax.
type expr struct {
	kind byte // I U F B O A J W E N L
	w    int
	args []any
	str  string
	lsh  uint16
	kids []*expr
}

type otherT struct{ X int }
type myInt int

// panicked is set by build when a constructor panics (the oracle failure is recorded by the caller).
type buildResult struct {
	item     secs2.Item
	panicked bool
	panicMsg string
}

func (e *expr) build() (res buildResult) {
	defer func() {
		if r := recover(); r != nil {
			res.panicked = true
			res.panicMsg = fmt.Sprint(r)
		}
	}()
	switch e.kind {
	case 'I':
		res.item = secs2.NewIntItem(e.w, e.args...)
	case 'U':
		res.item = secs2.NewUintItem(e.w, e.args...)
	case 'F':
		res.item = secs2.NewFloatItem(e.w, e.args...)
	case 'B':
		res.item = secs2.NewBinaryItem(e.args...)
	case 'O':
		res.item = secs2.NewBooleanItem(e.args...)
	case 'A':
		res.item = secs2.NewASCIIItem(e.str)
	case 'J':
		res.item = secs2.NewJIS8Item(e.str)
	case 'W':
		res.item = secs2.NewLocalizedStrItem(e.lsh, e.str)
	case 'E':
		res.item = secs2.NewEmptyItem()
	case 'N':
		res.item = nil
	case 'L':
		kids := make([]secs2.Item, 0, len(e.kids))
		for _, k := range e.kids {
			r := k.build()
			if r.panicked {
				return r
			}
			kids = append(kids, r.item)
		}
		res.item = secs2.NewListItem(kids...)
	}
	return res
}

// buildShortcut builds the same item through the shortcut functions where one exists.
func (e *expr) buildShortcut() (it secs2.Item, ok bool, panicked bool) {
	defer func() {
		if r := recover(); r != nil {
			panicked = true
		}
	}()
	switch e.kind {
	case 'I':
		switch e.w {
		case 1:
			return secs2.I1(e.args...), true, false
		case 2:
			return secs2.I2(e.args...), true, false
		case 4:
			return secs2.I4(e.args...), true, false
		case 8:
			return secs2.I8(e.args...), true, false
		}
	case 'U':
		switch e.w {
		case 1:
			return secs2.U1(e.args...), true, false
		case 2:
			return secs2.U2(e.args...), true, false
		case 4:
			return secs2.U4(e.args...), true, false
		case 8:
			return secs2.U8(e.args...), true, false
		}
	case 'F':
		switch e.w {
		case 4:
			return secs2.F4(e.args...), true, false
		case 8:
			return secs2.F8(e.args...), true, false
		}
	case 'B':
		return secs2.B(e.args...), true, false
	case 'O':
		return secs2.BOOLEAN(e.args...), true, false
	case 'A':
		return secs2.A(e.str), true, false
	case 'J':
		return secs2.J(e.str), true, false
	}
	return nil, false, false
}

func hx(s string) string {
	if len(s) == 0 {
		return "-"
	}
	return hex.EncodeToString([]byte(s))
}

func joinInts[T any](xs []T, f func(T) string) string {
	parts := make([]string, len(xs))
	for i, x := range xs {
		parts[i] = f(x)
	}
	return strings.Join(parts, ",")
}

func pfOf(s string) string {
	v, err := strconv.ParseFloat(s, 64)
	if err != nil {
		return "E"
	}
	return strconv.FormatUint(math.Float64bits(v), 10)
}

// argSyntax prints one argument in model syntax. withPF adds strconv.ParseFloat's answer to string
// arguments (the float model takes ParseFloat as a parameter).
func argSyntax(a any, withPF bool) string {
	sx := func(s string) string {
		if withPF {
			return hx(s) + "=" + pfOf(s)
		}
		return hx(s)
	}
	switch v := a.(type) {
	case nil:
		return "nil"
	case int:
		return fmt.Sprintf("i:int:%d", v)
	case int8:
		return fmt.Sprintf("i:int8:%d", v)
	case int16:
		return fmt.Sprintf("i:int16:%d", v)
	case int32:
		return fmt.Sprintf("i:int32:%d", v)
	case int64:
		return fmt.Sprintf("i:int64:%d", v)
	case uint:
		return fmt.Sprintf("i:uint:%d", v)
	case uint8:
		return fmt.Sprintf("i:uint8:%d", v)
	case uint16:
		return fmt.Sprintf("i:uint16:%d", v)
	case uint32:
		return fmt.Sprintf("i:uint32:%d", v)
	case uint64:
		return fmt.Sprintf("i:uint64:%d", v)
	case []int:
		return "is:int:" + joinInts(v, func(x int) string { return strconv.FormatInt(int64(x), 10) })
	case []int8:
		return "is:int8:" + joinInts(v, func(x int8) string { return strconv.FormatInt(int64(x), 10) })
	case []int16:
		return "is:int16:" + joinInts(v, func(x int16) string { return strconv.FormatInt(int64(x), 10) })
	case []int32:
		return "is:int32:" + joinInts(v, func(x int32) string { return strconv.FormatInt(int64(x), 10) })
	case []int64:
		return "is:int64:" + joinInts(v, func(x int64) string { return strconv.FormatInt(x, 10) })
	case []uint:
		return "is:uint:" + joinInts(v, func(x uint) string { return strconv.FormatUint(uint64(x), 10) })
	case []uint8:
		return "is:uint8:" + joinInts(v, func(x uint8) string { return strconv.FormatUint(uint64(x), 10) })
	case []uint16:
		return "is:uint16:" + joinInts(v, func(x uint16) string { return strconv.FormatUint(uint64(x), 10) })
	case []uint32:
		return "is:uint32:" + joinInts(v, func(x uint32) string { return strconv.FormatUint(uint64(x), 10) })
	case []uint64:
		return "is:uint64:" + joinInts(v, func(x uint64) string { return strconv.FormatUint(x, 10) })
	case float32:
		return fmt.Sprintf("f32:%d", math.Float32bits(v))
	case float64:
		return fmt.Sprintf("f64:%d", math.Float64bits(v))
	case []float32:
		return "f32s:" + joinInts(v, func(x float32) string { return strconv.FormatUint(uint64(math.Float32bits(x)), 10) })
	case []float64:
		return "f64s:" + joinInts(v, func(x float64) string { return strconv.FormatUint(math.Float64bits(x), 10) })
	case string:
		return "s:" + sx(v)
	case []string:
		return "ss:" + joinInts(v, sx)
	case bool:
		return "b:" + b01(v)
	case []bool:
		return "bs:" + joinInts(v, b01)
	default:
		return "other"
	}
}

func b01(b bool) string {
	if b {
		return "1"
	}
	return "0"
}

func (e *expr) syntax() string {
	var sb strings.Builder
	e.write(&sb)
	return sb.String()
}

func (e *expr) write(sb *strings.Builder) {
	switch e.kind {
	case 'I', 'U', 'F':
		fmt.Fprintf(sb, "%c %d %d", e.kind, e.w, len(e.args))
		for _, a := range e.args {
			sb.WriteByte(' ')
			sb.WriteString(argSyntax(a, e.kind == 'F'))
		}
	case 'B', 'O':
		fmt.Fprintf(sb, "%c %d", e.kind, len(e.args))
		for _, a := range e.args {
			sb.WriteByte(' ')
			sb.WriteString(argSyntax(a, false))
		}
	case 'A', 'J':
		fmt.Fprintf(sb, "%c %s", e.kind, hx(e.str))
	case 'W':
		fmt.Fprintf(sb, "W %d %s", e.lsh, hx(e.str))
	case 'E':
		sb.WriteString("E")
	case 'N':
		sb.WriteString("N")
	case 'L':
		fmt.Fprintf(sb, "L %d", len(e.kids))
		for _, k := range e.kids {
			sb.WriteByte(' ')
			k.write(sb)
		}
	}
}

var typeCodes = map[string]int{
	"binary": 1, "boolean": 2, "ascii": 3, "jis8": 4, "localized_str": 5, "list": 6, "empty": 7,
	"i1": 11, "i2": 12, "i4": 14, "i8": 18, "u1": 21, "u2": 22, "u4": 24, "u8": 28, "f4": 34, "f8": 38, "": 0,
}

func commaOrDash(parts []string) string {
	if len(parts) == 0 {
		return "-"
	}
	return strings.Join(parts, ",")
}

// show renders the observable state of an item: Error()!=nil, Type(), Size(), the values through
// the To* accessors; recursively for lists. Errors are shown as a class only.
func show(it secs2.Item) string {
	if it == nil {
		return "N"
	}
	if it.IsList() {
		var sb strings.Builder
		kids, kerr := it.ToList()
		fmt.Fprintf(&sb, "[%s %d", b01(it.Error() != nil), it.Size())
		if kerr == nil {
			for _, k := range kids {
				sb.WriteByte(' ')
				sb.WriteString(show(k))
			}
		}
		sb.WriteString("]")
		return sb.String()
	}
	if it.Error() != nil {
		return "E"
	}
	tc, ok := typeCodes[it.Type()]
	if !ok {
		tc = -1
	}
	var vals string
	switch {
	case it.IsEmpty():
		vals = "-"
	case it.IsBinary():
		v, _ := it.ToBinary()
		vals = hx(string(v))
	case it.IsBoolean():
		v, _ := it.ToBoolean()
		vals = commaOrDash(strings.Split(joinInts(v, b01), ","))
		if len(v) == 0 {
			vals = "-"
		}
	case it.IsASCII():
		v, _ := it.ToASCII()
		vals = hx(v)
	case it.IsJIS8():
		v, _ := it.ToJIS8()
		vals = hx(v)
	case it.IsLocalizedStr():
		v, _ := it.ToLocalizedStr()
		h, _ := it.ToLocalizedStrHeader()
		vals = fmt.Sprintf("%d:%s", h, hx(v))
	case it.IsInt8() || it.IsInt16() || it.IsInt32() || it.IsInt64():
		v, _ := it.ToInt()
		p := make([]string, len(v))
		for i, x := range v {
			p[i] = strconv.FormatInt(x, 10)
		}
		vals = commaOrDash(p)
	case it.IsUint8() || it.IsUint16() || it.IsUint32() || it.IsUint64():
		v, _ := it.ToUint()
		p := make([]string, len(v))
		for i, x := range v {
			p[i] = strconv.FormatUint(x, 10)
		}
		vals = commaOrDash(p)
	case it.IsFloat32() || it.IsFloat64():
		v, _ := it.ToFloat()
		p := make([]string, len(v))
		for i, x := range v {
			if math.IsNaN(x) {
				p[i] = "nan"
			} else {
				p[i] = strconv.FormatUint(math.Float64bits(x), 10)
			}
		}
		vals = commaOrDash(p)
	default:
		vals = "?"
	}
	return fmt.Sprintf("(%d %d %s)", tc, it.Size(), vals)
}
