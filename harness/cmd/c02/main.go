// Harness for C02: runs secs2.Decode and secs2.DecodeOwned on valid encodings, on every kind of
// mutation of them (single/double byte, truncation, length-field rewrites, non-canonical length
// fields, nesting 63/64/65), on hostile length claims and on random strings; records what the
// real code did for the extracted Coq model and checks the property itself (oracle).
//
// Case line:  D <hex> | <ok|err> <consumed> <alloc> | <decoded tree>
//
//	consumed = len(ToBytes(decoded)) (the retained raw bytes), alloc = TotalAlloc delta of Decode
package main

import (
	"bytes"
	"encoding/hex"
	"fmt"
	"math/rand"
	"runtime"
	"runtime/debug"
	"strconv"
	"strings"
	"syscall"

	"github.com/arloliu/go-secs/v2/secs2"

	"verifharness/cmd/c01/s2t"
	"verifharness/vh"
)

// the bound proved for the model's accounting (Properties/C02.v: C02_memory), with 25 % head-room
// for allocator size classes; the driver re-derives both constants from the extracted model.
const (
	costFactor = 565
	costOffset = 320 + 8*128*72 + 64*64
)

type runner struct {
	c    *vh.Ctx
	r    *rand.Rand
	seen map[string]bool
	ms0  runtime.MemStats
	ms1  runtime.MemStats
}

type result struct {
	ok       bool
	panicked bool
	item     secs2.Item
	tree     string
	raw      []byte
}

func decodeWith(f func([]byte) (secs2.Item, error), b []byte) (res result) {
	defer func() {
		if p := recover(); p != nil {
			res = result{panicked: true}
		}
	}()
	it, err := f(b)
	if err != nil {
		return result{}
	}
	return result{ok: true, item: it, tree: s2t.ShowString(it), raw: it.ToBytes()}
}

func (x *runner) one(b []byte, class string, expect string) {
	defer func() {
		if p := recover(); p != nil {
			x.c.Fail("implementation panicked on an accessor/re-encode of a decoded item", "D "+trunc(vh.Hex(b))+" class="+class+fmt.Sprintf(" (%v)", p))
		}
	}()
	x.oneInput(b, class, expect)
}

func (x *runner) oneInput(b []byte, class string, expect string) {
	c := x.c
	key := string(b)
	if x.seen[key] {
		return
	}
	x.seen[key] = true
	c.Count("class/" + class)
	in := append([]byte(nil), b...)

	// allocation of Decode alone (nothing else runs between the two readings)
	var it0 secs2.Item
	var err0 error
	runtime.ReadMemStats(&x.ms0)
	func() {
		defer func() { _ = recover() }()
		it0, err0 = secs2.Decode(in)
	}()
	runtime.ReadMemStats(&x.ms1)
	alloc := x.ms1.TotalAlloc - x.ms0.TotalAlloc
	_, _ = it0, err0

	cp := decodeWith(secs2.Decode, in)
	ownBuf := append([]byte(nil), b...)
	ow := decodeWith(secs2.DecodeOwned, ownBuf)

	hexIn := vh.Hex(b)
	status, consumed, tree := "err", 0, "-"
	if cp.ok {
		status, consumed, tree = "ok", len(cp.raw), s2t.Digest(cp.tree)
	}
	line := fmt.Sprintf("D %s | %s %d %d | %s", hexIn, status, consumed, alloc, tree)
	c.Case(line, hexIn, len(b) > 0)
	c.Count("outcome/" + status)

	// ---------------- implementation-level oracle ----------------
	kase := "D " + trunc(hexIn) + " class=" + class
	fail := func(what string) { c.Fail(what, kase) }
	if cp.panicked || ow.panicked {
		fail("decoder panicked")
		return
	}
	if !bytes.Equal(in, b) {
		fail("Decode modified the caller's buffer")
	}
	if cp.ok != ow.ok || cp.tree != ow.tree || !bytes.Equal(cp.raw, ow.raw) {
		fail("Decode and DecodeOwned disagree")
	}
	bound := uint64(costFactor*len(b)+costOffset) * 5 / 4
	if alloc > bound {
		fail(fmt.Sprintf("Decode allocated %d bytes for %d input bytes (bound %d)", alloc, len(b), bound))
	}
	if len(b) > 0 {
		end, okRef := refAccept(b, 0, 0)
		switch {
		case okRef && !cp.ok:
			fail("an item the E5 grammar accepts is rejected")
		case !okRef && cp.ok:
			fail("input the E5 grammar rejects is accepted")
		case okRef && cp.ok && end != len(cp.raw):
			c.Fail("decoded item spans a different number of bytes than the E5 grammar assigns", kase+fmt.Sprintf(" (decoded %d, grammar %d)", len(cp.raw), end))
		case okRef && cp.ok:
			if want := refTree(b); want != cp.tree {
				c.Fail("decoded VALUES (ToBoolean/ToInt/.. accessors) differ from the values the E5 grammar assigns to the bytes", kase+" got "+firstDiff(cp.tree, want))
			}
		}
	}
	switch expect {
	case "accept":
		if !cp.ok {
			fail("valid encoding rejected")
		}
	case "reject":
		if cp.ok {
			fail("malformed input accepted: " + class)
		}
	}
	if !cp.ok {
		return
	}
	if cp.tree == "?" {
		fail("accessors of the decoded item are inconsistent")
	}
	if len(b) > 0 && (len(cp.raw) > len(b) || !bytes.Equal(cp.raw, b[:len(cp.raw)])) {
		fail("re-encoding of the decoded item is not the consumed prefix of the input")
	}
	if cp.item.EncodedLen() != len(cp.raw) {
		fail("EncodedLen of the decoded item differs from len(ToBytes)")
	}
	// copy semantics: scribbling over the caller's buffer after Decode changes nothing
	for i := range in {
		in[i] ^= 0xff
	}
	if s2t.ShowString(cp.item) != cp.tree || !bytes.Equal(cp.item.ToBytes(), cp.raw) {
		fail("decoded item changed when the caller's buffer was overwritten after Decode")
	}
	// decoding the consumed prefix again gives an Equal item with the same bytes
	again := decodeWith(secs2.Decode, cp.raw)
	if !again.ok || !secs2.Equal(again.item, cp.item) || !bytes.Equal(again.raw, cp.raw) {
		fail("decoding the re-encoded bytes does not reproduce the item")
	}
}

// refAccept is an independent recogniser for the receiver-side SEMI E5 item grammar (any
// length-byte count 1..3, known format codes, payload a multiple of the element width,
// localized string >= 2 bytes, nesting <= MaxListDepth). It returns the end position of the
// first item, or ok=false. Oracle only: it shares no code with the model or the library.
func refAccept(b []byte, pos, depth int) (end int, ok bool) {
	if pos >= len(b) {
		return 0, false
	}
	fc, nl := int(b[pos]>>2), int(b[pos]&3)
	if nl == 0 || pos+1+nl > len(b) {
		return 0, false
	}
	l := 0
	for i := 0; i < nl; i++ {
		l = l<<8 | int(b[pos+1+i])
	}
	pos += 1 + nl
	width := 0
	switch fc {
	case 0o00:
		if depth+1 > secs2.MaxListDepth {
			return 0, false
		}
		for i := 0; i < l; i++ {
			if pos, ok = refAccept(b, pos, depth+1); !ok {
				return 0, false
			}
		}
		return pos, true
	case 0o10, 0o11, 0o20, 0o21:
		width = 1
	case 0o22:
		if l < 2 {
			return 0, false
		}
		width = 1
	case 0o31, 0o51:
		width = 1
	case 0o32, 0o52:
		width = 2
	case 0o34, 0o54, 0o44:
		width = 4
	case 0o30, 0o50, 0o40:
		width = 8
	default:
		return 0, false
	}
	if l%width != 0 || pos+l > len(b) {
		return 0, false
	}
	return pos + l, true
}

// refTree is an independent decoder of VALUES written from SEMI E5 section 9 (oracle only): it
// renders the item at b[0:] in the syntax s2t.Show produces through the library's accessors.
// Boolean: any non-zero byte is true. Integers: big-endian two's complement. Floats: the IEEE
// bit pattern (binary32 NaNs canonicalised to quiet, as s2t.Show does: Go's float32->float64
// widening quiets them). Only called on input refAccept accepts.
func refTree(b []byte) string {
	var sb strings.Builder
	var walk func(pos int) int
	walk = func(pos int) int {
		if sb.Len() > 0 {
			sb.WriteByte(' ')
		}
		fc, nl := int(b[pos]>>2), int(b[pos]&3)
		l := 0
		for i := 0; i < nl; i++ {
			l = l<<8 | int(b[pos+1+i])
		}
		pos += 1 + nl
		p := b[pos : pos+l*btoi(fc != 0)]
		num := func(tag string, w int, signed bool, f4 bool) {
			sb.WriteString(tag)
			for i := 0; i+w <= len(p); i += w {
				var u uint64
				for _, x := range p[i : i+w] {
					u = u<<8 | uint64(x)
				}
				if i > 0 {
					sb.WriteByte(',')
				}
				switch {
				case signed:
					sh := uint(64 - 8*w)
					sb.WriteString(strconv.FormatInt(int64(u<<sh)>>sh, 10))
				case f4 && u&0x7f800000 == 0x7f800000 && u&0x007fffff != 0:
					sb.WriteString(strconv.FormatUint(u|0x00400000, 10))
				default:
					sb.WriteString(strconv.FormatUint(u, 10))
				}
			}
		}
		switch fc {
		case 0o00:
			fmt.Fprintf(&sb, "L%d", l)
			for i := 0; i < l; i++ {
				pos = walk(pos)
			}
			return pos
		case 0o10:
			sb.WriteString("B:" + hex.EncodeToString(p))
		case 0o11:
			sb.WriteString("O:")
			for _, x := range p {
				if x != 0 {
					sb.WriteByte('1')
				} else {
					sb.WriteByte('0')
				}
			}
		case 0o20:
			sb.WriteString("A:" + hex.EncodeToString(p))
		case 0o21:
			sb.WriteString("J:" + hex.EncodeToString(p))
		case 0o22:
			fmt.Fprintf(&sb, "W%d:%s", int(p[0])<<8|int(p[1]), hex.EncodeToString(p[2:]))
		case 0o31:
			num("I1:", 1, true, false)
		case 0o32:
			num("I2:", 2, true, false)
		case 0o34:
			num("I4:", 4, true, false)
		case 0o30:
			num("I8:", 8, true, false)
		case 0o51:
			num("U1:", 1, false, false)
		case 0o52:
			num("U2:", 2, false, false)
		case 0o54:
			num("U4:", 4, false, false)
		case 0o50:
			num("U8:", 8, false, false)
		case 0o44:
			num("F4:", 4, false, true)
		case 0o40:
			num("F8:", 8, false, false)
		}
		return pos + l
	}
	walk(0)
	return sb.String()
}

// firstDiff shows the neighbourhood of the first difference between two renderings.
func firstDiff(got, want string) string {
	i := 0
	for i < len(got) && i < len(want) && got[i] == want[i] {
		i++
	}
	lo := max(0, i-24)
	return fmt.Sprintf("...%s want ...%s (offset %d)", got[lo:min(len(got), i+24)], want[lo:min(len(want), i+24)], i)
}

func btoi(b bool) int {
	if b {
		return 1
	}
	return 0
}

func trunc(s string) string {
	if len(s) > 400 {
		return s[:400] + "..."
	}
	return s
}

// header rewrites --------------------------------------------------------------------------

// rootHeader parses the first header of b: format code, number of length bytes, length.
func rootHeader(b []byte) (fc, nl, length int, ok bool) {
	if len(b) < 2 {
		return
	}
	fc, nl = int(b[0]>>2), int(b[0]&3)
	if nl == 0 || len(b) < 1+nl {
		return
	}
	for i := 0; i < nl; i++ {
		length = length<<8 | int(b[1+i])
	}
	return fc, nl, length, true
}

// withHeader replaces the root header of b by (fc, nl, length), keeping the body.
func withHeader(b []byte, fc, nl, length int) []byte {
	_, onl, _, ok := rootHeader(b)
	if !ok {
		return nil
	}
	out := []byte{byte(fc<<2 | nl)}
	for i := nl - 1; i >= 0; i-- {
		out = append(out, byte(length>>(8*uint(i))))
	}
	return append(out, b[1+onl:]...)
}

// headerOffsets lists the offsets of every item header in a VALID encoding.
func headerOffsets(b []byte) []int {
	var offs []int
	var walk func(pos int) int
	walk = func(pos int) int {
		if pos >= len(b) {
			return -1
		}
		offs = append(offs, pos)
		fc, nl := int(b[pos]>>2), int(b[pos]&3)
		if nl == 0 || pos+1+nl > len(b) {
			return -1
		}
		l := 0
		for i := 0; i < nl; i++ {
			l = l<<8 | int(b[pos+1+i])
		}
		pos += 1 + nl
		if fc == 0 {
			for i := 0; i < l; i++ {
				if pos = walk(pos); pos < 0 {
					return -1
				}
			}
			return pos
		}
		return pos + l
	}
	walk(0)
	return offs
}

func (x *runner) mutate(enc []byte, depthOK bool) {
	r := x.r
	acc := "accept"
	if !depthOK {
		acc = "reject"
	}
	x.one(enc, "valid", acc)
	if len(enc) == 0 {
		return
	}
	// trailing bytes after the first item are not an error
	x.one(append(append([]byte(nil), enc...), byte(r.Intn(256)), byte(r.Intn(256))), "valid+trailing", acc)
	// truncations: every strict non-empty prefix of a single item is malformed (E5 is prefix-free)
	if len(enc) <= 48 {
		for i := 1; i < len(enc); i++ {
			x.one(enc[:i], "truncated", "reject")
		}
	} else {
		for k := 0; k < 12; k++ {
			x.one(enc[:1+r.Intn(len(enc)-1)], "truncated", "reject")
		}
		x.one(enc[:len(enc)-1], "truncated", "reject")
	}
	// single-byte mutations: every position (x2 values) for small encodings, a sample otherwise
	flip := func(i int) {
		m := append([]byte(nil), enc...)
		switch r.Intn(4) {
		case 0:
			m[i] ^= 1 << uint(r.Intn(8))
		case 1:
			m[i] = byte(r.Intn(256))
		case 2:
			m[i]++
		default:
			m[i]--
		}
		x.one(m, "mut1", "")
	}
	if len(enc) <= 40 {
		for i := range enc {
			flip(i)
			flip(i)
		}
	} else {
		for k := 0; k < 40; k++ {
			flip(r.Intn(len(enc)))
		}
	}
	offs := headerOffsets(enc)
	for k := 0; k < 16 && len(offs) > 0; k++ { // mutations aimed at header bytes
		o := offs[r.Intn(len(offs))]
		m := append([]byte(nil), enc...)
		j := o + r.Intn(min(4, len(enc)-o))
		m[j] = byte(r.Intn(256))
		x.one(m, "mut-header", "")
	}
	for k := 0; k < 10; k++ { // double-byte
		m := append([]byte(nil), enc...)
		m[r.Intn(len(m))] = byte(r.Intn(256))
		m[r.Intn(len(m))] ^= 1 << uint(r.Intn(8))
		x.one(m, "mut2", "")
	}
	// payload classes the library's own encoder never emits but the grammar assigns a value to:
	// Boolean bytes 0x02..0xFF (true), text bytes >= 0x80, NaN payloads / negative zero / all-ones
	// patterns in numeric elements. The structure is unchanged, so the result must be accepted.
	for k := 0; k < 8 && len(offs) > 0; k++ {
		o := offs[r.Intn(len(offs))]
		fc, nl, l, ok := rootHeader(enc[o:])
		if !ok || fc == 0 || l == 0 || o+1+nl+l > len(enc) {
			continue
		}
		m := append([]byte(nil), enc...)
		p := m[o+1+nl : o+1+nl+l]
		if fc == 0o22 {
			p = p[min(2, len(p)):]
		}
		classes := []byte{0x00, 0x01, 0x02, 0x7f, 0x80, 0xfe, 0xff}
		switch r.Intn(3) {
		case 0: // one class byte everywhere
			cb := classes[r.Intn(len(classes))]
			for i := range p {
				p[i] = cb
			}
		case 1: // class bytes mixed
			for i := range p {
				p[i] = classes[r.Intn(len(classes))]
			}
		default: // one position
			if len(p) > 0 {
				p[r.Intn(len(p))] = classes[2+r.Intn(5)]
			}
		}
		x.one(m, "mut-payload", acc)
	}
	// length-field rewrites of a random header (keeping the number of length bytes where it fits)
	for k := 0; k < 6 && len(offs) > 0; k++ {
		o := offs[r.Intn(len(offs))]
		fc, nl, l, ok := rootHeader(enc[o:])
		if !ok {
			continue
		}
		rem := len(enc) - o - 1 - nl
		for _, nlNew := range []int{nl, 3} {
			for _, v := range []int{0, l - 1, l + 1, 1 << 8, 1 << 16, 1<<24 - 1, rem, rem + 1, rem / 2, rem/2 + 1} {
				if v < 0 || v >= 1<<(8*uint(nlNew)) {
					continue
				}
				m := append(append([]byte(nil), enc[:o]...), withHeader(enc[o:], fc, nlNew, v)...)
				x.one(m, "len-rewrite", "")
			}
		}
	}
	// non-canonical length fields: same value, 1 -> 2 -> 3 length bytes, at the root and inside
	for k := 0; k < 4 && len(offs) > 0; k++ {
		o := 0
		if k > 0 {
			o = offs[r.Intn(len(offs))]
		}
		fc, nl, l, ok := rootHeader(enc[o:])
		if !ok {
			continue
		}
		for nlNew := nl + 1; nlNew <= 3; nlNew++ {
			m := append(append([]byte(nil), enc[:o]...), withHeader(enc[o:], fc, nlNew, l)...)
			x.one(m, "non-canonical", acc)
			if o == 0 && depthOK { // must decode to the same value as the canonical form
				a, b := decodeWith(secs2.Decode, enc), decodeWith(secs2.Decode, m)
				if a.ok && (!b.ok || !secs2.Equal(a.item, b.item) || a.tree != b.tree) {
					x.c.Fail("non-canonical length field changes the decoded value", "D "+trunc(vh.Hex(m)))
				}
			}
		}
		// zero length bytes
		m := append([]byte(nil), enc...)
		m[o] &^= 3
		x.one(m, "nlen0", "reject")
	}
}

func main() {
	// a hostile pre-allocation must not take the machine down
	_ = syscall.Setrlimit(syscall.RLIMIT_AS, &syscall.Rlimit{Cur: 24 << 30, Max: 24 << 30})
	debug.SetGCPercent(400)
	c := vh.New()
	x := &runner{c: c, r: c.Rng, seen: map[string]bool{}}
	r := c.Rng
	build := func(n *s2t.Node) []byte { return s2t.RefEncode(n, nil) }

	x.one(nil, "empty", "accept")
	// one-, two-byte strings exhaustively over the format byte
	for fb := 0; fb < 256; fb++ {
		x.one([]byte{byte(fb)}, "1-byte", "reject")
		for _, l := range []int{0, 1, 2, 255} {
			x.one([]byte{byte(fb), byte(l)}, "2-byte", "")
			x.one([]byte{byte(fb), byte(l), 0}, "3-byte", "")
			x.one([]byte{byte(fb), 0, byte(l), 1, 2, 3, 4, 5, 6, 7, 8}, "11-byte", "")
		}
	}
	// nesting 63 / 64 / 65 / 66
	for _, d := range []int{1, 2, 62, 63, 64, 65, 66, 100} {
		for _, leaf := range []*s2t.Node{{Kind: 'L'}, {Kind: 'U', W: 1, Uints: []uint64{7}}, {Kind: 'A', Bytes: []byte("x")}} {
			enc := build(s2t.Nest(d, leaf))
			exp := "accept"
			if d+leaf.Depth() > secs2.MaxListDepth {
				exp = "reject"
			}
			x.one(enc, fmt.Sprintf("nest-%d", d), exp)
		}
	}
	// hostile claims: every format code x every length-byte count x big lengths over short bodies
	for fc := 0; fc < 64; fc++ {
		for nl := 1; nl <= 3; nl++ {
			for _, l := range []int{1, 2, 7, 8, 9, 255, 256, 65535, 65536, 1<<24 - 1} {
				if l >= 1<<(8*uint(nl)) {
					continue
				}
				hdr := []byte{byte(fc<<2 | nl)}
				for i := nl - 1; i >= 0; i-- {
					hdr = append(hdr, byte(l>>(8*uint(i))))
				}
				for _, body := range []int{0, 8, 9} {
					x.one(append(append([]byte(nil), hdr...), make([]byte, body)...), "hostile-claim", "")
				}
			}
		}
	}
	// many same-type leaves in ONE decode call: crosses every chunk of the decoder's per-type slab
	// (the first 32 chunks hold 1+4+16+64+28*128 = 3669 leaves) and well beyond
	for _, n := range []int{341, 342, 3669, 3670, 3671, 5000, 70000} {
		for _, leaf := range [][]byte{{0x41, 0x00}, {0x21, 0x01, 0x07}, {0x25, 0x01, 0x01}, {0xA5, 0x01, 0x09}, {0x71, 0x04, 0, 0, 0, 5}, {0x81, 0x08, 0, 0, 0, 0, 0, 0, 0, 0}} {
			if n == 70000 && leaf[0] != 0x41 {
				continue
			}
			buf := []byte{0x03, byte(n >> 16), byte(n >> 8), byte(n)}
			for i := 0; i < n; i++ {
				buf = append(buf, leaf...)
			}
			x.one(buf, "many-leaves", "accept")
		}
	}
	// allocation amplification: k nested lists, each claiming as many children as its remaining bytes allow
	for _, total := range []int{64, 300, 1000, 5000, 20000} {
		for _, k := range []int{1, 2, 8, 32, 64, 65} {
			buf := make([]byte, 0, total)
			for d := 0; d < k && len(buf)+4 <= total; d++ {
				n := (total - len(buf) - 4) / 2
				buf = append(buf, 0x03, byte(n>>16), byte(n>>8), byte(n))
			}
			for len(buf)+2 <= total {
				buf = append(buf, 0x01, 0x00)
			}
			x.one(buf, "amplify", "")
			x.one(buf[:len(buf)-1], "amplify", "")
		}
	}
	// payload classes: every leaf type whose wire value set is larger than what the library's own
	// encoder emits, lengths 1, 2, 3 and many, alone, inside lists, with non-canonical length fields
	{
		hdr := func(fc, nl, l int) []byte {
			h := []byte{byte(fc<<2 | nl)}
			for i := nl - 1; i >= 0; i-- {
				h = append(h, byte(l>>(8*uint(i))))
			}
			return h
		}
		emit := func(item []byte) {
			x.one(item, "payload-class", "accept")
			x.one(append(append([]byte{0x01, 0x02}, item...), 0x25, 0x01, 0x80), "payload-class-in-list", "accept")
			x.one(append(append([]byte{0x01, 0x01, 0x01, 0x03, 0xA5, 0x01, 0x01}, item...), item...), "payload-class-in-list", "accept")
		}
		classes := []byte{0x00, 0x01, 0x02, 0x7f, 0x80, 0xfe, 0xff}
		for _, fc := range []int{0o11, 0o20, 0o21, 0o10} {
			for _, cnt := range []int{1, 2, 3, 9, 300} {
				for _, cb := range classes {
					emit(append(hdr(fc, 1+btoi(cnt > 255), cnt), bytes.Repeat([]byte{cb}, cnt)...))
				}
				for k := 0; k < 3; k++ {
					p := make([]byte, cnt)
					for i := range p {
						if k == 0 {
							p[i] = classes[r.Intn(len(classes))]
						} else {
							p[i] = byte(r.Intn(256))
						}
					}
					emit(append(hdr(fc, 1+btoi(cnt > 255)+btoi(k == 2 && cnt <= 255), cnt), p...))
				}
			}
		}
		// numeric elements: NaN payloads (quiet and signalling), +-0, +-Inf, subnormals, all-ones
		f4 := []uint64{0, 0x80000000, 0x7f800000, 0xff800000, 0x7fc00000, 0x7fc00001, 0xffc12345, 0x7f800001, 0xffbfffff, 0x7fffffff, 1, 0x807fffff, 0xffffffff}
		f8 := []uint64{0, 1 << 63, 0x7ff0000000000000, 0xfff0000000000000, 0x7ff8000000000000, 0x7ff8000000000001, 0xfff8123456789abc,
			0x7ff0000000000001, 0xfff7ffffffffffff, 0x7fffffffffffffff, 1, 0x800fffffffffffff, 0xffffffffffffffff}
		for _, t := range []struct {
			fc, w int
			vals  []uint64
		}{{0o44, 4, f4}, {0o40, 8, f8}, {0o31, 1, []uint64{0, 0x7f, 0x80, 0xff}}, {0o32, 2, []uint64{0, 0x7fff, 0x8000, 0xffff}},
			{0o34, 4, []uint64{0, 0x7fffffff, 0x80000000, 0xffffffff}}, {0o30, 8, []uint64{0, 1<<63 - 1, 1 << 63, 1<<64 - 1}},
			{0o51, 1, []uint64{0xff}}, {0o52, 2, []uint64{0xffff}}, {0o54, 4, []uint64{0xffffffff}}, {0o50, 8, []uint64{1<<64 - 1}}} {
			be := func(dst []byte, u uint64) []byte {
				for i := t.w - 1; i >= 0; i-- {
					dst = append(dst, byte(u>>(8*uint(i))))
				}
				return dst
			}
			for _, v := range t.vals {
				emit(be(hdr(t.fc, 1, t.w), v))
			}
			for _, cnt := range []int{2, 3, 40} {
				for k := 0; k < 3; k++ {
					item := hdr(t.fc, 1+btoi(cnt*t.w > 255), cnt*t.w)
					for i := 0; i < cnt; i++ {
						item = be(item, t.vals[r.Intn(len(t.vals))])
					}
					emit(item)
				}
			}
		}
	}
	// valid encodings with every length-byte pattern: 1/2/3 length bytes x each byte zero/non-zero
	// (0x010100, 0x010101, 0x011170 ... : a non-zero MIDDLE byte of a 3-byte length field), as
	// leaves of several types, as list child counts, alone and followed by a sibling
	{
		item := func(fc, nl, l int, fill func(i int) byte) []byte {
			out := []byte{byte(fc<<2 | nl)}
			for i := nl - 1; i >= 0; i-- {
				out = append(out, byte(l>>(8*uint(i))))
			}
			for i := 0; i < l; i++ {
				out = append(out, fill(i))
			}
			return out
		}
		rnd := func(int) byte { return byte(r.Intn(256)) }
		lens := []int{0, 0xcc, 0x100, 0x1cc, 0xff00, 0xffff, 0x10000, 0x100cc, 0x10100, 0x10101, 0x11170}
		for _, l := range lens {
			for nl := 1; nl <= 3; nl++ {
				if l >= 1<<(8*uint(nl)) {
					continue
				}
				for _, fc := range []int{0o10, 0o20, 0o11} {
					if fc != 0o10 && l > 0x10000 && l != 0x10101 {
						continue
					}
					enc := item(fc, nl, l, rnd)
					x.one(enc, "length-bytes", "accept")
					x.one(append(append([]byte{0x01, 0x02}, enc...), 0xA5, 0x01, 0x2a), "length-bytes+sibling", "accept")
				}
			}
		}
		x.one(item(0o54, 3, 80000, rnd), "length-bytes", "accept")  // 20000 x U4, 0x013880
		x.one(item(0o32, 3, 70000, rnd), "length-bytes", "accept")  // 35000 x I2
		x.one(item(0o40, 3, 65792, rnd), "length-bytes", "accept")  // 8224 x F8
		x.one(item(0o22, 3, 65793, rnd), "length-bytes", "accept")  // localized
		for _, n := range []int{256, 0x1cc, 66000} { // list child counts
			enc := []byte{0x03, byte(n >> 16), byte(n >> 8), byte(n)}
			for i := 0; i < n; i++ {
				enc = append(enc, 0x21, 0x01, byte(i))
			}
			x.one(enc, "length-bytes-list", "accept")
			x.one(append(enc, 0x41, 0x01, 'x'), "length-bytes-list", "accept")
		}
	}
	// mutations of valid encodings
	for i, n := range s2t.Corpus(r, "quick") {
		if enc := build(n); (len(enc) <= 24 || (len(enc) <= 600 && i%4 == 0)) && !n.HasEmptyChild() && c.Sum.Evaluations < c.N/2 {
			x.mutate(enc, n.Depth() <= secs2.MaxListDepth)
		}
	}
	for c.Sum.Evaluations < c.N*17/20 {
		b := 1 + r.Intn(14)
		var n *s2t.Node
		switch r.Intn(6) {
		case 0:
			n = s2t.RandLeaf(r)
		case 1:
			d := r.Intn(66)
			n = s2t.Nest(d, s2t.RandTree(r, &b, 3))
		default:
			n = s2t.RandTree(r, &b, 5)
		}
		enc := build(n)
		if len(enc) > 1500 {
			continue
		}
		x.mutate(enc, n.Depth() <= secs2.MaxListDepth)
	}
	// random strings: uniform, and biased towards plausible headers
	for c.Sum.Evaluations < c.N {
		l := r.Intn(40)
		b := make([]byte, l)
		for i := range b {
			b[i] = byte(r.Intn(256))
		}
		if r.Intn(2) == 0 {
			for i := 0; i < l; i += 1 + r.Intn(6) {
				fcs := []int{0, 0, 0, 8, 9, 16, 17, 18, 24, 25, 26, 28, 32, 36, 40, 41, 42, 44}
				b[i] = byte(fcs[r.Intn(len(fcs))]<<2 | 1)
				if i+1 < l {
					b[i+1] = byte(r.Intn(6))
				}
			}
			x.one(b, "random-structured", "")
		} else {
			x.one(b, "random-uniform", "")
		}
	}
	if c.Tier == "thorough" {
		// the largest claims against large buffers
		for _, total := range []int{1 << 20} {
			buf := make([]byte, 0, total)
			for d := 0; d < 64; d++ {
				n := (total - len(buf) - 4) / 2
				buf = append(buf, 0x03, byte(n>>16), byte(n>>8), byte(n))
			}
			for len(buf)+2 <= total {
				buf = append(buf, 0x01, 0x00)
			}
			x.one(buf, "amplify-1MiB", "")
		}
	}
	c.Finish()
}
