// Package lc is the e2e rig shared by the C10 and C11 harnesses: a REAL hsmsss connection (public
// API only) whose every socket and listener is owned by the harness (WithDialer / WithListener over
// net.Pipe), a scripted raw-frame peer that can answer, stall, reject or cut the stream at an exact
// byte offset in either direction, a sequenced event log, call-overlap bookkeeping for Open/Close,
// and the hygiene probes used after Close (library goroutines from a runtime.Stack dump, conns and
// listeners that never saw Close, dialer invocations).
package lc

import (
	"context"
	"encoding/binary"
	"errors"
	"fmt"
	"io"
	"net"
	"runtime"
	"strings"
	"sync"
	"sync/atomic"
	"time"

	"github.com/arloliu/go-secs/v2/hsms"
	"github.com/arloliu/go-secs/v2/hsmsss"
	"github.com/arloliu/go-secs/v2/logger"
	"github.com/arloliu/go-secs/v2/secs1"
	"github.com/arloliu/go-secs/v2/secs2"
)

// ---------------------------------------------------------------------------------------------
// peer plans

// Plan says how the scripted peer behaves on ONE transport connection (one generation).
type Plan struct {
	DialErr      bool // active: the dialer returns an error at once (refused)
	DialHang     bool // active: the dialer blocks until its ctx is cancelled, then returns ctx.Err()
	DialHangLive bool // active: as DialHang, but then returns a LIVE conn anyway (a dialer that ignores cancellation)
	DialBlackhole bool // active: the connect attempt neither completes nor is refused: it blocks until its ctx is cancelled (simulated OS connect timeout: 30 s)
	ListenErr    bool // passive: the listener factory returns an error
	CutOut       int  // close the peer end after READING this many bytes from the library (-1: never)
	CutIn        int  // close the peer end after WRITING this many bytes to the library (-1: never)
	MuteSelect   bool // read everything, never answer Select.req (active) / never send Select.req (passive)
	SelectStatus byte // active: status byte of the Select.rsp (0 = accept)
	MuteLinktest bool // never answer Linktest.req
	MuteData     bool // never answer data primaries
	StopReading  bool // stop reading after the select exchange (the library's next write stalls)
	StopReadingAfter int // >0: stop reading after this many complete frames have been read (the link stays open)
	NoRead       bool // never read a single byte (the library's very first write stalls); the peer still writes
	DropAfter    time.Duration // >0: close the peer end this long after the connection came up
	StallIn      int           // go SILENT (socket stays open, keep reading) after WRITING this many bytes (-1: never)
	ReplyBody    []byte        // body of the data replies the peer sends
	E4Cut        string        // SECS-I E4 peer: kill the link at this protocol position (see e4.go); "" = never
	E4Under      bool          // how: false = the peer closes its end; true = the harness closes the LIBRARY's end underneath it
}

// CloseWatchdog: a Close that has not returned after this long is reported as hung and abandoned.
const CloseWatchdog = 15 * time.Second

// Refused is a dial that fails at once; Hang one that fails after the connect timeout.
func Refused() Plan { p := Normal(); p.DialErr = true; return p }
func Hang() Plan    { p := Normal(); p.DialHang = true; return p }

// BlackholeTimeout is the simulated OS connect timeout of a black-holed dial.
const BlackholeTimeout = 30 * time.Second

// HangCap is the simulated OS connect timeout of a dial that hangs.
const HangCap = 150 * time.Millisecond

// Normal is a peer that answers everything.
func Normal() Plan { return Plan{CutOut: -1, CutIn: -1, StallIn: -1} }

// ---------------------------------------------------------------------------------------------
// tracked conns / listeners

type tconn struct {
	net.Conn
	id     int
	closed atomic.Bool
}

func (c *tconn) Close() error { c.closed.Store(true); return c.Conn.Close() }

type plistener struct {
	r      *Rig
	id     int
	conns  chan net.Conn
	done   chan struct{}
	once   sync.Once
	closed atomic.Bool

	mu   sync.Mutex
	mode int    // RaceAtClose / RaceAfterClose when armed
	race *tconn // the connection handed out at the armed instant
}

// Race instants for Rig.ArmRace: a peer's connection is handed to a pending Accept ...
const (
	RaceBeforeClose = 1 // ... right away; the caller calls Close next
	RaceAtClose     = 2 // ... from INSIDE the listener's Close, before the listener reads as closed
	RaceAfterClose  = 3 // ... after the listener's Close has returned (Accept still returns it)
)

func (l *plistener) Accept() (net.Conn, error) {
	select {
	case c := <-l.conns:
		return c, nil
	case <-l.done:
		l.mu.Lock()
		var c *tconn
		if l.mode == RaceAfterClose {
			c, l.race = l.race, nil
		}
		l.mu.Unlock()
		if c != nil {
			l.r.register(c)
			return c, nil
		}
		return nil, net.ErrClosed
	}
}
func (l *plistener) Close() error {
	l.closed.Store(true)
	l.once.Do(func() {
		l.mu.Lock()
		var c *tconn
		if l.mode == RaceAtClose {
			c, l.race = l.race, nil
		}
		l.mu.Unlock()
		if c != nil {
			// the pending Accept takes the connection BEFORE the listener reads as closed
			select {
			case l.conns <- c:
				l.r.register(c)
			case <-time.After(time.Second):
				_ = c.Conn.Close()
			}
		}
		close(l.done)
	})
	return nil
}

// ArmRace prepares a peer connection that the CURRENT listener hands to the library at the given
// instant relative to the listener's Close. It returns the peer's end of the pipe (nil if there is
// no listener / the hand-over of RaceBeforeClose did not happen within d).
func (r *Rig) ArmRace(mode int, d time.Duration) net.Conn {
	r.mu.Lock()
	l := r.curLis
	r.mu.Unlock()
	if l == nil {
		return nil
	}
	a, b := net.Pipe()
	tc := &tconn{Conn: a}
	if mode == RaceBeforeClose {
		select {
		case l.conns <- tc:
			r.register(tc)
			return b
		case <-time.After(d):
			_ = a.Close()
			_ = b.Close()
			return nil
		}
	}
	l.mu.Lock()
	l.mode, l.race = mode, tc
	l.mu.Unlock()
	return b
}

// RaceLeft reports whether an armed race connection was never taken by an Accept.
func (r *Rig) RaceLeft() bool {
	r.mu.Lock()
	l := r.curLis
	r.mu.Unlock()
	if l == nil {
		return false
	}
	l.mu.Lock()
	defer l.mu.Unlock()
	return l.race != nil
}

func (l *plistener) Addr() net.Addr { return paddr{} }

type paddr struct{}

func (paddr) Network() string { return "pipe" }
func (paddr) String() string  { return "pipe" }

// ---------------------------------------------------------------------------------------------
// event log

// Ev is one log entry. K: "OC" open call, "OR" open return, "CC" close call, "CR" close return,
// "D" dial/listen invocation, "U" transport up (peer side attached), "X" peer closed its end,
// "S" state sample, "R" reconnect metric sample.
type Ev struct {
	Seq  int64
	T    time.Time
	K    string
	ID   int64  // call id / dial number / conn id
	Res  string // result class
	Solo bool
	N    [4]int64
}

// Rig is one connection under test and everything around it.
type Rig struct {
	Active bool
	Secs1  bool // SECS-I over TCP instead of HSMS-SS: the scripted peer only holds / reads / cuts the line
	E4     bool // ... unless E4 is set: then the peer speaks the SEMI E4 line protocol (e4.go)
	Equip  bool // SECS-I role of the LIBRARY end (equipment = master)
	Conn   hsms.Connection
	Sid    uint16

	mu      sync.Mutex
	seq     int64
	Log     []Ev
	conns   []*tconn
	lsns    []*plistener
	peers   []*Peer
	dialN   int
	listenN int
	planFn  func(n int) Plan // plan for the n-th dial (active) or n-th peer connection (passive)
	curLis  *plistener
	lisCh   chan *plistener
	closing atomic.Bool

	// Open/Close overlap bookkeeping
	gate     sync.RWMutex
	callMu   sync.Mutex
	inflight map[int64]*callRec
	callSeq  int64

	CloseTimeout time.Duration
	Panics       atomic.Int64
}

type callRec struct {
	id         int64
	overlapped bool
	blocking   bool // an Open(OpenWaitSelected)
}

// Cfg are the timer settings of a rig.
type Cfg struct {
	T3, T5, T6, T7, T8 time.Duration
	BackoffInit        time.Duration
	BackoffMult        float64
	Linktest           time.Duration
	LinktestThreshold  int
	CloseTimeout       time.Duration
	WriteTimeout       time.Duration
	ConnectTimeout     time.Duration
}

// DefaultCfg: tens of milliseconds everywhere.
func DefaultCfg() Cfg {
	return Cfg{T3: 150 * time.Millisecond, T5: 40 * time.Millisecond, T6: 80 * time.Millisecond, T7: 100 * time.Millisecond,
		T8: 60 * time.Millisecond, BackoffInit: 4 * time.Millisecond, BackoffMult: 2, Linktest: 0, LinktestThreshold: 1,
		CloseTimeout: 400 * time.Millisecond, WriteTimeout: 120 * time.Millisecond}
}

type nullLogger struct{}

func (nullLogger) Debug(string, ...any)             {}
func (nullLogger) Info(string, ...any)              {}
func (nullLogger) Warn(string, ...any)              {}
func (nullLogger) Error(string, ...any)             {}
func (nullLogger) Fatal(string, ...any)             {}
func (n nullLogger) With(...any) logger.Logger      { return n }
func (nullLogger) Level() logger.LogLevel           { return logger.ErrorLevel }
func (nullLogger) SetLevel(logger.LogLevel)         {}

// New builds (does not open) a rig. planFn(n) gives the behaviour for the n-th transport
// connection attempt (0-based).
func New(active bool, cfg Cfg, planFn func(n int) Plan) (*Rig, error) {
	r := &Rig{Active: active, Sid: 7, planFn: planFn, lisCh: make(chan *plistener, 256), inflight: map[int64]*callRec{},
		CloseTimeout: cfg.CloseTimeout}
	copts := []hsms.ConnOption{
		hsms.WithT3(cfg.T3), hsms.WithT5(cfg.T5), hsms.WithT6(cfg.T6), hsms.WithT7(cfg.T7), hsms.WithT8(cfg.T8),
		hsms.WithReconnectBackoff(cfg.BackoffInit, cfg.BackoffMult), hsms.WithLinktestInterval(cfg.Linktest),
		hsms.WithSessionID(r.Sid), hsms.WithCloseTimeout(cfg.CloseTimeout),
		hsms.WithLogger(nullLogger{}),
	}
	if cfg.LinktestThreshold > 0 {
		copts = append(copts, hsms.WithLinktestFailThreshold(cfg.LinktestThreshold))
	}
	if cfg.WriteTimeout >= 0 { // negative: leave the library default (30 s); 0 disables the bound
		copts = append(copts, hsms.WithWriteTimeout(cfg.WriteTimeout))
	}
	opts := []hsmsss.Option{}
	for _, o := range copts {
		opts = append(opts, hsmsss.WithConnectionOption(o))
	}
	if cfg.ConnectTimeout > 0 {
		opts = append(opts, hsmsss.WithConnectTimeout(cfg.ConnectTimeout))
	}
	if active {
		opts = append(opts, hsmsss.WithActive(), hsmsss.WithDialer(r.dial))
	} else {
		opts = append(opts, hsmsss.WithPassive(), hsmsss.WithListener(r.listen))
	}
	c, err := hsmsss.NewConfig("127.0.0.1", 5000, opts...)
	if err != nil {
		return nil, err
	}
	conn, err := hsmsss.New(c)
	if err != nil {
		return nil, err
	}
	r.Conn = conn
	return r, nil
}

// NewSecs1 builds a SECS-I connection on the same rig (same dialer / listener / tracking). The
// peer does not speak E4: it holds the line, reads and discards, drops or cuts per its plan — enough
// for the life-cycle properties (a SECS-I link is Selected as soon as the TCP connection is up).
func NewSecs1(active bool, cfg Cfg, planFn func(n int) Plan) (*Rig, error) {
	return newSecs1(active, false, false, cfg, planFn)
}

// NewSecs1E4 is NewSecs1 against a peer that speaks the E4 line protocol (ENQ/EOT/block/ACK), so
// that round trips work and the link can be killed at every position of an exchange.
func NewSecs1E4(active, equip bool, cfg Cfg, planFn func(n int) Plan) (*Rig, error) {
	return newSecs1(active, true, equip, cfg, planFn)
}

func newSecs1(active, e4, equip bool, cfg Cfg, planFn func(n int) Plan) (*Rig, error) {
	r := &Rig{Active: active, Secs1: true, E4: e4, Equip: equip, Sid: 7, planFn: planFn, lisCh: make(chan *plistener, 256), inflight: map[int64]*callRec{},
		CloseTimeout: cfg.CloseTimeout}
	opts := []secs1.Option{
		secs1.WithT1(20 * time.Millisecond), secs1.WithT2(30 * time.Millisecond), secs1.WithT4(50 * time.Millisecond), secs1.WithT5(cfg.T5),
		secs1.WithRetryLimit(1), secs1.WithDeviceID(r.Sid),
		secs1.WithConnectionOption(hsms.WithT3(cfg.T3)), secs1.WithConnectionOption(hsms.WithReconnectBackoff(cfg.BackoffInit, cfg.BackoffMult)),
		secs1.WithConnectionOption(hsms.WithCloseTimeout(cfg.CloseTimeout)), secs1.WithConnectionOption(hsms.WithLogger(nullLogger{})),
	}
	if cfg.ConnectTimeout > 0 {
		opts = append(opts, secs1.WithConnectTimeout(cfg.ConnectTimeout))
	}
	if equip {
		opts = append(opts, secs1.WithEquipment())
	} else {
		opts = append(opts, secs1.WithHost())
	}
	if active {
		opts = append(opts, secs1.WithActive(), secs1.WithDialer(r.dial))
	} else {
		opts = append(opts, secs1.WithPassive(), secs1.WithListener(r.listen))
	}
	c, err := secs1.NewConfig("127.0.0.1", 5000, opts...)
	if err != nil {
		return nil, err
	}
	conn, err := secs1.New(c)
	if err != nil {
		return nil, err
	}
	r.Conn = conn
	return r, nil
}

func (r *Rig) add(e Ev) int64 {
	r.mu.Lock()
	defer r.mu.Unlock()
	r.seq++
	e.Seq = r.seq
	e.T = time.Now()
	r.Log = append(r.Log, e)
	return e.Seq
}

// Events returns a copy of the log.
func (r *Rig) Events() []Ev {
	r.mu.Lock()
	defer r.mu.Unlock()
	return append([]Ev(nil), r.Log...)
}

// ---------------------------------------------------------------------------------------------
// dialer / listener handed to the library

func (r *Rig) nextPlan() (int, Plan) {
	r.mu.Lock()
	n := r.dialN
	r.dialN++
	r.mu.Unlock()
	return n, r.planFn(n)
}

func (r *Rig) dial(ctx context.Context, _, _ string) (net.Conn, error) {
	n, p := r.nextPlan()
	cancelled := int64(0)
	if ctx.Err() != nil {
		cancelled = 1
	}
	switch {
	case p.DialErr:
		r.add(Ev{K: "D", ID: int64(n), Res: "refused", N: [4]int64{cancelled}})
		return nil, errors.New("rig: connection refused")
	case p.DialHang:
		// an unreachable peer: the connect attempt ends when its ctx is cancelled or when the
		// (simulated) OS connect timeout expires. Open dials synchronously with the GENERATION ctx
		// (not the caller's), so without this cap a first dial to a black hole would hold lifeMu for
		// the OS timeout (documented: WithConnectTimeout exists for that).
		r.add(Ev{K: "D", ID: int64(n), Res: "hang", N: [4]int64{cancelled}})
		select {
		case <-ctx.Done():
			return nil, ctx.Err()
		case <-time.After(HangCap):
			return nil, errors.New("rig: connect timed out")
		}
	case p.DialBlackhole:
		r.add(Ev{K: "D", ID: int64(n), Res: "blackhole", N: [4]int64{cancelled}})
		select {
		case <-ctx.Done():
			r.add(Ev{K: "B", ID: int64(n), Res: "cancelled"})
			return nil, ctx.Err()
		case <-time.After(BlackholeTimeout):
			r.add(Ev{K: "B", ID: int64(n), Res: "os-timeout"})
			return nil, errors.New("rig: connect timed out (OS)")
		}
	case p.DialHangLive:
		r.add(Ev{K: "D", ID: int64(n), Res: "hanglive", N: [4]int64{cancelled}})
		select {
		case <-ctx.Done():
		case <-time.After(HangCap):
		}
	default:
		r.add(Ev{K: "D", ID: int64(n), Res: "ok", N: [4]int64{cancelled}})
	}
	a, b := net.Pipe()
	tc := r.track(a)
	r.attach(b, n, p, tc.id)
	return tc, nil
}

func (r *Rig) listen(ctx context.Context, _, _ string) (net.Listener, error) {
	r.mu.Lock()
	n := r.listenN
	r.listenN++
	r.mu.Unlock()
	// the n-th listen call; a ListenErr plan is consulted through planFn(-1-n) so that listen
	// failures and peer connections are scripted independently
	if r.planFn(-1 - n).ListenErr {
		r.add(Ev{K: "D", ID: int64(n), Res: "listenerr"})
		return nil, errors.New("rig: address in use")
	}
	l := &plistener{r: r, id: n, conns: make(chan net.Conn), done: make(chan struct{})}
	r.mu.Lock()
	r.lsns = append(r.lsns, l)
	r.curLis = l
	r.mu.Unlock()
	r.add(Ev{K: "D", ID: int64(n), Res: "listen"})
	select {
	case r.lisCh <- l:
	default:
	}
	return l, nil
}

func (r *Rig) register(tc *tconn) {
	r.mu.Lock()
	defer r.mu.Unlock()
	tc.id = len(r.conns)
	r.conns = append(r.conns, tc)
}

func (r *Rig) track(c net.Conn) *tconn {
	r.mu.Lock()
	defer r.mu.Unlock()
	tc := &tconn{Conn: c, id: len(r.conns)}
	r.conns = append(r.conns, tc)
	return tc
}

// PeerConnect (passive library) makes a peer dial the current listener. It returns nil if no
// listener accepts within d.
func (r *Rig) PeerConnect(d time.Duration) *Peer {
	r.mu.Lock()
	l := r.curLis
	r.mu.Unlock()
	if l == nil || l.closed.Load() {
		select {
		case l = <-r.lisCh:
		case <-time.After(d):
			return nil
		}
	}
	a, b := net.Pipe()
	tc := &tconn{Conn: a}
	select {
	case l.conns <- tc: // handed to the library: from here on it must see Close()
		r.register(tc)
	case <-l.done:
		_ = a.Close()
		_ = b.Close()
		return nil
	case <-time.After(d):
		_ = a.Close()
		_ = b.Close()
		return nil
	}
	n, p := r.nextPlan() // a plan is consumed only by a connection the library actually accepted
	return r.attach(b, n, p, tc.id)
}

// ---------------------------------------------------------------------------------------------
// scripted peer

// Frame is a parsed HSMS frame header (+ body length).
type Frame struct {
	Sid     uint16
	B2, B3  byte
	PT, ST  byte
	Sys     uint32
	BodyLen int
}

// Peer is the harness end of one pipe.
type Peer struct {
	r      *Rig
	c      net.Conn
	lib    net.Conn // the library's end of the same pipe (raw, beneath the tracking wrapper)
	N      int // connection number
	ConnID int
	plan   Plan

	mu       sync.Mutex
	in       int // bytes read from the library
	out      int // bytes written to the library
	Frames   []Frame
	closedAt time.Time
	closed   bool
	selected bool
	muted    bool
	mutedAt  time.Time
	wmu      sync.Mutex
	DataSeen atomic.Int64 // data primaries received
	LtSeen   atomic.Int64 // Linktest.req received
	SelSeen  atomic.Int64
	Done     chan struct{}
}

func (r *Rig) attach(c net.Conn, n int, p Plan, connID int) *Peer {
	pe := &Peer{r: r, c: c, N: n, ConnID: connID, plan: p, Done: make(chan struct{})}
	r.mu.Lock()
	if connID >= 0 && connID < len(r.conns) {
		pe.lib = r.conns[connID].Conn
	}
	r.peers = append(r.peers, pe)
	r.mu.Unlock()
	r.add(Ev{K: "U", ID: int64(n), N: [4]int64{int64(connID)}})
	go pe.run()
	return pe
}

// Peers returns the peers created so far.
func (r *Rig) Peers() []*Peer {
	r.mu.Lock()
	defer r.mu.Unlock()
	return append([]*Peer(nil), r.peers...)
}

// Close closes the peer end (a drop as seen by the library) and logs it once.
func (p *Peer) Close() {
	p.mu.Lock()
	if p.closed {
		p.mu.Unlock()
		return
	}
	p.closed = true
	p.closedAt = time.Now()
	in, out := p.in, p.out
	p.mu.Unlock()
	p.r.add(Ev{K: "X", ID: int64(p.N), N: [4]int64{int64(in), int64(out)}})
	_ = p.c.Close()
}

// MutedAt reports when the peer went silent (zero if it has not).
func (p *Peer) MutedAt() time.Time {
	p.mu.Lock()
	defer p.mu.Unlock()
	return p.mutedAt
}

// ClosedAt reports when the peer end was closed (zero if still open).
func (p *Peer) ClosedAt() time.Time {
	p.mu.Lock()
	defer p.mu.Unlock()
	return p.closedAt
}

// IO returns bytes read from / written to the library so far.
func (p *Peer) IO() (int, int) {
	p.mu.Lock()
	defer p.mu.Unlock()
	return p.in, p.out
}

// readN reads exactly n bytes, honouring the CutOut budget: when the budget is exhausted the peer
// closes its end (so the library's in-flight write fails at that exact byte).
func (p *Peer) readN(n int) ([]byte, bool) {
	buf := make([]byte, 0, n)
	for len(buf) < n {
		want := n - len(buf)
		if p.plan.CutOut >= 0 {
			p.mu.Lock()
			left := p.plan.CutOut - p.in
			p.mu.Unlock()
			if left <= 0 {
				p.Close()
				return nil, false
			}
			if want > left {
				want = left
			}
		}
		tmp := make([]byte, want)
		k, err := p.c.Read(tmp)
		p.mu.Lock()
		p.in += k
		p.mu.Unlock()
		buf = append(buf, tmp[:k]...)
		if err != nil {
			return nil, false
		}
	}
	if p.plan.CutOut >= 0 {
		p.mu.Lock()
		left := p.plan.CutOut - p.in
		p.mu.Unlock()
		if left <= 0 {
			p.Close()
			return buf, false
		}
	}
	return buf, true
}

// write sends b, honouring the CutIn budget (the peer closes after exactly that many bytes).
func (p *Peer) write(b []byte) bool {
	p.wmu.Lock()
	defer p.wmu.Unlock()
	if p.plan.StallIn >= 0 {
		p.mu.Lock()
		left := p.plan.StallIn - p.out
		muted := p.muted
		p.mu.Unlock()
		if muted {
			return true // silent: the frame is never sent, the socket stays open
		}
		if len(b) >= left {
			if left > 0 {
				_ = p.c.SetWriteDeadline(time.Now().Add(2 * time.Second))
				k, _ := p.c.Write(b[:left])
				p.mu.Lock()
				p.out += k
				p.mu.Unlock()
			}
			p.mu.Lock()
			p.muted = true
			p.mutedAt = time.Now()
			p.mu.Unlock()
			p.r.add(Ev{K: "Z", ID: int64(p.N), N: [4]int64{int64(p.plan.StallIn)}})
			return true
		}
	}
	if p.plan.CutIn >= 0 {
		p.mu.Lock()
		left := p.plan.CutIn - p.out
		p.mu.Unlock()
		if left <= 0 {
			p.Close()
			return false
		}
		if len(b) > left {
			_ = p.c.SetWriteDeadline(time.Now().Add(2 * time.Second))
			k, _ := p.c.Write(b[:left])
			p.mu.Lock()
			p.out += k
			p.mu.Unlock()
			p.Close()
			return false
		}
	}
	_ = p.c.SetWriteDeadline(time.Now().Add(2 * time.Second))
	k, err := p.c.Write(b)
	p.mu.Lock()
	p.out += k
	p.mu.Unlock()
	if err != nil {
		return false
	}
	if p.plan.CutIn >= 0 {
		p.mu.Lock()
		left := p.plan.CutIn - p.out
		p.mu.Unlock()
		if left <= 0 {
			p.Close()
			return false
		}
	}
	return true
}

// Enc builds a raw frame.
func Enc(sid uint16, b2, b3, pt, st byte, sys uint32, body []byte) []byte {
	out := make([]byte, 14+len(body))
	binary.BigEndian.PutUint32(out[0:4], uint32(10+len(body)))
	binary.BigEndian.PutUint16(out[4:6], sid)
	out[6], out[7], out[8], out[9] = b2, b3, pt, st
	binary.BigEndian.PutUint32(out[10:14], sys)
	copy(out[14:], body)
	return out
}

func (p *Peer) run() {
	defer close(p.Done)
	defer p.Close()
	if p.r.Secs1 && p.r.E4 {
		p.runE4()
		return
	}
	if p.r.Secs1 {
		if p.plan.DropAfter > 0 {
			go func() {
				select {
				case <-time.After(p.plan.DropAfter):
					p.Close()
				case <-p.Done:
				}
			}()
		}
		for { // hold the line: read and discard (honouring the CutOut budget)
			if _, ok := p.readN(1); !ok {
				return
			}
		}
	}
	if p.plan.CutOut == 0 || p.plan.CutIn == 0 {
		// a connection that dies before a single byte moves
		if p.plan.CutOut == 0 {
			p.Close()
			return
		}
	}
	if p.plan.DropAfter > 0 {
		go func() {
			select {
			case <-time.After(p.plan.DropAfter):
				p.Close()
			case <-p.Done:
			}
		}()
	}
	if p.plan.NoRead {
		if !p.r.Active {
			go func() { p.write(Enc(p.r.Sid, 0, 0, 0, 1, 0x70000001, nil)) }()
		}
		<-p.Done2()
		return
	}
	if !p.r.Active && !p.plan.MuteSelect {
		// passive library: the peer initiates Select
		go func() {
			if !p.write(Enc(p.r.Sid, 0, 0, 0, 1, 0x70000001, nil)) {
				return
			}
		}()
	}
	for {
		hdr, ok := p.readN(4)
		if !ok {
			return
		}
		ln := int(binary.BigEndian.Uint32(hdr))
		if ln < 10 || ln > 1<<20 {
			return
		}
		rest, ok := p.readN(ln)
		if !ok {
			return
		}
		f := Frame{Sid: binary.BigEndian.Uint16(rest[0:2]), B2: rest[2], B3: rest[3], PT: rest[4], ST: rest[5],
			Sys: binary.BigEndian.Uint32(rest[6:10]), BodyLen: ln - 10}
		p.mu.Lock()
		p.Frames = append(p.Frames, f)
		nf := len(p.Frames)
		p.mu.Unlock()
		stopAfterThis := p.plan.StopReadingAfter > 0 && nf >= p.plan.StopReadingAfter
		switch f.ST {
		case 1: // Select.req from an active library
			p.SelSeen.Add(1)
			if p.plan.MuteSelect {
				continue
			}
			if !p.write(Enc(f.Sid, 0, p.plan.SelectStatus, 0, 2, f.Sys, nil)) {
				return
			}
			if p.plan.SelectStatus == 0 {
				p.mu.Lock()
				p.selected = true
				p.mu.Unlock()
			}
			if p.plan.StopReading {
				<-p.Done2()
				return
			}
		case 2: // Select.rsp from a passive library
			if f.B3 == 0 {
				p.mu.Lock()
				p.selected = true
				p.mu.Unlock()
			}
			if p.plan.StopReading {
				<-p.Done2()
				return
			}
		case 5: // Linktest.req
			p.LtSeen.Add(1)
			if p.plan.MuteLinktest {
				continue
			}
			if !p.write(Enc(0xFFFF, 0, 0, 0, 6, f.Sys, nil)) {
				return
			}
		case 0: // data
			if f.B2&0x80 != 0 && f.B3%2 == 1 {
				p.DataSeen.Add(1)
				if !p.plan.MuteData {
					if !p.write(Enc(f.Sid, f.B2&0x7F, f.B3+1, 0, 0, f.Sys, p.plan.ReplyBody)) {
						return
					}
				}
			}
		case 9: // Separate.req: the library is leaving
			return
		default:
		}
		if stopAfterThis { // this frame was answered; from now on the peer is deaf, the link stays open
			p.r.add(Ev{K: "W", ID: int64(p.N), N: [4]int64{int64(nf)}})
			<-p.Done2()
			return
		}
	}
}

// Done2 is used by a peer that stops reading: it blocks until the rig is torn down, the peer is
// closed, or the LIBRARY has called Close() on its end (seen on the tracking wrapper). It must not
// touch the pipe: a probing write would be read by the library and kill the link by itself.
func (p *Peer) Done2() <-chan struct{} {
	ch := make(chan struct{})
	go func() {
		defer close(ch)
		for !p.r.closing.Load() {
			p.mu.Lock()
			c := p.closed
			p.mu.Unlock()
			if c || p.libClosed() {
				return
			}
			time.Sleep(time.Millisecond)
		}
	}()
	return ch
}

// libClosed: the library has closed its end of this peer's pipe.
func (p *Peer) libClosed() bool {
	p.r.mu.Lock()
	defer p.r.mu.Unlock()
	if p.ConnID >= 0 && p.ConnID < len(p.r.conns) {
		return p.r.conns[p.ConnID].closed.Load()
	}
	return false
}

// Selected reports whether the select exchange completed on this peer.
func (p *Peer) Selected() bool {
	p.mu.Lock()
	defer p.mu.Unlock()
	return p.selected
}

// ---------------------------------------------------------------------------------------------
// API calls with overlap bookkeeping

// begin registers an Open/Close call and logs its call event in the same critical section, so the
// order of call boundaries in the log is the order the overlap bookkeeping saw.
func (r *Rig) begin(blocking bool, kind string) *callRec {
	r.callMu.Lock()
	defer r.callMu.Unlock()
	r.callSeq++
	c := &callRec{id: r.callSeq, blocking: blocking}
	for _, o := range r.inflight {
		o.overlapped = true
		c.overlapped = true
	}
	r.inflight[c.id] = c
	r.add(Ev{K: kind, ID: c.id})
	return c
}

// end unregisters the call and logs its return event (built by mk from the solo flag) atomically
// with that; it returns the index of the logged entry so a Close can fill in its hygiene numbers.
func (r *Rig) end(c *callRec, mk func(solo bool) Ev) (solo bool, seqAtEnd int64, logSeq int64) {
	r.callMu.Lock()
	defer r.callMu.Unlock()
	delete(r.inflight, c.id)
	solo = !c.overlapped
	logSeq = r.add(mk(solo))
	return solo, r.callSeq, logSeq
}

// patch rewrites a logged entry (a Close return whose hygiene snapshot is taken after the fact).
func (r *Rig) patch(logSeq int64, f func(e *Ev)) {
	r.mu.Lock()
	defer r.mu.Unlock()
	for i := range r.Log {
		if r.Log[i].Seq == logSeq {
			f(&r.Log[i])
			return
		}
	}
}

// blockingOpenInFlight reports whether an Open(OpenWaitSelected) is currently inside the library.
func (r *Rig) blockingOpenInFlight() bool {
	r.callMu.Lock()
	defer r.callMu.Unlock()
	for _, o := range r.inflight {
		if o.blocking {
			return true
		}
	}
	return false
}

// ClassOpen maps an Open result to the monitor's classes.
func ClassOpen(err error) string {
	switch {
	case err == nil:
		return "ok"
	case errors.Is(err, hsms.ErrAlreadyOpen):
		return "already"
	case errors.Is(err, context.DeadlineExceeded), errors.Is(err, context.Canceled):
		return "ctx"
	case errors.Is(err, hsms.ErrConnClosed):
		return "closed"
	default:
		return "start"
	}
}

// OpenRes is the outcome of one Open call.
type OpenRes struct {
	Class   string
	Solo    bool
	Elapsed time.Duration
	Panic   any
}

// Open calls Connection.Open under the overlap bookkeeping.
func (r *Rig) Open(wait bool, timeout time.Duration) (res OpenRes) {
	r.gate.RLock()
	defer r.gate.RUnlock()
	c := r.begin(wait, "OC")
	mode := hsms.OpenBackground
	if wait {
		mode = hsms.OpenWaitSelected
	}
	ctx, cancel := context.WithTimeout(context.Background(), timeout)
	defer cancel()
	t0 := time.Now()
	var err error
	hung := false
	done := make(chan struct{})
	go func() {
		defer close(done)
		defer func() {
			if p := recover(); p != nil {
				res.Panic = p
				r.Panics.Add(1)
			}
		}()
		err = r.Conn.Open(ctx, mode)
	}()
	select {
	case <-done:
	case <-time.After(timeout + CloseWatchdog):
		hung = true // abandoned: the rig must not be used further
	}
	res.Elapsed = time.Since(t0)
	res.Class = ClassOpen(err)
	if hung {
		res.Class = "hung"
	}
	// A context error can also come out of the synchronous dial inside tr.Start (the dialer's ctx is
	// the generation ctx, possibly with the connect timeout): that is a START failure (rolled back),
	// not a failed wait (lifecycle running). Only the caller's own ctx distinguishes them.
	ambiguous := false
	if res.Class == "ctx" {
		switch {
		case !wait || ctx.Err() == nil:
			res.Class = "start"
		default:
			ambiguous = true // both the caller's ctx and a dial ctx may have expired: do not judge
		}
	}
	if res.Panic != nil {
		res.Class = "panic"
	}
	res.Solo, _, _ = r.end(c, func(solo bool) Ev {
		return Ev{K: "OR", ID: c.id, Res: res.Class, Solo: solo && !ambiguous && !hung, N: [4]int64{int64(res.Elapsed)}}
	})
	return res
}

// CloseRes is the outcome of one Close call plus, for a calm one, the hygiene snapshot.
type CloseRes struct {
	Class      string // ok | notopen | timeout | other | panic
	Calm       bool
	Elapsed    time.Duration
	Blocked    bool // a blocking Open was inside the library when Close was called
	Goroutines int
	Stacks     []string
	OpenConns  int
	Loops      int64
	State      hsms.ConnState
	Panic      any
}

// Close calls Connection.Close; if no other Open/Close overlapped it and none started since, it
// takes the hygiene snapshot (with the API gate held so nothing can start during the scan).
func (r *Rig) Close() (res CloseRes) {
	r.gate.RLock()
	c := r.begin(false, "CC")
	res.Blocked = r.blockingOpenInFlight()
	t0 := time.Now()
	var err error
	hung := false
	done := make(chan struct{})
	go func() {
		defer close(done)
		defer func() {
			if p := recover(); p != nil {
				res.Panic = p
				r.Panics.Add(1)
			}
		}()
		err = r.Conn.Close()
	}()
	select {
	case <-done:
	case <-time.After(CloseWatchdog):
		hung = true // the call is abandoned (its goroutine leaks); the rig must not be used further
	}
	res.Elapsed = time.Since(t0)
	switch {
	case hung:
		res.Class = "hung"
	case res.Panic != nil:
		res.Class = "panic"
	case err == nil:
		res.Class = "ok"
	case errors.Is(err, hsms.ErrNotOpen):
		res.Class = "notopen"
	case errors.Is(err, hsms.ErrCloseTimeout):
		res.Class = "timeout"
	default:
		res.Class = "other"
	}
	// the return is logged now (position = linearization order); calm and the hygiene numbers are
	// filled in below if nothing else started in the meantime
	solo, seqAtEnd, logSeq := r.end(c, func(bool) Ev { return Ev{K: "CR", ID: c.id, Res: res.Class} })
	r.gate.RUnlock()
	if solo && res.Class != "panic" && res.Class != "hung" {
		r.gate.Lock()
		r.callMu.Lock()
		still := r.callSeq == seqAtEnd && len(r.inflight) == 0
		r.callMu.Unlock()
		if still {
			res.Calm = true
			res.State = r.Conn.State()
			if res.Class != "notopen" {
				res.Goroutines, res.Stacks = r.settle(2 * time.Second)
				res.OpenConns = r.OpenHandles()
				res.Loops = r.Conn.Metrics().Reconnecting()
			}
			sel := int64(0)
			if res.State != hsms.NotConnectedState {
				sel = 1
			}
			r.patch(logSeq, func(e *Ev) {
				e.Solo = true
				e.N = [4]int64{int64(res.Goroutines), int64(res.OpenConns), res.Loops, sel}
			})
		}
		r.gate.Unlock()
	}
	return res
}

// settle waits (up to d) for the library goroutine count to reach zero and returns the last count.
func (r *Rig) settle(d time.Duration) (int, []string) {
	dl := time.Now().Add(d)
	for {
		st := LibGoroutines()
		if len(st) == 0 || time.Now().After(dl) {
			return len(st), st
		}
		time.Sleep(2 * time.Millisecond)
	}
}

// OpenHandles counts conns and listeners handed to the library that never saw Close().
func (r *Rig) OpenHandles() int {
	r.mu.Lock()
	defer r.mu.Unlock()
	n := 0
	for _, c := range r.conns {
		if !c.closed.Load() {
			n++
		}
	}
	for _, l := range r.lsns {
		if !l.closed.Load() {
			n++
		}
	}
	return n
}

// Handles reports how many conns / listeners were handed out in total.
func (r *Rig) Handles() (int, int) {
	r.mu.Lock()
	defer r.mu.Unlock()
	return len(r.conns), len(r.lsns)
}

// Dials is the number of dialer (active) / peer-connection (passive) plans consumed.
func (r *Rig) Dials() int {
	r.mu.Lock()
	defer r.mu.Unlock()
	return r.dialN
}

// Shutdown releases everything the rig itself holds (peer ends), after the final Close.
func (r *Rig) Shutdown() {
	r.closing.Store(true)
	for _, p := range r.Peers() {
		p.Close()
	}
}

// WaitState polls State().
func (r *Rig) WaitState(s hsms.ConnState, d time.Duration) bool {
	dl := time.Now().Add(d)
	for time.Now().Before(dl) {
		if r.Conn.State() == s {
			return true
		}
		time.Sleep(200 * time.Microsecond)
	}
	return r.Conn.State() == s
}

// ---------------------------------------------------------------------------------------------
// goroutine scan

const libPrefix = "github.com/arloliu/go-secs/v2/"

// LibGoroutines returns the stack text of every goroutine CREATED BY library code (the creator
// frame "created by github.com/arloliu/go-secs/v2/..."). Goroutines of the harness that happen
// to be inside a library call are not library goroutines.
func LibGoroutines() []string {
	buf := make([]byte, 1<<20)
	for {
		n := runtime.Stack(buf, true)
		if n < len(buf) {
			buf = buf[:n]
			break
		}
		buf = make([]byte, 2*len(buf))
	}
	var out []string
	for _, g := range strings.Split(string(buf), "\n\n") {
		i := strings.LastIndex(g, "created by ")
		if i < 0 {
			continue
		}
		if strings.HasPrefix(g[i+len("created by "):], libPrefix) {
			out = append(out, g)
		}
	}
	return out
}

// TopFrames abbreviates a goroutine stack to its function names (for failure reports; never compared).
func TopFrames(g string) string {
	var fs []string
	for _, ln := range strings.Split(g, "\n") {
		if strings.HasPrefix(ln, "\t") || strings.HasPrefix(ln, "goroutine ") {
			continue
		}
		if j := strings.Index(ln, "("); j > 0 {
			ln = ln[:j]
		}
		ln = strings.TrimPrefix(ln, "created by ")
		ln = strings.TrimPrefix(ln, libPrefix)
		fs = append(fs, ln)
		if len(fs) >= 6 {
			break
		}
	}
	return strings.Join(fs, "<")
}

// ---------------------------------------------------------------------------------------------
// log -> monitor tokens

// Tokens renders the log as the observation tokens the extracted monitor consumes:
//
//	OC | OR <class> <solo> | CR <class> <calm> <gor> <handles> <loops> <sel> | D <ok> | RC <metric> <redials>
func Tokens(evs []Ev) string {
	var sb strings.Builder
	for _, e := range evs {
		switch e.K {
		case "OC":
			sb.WriteString(" OC")
		case "OR":
			fmt.Fprintf(&sb, " OR %s %s", e.Res, b01(e.Solo))
		case "CR":
			fmt.Fprintf(&sb, " CR %s %s %d %d %d %d", e.Res, b01(e.Solo), e.N[0], e.N[1], e.N[2], e.N[3])
		case "D":
			ok := "0"
			if e.Res == "ok" || e.Res == "listen" || e.Res == "hanglive" {
				ok = "1"
			}
			fmt.Fprintf(&sb, " D %s", ok)
		case "R":
			fmt.Fprintf(&sb, " RC %d %d", e.N[0], e.N[1])
		}
	}
	return strings.TrimSpace(sb.String())
}

func b01(b bool) string {
	if b {
		return "1"
	}
	return "0"
}

// SendRoundTrip sends one W-bit primary and reports whether a reply came back.
func (r *Rig) SendRoundTrip(timeout time.Duration) (ok bool, err error, panicked any) {
	type out struct {
		ok  bool
		err error
		pn  any
	}
	ch := make(chan out, 1)
	go func() {
		var o out
		defer func() {
			if p := recover(); p != nil {
				o.pn = p
				r.Panics.Add(1)
			}
			ch <- o
		}()
		ctx, cancel := context.WithTimeout(context.Background(), timeout)
		defer cancel()
		rep, e := r.Conn.SendDataMessage(ctx, 1, 1, true, nil)
		o.ok, o.err = e == nil && rep != nil, e
	}()
	select {
	case o := <-ch:
		return o.ok, o.err, o.pn
	case <-time.After(timeout + SendWatchdog):
		return false, ErrSendHung, nil // the call is abandoned (it may return when the connection is closed)
	}
}

// SendRoundTripItem is SendRoundTrip with a body (an ASCII item of n characters).
func (r *Rig) SendRoundTripItem(timeout time.Duration, n int) (ok bool, err error) {
	type out struct {
		ok  bool
		err error
	}
	ch := make(chan out, 1)
	go func() {
		var o out
		defer func() {
			if p := recover(); p != nil {
				r.Panics.Add(1)
			}
			ch <- o
		}()
		ctx, cancel := context.WithTimeout(context.Background(), timeout)
		defer cancel()
		rep, e := r.Conn.SendDataMessage(ctx, 1, 1, true, secs2.A(strings.Repeat("x", n)))
		o.ok, o.err = e == nil && rep != nil, e
	}()
	select {
	case o := <-ch:
		return o.ok, o.err
	case <-time.After(timeout + SendWatchdog):
		return false, ErrSendHung
	}
}

// SendWatchdog: how long past its own context timeout a send may take before it is reported hung.
const SendWatchdog = 3 * time.Second

// ErrSendHung is returned by SendRoundTrip when SendDataMessage ignored its context.
var ErrSendHung = errors.New("rig: SendDataMessage did not return within its context timeout + 3 s")

var _ = io.EOF
