package lc

import (
	"time"
)

// A minimal SEMI E4 (SECS-I) line peer for the life-cycle rigs: it grants the line, receives and
// acknowledges blocks, answers W-bit primaries with a one-block secondary, handles contention for
// its role, and can KILL THE LINK at every position of an exchange:
//
//	library-initiated exchange (the library sends a block)      peer-initiated exchange (the peer sends the reply)
//	  O1 library's ENQ read, EOT not yet sent                    P1 peer's ENQ written (delivered), library's EOT not yet read
//	  O2 EOT sent, length byte not yet read                      P2 library's EOT read, nothing of the block written
//	  O3 length byte read                                        P3 half of the block written
//	  O4 half of the block read                                  P4 whole block written, library's ACK not yet read
//	  O5 whole block read, ACK not yet sent                      P5 library's ACK read
//	  O6 ACK sent
//
// Plan.E4Under selects the way the link dies: the peer closes its end, or the harness closes the
// library's end of the pipe underneath it (both are what a net.Pipe offers for an abortive loss).
const (
	e4ENQ byte = 0x05
	e4EOT byte = 0x04
	e4ACK byte = 0x06
	e4NAK byte = 0x15
)

// E4Stages lists the cut positions.
var E4Stages = []string{"O1", "O2", "O3", "O4", "O5", "O6", "P1", "P2", "P3", "P4", "P5"}

// kill ends the link the way the plan says and logs it.
func (p *Peer) kill() {
	if p.plan.E4Under && p.lib != nil {
		p.mu.Lock()
		already := p.closed
		p.mu.Unlock()
		if !already {
			_ = p.lib.Close() // the library's own end, beneath its tracking wrapper
		}
	}
	p.Close()
}

// at reports whether the link must die at this stage (first time the stage is reached).
func (p *Peer) at(stage string) bool {
	if p.plan.E4Cut == stage {
		p.kill()
		return true
	}
	return false
}

func (p *Peer) rd(n int) ([]byte, bool) {
	buf := make([]byte, n)
	got := 0
	for got < n {
		_ = p.c.SetReadDeadline(time.Now().Add(5 * time.Second))
		k, err := p.c.Read(buf[got:])
		got += k
		p.mu.Lock()
		p.in += k
		p.mu.Unlock()
		if err != nil {
			return nil, false
		}
	}
	return buf, true
}

func (p *Peer) wr(b []byte) bool {
	_ = p.c.SetWriteDeadline(time.Now().Add(2 * time.Second))
	k, err := p.c.Write(b)
	p.mu.Lock()
	p.out += k
	p.mu.Unlock()
	return err == nil
}

// recvBlock: the library's ENQ has been read; grant the line, take one block, ACK it.
// It returns the 10-byte header (nil on failure / link death).
func (p *Peer) recvBlock(cuts bool) []byte {
	if cuts && p.at("O1") {
		return nil
	}
	if !p.wr([]byte{e4EOT}) {
		return nil
	}
	if cuts && p.at("O2") {
		return nil
	}
	lb, ok := p.rd(1)
	if !ok {
		return nil
	}
	n := int(lb[0])
	if n < 10 || n > 254 {
		return nil
	}
	if cuts && p.at("O3") {
		return nil
	}
	half := (n + 2) / 2
	a, ok := p.rd(half)
	if !ok {
		return nil
	}
	if cuts && p.at("O4") {
		return nil
	}
	b, ok := p.rd(n + 2 - half)
	if !ok {
		return nil
	}
	all := append(a, b...)
	sum := 0
	for _, v := range all[:n] {
		sum += int(v)
	}
	if sum&0xFFFF != int(all[n])<<8|int(all[n+1]) {
		_ = p.wr([]byte{e4NAK})
		return nil
	}
	if cuts && p.at("O5") {
		return nil
	}
	if !p.wr([]byte{e4ACK}) {
		return nil
	}
	if cuts && p.at("O6") {
		return nil
	}
	return all[:10]
}

// sendBlock sends one header-only block as the initiator. false = the link is gone (or died here).
func (p *Peer) sendBlock(hdr []byte) bool {
	blk := make([]byte, 0, 13)
	blk = append(blk, 10)
	blk = append(blk, hdr...)
	sum := 0
	for _, v := range hdr {
		sum += int(v)
	}
	blk = append(blk, byte(sum>>8), byte(sum))
	for try := 0; try < 4; try++ {
		if !p.wr([]byte{e4ENQ}) {
			return false
		}
		if p.at("P1") {
			return false
		}
		// wait for EOT; an ENQ is contention: the slave (peer of an EQUIPMENT library) yields
		granted := false
		for !granted {
			b, ok := p.rd(1)
			if !ok {
				return false
			}
			switch {
			case b[0] == e4EOT:
				granted = true
			case b[0] == e4ENQ && p.r.Equip:
				if p.recvBlock(false) == nil {
					return false
				}
				if !p.wr([]byte{e4ENQ}) { // contend again after the yield
					return false
				}
			default: // master ignores a contending ENQ, anything else is noise
			}
		}
		if p.at("P2") {
			return false
		}
		half := len(blk) / 2
		if !p.wr(blk[:half]) {
			return false
		}
		if p.at("P3") {
			return false
		}
		if !p.wr(blk[half:]) {
			return false
		}
		if p.at("P4") {
			return false
		}
		b, ok := p.rd(1)
		if !ok {
			return false
		}
		if p.at("P5") {
			return false
		}
		if b[0] == e4ACK {
			return true
		}
	}
	return false
}

func (p *Peer) runE4() {
	if p.plan.DropAfter > 0 {
		go func() {
			select {
			case <-time.After(p.plan.DropAfter):
				p.kill()
			case <-p.Done:
			}
		}()
	}
	for {
		_ = p.c.SetReadDeadline(time.Time{})
		b := make([]byte, 1)
		k, err := p.c.Read(b)
		p.mu.Lock()
		p.in += k
		p.mu.Unlock()
		if err != nil {
			return
		}
		if b[0] != e4ENQ {
			continue
		}
		hdr := p.recvBlock(true)
		if hdr == nil {
			p.mu.Lock()
			dead := p.closed
			p.mu.Unlock()
			if dead {
				return
			}
			continue // a NAK'd / garbled block: the library retries
		}
		stream, fn, w := hdr[2]&0x7F, hdr[3], hdr[2]&0x80 != 0
		if !w || fn%2 == 0 || stream == 9 {
			continue // secondaries, S9Fx, W-clear primaries: nothing to answer
		}
		p.DataSeen.Add(1)
		if p.plan.MuteData {
			continue
		}
		// the secondary: same device id and system bytes, R-bit directed at the library's role
		// (an equipment accepts R=0, a host R=1), one block, E-bit set
		rep := make([]byte, 10)
		copy(rep, hdr)
		rep[0] &= 0x7F
		if !p.r.Equip {
			rep[0] |= 0x80
		}
		rep[2] = stream
		rep[3] = fn + 1
		rep[4], rep[5] = 0x80, 0x01
		if !p.sendBlock(rep) {
			p.mu.Lock()
			dead := p.closed
			p.mu.Unlock()
			if dead {
				return
			}
		}
	}
}
