// Harness for C10 (Open/Close are safe from any state: bounded, idempotent, leak-free, reopenable).
//
// A REAL hsmsss connection (public API; all sockets/listeners harness-owned over net.Pipe) is driven
// through
//
//	seq    scripted sequential life cycles, both roles: open / already-open / close / close again /
//	       reopen / round trip, hygiene after every Close
//	hist   random histories: several goroutines issue Open (blocking or background), Close, sends,
//	       UpdateConfigOptions and State while the peer connects, answers, stalls, rejects, refuses
//	       dials or cuts the stream; hygiene at every calm Close and after the final one
//	block  the deterministic reproduction of DESIGN §5 #9 (Close behind a blocking Open)
//
// Implementation-level oracle (no reference to the model): after each calm Close — no goroutine
// created by library code is alive (filtered runtime.Stack dump), every conn/listener handed out
// saw Close(), the reconnecting gauge is 0, State() is NotConnected, no dialer call until the next
// Open call; Close latency <= closeTimeout + 1 s; ErrAlreadyOpen exactly when open (solo calls);
// no panic. Every history's log also goes, as observation tokens, through the extracted monitor
// ok_C10 (driver).
package main

import (
	"context"
	"errors"
	"flag"
	"fmt"
	"strings"
	"sync"
	"time"

	"github.com/arloliu/go-secs/v2/hsms"

	"verifharness/cmd/c10/lc"
	"verifharness/vh"
)

var pass = flag.String("pass", "hist", "seq|hist|block|blackhole|armpark|acceptrace|closestall")

const closeSlack = time.Second

// vh.Ctx is single-threaded; worker goroutines report through these.
var cmu sync.Mutex

type sctx struct{ c *vh.Ctx }

func (s sctx) Fail(what, kase string) { cmu.Lock(); s.c.Fail(what, kase); cmu.Unlock() }
func (s sctx) Count(b string)         { cmu.Lock(); s.c.Count(b); cmu.Unlock() }
func (s sctx) Note(n string)          { cmu.Lock(); s.c.Note(n); cmu.Unlock() }

func role(active bool) string {
	if active {
		return "active"
	}
	return "passive"
}

func rname(r *lc.Rig) string {
	if r.Secs1 {
		return "secs1-" + role(r.Active)
	}
	return role(r.Active)
}

// judge applies the implementation-level oracle to one history's log and writes the case line.
func judge(c *vh.Ctx, r *lc.Rig, tag string) {
	evs := r.Events()
	closed := false // a calm Close returned, no Open call since
	open, unknown := false, false
	desc := func() string { return tag + " " + rname(r) + " | " + lc.Tokens(evs) }
	abandoned := false
	for _, e := range evs {
		if abandoned {
			break
		}
		switch e.K {
		case "OC":
			closed = false
		case "OR":
			switch e.Res {
			case "panic":
				c.Fail("C10: Open panicked", desc())
			case "hung":
				c.Fail("C10: Open did not return within its context timeout + 15 s", desc())
				abandoned = true
			case "already":
				if e.Solo && !unknown && !open {
					c.Fail("C10: ErrAlreadyOpen from a connection that is not open", desc())
				}
				if e.Solo {
					open, unknown = true, false
				} else {
					unknown = true
				}
			case "start":
				if e.Solo && !unknown && open {
					c.Fail("C10: Open on an open connection did not return ErrAlreadyOpen", desc())
				}
				open, unknown = false, !e.Solo
			default:
				if e.Solo && !unknown && open {
					c.Fail("C10: Open on an open connection did not return ErrAlreadyOpen", desc())
				}
				open, unknown = true, !e.Solo
			}
		case "CR":
			switch e.Res {
			case "panic":
				c.Fail("C10: Close panicked", desc())
			case "hung":
				c.Fail("C10: Close did not return within 15 s", desc())
				abandoned = true
			case "notopen":
				if e.Solo && !unknown && open {
					c.Fail("C10: Close returned ErrNotOpen on an open connection", desc())
				}
			default:
				if e.Solo {
					open, unknown, closed = false, false, true
					if e.N[0] != 0 {
						c.Fail("C10: library goroutines alive after Close returned", desc())
					}
					if e.N[1] != 0 {
						c.Fail("C10: conn/listener handed to the library not closed after Close returned", desc())
					}
					if e.N[2] != 0 {
						c.Fail("C10: reconnect loop live after Close returned", desc())
					}
					if e.N[3] != 0 {
						c.Fail("C10: State() not NotConnected after Close returned", desc())
					}
				} else {
					open, unknown = false, true
				}
			}
		case "D":
			if closed {
				c.Fail("C10: dialer/listener invoked after Close returned and before the next Open", desc())
			}
		}
	}
	line := "E " + desc()
	c.Case(line, line, true)
}

func checkCloseLatency(c0 *vh.Ctx, r *lc.Rig, res lc.CloseRes, tag string) {
	c := sctx{c0}
	if res.Elapsed > r.CloseTimeout+closeSlack {
		what := "C10: Close exceeded closeTimeout + slack"
		if res.Blocked {
			what = "C10: Close blocked behind a blocking Open that has not reached Selected"
		}
		c.Fail(what, fmt.Sprintf("%s %s closeTimeout_ms=%d blocked_by_open=%v elapsed_ms>%d", tag, rname(r),
			r.CloseTimeout.Milliseconds(), res.Blocked, (r.CloseTimeout + closeSlack).Milliseconds()))
	}
	if res.Calm && res.Goroutines != 0 {
		var fs []string
		for _, g := range res.Stacks {
			fs = append(fs, lc.TopFrames(g))
		}
		c.Note("leaked: " + strings.Join(fs, " ; "))
	}
}

// ---------------------------------------------------------------------------------------------

// ensureOpenPass: a redundant Open WHILE a reconnect loop is in flight (after a drop with the peer
// unreachable; on the OpenBackground cold-peer path; passive with the listen failing) must return
// ErrAlreadyOpen and have NO side effect: the lifecycle fences read through the verif hook
// (shutdown, reconnectGen, supervisor, current generation) are identical before and after, the loop
// is still alive, and once the peer is reachable the connection re-selects by itself.
func ensureOpenPass(c *vh.Ctx) {
	type sc struct {
		name   string
		active bool
		cold   bool
	}
	for _, x := range []sc{{"after-drop", true, false}, {"cold-peer", true, true}, {"listen-failing", false, false}} {
		cfg := lc.DefaultCfg()
		cfg.BackoffInit, cfg.BackoffMult, cfg.T5 = 5*time.Millisecond, 1, 5*time.Millisecond
		const nfail = 16
		r, err := lc.New(x.active, cfg, func(n int) lc.Plan {
			if !x.active {
				if n < 0 { // listen calls: the first succeeds, the next nfail fail
					k := -1 - n
					return lc.Plan{ListenErr: k >= 1 && k <= nfail}
				}
				p := lc.Normal()
				if n == 0 {
					p.DropAfter = 3 * time.Millisecond
				}
				return p
			}
			first := 0
			if !x.cold {
				first = 1
				if n == 0 {
					p := lc.Normal()
					p.DropAfter = 3 * time.Millisecond
					return p
				}
			}
			if n < first+nfail {
				return lc.Refused()
			}
			return lc.Normal()
		})
		if err != nil {
			c.Fail("C10: cannot build a connection", err.Error())
			continue
		}
		tag := "ensure-open:" + x.name
		stop := make(chan struct{})
		if !x.active {
			go func() {
				for {
					select {
					case <-stop:
						return
					default:
					}
					r.PeerConnect(5 * time.Millisecond)
					time.Sleep(time.Millisecond)
				}
			}()
		}
		if o := r.Open(false, 2*time.Second); o.Class != "ok" {
			c.Fail("C10: Open(background) failed", tag+": "+o.Class)
		}
		// wait until a reconnect loop is in flight: the gauge is up and at least one retry has failed
		failed := func() int {
			n := 0
			for _, e := range r.Events() {
				if e.K == "D" && (e.Res == "refused" || e.Res == "listenerr") {
					n++
				}
			}
			return n
		}
		dl := time.Now().Add(3 * time.Second)
		for time.Now().Before(dl) && !(failed() >= 2 && r.Conn.Metrics().Reconnecting() >= 1) {
			time.Sleep(200 * time.Microsecond)
		}
		if r.Conn.Metrics().Reconnecting() < 1 {
			c.Fail("C10: harness: no reconnect loop in flight", tag)
		}
		pokes, changed := 0, ""
		for i := 0; i < 3; i++ {
			before := hsms.VerifLifecycleSnapshot(r.Conn)
			o := r.Open(i%2 == 0, 50*time.Millisecond)
			after := hsms.VerifLifecycleSnapshot(r.Conn)
			if o.Class != "already" {
				c.Fail("C10: Open on an open, reconnecting connection did not return ErrAlreadyOpen", tag+": "+o.Class)
			}
			if !before.Found {
				c.Fail("C10: harness: lifecycle hook did not find the engine", tag)
			}
			// the fences a redundant Open must not touch (the loop itself may legitimately move cur/gauges)
			if before.Shutdown != after.Shutdown || before.ReconnectGen != after.ReconnectGen || before.SupSet != after.SupSet || before.SupStopped != after.SupStopped {
				changed = fmt.Sprintf("shutdown %v->%v reconnectGen_delta=%d supStopped %v->%v", before.Shutdown, after.Shutdown,
					after.ReconnectGen-before.ReconnectGen, before.SupStopped, after.SupStopped)
			}
			pokes++
			time.Sleep(time.Millisecond)
		}
		if changed != "" {
			c.Fail("C10: ErrAlreadyOpen had a side effect on the lifecycle fences", tag+" "+changed)
		}
		// the peer becomes reachable after nfail failures: the connection must re-select by itself
		if !r.WaitState(hsms.SelectedState, 6*time.Second) {
			c.Fail("C10: after a redundant Open during reconnect the connection never re-selected", fmt.Sprintf("%s state=%v reconnecting=%d", tag, r.Conn.State(), r.Conn.Metrics().Reconnecting()))
		} else if ok, _, _ := r.SendRoundTrip(time.Second); !ok {
			c.Fail("C10: round trip failed after recovery", tag)
		}
		close(stop)
		res := r.Close()
		checkCloseLatency(c, r, res, tag)
		r.Shutdown()
		c.Count("ensure-open/" + x.name)
		judge(c, r, tag)
		// A <scenario> | <reconnectGen delta of the redundant Opens> <loop alive afterwards>   (model: 0 1)
		line := fmt.Sprintf("A %s | %s %d", x.name, vh.B01(changed != ""), pokes)
		c.Case(line, line, true)
	}
}

// blackholePass: Close while the connect loop is INSIDE a dial to a black-holed peer (the attempt
// neither completes nor is refused; it ends only when its context is cancelled, else after a 30 s
// "OS" timeout) — after an involuntary drop, and during the OpenBackground cold retry; HSMS-SS and
// SECS-I, active role. Close must abort the dial through its context and return within
// closeTimeout + slack; afterwards: NotConnected, clean, second Close nil, no further dial.
// Model correspondence: the loop at LcLStart LcSP0 with LcLDial false enabled (the dial returning an
// error when its generation is torn down by LcSupClose), then LcLFailWaited / LcLSleepCancel /
// LcLFenceStep exit and LcClose7 — theorem C10_close_clean covers the state Close returns in.
func blackholePass(c *vh.Ctx) {
	for _, s1 := range []bool{false, true} {
		for _, cold := range []bool{false, true} {
			cfg := lc.DefaultCfg()
			cfg.CloseTimeout = time.Second
			cfg.BackoffInit, cfg.BackoffMult, cfg.T5 = 3*time.Millisecond, 1, 3*time.Millisecond
			plan := func(n int) lc.Plan {
				p := lc.Normal()
				switch {
				case cold && n == 0:
					p.DialErr = true
				case !cold && n == 0:
					p.DropAfter = 5 * time.Millisecond
				default:
					p.DialBlackhole = true
				}
				return p
			}
			mk := lc.New
			if s1 {
				mk = lc.NewSecs1
			}
			r, err := mk(true, cfg, plan)
			if err != nil {
				c.Fail("C10: cannot build a connection", err.Error())
				continue
			}
			tag := "blackhole:after-drop"
			if cold {
				tag = "blackhole:cold-retry"
			}
			if o := r.Open(false, 2*time.Second); o.Class != "ok" {
				c.Fail("C10: Open(background) failed", tag+" "+rname(r)+": "+o.Class)
			}
			inDial := func() bool {
				for _, e := range r.Events() {
					if e.K == "D" && e.Res == "blackhole" {
						return true
					}
				}
				return false
			}
			dl := time.Now().Add(3 * time.Second)
			for time.Now().Before(dl) && !inDial() {
				time.Sleep(200 * time.Microsecond)
			}
			if !inDial() {
				c.Fail("C10: harness: the connect loop never reached the black-holed dial", tag+" "+rname(r))
			}
			time.Sleep(5 * time.Millisecond)
			res := r.Close()
			checkCloseLatency(c, r, res, tag)
			if res.Class == "hung" || res.Elapsed > r.CloseTimeout+closeSlack {
				c.Fail("C10: Close did not abort a connect attempt in flight (blocked behind a black-holed dial)",
					fmt.Sprintf("%s %s closeTimeout_ms=%d class=%s", tag, rname(r), r.CloseTimeout.Milliseconds(), res.Class))
			} else {
				aborted := false
				for _, e := range r.Events() {
					if e.K == "B" && e.Res == "cancelled" {
						aborted = true
					}
				}
				if !aborted {
					c.Fail("C10: Close returned but the black-holed dial was not cancelled through its context", tag+" "+rname(r))
				}
				if res.State != hsms.NotConnectedState || res.Goroutines != 0 || res.OpenConns != 0 || res.Loops != 0 {
					c.Fail("C10: connection not clean after Close during a dial", fmt.Sprintf("%s %s gor=%d handles=%d loops=%d", tag, rname(r), res.Goroutines, res.OpenConns, res.Loops))
				}
				if r2 := r.Close(); r2.Class != "ok" {
					c.Fail("C10: second Close is not nil", tag+" "+rname(r)+": "+r2.Class)
				}
				nd := r.Dials()
				time.Sleep(20 * time.Millisecond)
				if r.Dials() != nd {
					c.Fail("C10: dial after Close", tag+" "+rname(r))
				}
			}
			r.Shutdown()
			c.Count("blackhole/" + rname(r))
			judge(c, r, tag)
		}
	}
}

// armParkPass: a voluntary Close between the reconnect loop's publish of a successor generation and
// the transport's ArmStart. In the code ArmStart runs INSIDE the publishMu section {re-check
// shutdown/reconnectGen; ArmStart; cur.Store}; the verif seam parks the loop at the entry of its
// ArmStart (the few-instruction window widened to tens of milliseconds), Close is called, then the
// loop is released. Whatever the interleaving, when Close has returned: no listener bound / no conn
// open, no library goroutine alive, no later dial, second Close nil, reopen works. Passive HSMS-SS
// and SECS-I, and active (the rig's dialer ignores cancellation, so a late Start gets a live conn).
// Model correspondence: [LcLPublish] performs ArmStart (stopping := false) atomically with the
// publish — that atomic-action assumption is what this scenario checks on the real code; a Stop-seal
// undone after the teardown's seal would break invariant clause 7 (estop1 -> stopping) that fences the
// start gate in [lc_gate].
func armParkPass(c *vh.Ctx) {
	type v struct {
		active, s1 bool
	}
	for _, x := range []v{{false, false}, {false, true}, {true, false}, {true, true}} {
		for _, hold := range []time.Duration{30 * time.Millisecond, 5 * time.Millisecond} {
			cfg := lc.DefaultCfg()
			cfg.BackoffInit, cfg.BackoffMult, cfg.T5 = 2*time.Millisecond, 1, 2*time.Millisecond
			mk := lc.New
			if x.s1 {
				mk = lc.NewSecs1
			}
			r, err := mk(x.active, cfg, func(n int) lc.Plan {
				p := lc.Normal()
				if n == 0 {
					p.DropAfter = 5 * time.Millisecond
				}
				return p
			})
			if err != nil {
				c.Fail("C10: cannot build a connection", err.Error())
				continue
			}
			tag := fmt.Sprintf("armpark:hold=%dms", hold.Milliseconds())
			parked := make(chan struct{}, 1)
			release := make(chan struct{})
			if !hsms.VerifParkTransport(r.Conn, func(n int) {
				if n == 2 { // 1 = Open's ArmStart, 2 = the first reconnect loop's
					parked <- struct{}{}
					select {
					case <-release:
					case <-time.After(5 * time.Second):
					}
				}
			}, nil) {
				c.Fail("C10: harness: park seam did not find the engine", tag+" "+rname(r))
				continue
			}
			stop := make(chan struct{})
			if !x.active {
				go func() {
					for {
						select {
						case <-stop:
							return
						default:
						}
						r.PeerConnect(5 * time.Millisecond)
						time.Sleep(time.Millisecond)
					}
				}()
			}
			if o := r.Open(false, 2*time.Second); o.Class != "ok" {
				c.Fail("C10: Open(background) failed", tag+" "+rname(r)+": "+o.Class)
			}
			select {
			case <-parked:
			case <-time.After(4 * time.Second):
				c.Fail("C10: harness: the reconnect loop never reached ArmStart", tag+" "+rname(r))
			}
			go func() { time.Sleep(hold); close(release) }()
			res := r.Close()
			close(stop)
			checkCloseLatency(c, r, res, tag)
			time.Sleep(20 * time.Millisecond) // anything a late Start brings up shows now
			gor, _ := 0, 0
			if st := lc.LibGoroutines(); len(st) != 0 {
				time.Sleep(200 * time.Millisecond)
				gor = len(lc.LibGoroutines())
			}
			if res.Goroutines != 0 || gor != 0 || r.OpenHandles() != 0 {
				c.Fail("C10: a generation came up after Close returned (listener / conn / goroutines left behind)",
					fmt.Sprintf("%s %s gor_at_close=%d gor_later=%d handles=%d", tag, rname(r), res.Goroutines, gor, r.OpenHandles()))
			}
			if r2 := r.Close(); r2.Class != "ok" {
				c.Fail("C10: second Close is not nil", tag+" "+rname(r)+": "+r2.Class)
			}
			// reopen and close again: a fresh cycle must work
			stop2 := make(chan struct{})
			if !x.active {
				go func() {
					for {
						select {
						case <-stop2:
							return
						default:
						}
						r.PeerConnect(5 * time.Millisecond)
						time.Sleep(time.Millisecond)
					}
				}()
			}
			if o := r.Open(false, 2*time.Second); o.Class != "ok" {
				c.Fail("C10: reopen after Close failed", tag+" "+rname(r)+": "+o.Class)
			} else if !r.WaitState(hsms.SelectedState, 3*time.Second) {
				c.Fail("C10: reopened connection did not reach Selected", tag+" "+rname(r))
			}
			close(stop2)
			res3 := r.Close()
			checkCloseLatency(c, r, res3, tag)
			r.Shutdown()
			c.Count("armpark/" + rname(r))
			judge(c, r, tag)
		}
	}
}

// acceptRacePass: a passive connection with no peer; a peer's connect is dequeued by Accept just
// before / from inside / just after the listener's Close that the application's Close() causes.
// Whatever the instant, once Close() has returned every connection the harness's listener ever
// handed to the library has been closed by the library (the peer end reads EOF), no goroutine is
// left, a second Close is nil and a reopen works. HSMS-SS and SECS-I.
func acceptRacePass(c *vh.Ctx) {
	for _, s1 := range []bool{false, true} {
		for _, mode := range []int{lc.RaceBeforeClose, lc.RaceAtClose, lc.RaceAfterClose} {
			for rep := 0; rep < 3; rep++ {
				cfg := lc.DefaultCfg()
				mk := lc.New
				if s1 {
					mk = lc.NewSecs1
				}
				r, err := mk(false, cfg, func(int) lc.Plan { return lc.Normal() })
				if err != nil {
					c.Fail("C10: cannot build a connection", err.Error())
					continue
				}
				tag := fmt.Sprintf("acceptrace:%s", map[int]string{1: "before-close", 2: "at-close", 3: "after-close"}[mode])
				// state-change notifications, stamped (none may arrive after Close has returned)
				var nmu sync.Mutex
				type note struct {
					t    time.Time
					next hsms.ConnState
				}
				var notes []note
				r.Conn.AddConnStateChangeHandler(func(_, next hsms.ConnState) {
					nmu.Lock()
					notes = append(notes, note{time.Now(), next})
					nmu.Unlock()
				})
				if o := r.Open(false, 2*time.Second); o.Class != "ok" {
					c.Fail("C10: Open(background) failed", tag+" "+rname(r)+": "+o.Class)
					continue
				}
				time.Sleep(time.Duration(rep) * time.Millisecond) // the accept goroutine is parked in Accept
				peerEnd := r.ArmRace(mode, time.Second)
				if peerEnd == nil {
					c.Fail("C10: harness: could not arm the accept race", tag+" "+rname(r))
				} else if !s1 {
					// the late-accepted peer pipelines Select.req and a data primary at once
					go func() {
						_ = peerEnd.SetWriteDeadline(time.Now().Add(500 * time.Millisecond))
						_, _ = peerEnd.Write(append(lc.Enc(r.Sid, 0, 0, 0, 1, 0x71000001, nil), lc.Enc(r.Sid, 0x81, 1, 0, 0, 0x71000002, nil)...))
					}()
				}
				res := r.Close()
				closedAt := time.Now()
				checkCloseLatency(c, r, res, tag)
				if res.Class != "ok" {
					c.Fail("C10: Close of a listening connection failed", tag+" "+rname(r)+": "+res.Class)
				}
				// State() is NotConnected when Close returns and stays so; nothing is notified afterwards;
				// sends are refused
				st0 := r.Conn.State()
				time.Sleep(60 * time.Millisecond)
				st1 := r.Conn.State()
				if st0 != hsms.NotConnectedState || st1 != hsms.NotConnectedState {
					c.Fail("C10: State() is not NotConnected after Close returned (a peer accepted around Close was selected)",
						fmt.Sprintf("%s %s at_return=%v 60ms_later=%v", tag, rname(r), st0, st1))
				}
				nmu.Lock()
				for _, n := range notes {
					if n.t.After(closedAt.Add(5 * time.Millisecond)) {
						c.Fail("C10: state-change notification after Close returned", fmt.Sprintf("%s %s next=%v", tag, rname(r), n.next))
					}
				}
				nmu.Unlock()
				if ok, _, _ := r.SendRoundTrip(50 * time.Millisecond); ok {
					c.Fail("C10: a send succeeded on a closed connection", tag+" "+rname(r))
				}
				func() {
					defer func() {
						if p := recover(); p != nil {
							c.Fail("C10: SendDataMessageAsync panicked on a closed connection", tag+" "+rname(r))
						}
					}()
					ctx, cancel := context.WithTimeout(context.Background(), 50*time.Millisecond)
					defer cancel()
					if err := r.Conn.SendDataMessageAsync(ctx, 1, 1, false, nil); err == nil {
						c.Fail("C10: an async send was accepted on a closed connection", tag+" "+rname(r))
					}
				}()
				taken := !r.RaceLeft()
				if taken && peerEnd != nil {
					// the library accepted the peer's connection: it must have closed it by now
					_ = peerEnd.SetReadDeadline(time.Now().Add(time.Second))
					buf := make([]byte, 64)
					eof := false
					for i := 0; i < 64 && !eof; i++ {
						if _, err := peerEnd.Read(buf); err != nil {
							ne, isNet := err.(interface{ Timeout() bool })
							eof = !(isNet && ne.Timeout())
						}
					}
					if !eof {
						c.Fail("C10: a connection accepted around Close was left open (the peer sees neither EOF nor reset)", tag+" "+rname(r))
					}
				}
				if peerEnd != nil {
					_ = peerEnd.Close()
				}
				if res.Goroutines != 0 || r.OpenHandles() != 0 {
					c.Fail("C10: socket / goroutine left after Close raced an Accept", fmt.Sprintf("%s %s gor=%d handles=%d taken=%v", tag, rname(r), res.Goroutines, r.OpenHandles(), taken))
				}
				if r2 := r.Close(); r2.Class != "ok" {
					c.Fail("C10: second Close is not nil", tag+" "+rname(r)+": "+r2.Class)
				}
				// reopen: a peer connects, Selected, close
				if o := r.Open(false, 2*time.Second); o.Class != "ok" {
					c.Fail("C10: reopen after Close failed", tag+" "+rname(r)+": "+o.Class)
				} else {
					if r.PeerConnect(2*time.Second) == nil || !r.WaitState(hsms.SelectedState, 3*time.Second) {
						c.Fail("C10: reopened connection did not reach Selected", tag+" "+rname(r))
					}
				}
				res3 := r.Close()
				checkCloseLatency(c, r, res3, tag)
				r.Shutdown()
				c.Count(fmt.Sprintf("acceptrace/%s/taken=%v", rname(r), taken))
				judge(c, r, tag)
			}
		}
	}
}

// closeStallPass: a graceful Close from Selected against a peer that is UP BUT NOT READING (the
// courtesy Separate.req written before the teardown cannot be delivered), crossed with the options
// that gate a write bound — WithWriteTimeout(0) ("no bound"), a small value, the 30 s default — with
// and without a send parked awaiting its reply, both roles. Close must return within closeTimeout +
// slack, the parked send must get ErrConnClosed, and the usual hygiene must hold.
func closeStallPass(c *vh.Ctx) {
	for _, active := range []bool{true, false} {
		for _, wt := range []time.Duration{0, 60 * time.Millisecond, -1} {
			for _, parked := range []bool{false, true} {
				cfg := lc.DefaultCfg()
				cfg.WriteTimeout = wt
				cfg.T3 = 5 * time.Second
				cfg.CloseTimeout = 400 * time.Millisecond
				// frames the peer reads before going deaf: active: Select.req (+ the parked primary);
				// passive: Select.rsp (+ the parked primary)
				deafAfter := 1
				if parked {
					deafAfter = 2
				}
				r, err := lc.New(active, cfg, func(int) lc.Plan { p := lc.Normal(); p.StopReadingAfter = deafAfter; p.MuteData = true; return p })
				if err != nil {
					c.Fail("C10: cannot build a connection", err.Error())
					continue
				}
				wtName := map[time.Duration]string{0: "writeTimeout=0", 60 * time.Millisecond: "writeTimeout=60ms", -1: "writeTimeout=default"}[wt]
				tag := fmt.Sprintf("closestall:%s/parked-send=%v", wtName, parked)
				if o := r.Open(false, 2*time.Second); o.Class != "ok" {
					c.Fail("C10: Open(background) failed", tag+" "+rname(r)+": "+o.Class)
					continue
				}
				if !active && r.PeerConnect(2*time.Second) == nil {
					c.Fail("C10: passive connection does not accept a peer", tag)
				}
				if !r.WaitState(hsms.SelectedState, 3*time.Second) {
					c.Fail("C10: connection did not reach Selected", tag+" "+rname(r))
				}
				sendErr := make(chan error, 1)
				if parked {
					go func() { _, err, _ := r.SendRoundTrip(5 * time.Second); sendErr <- err }()
					// wait until the peer has the primary (it is then deaf and mute)
					dl := time.Now().Add(2 * time.Second)
					for time.Now().Before(dl) {
						ps := r.Peers()
						if len(ps) > 0 && ps[len(ps)-1].DataSeen.Load() > 0 {
							break
						}
						time.Sleep(time.Millisecond)
					}
				}
				time.Sleep(5 * time.Millisecond)
				res := r.Close()
				checkCloseLatency(c, r, res, tag)
				if res.Class == "hung" || res.Elapsed > r.CloseTimeout+closeSlack {
					c.Fail("C10: graceful Close against a peer that is not reading did not return within closeTimeout + slack",
						fmt.Sprintf("%s %s closeTimeout_ms=%d class=%s", tag, rname(r), r.CloseTimeout.Milliseconds(), res.Class))
				} else {
					if res.Goroutines != 0 || res.OpenConns != 0 || res.State != hsms.NotConnectedState {
						c.Fail("C10: connection not clean after Close against a stalled peer", fmt.Sprintf("%s %s gor=%d handles=%d", tag, rname(r), res.Goroutines, res.OpenConns))
					}
					if parked {
						select {
						case err := <-sendErr:
							if !errors.Is(err, hsms.ErrConnClosed) {
								c.Fail("C10: a send awaiting its reply was not released with ErrConnClosed by Close", fmt.Sprintf("%s %s: %v", tag, rname(r), err != nil))
							}
						case <-time.After(time.Second):
							c.Fail("C10: a send awaiting its reply was not released by Close", tag+" "+rname(r))
						}
					}
					if r2 := r.Close(); r2.Class != "ok" {
						c.Fail("C10: second Close is not nil", tag+" "+rname(r)+": "+r2.Class)
					}
				}
				r.Shutdown()
				c.Count("closestall/" + rname(r) + "/" + wtName)
				judge(c, r, tag)
			}
		}
	}
}

func seqPass(c *vh.Ctx) {
	ensureOpenPass(c)
	for i := 0; i < c.N; i++ {
		active := i%2 == 0
		s1 := i%4 >= 2 // SECS-I over TCP: same engine, other transport
		cycles := 1 + c.Rng.Intn(3)
		cfg := lc.DefaultCfg()
		if c.Rng.Intn(2) == 0 {
			cfg.Linktest = 10 * time.Millisecond
		}
		mkRig := lc.New
		if s1 {
			mkRig = lc.NewSecs1
		}
		r, err := mkRig(active, cfg, func(int) lc.Plan { return lc.Normal() })
		if err != nil {
			c.Fail("C10: cannot build a connection", err.Error())
			continue
		}
		tag := fmt.Sprintf("seq%d", i)
		if res := r.Close(); res.Class != "notopen" {
			c.Fail("C10: Close on a never-opened connection is not ErrNotOpen", tag+" "+res.Class)
		}
		for k := 0; k < cycles; k++ {
			wait := active && c.Rng.Intn(2) == 0
			o := r.Open(wait, 3*time.Second)
			if o.Class != "ok" {
				c.Fail("C10: Open of a closed/fresh connection failed", fmt.Sprintf("%s cycle %d wait=%v: %s", tag, k, wait, o.Class))
				break
			}
			if !active {
				if r.PeerConnect(2*time.Second) == nil {
					c.Fail("C10: passive connection does not accept a peer after Open", fmt.Sprintf("%s cycle %d", tag, k))
					break
				}
			}
			if !r.WaitState(hsms.SelectedState, 3*time.Second) {
				c.Fail("C10: connection did not reach Selected", fmt.Sprintf("%s cycle %d", tag, k))
			}
			// already open: blocking and background
			if a := r.Open(c.Rng.Intn(2) == 0, time.Second); a.Class != "already" {
				c.Fail("C10: Open on an open connection did not return ErrAlreadyOpen", fmt.Sprintf("%s cycle %d: %s", tag, k, a.Class))
				if a.Class == "hung" {
					break
				}
			}
			if r.Conn.State() != hsms.SelectedState {
				c.Fail("C10: a refused Open disturbed the session", fmt.Sprintf("%s cycle %d", tag, k))
			}
			if s1 {
				// the scripted SECS-I peer does not speak E4: the send must FAIL cleanly (bounded, no panic)
				if ok, _, pn := r.SendRoundTrip(time.Second); ok || pn != nil {
					c.Fail("C10: SECS-I send against a mute line did not fail cleanly", fmt.Sprintf("%s cycle %d ok=%v %v", tag, k, ok, pn))
				}
			} else if ok, err, pn := r.SendRoundTrip(time.Second); !ok || pn != nil {
				c.Fail("C10: round trip on a (re)opened connection failed", fmt.Sprintf("%s cycle %d: %v %v", tag, k, err, pn))
			}
			c.Count(fmt.Sprintf("seq/%s/cycle", rname(r)))
			res := r.Close()
			checkCloseLatency(c, r, res, tag)
			if res.Class != "ok" {
				c.Fail("C10: Close of an open connection failed", fmt.Sprintf("%s cycle %d: %s", tag, k, res.Class))
			}
			// idempotent
			t0 := time.Now()
			res2 := r.Close()
			if res2.Class != "ok" || time.Since(t0) > closeSlack {
				c.Fail("C10: second Close is not an immediate nil", fmt.Sprintf("%s cycle %d: %s", tag, k, res2.Class))
			}
			if ok, _, _ := r.SendRoundTrip(50 * time.Millisecond); ok {
				c.Fail("C10: a send succeeded on a closed connection", tag)
			}
		}
		r.Shutdown()
		judge(c, r, tag)
	}
}

// ---------------------------------------------------------------------------------------------

func randPlan(c *vh.Ctx, active bool, mu *sync.Mutex) lc.Plan {
	mu.Lock()
	defer mu.Unlock()
	p := lc.Normal()
	switch k := c.Rng.Intn(20); {
	case k < 9:
	case k < 11:
		p.CutOut = c.Rng.Intn(40)
	case k < 13:
		p.CutIn = c.Rng.Intn(40)
	case k == 13:
		p.MuteSelect = true
	case k == 14:
		p.SelectStatus = byte(2 + c.Rng.Intn(3))
	case k == 15:
		p.DropAfter = time.Duration(1+c.Rng.Intn(30)) * time.Millisecond
	case k == 16:
		p.MuteData = true
	case k == 17:
		if active {
			p.DialErr = true
		} else {
			p.StopReading = true
		}
	case k == 18:
		if active {
			p.DialHang = true
		} else {
			p.MuteLinktest = true
		}
	default:
		if active {
			p.DialHangLive = true
		} else {
			p.DropAfter = time.Millisecond
		}
	}
	return p
}

func histPass(c *vh.Ctx) {
	var rmu sync.Mutex // c.Rng is not safe for concurrent use; every draw happens under rmu
	for i := 0; i < c.N; i++ {
		active := c.Rng.Intn(2) == 0
		cfg := lc.DefaultCfg()
		if c.Rng.Intn(3) == 0 {
			cfg.Linktest = 8 * time.Millisecond
		}
		if active && c.Rng.Intn(3) == 0 {
			cfg.ConnectTimeout = 25 * time.Millisecond
		}
		planMu := &rmu
		mkRig := lc.New
		if c.Rng.Intn(4) == 0 {
			mkRig = lc.NewSecs1
		}
		r, err := mkRig(active, cfg, func(n int) lc.Plan {
			if n < 0 { // listen call
				planMu.Lock()
				bad := c.Rng.Intn(12) == 0
				planMu.Unlock()
				return lc.Plan{ListenErr: bad}
			}
			return randPlan(c, active, planMu)
		})
		if err != nil {
			c.Fail("C10: cannot build a connection", err.Error())
			continue
		}
		tag := fmt.Sprintf("hist%d", i)
		nw := 2 + c.Rng.Intn(3)
		type op struct {
			k     int
			d     time.Duration
			pause time.Duration
		}
		scripts := make([][]op, nw)
		for w := range scripts {
			n := 3 + c.Rng.Intn(6)
			for j := 0; j < n; j++ {
				scripts[w] = append(scripts[w], op{k: c.Rng.Intn(10), d: time.Duration(20+c.Rng.Intn(150)) * time.Millisecond,
					pause: time.Duration(c.Rng.Intn(15)) * time.Millisecond})
			}
		}
		stop := make(chan struct{})
		var wg sync.WaitGroup
		if !active {
			wg.Add(1)
			go func() { // peers keep trying to connect
				defer wg.Done()
				for {
					select {
					case <-stop:
						return
					default:
					}
					r.PeerConnect(10 * time.Millisecond)
					time.Sleep(3 * time.Millisecond)
				}
			}()
		}
		var wwg sync.WaitGroup
		c0 := c
		for w := 0; w < nw; w++ {
			wwg.Add(1)
			go func(ops []op) {
				c := sctx{c0}
				defer wwg.Done()
				for _, o := range ops {
					time.Sleep(o.pause)
					switch {
					case o.k <= 1:
						res := r.Open(true, o.d)
						c.Count("hist/open-wait/" + res.Class)
					case o.k <= 3:
						res := r.Open(false, o.d)
						c.Count("hist/open-bg/" + res.Class)
					case o.k <= 5:
						res := r.Close()
						checkCloseLatency(c0, r, res, tag)
						c.Count("hist/close/" + res.Class + "/calm=" + vh.B01(res.Calm))
					case o.k <= 7:
						ok, _, pn := r.SendRoundTrip(o.d)
						if pn != nil {
							c.Fail("C10: SendDataMessage panicked", tag)
						}
						c.Count("hist/send/ok=" + vh.B01(ok))
					case o.k == 8:
						func() {
							defer func() {
								if p := recover(); p != nil {
									c.Fail("C10: UpdateConfigOptions panicked", tag)
								}
							}()
							_ = r.Conn.UpdateConfigOptions(hsms.WithT5(o.d), hsms.WithCloseTimeout(r.CloseTimeout))
						}()
						c.Count("hist/updatecfg")
					default:
						_ = r.Conn.State()
						func() {
							defer func() {
								if p := recover(); p != nil {
									c.Fail("C10: SendDataMessageAsync panicked", tag)
								}
							}()
							ctx, cancel := context.WithTimeout(context.Background(), o.d)
							_ = r.Conn.SendDataMessageAsync(ctx, 1, 1, false, nil)
							cancel()
						}()
						c.Count("hist/async")
					}
				}
			}(scripts[w])
		}
		done := make(chan struct{})
		go func() { wwg.Wait(); close(done) }()
		select {
		case <-done:
		case <-time.After(20 * time.Second):
			c.Fail("C10: an API call blocked beyond every documented bound (history did not finish in 20 s)", tag+" "+rname(r))
		}
		close(stop)
		wg.Wait()
		// final Close: calm by construction
		res := r.Close()
		checkCloseLatency(c, r, res, tag)
		if !res.Calm && res.Class != "hung" {
			c.Fail("C10: harness: final Close was not calm", tag)
		}
		r.Shutdown()
		c.Count("hist/" + rname(r))
		judge(c, r, tag)
	}
}

// ---------------------------------------------------------------------------------------------

// blockPass reproduces DESIGN §5 #9: goroutine A is inside Open(OpenWaitSelected) against a peer
// that reads but never answers Select (T6 = T7 = 2.5 s); goroutine B calls Close 100 ms later with
// closeTimeout = 200 ms. Close waits on lifeMu until T6 expiry ends A's wait.
func blockPass(c *vh.Ctx) {
	cfg := lc.DefaultCfg()
	cfg.T6, cfg.T7 = 2500*time.Millisecond, 2500*time.Millisecond
	cfg.CloseTimeout = 200 * time.Millisecond
	r, err := lc.New(true, cfg, func(int) lc.Plan { p := lc.Normal(); p.MuteSelect = true; return p })
	if err != nil {
		c.Fail("C10: cannot build a connection", err.Error())
		return
	}
	var ores lc.OpenRes
	var wg sync.WaitGroup
	wg.Add(1)
	go func() { defer wg.Done(); ores = r.Open(true, 5*time.Second) }()
	time.Sleep(100 * time.Millisecond)
	res := r.Close()
	wg.Wait()
	checkCloseLatency(c, r, res, "block")
	c.Count("block/close-elapsed-over-bound=" + vh.B01(res.Elapsed > r.CloseTimeout+closeSlack))
	c.Count("block/open=" + ores.Class)
	// afterwards the connection must still be clean
	res2 := r.Close()
	if !res2.Calm || res2.Goroutines != 0 || res2.OpenConns != 0 {
		c.Fail("C10: connection not clean after the blocked Close", fmt.Sprintf("block gor=%d handles=%d", res2.Goroutines, res2.OpenConns))
	}
	r.Shutdown()
	judge(c, r, "block")
}

func main() {
	c := vh.New()
	switch *pass {
	case "seq":
		seqPass(c)
	case "hist":
		histPass(c)
	case "block":
		blockPass(c)
	case "blackhole":
		blackholePass(c)
	case "armpark":
		armParkPass(c)
	case "acceptrace":
		acceptRacePass(c)
	case "closestall":
		closeStallPass(c)
	default:
		c.Note("unknown pass " + *pass)
	}
	c.Finish()
}
