// Harness for C07 (data messages flow only while Selected; pipelined data after select is accepted).
//
// Against the CURRENT /repo, over net.Pipe through the public WithDialer / WithListener options:
//
//	E lines  e2e matrix {never opened, closed, connecting, connected-not-selected, deselected, between
//	         generations} x {sync, secs2, sync W-clear, async, reply, forward, forward-async} x {active,
//	         passive}: return-code class, drop-counter delta, bytes seen by the peer; inbound data
//	         while not selected (Reject reason 4 echoing session id and system bytes, no handler call,
//	         link stays up, control traffic unaffected); the extracted monitor ok_C07 judges each log.
//	E lines  pipelining: Select.req ++ data* (passive) / Select.rsp(0) ++ data* (active) written by the
//	         peer with EVERY cut point of the concatenated bytes (and random 3-way splits).
//	T lines  deterministic gate scenarios compared for EQUALITY with the model run (incl. the
//	         write-boundary re-check B2, placed with the existing after-write-lock seam).
//
// Independently of the model the harness applies the property itself (c.Fail).
package main

import (
	"context"
	"fmt"
	"math/rand"
	"strings"
	"time"

	"github.com/arloliu/go-secs/v2/hsms"
	"github.com/arloliu/go-secs/v2/hsmsss"

	"verifharness/cmd/c06/sc"
	"verifharness/vh"
)

const (
	t3 = 80 * time.Millisecond
	t6 = 10 * time.Second
)

var conditions = []string{"never-opened", "closed", "connecting", "not-selected", "not-selected-orphan-selrsp", "deselected", "deselected-fast", "between-generations"}

func main() {
	c := vh.New()
	reps := c.N
	if reps < 1 {
		reps = 1
	}
	for rep := 0; rep < reps; rep++ {
		r := rand.New(rand.NewSource(c.Rng.Int63()))
		for _, active := range []bool{false, true} {
			for _, cond := range conditions {
				matrixCell(c, r, cond, active)
			}
			pipelining(c, r, active)
			gateScenarios(c, active)
		}
	}
	c.Finish()
}

func role(active bool) string {
	if active {
		return "active"
	}
	return "passive"
}

type cell struct {
	c      *vh.Ctx
	e      *sc.Env
	p      *sc.Peer
	what   string
	nextID int64
	failed bool
}

func (x *cell) fail(msg string) {
	x.failed = true
	x.c.Fail("rig: "+msg, x.what+" | "+sc.Render(x.e.Rec.Entries()))
}

// establish brings the connection into the named not-selected condition. It returns whether a
// peer is connected (so inbound / control traffic can be exercised) and whether the connection was
// ever opened.
func (x *cell) establish(cond string, active bool) (peerUp bool, opened bool, ok bool) {
	e := x.e
	openBg := func() bool {
		if err := e.Open(false); err != nil {
			x.fail("Open: " + err.Error())
			return false
		}
		return true
	}
	connect := func() bool {
		p, err := e.Connect(3 * time.Second)
		if err != nil {
			x.fail("Connect: " + err.Error())
			return false
		}
		x.p = p
		return true
	}
	switch cond {
	case "never-opened":
		return false, false, true
	case "closed":
		if !openBg() || !connect() {
			return false, true, false
		}
		if err := e.Select(x.p, 0xE0000001); err != nil {
			x.fail("Select: " + err.Error())
			return false, true, false
		}
		if err := e.Close(); err != nil {
			x.c.Note("Close: " + err.Error())
		}
		x.p.Close()
		x.p = nil
		return false, true, true
	case "connecting":
		if active {
			// the dial is held: Open blocks inside Start, the epoch is already published
			e.Down()
			e.NextGen()
			go func() {
				ctx, cancel := context.WithTimeout(context.Background(), 10*time.Second)
				defer cancel()
				_ = e.Conn.Open(ctx, hsms.OpenBackground)
			}()
			time.Sleep(20 * time.Millisecond)
			return false, true, true
		}
		if !openBg() {
			return false, true, false
		}
		return false, true, true // listening, nobody connected
	case "not-selected", "not-selected-orphan-selrsp":
		if !openBg() || !connect() {
			return false, true, false
		}
		if active {
			// the library's Select.req stays unanswered (T6 is long)
			if _, ok := x.p.Wait(3*time.Second, func(f sc.Frame) bool { return f.ST == 1 }, nil); !ok {
				x.fail("no Select.req")
				return true, true, false
			}
		}
		if err := e.WaitState(hsms.NotSelectedState, 3*time.Second); err != nil {
			x.fail(err.Error())
			return true, true, false
		}
		if cond == "not-selected-orphan-selrsp" {
			// an ORPHAN Select.rsp(0): system bytes of no open Select transaction (passive: none was
			// ever sent; active: the own Select.req is still unanswered and has other system bytes).
			// It must be answered Reject(3) and must NOT select the session.
			orphan := sc.SelectRsp(e.Sid, 0, 0xD0000001)
			if _, err := x.p.SendF(orphan); err != nil {
				x.fail("orphan Select.rsp: " + err.Error())
				return true, true, false
			}
			var rej []sc.Frame
			if !x.p.Barrier(func(f sc.Frame) {
				if f.ST == 7 {
					rej = append(rej, f)
				}
			}) {
				x.fail("barrier after the orphan Select.rsp")
				return true, true, false
			}
			if len(rej) != 1 || rej[0].B3 != 3 || rej[0].Sys != orphan.Sys || rej[0].B2 != 2 {
				x.c.Fail("C07: an orphan Select.rsp(0) was not answered with exactly one Reject(reason 3) echoing its SType and system bytes",
					x.what+" | "+sc.Render(e.Rec.Entries()))
			}
			if st := e.Conn.State(); st != hsms.NotSelectedState {
				x.c.Fail(fmt.Sprintf("C07: an orphan Select.rsp(0) moved the connection to %v", st), x.what+" | "+sc.Render(e.Rec.Entries()))
			}
		}
		return true, true, true
	case "deselected", "deselected-fast":
		if !openBg() || !connect() {
			return false, true, false
		}
		if err := e.Select(x.p, 0xE0000001); err != nil {
			x.fail("Select: " + err.Error())
			return true, true, false
		}
		if cond == "deselected" {
			// let the supervisor react to the select before the peer deselects (the fast variant
			// does not wait: DESIGN.md §5 #1 / known finding C07-deselect-replay)
			if err := e.WaitNotified(hsms.SelectedState, 1, 3*time.Second); err != nil {
				x.fail(err.Error())
				return true, true, false
			}
		}
		ns0 := e.NotifCount(hsms.NotSelectedState)
		if _, err := x.p.SendF(sc.DeselectReq(e.Sid, 0xE0000002)); err != nil {
			x.fail("Deselect.req: " + err.Error())
			return true, true, false
		}
		rsp, ok := x.p.Wait(3*time.Second, func(f sc.Frame) bool { return f.ST == 4 && f.Sys == 0xE0000002 }, nil)
		if !ok {
			x.fail("no Deselect.rsp")
			return true, true, false
		}
		// let the supervisor settle: either it reports the select-lost (one more NotSelected
		// notification), or - when the select itself was never reported - nothing more is due; a
		// supervisor that replays the select echo shows up as State() == Selected (DESIGN.md §5 #1)
		_ = e.WaitNotified(hsms.NotSelectedState, ns0+1, 300*time.Millisecond)
		if e.Conn.State() != hsms.NotSelectedState {
			if rsp.B3 == 0 && e.Conn.State() == hsms.SelectedState {
				x.failed = true
				x.c.Count("oracle/selected-after-deselect")
				x.c.Fail("C07: State() is Selected after the peer's Deselect.req was answered Deselect.rsp(0): data sends are not refused while deselected",
					x.what+" | "+sc.Render(e.Rec.Entries()))
			} else {
				x.fail(fmt.Sprintf("deselect did not settle: state %v", e.Conn.State()))
			}
			return true, true, false
		}
		return true, true, true
	case "between-generations":
		if !openBg() || !connect() {
			return false, true, false
		}
		if err := e.Select(x.p, 0xE0000001); err != nil {
			x.fail("Select: " + err.Error())
			return false, true, false
		}
		e.Down()
		x.p.Close() // involuntary drop: the reconnect loop waits (passive: nobody dials; active: dial held)
		x.p = nil
		if err := e.WaitState(hsms.NotConnectedState, 3*time.Second); err != nil {
			x.fail(err.Error())
			return false, true, false
		}
		e.NextGen()
		time.Sleep(time.Duration(5+rand.Intn(40)) * time.Millisecond) // somewhere in teardown / backoff / re-listen
		return false, true, true
	}
	return false, false, false
}

func matrixCell(c *vh.Ctx, r *rand.Rand, cond string, active bool) {
	e, err := sc.NewEnv(active, 1, t3, t6)
	if err != nil {
		c.Fail("rig: NewEnv", err.Error())
		return
	}
	x := &cell{c: c, e: e, what: "matrix " + cond + "/" + role(active)}
	peerUp, opened, ok := x.establish(cond, active)
	defer func() {
		if cond == "connecting" && active {
			e.AllowDial() // let the blocked Open finish so Close can take lifeMu
			time.Sleep(5 * time.Millisecond)
		}
		if opened {
			_ = e.Close()
		}
		if x.p != nil {
			x.p.Close()
		}
	}()
	if !ok {
		return
	}
	if peerUp && !x.p.Barrier(nil) {
		x.fail("barrier before the calls")
		return
	}
	e.Cond(opened)
	e.Metric()
	drops0 := e.Conn.Metrics().DataMsgDropNotSelectedCount()
	eps := append([]struct{ Name, Kind string }(nil), sc.EntryPoints...)
	r.Shuffle(len(eps), func(i, j int) { eps[i], eps[j] = eps[j], eps[i] })
	want := "notsel"
	if !opened {
		want = "notopen"
	}
	for _, ep := range eps {
		x.nextID++
		ctx, cancel := context.WithTimeout(context.Background(), 2*time.Second)
		res := e.Call(ctx, ep.Name, x.nextID)
		cancel()
		c.Count("matrix/" + cond + "/" + ep.Name + "/" + res)
		if res != want {
			c.Fail(fmt.Sprintf("C07: %s while %s returned %s, want %s", ep.Name, cond, res, want), x.what+" | "+sc.Render(e.Rec.Entries()))
		}
		d := e.Conn.Metrics().DataMsgDropNotSelectedCount()
		wantD := drops0 + 1
		if !opened {
			wantD = drops0
		}
		if d != wantD {
			c.Fail(fmt.Sprintf("C07: %s while %s moved the drop counter by %d, want %d", ep.Name, cond, d-drops0, wantD-drops0), x.what+" | "+sc.Render(e.Rec.Entries()))
		}
		drops0 = d
	}
	e.Metric()
	if peerUp {
		// control traffic unaffected + nothing of the refused sends reached the peer
		if !x.p.Barrier(nil) {
			x.fail("barrier after the calls (control traffic must be unaffected)")
			return
		}
		inbound(x, r)
	}
	es := e.Rec.Entries()
	log := sc.Render(es)
	for _, en := range es {
		if en.K == 'V' && en.ID >= 1 && en.ID < sc.InternalCallBase {
			c.Fail("C07: a refused data send put bytes on the wire", x.what+" | "+log)
		}
	}
	if !x.failed {
		line := fmt.Sprintf("E %d %d %d | %s", t3.Milliseconds(), t6.Milliseconds(), 1, log)
		c.Case(line, x.what, true)
	}
}

// inbound: data received while not selected => exactly one Reject(4) echoing sid and system bytes,
// no handler call, link stays up; then the session can still be selected and used.
func inbound(x *cell, r *rand.Rand) {
	e, p := x.e, x.p
	e.Cond(true)
	var sent []sc.Frame
	k := 2 + r.Intn(4)
	for i := 0; i < k; i++ {
		b2 := byte(1 + r.Intn(100))
		if r.Intn(2) == 0 {
			b2 |= 0x80
		}
		sid := e.Sid
		if r.Intn(4) == 0 {
			sid = uint16(r.Intn(65536))
		}
		_, f, err := p.SendData(sid, b2, byte(r.Intn(256)), 0xA0000000+uint32(r.Intn(1<<20))*16+uint32(i))
		if err != nil {
			x.fail("peer write: " + err.Error())
			return
		}
		sent = append(sent, f)
	}
	var rejects []sc.Frame
	if !p.Barrier(func(f sc.Frame) {
		if f.ST == 7 {
			rejects = append(rejects, f)
		}
	}) {
		x.fail("barrier after inbound data: the link must stay up")
		return
	}
	what := x.what + " inbound"
	log := func() string { return sc.Render(e.Rec.Entries()) }
	if len(rejects) != len(sent) {
		x.c.Fail(fmt.Sprintf("C07: %d data frames while not selected answered by %d rejects", len(sent), len(rejects)), what+" | "+log())
	}
	for i, f := range sent {
		if i >= len(rejects) {
			break
		}
		rj := rejects[i]
		if rj.B3 != 4 || rj.Sid != f.Sid || rj.Sys != f.Sys || rj.PT != 0 || len(rj.Body) != 0 {
			x.c.Fail("C07: reject for data while not selected does not carry reason 4 / the session id / the system bytes", what+" | "+log())
		}
	}
	select {
	case n := <-e.HSig:
		x.c.Fail(fmt.Sprintf("C07: data frame %d received while not selected was delivered to a handler", n), what+" | "+log())
	default:
	}
	x.c.Count(fmt.Sprintf("inbound/frames=%d", len(sent)))
	// the link is up: select now and make one round trip
	if e.Active {
		return // the library's own Select.req is still pending / already failed; passive side shows the link is usable
	}
	if err := e.Select(p, 0xE0000077); err != nil {
		x.c.Fail("C07: link unusable after rejecting inbound data: "+err.Error(), what+" | "+log())
		return
	}
	_, f, _ := p.SendData(e.Sid, 0x80|7, 1, 0xB0000001)
	select {
	case n := <-e.HSig:
		if v, _ := sc.U4Of(f.Body); int64(v) != n {
			x.c.Fail("C07: wrong frame delivered after select", what+" | "+log())
		}
	case <-time.After(3 * time.Second):
		x.c.Fail("C07: data after select was not delivered", what+" | "+log())
	}
	p.Barrier(nil)
}

// ---------------------------------------------------------------------------------------------
// pipelining: every cut point

func pipelining(c *vh.Ctx, r *rand.Rand, active bool) {
	// learn the byte string once to know its length
	mkData := func(p *sc.Peer, e *sc.Env) ([]sc.Frame, []byte) {
		var fs []sc.Frame
		var bs []byte
		for i, h := range [][2]byte{{0x80 | 1, 1}, {2, 3}, {3, 4}, {0x80 | 4, 13}} {
			h := h
			_, f := e.Rec.AddSent(func(n int64) sc.Frame {
				return sc.Frame{Sid: e.Sid, B2: h[0], B3: h[1], Sys: 0xC0000000 + uint32(i), Body: sc.U4Body(uint32(n))}
			})
			fs = append(fs, f)
			bs = append(bs, f.Wire()...)
		}
		return fs, bs
	}
	total := 14 + 4*20
	var cuts [][]int
	for k := 0; k <= total; k++ {
		cuts = append(cuts, []int{k})
	}
	for i := 0; i < 12; i++ {
		a, b := r.Intn(total+1), r.Intn(total+1)
		if a > b {
			a, b = b, a
		}
		cuts = append(cuts, []int{a, b})
	}
	for _, cut := range cuts {
		e, err := sc.NewEnv(active, 1, t3, t6)
		if err != nil {
			c.Fail("rig: NewEnv", err.Error())
			return
		}
		what := fmt.Sprintf("pipeline %s cut=%v", role(active), cut)
		func() {
			if err := e.Open(false); err != nil {
				c.Fail("rig: Open", err.Error())
				return
			}
			defer e.Close()
			p, err := e.Connect(3 * time.Second)
			if err != nil {
				c.Fail("rig: Connect", err.Error())
				return
			}
			defer p.Close()
			var first sc.Frame
			if active {
				req, ok := p.Wait(3*time.Second, func(f sc.Frame) bool { return f.ST == 1 }, nil)
				if !ok {
					c.Fail("rig: no Select.req", what)
					return
				}
				first = sc.SelectRsp(req.Sid, 0, req.Sys)
			} else {
				first = sc.SelectReq(e.Sid, 0xE0000001)
			}
			// log every frame BEFORE any byte is written, then write the concatenation in pieces
			_, _ = e.Rec.AddSent(func(int64) sc.Frame { return first })
			fs, data := mkData(p, e)
			all := append(first.Wire(), data...)
			prev := 0
			for _, k := range append(append([]int(nil), cut...), len(all)) {
				if k > prev {
					_ = p.Conn.SetWriteDeadline(time.Now().Add(5 * time.Second))
					if _, err := p.Conn.Write(all[prev:k]); err != nil {
						c.Fail("rig: peer write", what+": "+err.Error())
						return
					}
					if r.Intn(3) == 0 {
						time.Sleep(time.Duration(r.Intn(300)) * time.Microsecond)
					}
				}
				prev = k
			}
			var rejects int
			if !p.Barrier(func(f sc.Frame) {
				if f.ST == 7 {
					rejects++
				}
			}) {
				c.Fail("rig: barrier", what+" | "+sc.Render(e.Rec.Entries()))
				return
			}
			log := sc.Render(e.Rec.Entries())
			if rejects != 0 {
				c.Fail(fmt.Sprintf("C07: %d data frames pipelined behind the select were rejected", rejects), what+" | "+log)
			}
			var got []int64
			for {
				select {
				case n := <-e.HSig:
					got = append(got, n)
					continue
				default:
				}
				break
			}
			if len(got) != len(fs) {
				c.Fail(fmt.Sprintf("C07: %d of %d pipelined data frames delivered", len(got), len(fs)), what+" | "+log)
			}
			for i := range got {
				if v, _ := sc.U4Of(fs[i].Body); i < len(fs) && int64(v) != got[i] {
					c.Fail("C07: pipelined data delivered out of order", what+" | "+log)
				}
			}
			line := fmt.Sprintf("E %d %d %d | %s", t3.Milliseconds(), t6.Milliseconds(), 1, log)
			c.Case(line, what, true)
			c.Count("pipeline/" + role(active))
		}()
	}
}

// ---------------------------------------------------------------------------------------------
// deterministic gate scenarios: equality with the model

func gateScenarios(c *vh.Ctx, active bool) {
	cx := c
	if active {
		return // the passive role gives a deterministic system-bytes counter; the matrix covers active
	}
	type sn struct {
		name string
		run  func() (acts []string, e *sc.Env, err error)
	}
	mk := func(ep string, selected bool) sn {
		return sn{fmt.Sprintf("%s/selected=%v", ep, selected), func() ([]string, *sc.Env, error) {
			e, err := sc.NewEnv(false, 1, t3, t6)
			if err != nil {
				return nil, nil, err
			}
			var acts []string
			if err := e.Open(false); err != nil {
				return nil, e, err
			}
			acts = append(acts, "N")
			p, err := e.Connect(3 * time.Second)
			if err != nil {
				return nil, e, err
			}
			defer p.Close()
			acts = append(acts, "U")
			if err := e.WaitState(hsms.NotSelectedState, 3*time.Second); err != nil {
				return nil, e, err
			}
			if selected {
				if err := e.Select(p, 7); err != nil {
					return nil, e, err
				}
				acts = append(acts, "P "+sc.SelectReq(e.Sid, 7).M(), "D", "Q1")
				if err := e.WaitNotified(hsms.SelectedState, 1, 3*time.Second); err != nil {
					return nil, e, err
				}
				if _, err := p.SendF(sc.DeselectReq(e.Sid, 8)); err != nil {
					return nil, e, err
				}
				if _, ok := p.Wait(3*time.Second, func(f sc.Frame) bool { return f.ST == 4 }, nil); !ok {
					return nil, e, fmt.Errorf("no Deselect.rsp")
				}
				acts = append(acts, "P "+sc.DeselectReq(e.Sid, 8).M(), "D", "Q1")
				if err := e.WaitState(hsms.NotSelectedState, 3*time.Second); err != nil {
					return nil, e, err
				}
			}
			e.Cond(true)
			e.Metric()
			acts = append(acts, "C", "M")
			res := e.Call(context.Background(), ep, 1)
			_ = res
			var tmpl string
			for _, en := range e.Rec.Entries() {
				if en.K == 'S' && en.ID == 1 {
					f := *en.F
					tmpl = fmt.Sprintf("S 1 %s %s", en.Kind, f.M())
				}
			}
			acts = append(acts, tmpl, "G 1 go", "G 1 go")
			e.Metric()
			acts = append(acts, "M")
			return acts, e, nil
		}}
	}
	// B2: the connection is Selected at the B1 read and deselected (peer Deselect.req, placed with the
	// after-write-lock seam) before the write-boundary re-check.
	mkB2 := func(ep string) sn {
		return sn{"b2/" + ep, func() ([]string, *sc.Env, error) {
			e, err := sc.NewEnv(false, 1, t3, t6)
			if err != nil {
				return nil, nil, err
			}
			var acts []string
			if err := e.Open(false); err != nil {
				return nil, e, err
			}
			p, err := e.Connect(3 * time.Second)
			if err != nil {
				return nil, e, err
			}
			defer p.Close()
			if err := e.Select(p, 7); err != nil {
				return nil, e, err
			}
			if err := e.WaitNotified(hsms.SelectedState, 1, 3*time.Second); err != nil {
				return nil, e, err
			}
			acts = append(acts, "N", "U", "P "+sc.SelectReq(e.Sid, 7).M(), "D", "Q1")
			e.Cond(true)
			e.Metric()
			acts = append(acts, "C", "M")
			returned := make(chan struct{})
			hookErr := make(chan error, 1)
			isAsync := ep == "async" || ep == "forwardasync" || ep == "reply"
			e.SetAfterWriteLock(func() {
				if isAsync {
					<-returned // the enqueueing call has returned (and logged) before the sender's write
				}
				if _, err := p.SendF(sc.DeselectReq(e.Sid, 8)); err != nil {
					hookErr <- err
					return
				}
				hookErr <- e.WaitState(hsms.NotSelectedState, 3*time.Second)
			})
			e.Call(context.Background(), ep, 1)
			close(returned)
			select {
			case err := <-hookErr:
				if err != nil {
					return nil, e, err
				}
			case <-time.After(5 * time.Second):
				return nil, e, fmt.Errorf("after-write-lock seam did not run")
			}
			// the Deselect.rsp is written once the write lock is free
			if _, ok := p.Wait(3*time.Second, func(f sc.Frame) bool { return f.ST == 4 }, nil); !ok {
				return nil, e, fmt.Errorf("no Deselect.rsp")
			}
			if !p.Barrier(nil) {
				return nil, e, fmt.Errorf("barrier")
			}
			es := e.Rec.Entries()
			var tmpl string
			kind := ""
			iR, iV := -1, -1
			for i, en := range es {
				if en.K == 'S' && en.ID == 1 {
					f := *en.F
					kind = en.Kind
					tmpl = fmt.Sprintf("S 1 %s %s", en.Kind, f.M())
				}
				if en.K == 'R' && en.ID == 1 {
					iR = i
				}
				if en.K == 'V' && en.F.ST == 4 {
					iV = i
				}
			}
			des := "P " + sc.DeselectReq(e.Sid, 8).M() + " ; D"
			switch {
			case isAsync:
				// enter, B1 passes, enqueue; then the sender pops it: deselect lands, B2 refuses
				acts = append(acts, tmpl, "G 1 go", "G 1 go", "G 1 eok", des, "Q1", "Q1")
			case kind == "KForward" || ep == "syncnw":
				if iV < iR {
					acts = append(acts, tmpl, "G 1 go", "G 1 go", des, "G 1 go", "Q1", "G 1 go")
				} else {
					acts = append(acts, tmpl, "G 1 go", "G 1 go", des, "G 1 go", "G 1 go", "Q1")
				}
			default: // registering sync send
				if iV < iR {
					acts = append(acts, tmpl, "G 1 go", "G 1 go", "G 1 go", des, "G 1 go", "Q1", "G 1 go")
				} else {
					acts = append(acts, tmpl, "G 1 go", "G 1 go", "G 1 go", des, "G 1 go", "G 1 go", "Q1")
				}
			}
			// implementation-level oracle for the write-boundary re-check: refused, counted once,
			// nothing of the message on the wire
			log := sc.Render(es)
			refused := false
			for _, en := range es {
				if (en.K == 'R' && en.ID == 1 && en.Result == "notsel") || (en.K == 'A' && en.ID == 1 && en.Result == "notsel") {
					refused = true
				}
				if en.K == 'V' && en.ID == 1 {
					cx.Fail("C07: a data message deselected between the B1 gate and the write boundary reached the wire ("+ep+")", log)
				}
			}
			if !refused {
				cx.Fail("C07: a data message deselected between the B1 gate and the write boundary was not refused with not-selected ("+ep+")", log)
			}
			if d := e.Conn.Metrics().DataMsgDropNotSelectedCount(); d != 1 {
				cx.Fail(fmt.Sprintf("C07: write-boundary refusal moved the drop counter by %d, want 1 (%s)", d, ep), log)
			}
			// barrier exchange, then the counter
			var bsys uint32
			for _, en := range es {
				if en.K == 'P' && en.F.ST == 5 {
					bsys = en.F.Sys
				}
			}
			acts = append(acts, "P "+sc.LinktestReq(bsys).M(), "D", "Q1", "B")
			e.Metric()
			acts = append(acts, "M")
			return acts, e, nil
		}}
	}
	// an orphan Select.rsp(0) while connected-not-selected: Reject(3), no commit; the next send is refused
	mkOrphan := func(ep string) sn {
		return sn{"orphan-selrsp/" + ep, func() ([]string, *sc.Env, error) {
			e, err := sc.NewEnv(false, 1, t3, t6)
			if err != nil {
				return nil, nil, err
			}
			if err := e.Open(false); err != nil {
				return nil, e, err
			}
			p, err := e.Connect(3 * time.Second)
			if err != nil {
				return nil, e, err
			}
			defer p.Close()
			if err := e.WaitState(hsms.NotSelectedState, 3*time.Second); err != nil {
				return nil, e, err
			}
			orphan := sc.SelectRsp(e.Sid, 0, 0xD0000001)
			if _, err := p.SendF(orphan); err != nil {
				return nil, e, err
			}
			if _, ok := p.Wait(3*time.Second, func(f sc.Frame) bool { return f.ST == 7 }, nil); !ok {
				return nil, e, fmt.Errorf("no Reject for the orphan Select.rsp")
			}
			acts := []string{"N", "U", "P " + orphan.M(), "D", "Q1"}
			e.Cond(true)
			e.Metric()
			acts = append(acts, "C", "M")
			e.Call(context.Background(), ep, 1)
			for _, en := range e.Rec.Entries() {
				if en.K == 'S' && en.ID == 1 {
					f := *en.F
					acts = append(acts, fmt.Sprintf("S 1 %s %s", en.Kind, f.M()), "G 1 go", "G 1 go")
				}
			}
			e.Metric()
			acts = append(acts, "M")
			return acts, e, nil
		}}
	}
	// B2 with the state gone to NotCONNECTED: the sender (or the async sender) is parked at the write
	// boundary (after-write-lock seam) while the supervisor stores NotConnected for one of the causes
	// — involuntary drop (peer closes), peer Separate.req, voluntary Close — and is itself parked at
	// the start of its reaction (react seam), i.e. the generation ctx and the socket are still live.
	// The re-check must refuse whenever the state is not Selected: no byte written, NotSelected, one drop.
	mkNC := func(ep, cause string) sn {
		return sn{"b2-notconnected/" + cause + "/" + ep, func() ([]string, *sc.Env, error) {
			e, err := sc.NewEnv(false, 1, t3, t6)
			if err != nil {
				return nil, nil, err
			}
			var acts []string
			if err := e.Open(false); err != nil {
				return nil, e, err
			}
			p, err := e.Connect(3 * time.Second)
			if err != nil {
				return nil, e, err
			}
			defer p.Close()
			if err := e.Select(p, 7); err != nil {
				return nil, e, err
			}
			if err := e.WaitNotified(hsms.SelectedState, 1, 3*time.Second); err != nil {
				return nil, e, err
			}
			acts = append(acts, "N", "U", "P "+sc.SelectReq(e.Sid, 7).M(), "D", "Q1")
			inReact := make(chan struct{}, 1)
			releaseReact := make(chan struct{})
			if !hsms.VerifHookReact(hsmsss.VerifCore(e.Conn), func(prev, next hsms.ConnState) {
				if next == hsms.NotConnectedState {
					select {
					case inReact <- struct{}{}:
					default:
					}
					select {
					case <-releaseReact:
					case <-time.After(10 * time.Second):
					}
				}
			}) {
				return nil, e, fmt.Errorf("react seam not available")
			}
			e.Cond(true)
			e.Metric()
			acts = append(acts, "C", "M")
			returned := make(chan struct{})
			hookErr := make(chan error, 1)
			closeDone := make(chan struct{})
			isAsync := ep == "async" || ep == "forwardasync" || ep == "reply"
			var causeActs string
			e.SetAfterWriteLock(func() {
				if isAsync {
					<-returned
				}
				switch cause {
				case "peer-close":
					e.Down()
					_ = p.Conn.Close()
					causeActs = "F ; X"
				case "peer-separate":
					sep := sc.SeparateReq(e.Sid, 9)
					if _, err := p.SendF(sep); err != nil {
						hookErr <- err
						return
					}
					e.Down()
					causeActs = "P " + sep.M() + " ; D ; X"
				case "close":
					e.Down()
					go func() { _ = e.Conn.Close(); close(closeDone) }()
					causeActs = "X"
				}
				select {
				case <-inReact:
					hookErr <- nil
				case <-time.After(5 * time.Second):
					hookErr <- fmt.Errorf("the supervisor did not reach its reaction")
				}
			})
			e.Call(context.Background(), ep, 1)
			close(returned)
			select {
			case err := <-hookErr:
				if err != nil {
					close(releaseReact)
					return nil, e, err
				}
			case <-time.After(8 * time.Second):
				close(releaseReact)
				return nil, e, fmt.Errorf("after-write-lock seam did not run")
			}
			if isAsync {
				// the async sender reports the refusal through the error handler
				dl := time.Now().Add(3 * time.Second)
				for time.Now().Before(dl) {
					seen := false
					for _, en := range e.Rec.Entries() {
						if en.K == 'A' && en.ID == 1 {
							seen = true
						}
					}
					if seen {
						break
					}
					time.Sleep(200 * time.Microsecond)
				}
			}
			e.Metric()
			es := e.Rec.Entries()
			log := sc.Render(es)
			var tmpl, kind string
			for _, en := range es {
				if en.K == 'S' && en.ID == 1 {
					f := *en.F
					kind = en.Kind
					tmpl = fmt.Sprintf("S 1 %s %s", en.Kind, f.M())
				}
			}
			switch {
			case isAsync:
				acts = append(acts, tmpl, "G 1 go", "G 1 go", "G 1 eok", causeActs, "Q1")
			case kind == "KForward" || ep == "syncnw":
				acts = append(acts, tmpl, "G 1 go", "G 1 go", causeActs, "G 1 go", "G 1 go")
			default:
				acts = append(acts, tmpl, "G 1 go", "G 1 go", "G 1 go", causeActs, "G 1 go", "G 1 go")
			}
			acts = append(acts, "M")
			// implementation-level oracle: refused with not-selected, one drop, nothing on the wire
			refused := false
			for _, en := range es {
				if (en.K == 'R' && en.ID == 1 && en.Result == "notsel") || (en.K == 'A' && en.ID == 1 && en.Result == "notsel") {
					refused = true
				}
				if en.K == 'V' && en.ID == 1 {
					cx.Fail("C07: a data message that reached the write boundary after the state had gone to NotConnected ("+cause+") was written ("+ep+")", log)
				}
			}
			if !refused {
				cx.Fail("C07: a data message that reached the write boundary after the state had gone to NotConnected ("+cause+") was not refused with not-selected ("+ep+")", log)
			}
			if d := e.Conn.Metrics().DataMsgDropNotSelectedCount(); d != 1 {
				cx.Fail(fmt.Sprintf("C07: write-boundary refusal after NotConnected (%s) moved the drop counter by %d, want 1 (%s)", cause, d, ep), log)
			}
			// the compared log ends here; now let the reaction (farewell / teardown) proceed
			e.SnapshotLog = log
			e.Down()
			close(releaseReact)
			if cause == "close" {
				select {
				case <-closeDone:
				case <-time.After(10 * time.Second):
					return nil, e, fmt.Errorf("Close did not return")
				}
			}
			return acts, e, nil
		}}
	}
	// INBOUND data while the state is NotCONNECTED and the socket still open: the supervisor is held at
	// the start of its reaction (react seam) right after it stored NotConnected — voluntary Close from
	// Selected, or T7 expiry from NotSelected — and the peer writes data primaries (W and non-W) in
	// that window. Each must be answered Reject(4) echoing its header and never be delivered.
	mkInNC := func(cause string) sn {
		return sn{"inbound-notconnected/" + cause, func() ([]string, *sc.Env, error) {
			var extra []hsms.ConnOption
			if cause == "t7" {
				extra = append(extra, hsms.WithT7(150*time.Millisecond))
			}
			e, err := sc.NewEnv(false, 1, t3, t6, extra...)
			if err != nil {
				return nil, nil, err
			}
			if err := e.Open(false); err != nil {
				return nil, e, err
			}
			p, err := e.Connect(3 * time.Second)
			if err != nil {
				return nil, e, err
			}
			defer p.Close()
			acts := []string{"N", "U"}
			if err := e.WaitNotified(hsms.NotSelectedState, 1, 3*time.Second); err != nil {
				return nil, e, err
			}
			inReact := make(chan struct{}, 1)
			releaseReact := make(chan struct{})
			hold := func(prev, next hsms.ConnState) {
				if next == hsms.NotConnectedState {
					select {
					case inReact <- struct{}{}:
					default:
					}
					select {
					case <-releaseReact:
					case <-time.After(10 * time.Second):
					}
				}
			}
			closeDone := make(chan struct{})
			if cause == "close" {
				if err := e.Select(p, 7); err != nil {
					return nil, e, err
				}
				if err := e.WaitNotified(hsms.SelectedState, 1, 3*time.Second); err != nil {
					return nil, e, err
				}
				acts = append(acts, "P "+sc.SelectReq(e.Sid, 7).M(), "D", "Q1")
				if !hsms.VerifHookReact(hsmsss.VerifCore(e.Conn), hold) {
					return nil, e, fmt.Errorf("react seam not available")
				}
				e.Down()
				go func() { _ = e.Conn.Close(); close(closeDone) }()
			} else {
				// T7 (150 ms) expires while connected-not-selected
				if !hsms.VerifHookReact(hsmsss.VerifCore(e.Conn), hold) {
					return nil, e, fmt.Errorf("react seam not available")
				}
			}
			select {
			case <-inReact:
			case <-time.After(5 * time.Second):
				close(releaseReact)
				return nil, e, fmt.Errorf("the supervisor did not reach its reaction")
			}
			if cause == "t7" {
				e.Down()
			}
			acts = append(acts, "X")
			recv0 := e.Conn.Metrics().DataMsgRecvCount()
			what := "inbound-notconnected/" + cause
			for i, h := range [][2]byte{{0x80 | 3, 1}, {4, 5}} {
				_, f, err := p.SendData(e.Sid, h[0], h[1], 0xA1000000+uint32(i))
				if err != nil {
					close(releaseReact)
					return nil, e, err
				}
				acts = append(acts, "P "+f.M(), "D", "Q1")
				rj, ok := p.Wait(1500*time.Millisecond, func(g sc.Frame) bool { return g.ST == 7 }, nil)
				log := sc.Render(e.Rec.Entries())
				if !ok {
					cx.Fail("C07: a data frame received while the state was NotConnected ("+cause+", socket still open) was not answered with a Reject", what+" | "+log)
				} else if rj.B3 != 4 || rj.Sid != f.Sid || rj.Sys != f.Sys || rj.PT != 0 || len(rj.Body) != 0 {
					cx.Fail("C07: the reject for a data frame received while NotConnected ("+cause+") does not carry reason 4 / the session id / the system bytes", what+" | "+log)
				}
			}
			log := sc.Render(e.Rec.Entries())
			select {
			case n := <-e.HSig:
				cx.Fail(fmt.Sprintf("C07: data frame %d received while the state was NotConnected (%s, socket still open) was delivered to a handler", n, cause), what+" | "+log)
			default:
			}
			if d := e.Conn.Metrics().DataMsgRecvCount() - recv0; d != 0 {
				cx.Fail(fmt.Sprintf("C07: %d data frames received while NotConnected (%s) were counted as received (routed)", d, cause), what+" | "+log)
			}
			e.SnapshotLog = log
			e.Down()
			close(releaseReact)
			if cause == "close" {
				select {
				case <-closeDone:
				case <-time.After(10 * time.Second):
					return nil, e, fmt.Errorf("Close did not return")
				}
			}
			return acts, e, nil
		}}
	}
	var list []sn
	list = append(list, mkInNC("close"), mkInNC("t7"))
	for _, ep := range sc.EntryPoints {
		list = append(list, mk(ep.Name, false), mk(ep.Name, true), mkB2(ep.Name), mkOrphan(ep.Name))
		for _, cause := range []string{"peer-close", "peer-separate", "close"} {
			list = append(list, mkNC(ep.Name, cause))
		}
	}
	for _, s := range list {
		acts, e, err := s.run()
		if err != nil {
			c.Fail("rig: gate scenario "+s.name, err.Error())
			if e != nil {
				_ = e.Close()
			}
			continue
		}
		log := sc.Render(e.Rec.Entries())
		if e.SnapshotLog != "" {
			log = e.SnapshotLog
		}
		_ = e.Close()
		line := fmt.Sprintf("T %d %d %d %s | %s", t3.Milliseconds(), t6.Milliseconds(), 1, strings.Join(acts, " ; "), log)
		c.Case(line, "gate "+s.name, true)
		c.Count("gate-scenario")
	}
}
