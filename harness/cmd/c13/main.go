// Harness for C13: strict SML encoding and strict parsing as mutual inverses.
//
// Streams of cases (all through the public API of package sml):
//
//	E  random data messages over the whole item grammar x encoder options: the text of
//	   sml.EncodeMessage, for the model encoder;
//	P  texts (encoder output, hand-varied valid SML, mutated SML): the result of sml.ParseStrict,
//	   for the model parser;
//	Q  strconv.ParseInt/ParseUint (base 0) on numeric-looking tokens, for Base/Decimal.v.
//
// Implementation-level oracle (no model involved): for every in-domain message and every option
// combination with strict mode on, ParseStrict(EncodeMessage(m)) is one message with the same
// S/F/W and an equal body (NaN payloads and the LSH aside); and every message ParseStrict accepts
// re-encodes and re-parses to an equal message (under the JIS-8/localized restriction).
package main

import (
	"errors"
	"fmt"
	"math"
	"math/rand"
	"sort"
	"strconv"
	"strings"
	"unicode"
	"unicode/utf8"

	"github.com/arloliu/go-secs/v2/hsms"
	"github.com/arloliu/go-secs/v2/secs2"
	"github.com/arloliu/go-secs/v2/sml"

	"verifharness/smlcase"
	"verifharness/vh"
)

type opts struct {
	strict bool
	aq     sml.QuoteStyle
	sfq    sml.QuoteStyle
	bin    sml.BinaryStyle
	indent string
}

func (o opts) list() []sml.EncoderOption {
	return []sml.EncoderOption{sml.WithEncoderStrictMode(o.strict), sml.WithASCIIQuote(o.aq), sml.WithSFQuote(o.sfq),
		sml.WithBinaryStyle(o.bin), sml.WithIndent(o.indent)}
}

// model syntax: strict asciiSingle sfq(0 none,1 single,2 double) binLit hex(indent)
func (o opts) syntax() string {
	sfq := 0
	switch o.sfq {
	case sml.QuoteSingle:
		sfq = 1
	case sml.QuoteDouble:
		sfq = 2
	}
	return vh.Join(vh.B01(o.strict), vh.B01(o.aq == sml.QuoteSingle), fmt.Sprint(sfq), vh.B01(o.bin == sml.BinaryLiteral), smlcase.Hex([]byte(o.indent)))
}

var indents = []string{"  ", "", " ", "\t", "    ", " \t ", "\n", "\r\n  "}
var quoteStyles = []sml.QuoteStyle{sml.QuoteDouble, sml.QuoteSingle, sml.QuoteNone}

func randOpts(r *rand.Rand, strict bool) opts {
	return opts{strict: strict, aq: quoteStyles[r.Intn(3)], sfq: quoteStyles[r.Intn(3)], bin: sml.BinaryStyle(r.Intn(2)), indent: indents[r.Intn(len(indents))]}
}

// ---- canonical rendering of a ParseStrict result ----

func parseStrictSafe(text string) (ms []*hsms.DataMessage, err error, panicked any) {
	defer func() {
		if p := recover(); p != nil {
			panicked = p
		}
	}()
	ms, err = sml.ParseStrict(text)
	return
}

func renderResult(ms []*hsms.DataMessage, err error) string {
	if err != nil {
		var pe *sml.ParseError
		if errors.As(err, &pe) {
			return fmt.Sprintf("ERR syntax %d", pe.Offset)
		}
		return "ERR construct"
	}
	var sb strings.Builder
	fmt.Fprintf(&sb, "OK %d", len(ms))
	for _, m := range ms {
		it, ierr := m.Item()
		syn, ok := "", false
		if ierr == nil {
			syn, ok = smlcase.Syntax(it)
		}
		if !ok {
			return "ERR unrenderable"
		}
		fmt.Fprintf(&sb, " %d %d %s %s", m.Stream(), m.Function(), vh.B01(m.WaitBit()), syn)
	}
	return sb.String()
}

var lawViolations []string

// floatTable lists every token of text that strconv.ParseFloat accepts, with the bits of the
// result: candidates are all suffixes of the maximal runs free of Unicode spaces and '>'.
func floatTable(text string) string {
	seen := map[string]bool{}
	var out []string
	for _, f := range strings.Fields(text) {
		for _, run := range strings.Split(f, ">") {
			if len(run) > 400 {
				run = run[len(run)-400:]
			}
			for i := 0; i < len(run); i++ {
				tok := run[i:]
				c := tok[0]
				if !(c == '+' || c == '-' || c == '.' || (c >= '0' && c <= '9') || c == 'i' || c == 'I' || c == 'n' || c == 'N') {
					continue
				}
				for _, w := range []int{4, 8} {
					v, err := strconv.ParseFloat(tok, w*8)
					if err != nil {
						continue
					}
					// law L4: what ParseFloat(_, 32) returns without error is a value a float32 holds
					if w == 4 && !math.IsNaN(v) && !math.IsInf(v, 0) && float64(float32(v)) != v {
						lawViolations = append(lawViolations, fmt.Sprintf("ParseFloat(%q,32) = %v is not a float32 value", tok, v))
					}
					k := fmt.Sprintf("%d:%s:%d", w, smlcase.Hex([]byte(tok)), math.Float64bits(v))
					if !seen[k] {
						seen[k] = true
						out = append(out, k)
					}
				}
			}
		}
	}
	sort.Strings(out)
	return strings.Join(out, " ")
}

// ---- domain predicates of the property statement ----

func plainText(s string) bool {
	for i := 0; i < len(s); i++ {
		c := s[i]
		if c < 0x20 || c == 0x7f || c == '"' || c == '\'' || c == '\\' || c == '<' || c == '>' {
			return false
		}
	}
	// C1 controls (U+0080..U+009F) are control characters too
	for _, r := range s {
		if r != utf8.RuneError && unicode.IsControl(r) {
			return false
		}
	}
	return true
}

// inDomain is the domain of the property statement, read literally: lists, ASCII with any bytes,
// binary, boolean, integer, float; JIS-8 / localized text free of quote, backslash, angle bracket
// and control characters; no EmptyItem below the top.
func inDomain(it secs2.Item, top bool) bool {
	switch {
	case it.IsEmpty():
		return top
	case it.IsList():
		cs, _ := it.ToList()
		for _, c := range cs {
			if !inDomain(c, false) {
				return false
			}
		}
		return true
	case it.IsJIS8():
		s, _ := it.ToJIS8()
		return plainText(s)
	case it.IsLocalizedStr():
		s, _ := it.ToLocalizedStr()
		return plainText(s)
	default:
		return true
	}
}

// quoteEscapes: some localized string of the tree is changed by strconv.Quote (beyond the quotes)
func quoteEscapes(it secs2.Item) bool {
	if it.IsLocalizedStr() {
		s, _ := it.ToLocalizedStr()
		return strconv.Quote(s) != `"`+s+`"`
	}
	if it.IsList() {
		cs, _ := it.ToList()
		for _, c := range cs {
			if quoteEscapes(c) {
				return true
			}
		}
	}
	return false
}

func asciiHasGT(it secs2.Item) bool {
	if it.IsASCII() {
		s, _ := it.ToASCII()
		return strings.Contains(s, ">")
	}
	if it.IsList() {
		cs, _ := it.ToList()
		for _, c := range cs {
			if asciiHasGT(c) {
				return true
			}
		}
	}
	return false
}

// scrub rebuilds the tree with the two known defect classes removed: gt replaces every '>' in
// ASCII items by '}', loc replaces localized text that strconv.Quote escapes by "x".
func scrub(it secs2.Item, gt, loc bool) secs2.Item {
	if gt && it.IsASCII() {
		s, _ := it.ToASCII()
		return secs2.NewASCIIItem(strings.ReplaceAll(s, ">", "}"))
	}
	if loc && it.IsLocalizedStr() && quoteEscapes(it) {
		return secs2.NewUTF8StrItem("x")
	}
	if it.IsList() {
		cs, _ := it.ToList()
		out := make([]secs2.Item, len(cs))
		for i, c := range cs {
			out[i] = scrub(c, gt, loc)
		}
		return secs2.NewListItem(out...)
	}
	return it
}

// classify names the failure class of a failed round trip: if removing exactly one known defect
// class from the message makes the round trip pass, the failure belongs to that class.
// countLists counts the lists of a tree that are empty (emptyOnly) or all lists.
func countLists(it secs2.Item, emptyOnly bool) int {
	if !it.IsList() {
		return 0
	}
	cs, _ := it.ToList()
	n := 0
	if !emptyOnly || len(cs) == 0 {
		n = 1
	}
	for _, c := range cs {
		n += countLists(c, emptyOnly)
	}
	return n
}

func bucket(n int) string {
	switch {
	case n <= 2:
		return fmt.Sprintf("%03d", n)
	case n < 10:
		return "003-009"
	case n < 62:
		return "010-061"
	case n <= 66:
		return fmt.Sprintf("%03d", n)
	case n < 200:
		return "067-199"
	default:
		return "200+"
	}
}

// nesting is the list nesting of an item: 0 for a leaf, 1 + the deepest child for a list.
func nesting(it secs2.Item) int {
	if !it.IsList() {
		return 0
	}
	cs, _ := it.ToList()
	d := 0
	for _, c := range cs {
		if n := nesting(c); n > d {
			d = n
		}
	}
	return d + 1
}

// flatten rebuilds the tree with every list below level max replaced by an empty binary item, so
// that the result is nested exactly max deep where the original was deeper.
func flatten(it secs2.Item, max int) secs2.Item {
	if !it.IsList() {
		return it
	}
	if max == 0 {
		return secs2.NewBinaryItem()
	}
	cs, _ := it.ToList()
	out := make([]secs2.Item, len(cs))
	for i, c := range cs {
		out[i] = flatten(c, max-1)
	}
	return secs2.NewListItem(out...)
}

const depthCap = 64 // secs2.MaxListDepth, the strict parser's nesting cap since fix 95562b6

func classify(m *hsms.DataMessage, o opts, why string) string {
	it, _ := m.Item()
	if nesting(it) > depthCap {
		// the same message cut down to 64 levels round-trips: the failure is the nesting cap
		if m2, err := hsms.NewDataMessage(m.Stream(), m.Function(), m.WaitBit(), 0, [4]byte{}, flatten(it, depthCap)); err == nil {
			if ok, _ := roundTrips(m2, o); ok {
				return "strict round trip fails for a body nested deeper than 64 lists"
			}
		}
	}
	try := func(gt, loc bool) bool {
		m2, err := hsms.NewDataMessage(m.Stream(), m.Function(), m.WaitBit(), 0, [4]byte{}, scrub(it, gt, loc))
		if err != nil {
			return false
		}
		ok, _ := roundTrips(m2, o)
		return ok
	}
	switch {
	case asciiHasGT(it) && try(true, false):
		return "strict round trip fails for an ASCII item containing '>'"
	case quoteEscapes(it) && try(false, true):
		return "strict round trip fails for localized text that strconv.Quote escapes"
	case asciiHasGT(it) && quoteEscapes(it) && try(true, true):
		return "strict round trip fails for an ASCII item containing '>' and localized text that strconv.Quote escapes"
	}
	return "strict round trip fails: " + why
}

func roundTrips(m *hsms.DataMessage, o opts) (bool, string) {
	text, err := sml.EncodeMessage(m, o.list()...)
	if err != nil {
		return false, "encode error"
	}
	ms, err, p := parseStrictSafe(text)
	if p != nil {
		return false, "parser panic"
	}
	if err != nil {
		return false, "strict parser rejects the strict encoder's text"
	}
	if len(ms) != 1 {
		return false, "not exactly one message"
	}
	if ms[0].Stream() != m.Stream() || ms[0].Function() != m.Function() || ms[0].WaitBit() != m.WaitBit() {
		return false, "stream/function/W differ"
	}
	a, _ := m.Item()
	b, err := ms[0].Item()
	if err != nil || !smlcase.EqualModNaN(a, b) {
		return false, "body differs"
	}
	return true, ""
}

func main() {
	c := vh.New()
	r := c.Rng
	// vh keeps at most 50 failures: report only the first few of the known '>' class so that a
	// different failure found later is never crowded out (the rest are counted in the histogram)
	knownReported := map[string]int{}
	failGT := func(what, kase string) {
		class := "ascii-gt"
		if strings.Contains(what, "nested deeper than 64") {
			class = "depth-cap"
		} else if strings.Contains(what, "strconv.Quote escapes") {
			class = "localized-quote"
			if strings.Contains(what, "containing '>'") {
				class = "both"
			}
		}
		c.Count("oracle/known-class/" + class)
		if knownReported[class] < 3 {
			knownReported[class]++
			c.Fail(what, kase)
		}
	}
	cfgIn := smlcase.Cfg{EmptyChildren: false, PlainJW: true, MaxDepth: 4, MaxKids: 4, MaxLeaf: 10}
	cfgAny := smlcase.Cfg{EmptyChildren: true, PlainJW: false, MaxDepth: 3, MaxKids: 4, MaxLeaf: 8}
	if c.Tier == "thorough" {
		cfgIn.MaxDepth, cfgIn.MaxLeaf = 6, 40
	}

	pcase := func(text, origin string) {
		ms, err, p := parseStrictSafe(text)
		if p != nil {
			c.Fail("ParseStrict panics", "P "+smlcase.Hex([]byte(text)))
			c.Count("P/" + origin + "/panic")
			return
		}
		res := renderResult(ms, err)
		line := vh.Join("P", smlcase.Hex([]byte(text)), floatTable(text), "|", res)
		c.Case(line, "P"+text, true)
		c.Count("P/" + origin + "/" + strings.Join(strings.Fields(res)[:2], "-"))
		// second half of the property: what the parser accepts re-encodes and re-parses equal
		if err == nil {
			for _, m0 := range ms {
				it0, ierr := m0.Item()
				if ierr != nil || !inDomain(it0, true) {
					continue
				}
				// the accepted message itself, and an EDITED one: its body put between closed and
				// empty sibling lists (parse -> edit -> encode -> parse)
				cands := []*hsms.DataMessage{m0}
				if !it0.IsEmpty() && nesting(it0) < depthCap-1 && r.Intn(2) == 0 {
					k := []int{1, 2, 5, 62, 64, 70}[r.Intn(6)]
					kids := make([]secs2.Item, 0, k+2)
					for i := 0; i < k; i++ {
						if i%3 == 2 {
							kids = append(kids, secs2.NewListItem(secs2.NewBinaryItem(byte(i))))
						} else {
							kids = append(kids, secs2.NewListItem())
						}
					}
					kids = append(kids, it0, secs2.NewListItem(secs2.NewListItem(), it0))
					if me, err := hsms.NewDataMessage(m0.Stream(), m0.Function(), m0.WaitBit(), 0, [4]byte{}, secs2.NewListItem(kids...)); err == nil {
						cands = append(cands, me)
						c.Count("oracle/edited")
					}
				}
				for ci, m := range cands {
					it, _ := m.Item()
					c.Count("reparse/empty-lists/" + bucket(countLists(it, true)))
					o := randOpts(r, true)
					if ok, why := roundTrips(m, o); !ok {
						syn, _ := smlcase.Syntax(it)
						kase := vh.Join("R", o.syntax(), fmt.Sprintf("depth=%d", nesting(it)), fmt.Sprint(m.Stream()), fmt.Sprint(m.Function()), vh.B01(m.WaitBit()), syn)
						what := classify(m, o, why) + " (re-encode of accepted text)"
						if ci > 0 {
							what = classify(m, o, why) + " (accepted text, body edited, re-encoded)"
						}
						if strings.Contains(what, "containing '>'") || strings.Contains(what, "strconv.Quote escapes") || strings.Contains(what, "nested deeper than 64") {
							failGT(what, kase)
						} else {
							c.Fail(what, kase)
						}
					}
				}
			}
		}
	}

	encCase := func(m *hsms.DataMessage, o opts, origin string) string {
		it, _ := m.Item()
		syn, ok := smlcase.Syntax(it)
		if !ok {
			return ""
		}
		text, err := sml.EncodeMessage(m, o.list()...)
		if err != nil {
			c.Fail("EncodeMessage returns an error for an error-free message", syn)
			return ""
		}
		line := vh.Join("E", o.syntax(), fmt.Sprint(m.Stream()), fmt.Sprint(m.Function()), vh.B01(m.WaitBit()), syn, "|", smlcase.Hex([]byte(text)))
		c.Case(line, line, true)
		c.Count("E/" + origin + "/" + smlcase.Kind(it))
		return text
	}

	checkFloatLaws := func(it secs2.Item) {
		var walk func(x secs2.Item)
		walk = func(x secs2.Item) {
			if x.IsList() {
				cs, _ := x.ToList()
				for _, ch := range cs {
					walk(ch)
				}
				return
			}
			if !x.IsFloat32() && !x.IsFloat64() {
				return
			}
			w := 8
			if x.IsFloat32() {
				w = 4
			}
			vs, _ := x.ToFloat()
			for _, v := range vs {
				txt := smlcase.FloatText(w, v)
				bad := txt == ""
				for i := 0; i < len(txt); i++ {
					ch := txt[i]
					if !(ch >= '0' && ch <= '9' || ch >= 'A' && ch <= 'Z' || ch >= 'a' && ch <= 'z' || ch == '+' || ch == '.' || ch == '-') {
						bad = true
					}
				}
				back, err := strconv.ParseFloat(txt, w*8)
				if err != nil {
					bad = true
				} else if math.IsNaN(v) {
					bad = bad || !math.IsNaN(back)
				} else if w == 4 {
					bad = bad || math.Float32bits(float32(back)) != math.Float32bits(float32(v))
				} else {
					bad = bad || math.Float64bits(back) != math.Float64bits(v)
				}
				if bad {
					c.Fail("strconv oracle law violated (FormatFloat/ParseFloat round trip or alphabet)", fmt.Sprintf("F%d %d %q", w, math.Float64bits(v), txt))
				}
				c.Count("floatlaw/checked")
			}
		}
		walk(it)
	}

	mkMsg := func(it secs2.Item) *hsms.DataMessage {
		f := uint8(r.Intn(256))
		if r.Intn(4) == 0 {
			f = []uint8{0, 1, 2, 9, 10, 99, 100, 254, 255}[r.Intn(9)]
		}
		s := uint8(r.Intn(128))
		if r.Intn(4) == 0 {
			s = []uint8{0, 1, 9, 10, 99, 100, 126, 127}[r.Intn(8)]
		}
		w := f%2 == 1 && r.Intn(2) == 0
		m, err := hsms.NewDataMessage(s, f, w, uint16(r.Intn(65536)), [4]byte{byte(r.Intn(256)), 0, 0, 1}, it)
		if err != nil {
			return nil
		}
		return m
	}

	oracle := func(m *hsms.DataMessage, o opts) {
		it, _ := m.Item()
		c.Count("oracle/empty-lists/" + bucket(countLists(it, true)))
		c.Count("oracle/closed-lists/" + bucket(countLists(it, false)))
		if !inDomain(it, true) {
			c.Count("oracle/out-of-domain")
			return
		}
		if ok, why := roundTrips(m, o); !ok {
			syn, _ := smlcase.Syntax(it)
			kase := vh.Join("R", o.syntax(), fmt.Sprintf("depth=%d", nesting(it)), fmt.Sprint(m.Stream()), fmt.Sprint(m.Function()), vh.B01(m.WaitBit()), syn)
			what := classify(m, o, why)
			if strings.Contains(what, "containing '>'") || strings.Contains(what, "strconv.Quote escapes") || strings.Contains(what, "nested deeper than 64") {
				failGT(what, kase)
			} else {
				c.Fail(what, kase)
			}
			c.Count("oracle/fail")
		} else {
			c.Count("oracle/ok")
		}
	}

	// ---- corpus: the known finding first, then boundary messages ----
	corpus := []secs2.Item{
		secs2.NewASCIIItem(">"), secs2.NewASCIIItem("a>b"), secs2.NewListItem(secs2.NewASCIIItem("x"), secs2.NewASCIIItem("<>")),
		secs2.NewEmptyItem(), secs2.NewASCIIItem(""), secs2.NewASCIIItem("\""), secs2.NewASCIIItem("'"), secs2.NewASCIIItem("\\"), secs2.NewASCIIItem("\\\""),
		secs2.NewASCIIItem(" "), secs2.NewASCIIItem("a b"), secs2.NewASCIIItem("\x00"), secs2.NewASCIIItem("\x7f"), secs2.NewASCIIItem("\x80\xff"), secs2.NewASCIIItem("a\nb"),
		secs2.NewASCIIItem("\n"), secs2.NewASCIIItem("\na"), secs2.NewASCIIItem("a\n"), secs2.NewASCIIItem("0x41"), secs2.NewASCIIItem("//x"), secs2.NewASCIIItem("/*x*/"),
		secs2.NewASCIIItem("é"), secs2.NewASCIIItem("."), secs2.NewASCIIItem("<A \"x\">"), secs2.NewASCIIItem("\"'\"'"),
		secs2.NewListItem(), secs2.NewListItem(secs2.NewListItem()), secs2.NewListItem(secs2.NewListItem(secs2.NewListItem(), secs2.NewBinaryItem())),
		secs2.NewBinaryItem(), secs2.NewBinaryItem([]byte{0, 1, 2, 255}), secs2.NewBooleanItem(), secs2.NewBooleanItem(true, false),
		secs2.NewIntItem(1, int64(-128), int64(127)), secs2.NewIntItem(8, int64(math.MinInt64), int64(math.MaxInt64)), secs2.NewUintItem(8, uint64(math.MaxUint64)), secs2.NewUintItem(1),
		secs2.NewFloatItem(4, math.NaN(), math.Inf(1), math.Inf(-1), math.Copysign(0, -1), 0.1, 1e39, 1e-46), secs2.NewFloatItem(8, math.NaN(), math.Inf(-1), math.Copysign(0, -1), 5e-324, math.MaxFloat64),
		secs2.NewJIS8Item(""), secs2.NewJIS8Item("abc \x80\xff"), secs2.NewUTF8StrItem(""), secs2.NewUTF8StrItem("héllo wörld"), secs2.NewLocalizedStrItem(7, "x"), secs2.NewUTF8StrItem("\u00a0"),
		secs2.NewLocalizedStrItem(secs2.LSHShiftJIS, "\x93\xfa\x96\x7b"), secs2.NewUTF8StrItem("a\u00adb"),
	}
	for _, it := range corpus {
		for _, o := range []opts{{true, sml.QuoteDouble, sml.QuoteNone, sml.BinaryHex, "  "}, {true, sml.QuoteSingle, sml.QuoteDouble, sml.BinaryLiteral, "\t"}} {
			m, err := hsms.NewDataMessage(1, 1, true, 0, [4]byte{}, it)
			if err != nil {
				continue
			}
			if text := encCase(m, o, "corpus"); text != "" {
				pcase(text, "encoded")
			}
			checkFloatLaws(it)
			oracle(m, o)
		}
	}

	// ---- sizes around powers of ten / two, wide and deep lists ----
	var sized []secs2.Item
	for _, n := range []int{9, 10, 99, 100, 255, 256, 1000, 65535, 65536} {
		bs := make([]byte, n)
		is := make([]int64, n)
		for i := range bs {
			bs[i] = byte(i * 7)
			if bs[i] == '>' {
				bs[i] = '}'
			}
			is[i] = int64(i) - int64(n)/2
		}
		sized = append(sized, secs2.NewASCIIItem(string(bs)), secs2.NewBinaryItem(bs))
		if n <= 1000 {
			sized = append(sized, secs2.NewIntItem(4, is))
			kids := make([]secs2.Item, n)
			for i := range kids {
				kids[i] = secs2.NewUintItem(1, uint64(i%256))
			}
			sized = append(sized, secs2.NewListItem(kids...), secs2.NewJIS8Item(strings.Repeat("k", n)), secs2.NewUTF8StrItem(strings.Repeat("w", n)))
		}
	}
	for _, depth := range []int{1, 2, 9, 10, 33, 63, 64, 65, 66, 100} { // 65+ reproduce finding C13-depth-cap on every run
		var it secs2.Item = secs2.NewBooleanItem(true)
		for i := 0; i < depth; i++ {
			it = secs2.NewListItem(it, secs2.NewASCIIItem("d"))
		}
		sized = append(sized, it)
	}
	// ---- many empty / closed sibling lists, at several levels, alone and mixed with nesting near
	// the parser's cap: closing a list must give its nesting level back, however it was closed
	tail := func() secs2.Item { return secs2.NewListItem(secs2.NewASCIIItem("tail")) }
	chain := func(depth int, leaf secs2.Item, sib func() secs2.Item) secs2.Item { // depth lists around leaf
		it := leaf
		for i := 0; i < depth; i++ {
			if sib != nil {
				it = secs2.NewListItem(sib(), it)
			} else {
				it = secs2.NewListItem(it)
			}
		}
		return it
	}
	empty := func() secs2.Item { return secs2.NewListItem() }
	closed := func() secs2.Item { return secs2.NewListItem(secs2.NewBinaryItem(byte(1))) }
	for _, k := range []int{0, 1, 2, 62, 63, 64, 65, 200} {
		for _, mk := range []func() secs2.Item{empty, closed} {
			sibs := func(n int) []secs2.Item {
				out := make([]secs2.Item, n)
				for i := range out {
					out[i] = mk()
				}
				return out
			}
			// k siblings, then a list (depth 2)
			sized = append(sized, secs2.NewListItem(append(sibs(k), tail())...))
			// the list first, then k siblings
			sized = append(sized, secs2.NewListItem(append([]secs2.Item{tail()}, sibs(k)...)...))
			// at several levels at once
			sized = append(sized, secs2.NewListItem(
				secs2.NewListItem(append(sibs(k), secs2.NewListItem(tail()))...),
				secs2.NewListItem(sibs(k)...),
				chain(3, secs2.NewUintItem(1, uint64(7)), nil), tail()))
			// k siblings at the top, then nesting that ends exactly at / just below the cap
			for _, d := range []int{60, 62, 63} {
				sized = append(sized, secs2.NewListItem(append(sibs(k), chain(d, secs2.NewBooleanItem(true), nil))...))
			}
		}
	}
	// one sibling at EVERY level of a chain that reaches the cap (64 lists in all)
	sized = append(sized, chain(64, secs2.NewBinaryItem(), nil), chain(63, secs2.NewListItem(), nil),
		chain(63, secs2.NewBinaryItem(), empty), chain(63, secs2.NewBinaryItem(), closed), chain(30, tail(), empty), chain(62, tail(), closed))

	for _, it := range sized {
		m := mkMsg(it)
		if m == nil {
			continue
		}
		o := randOpts(r, true)
		if text := encCase(m, o, "sized"); text != "" && len(text) < 12000 {
			pcase(text, "encoded-sized")
		}
		oracle(m, o)
	}

	// ---- every class of rune strconv's quoting tells apart, in localized, ASCII and JIS-8 items:
	// the encoder / parser ties on all of them, the round-trip oracle where the statement applies
	for i, qs := range smlcase.QuoteCorpus() {
		items := []secs2.Item{secs2.NewLocalizedStrItem(uint16(i%16), qs), secs2.NewASCIIItem(qs)}
		if i%3 == 0 {
			items = append(items, secs2.NewJIS8Item(qs), secs2.NewListItem(secs2.NewJIS8Item(qs), secs2.NewUTF8StrItem(qs)))
		}
		for _, it := range items {
			m := mkMsg(it)
			if m == nil {
				continue
			}
			o := randOpts(r, true)
			if text := encCase(m, o, "quote-corpus"); text != "" {
				pcase(text, "encoded-quote-corpus")
			}
			oracle(m, o)
		}
	}

	// ---- random in-domain messages x options (the property's first half) ----
	for i := 0; i < c.N; i++ {
		it := smlcase.Tree(r, cfgIn, 0, true)
		m := mkMsg(it)
		if m == nil {
			c.Count("skipped/newmsg-error")
			continue
		}
		checkFloatLaws(it)
		o := randOpts(r, true)
		if text := encCase(m, o, "in-domain"); text != "" && i%2 == 0 {
			pcase(text, "encoded")
		}
		oracle(m, o)
		if i%4 == 0 { // a second option combination on the same message
			o2 := randOpts(r, true)
			encCase(m, o2, "in-domain")
			oracle(m, o2)
		}
	}

	// ---- messages outside the round-trip domain: the two ties still hold ----
	for i := 0; i < c.N/4; i++ {
		it := smlcase.Tree(r, cfgAny, 0, true)
		m := mkMsg(it)
		if m == nil {
			continue
		}
		o := randOpts(r, r.Intn(2) == 0)
		if text := encCase(m, o, "any"); text != "" {
			pcase(text, "encoded-any")
		}
	}

	// ---- hand-varied valid SML and mutations: the parser tie + the property's second half ----
	for i := 0; i < c.N/2; i++ {
		text := variantText(r)
		pcase(text, "variant")
		if i%2 == 0 {
			pcase(mutate(r, text), "mutated")
		}
	}
	for _, t := range fixedTexts {
		pcase(t, "fixed")
	}
	// the parser's nesting cap (secs2.MaxListDepth = 64): at, below and above it; the counter
	// must come back down when a list closes (siblings at the deepest admitted level) and start
	// from zero in every message
	// many empty / closed siblings in compact text: their levels must be given back
	for _, k := range []int{0, 1, 62, 63, 64, 65, 200} {
		for _, sib := range []string{"<L>", "<L[0]>", "<L <B 1>>", "<L\n>"} {
			pcase("S1F1 <L "+strings.Repeat(sib, k)+"<L <A 'tail'>>>.", "siblings")
			pcase("S1F1 <L <L "+strings.Repeat(sib+" ", k)+"> "+strings.Repeat(sib, k)+strings.Repeat("<L ", 62)+strings.Repeat(">", 62)+">.", "siblings")
			pcase("S1F1 <L "+strings.Repeat(sib, k)+">. S2F1 "+strings.Repeat("<L ", 64)+strings.Repeat(">", 64)+".", "siblings")
		}
	}
	for _, n := range []int{1, 63, 64, 65, 66, 100, 300} {
		open, cl := strings.Repeat("<L ", n), strings.Repeat(">", n)
		pcase("S1F1 "+open+cl+".", "depth")
		pcase("S1F1 "+strings.Repeat("<L[1]\n", n)+"<B 1>"+cl+" .", "depth")
		if n > 1 {
			inner := strings.Repeat("<L ", n-1) + "<L><L <A 'x'>><L>" + strings.Repeat(">", n-1)
			pcase("S1F1 "+inner+".", "depth")
			pcase("S1F1 "+open+cl+". S2F3 W "+open+cl+".", "depth")
			pcase("S1F1 <L "+strings.Repeat("<L ", n-1)+strings.Repeat(">", n-1)+" "+strings.Repeat("<L ", n-1)+strings.Repeat(">", n-1)+" >.", "depth")
			pcase("S1F1 "+open+strings.Repeat(">", n-1)+".", "depth") // unbalanced
		}
	}

	// premises about strconv that are not checked per value elsewhere
	if strconv.Quote("\u00a0") != `"\u00a0"` {
		c.Fail("strconv premise violated: Quote(U+00A0) is not the \\u00a0 escape (C13_encode_parse_localized_refuted)", strconv.Quote("\u00a0"))
	}
	for _, v := range lawViolations {
		c.Fail("strconv oracle law violated (ParseFloat bit size 32 returned a non-float32 value)", v)
	}

	// ---- strconv integer parsing against Base/Decimal.v ----
	for i := 0; i < c.N/4+len(fixedNums); i++ {
		var tok string
		if i < len(fixedNums) {
			tok = fixedNums[i]
		} else {
			tok = randNumToken(r)
		}
		for _, bits := range []int{8, 16, 32, 64} {
			v, err := strconv.ParseInt(tok, 0, bits)
			line := vh.Join("Q", "I", fmt.Sprint(bits), smlcase.Hex([]byte(tok)), "|", numRes(fmt.Sprint(v), err))
			c.Case(line, line, true)
			u, err := strconv.ParseUint(tok, 0, bits)
			line = vh.Join("Q", "U", fmt.Sprint(bits), smlcase.Hex([]byte(tok)), "|", numRes(fmt.Sprint(u), err))
			c.Case(line, line, true)
		}
	}
	c.Finish()
}

func numRes(v string, err error) string {
	if err == nil {
		return "ok " + v
	}
	if errors.Is(err, strconv.ErrRange) {
		return "range"
	}
	return "syntax"
}

var fixedNums = []string{"", "0", "-0", "+0", "00", "0x", "0X1f", "0b", "0b101", "0B2", "0o", "0o17", "017", "08", "_1", "1_", "1_0", "1__0", "0_1", "0x_FF", "0_x1",
	"-", "+", "--1", "-+1", "255", "256", "-128", "-129", "127", "128", "65535", "65536", "18446744073709551615", "18446744073709551616", "9223372036854775807",
	"9223372036854775808", "-9223372036854775808", "-9223372036854775809", "99999999999999999999x", "1x", "0xg", "0b_1", "0x1_", "1e3", "1.0", " 1", "1 ", "0x7fffffffffffffff", "0xffffffffffffffff", "-0x80",
	"0777", "-0b1", "+0o7", "١"}

func randNumToken(r *rand.Rand) string {
	alpha := "0123456789abcdefABCDEFxXoObB_-+"
	switch r.Intn(4) {
	case 0:
		return strconv.FormatInt(int64(r.Uint64()), 10)
	case 1:
		return strconv.FormatUint(r.Uint64()>>uint(r.Intn(64)), []int{2, 8, 10, 16}[r.Intn(4)])
	case 2:
		p := []string{"", "0x", "0X", "0b", "0o", "0", "-", "+", "-0x", "+0b"}[r.Intn(10)]
		n := r.Intn(8)
		b := make([]byte, n)
		for i := range b {
			b[i] = alpha[r.Intn(len(alpha))]
		}
		return p + string(b)
	default:
		n := r.Intn(6)
		b := make([]byte, n)
		for i := range b {
			b[i] = alpha[r.Intn(16)]
		}
		if n > 1 && r.Intn(2) == 0 {
			b[r.Intn(n)] = '_'
		}
		return []string{"", "0x", "0b", "0"}[r.Intn(4)] + string(b)
	}
}

// ---------------------------------------------------------------------------------------------
// valid-but-not-canonical SML

var fixedTexts = []string{
	"", " \n\t", ".", "S1F1.", "S1F1\n.", "S1F1 W.", "S1F2 W\n.", "S128F1\n.", "S1F256\n.", "S1F1", "S1\n.", "SxF1\n.", "S1F\n.", "s1f1\n.",
	"name:S1F1 W\n<A 'x'>\n.", ":S1F1\n.", "a:b:S1F1\n.", "'S1F1' W\n.", "\"S1F1'W.", "S1F1 W <L> .", "S1F1\nW\n.", "S01F001\n.", "S1F1\n<A>.", "S1F1\n<A >.", "S1F1\n<A[0]>.",
	"S1F1 <A 65 0x42 0b1000011 0o104 'E'>.", "S1F1 <A 256>.", "S1F1 <A 0x>.", "S1F1 <A \"a\\\"b\\\\c\\>d\\e\">.", "S1F1 <A 'a\"b'>.", "S1F1 <A \"a>.", "S1F1 <A \"a\">x.",
	"S1F1 <A \"é\" 0xe9>.", "S1F1 <A é>.", "S1F1 <A \"\xff\">.", "S1F1 <A 6\xc3\xa95>.", "S1F1 <A \"a\"\"b\">.", "S1F1 <A \"a\"0x41>.", "S1F1 <A 0x41\"a\">.", "S1F1 <A 1_0>.",
	"S1F1 <L[2] <L> <L[0]>>.", "S1F1 <L <A 'x'> // c\n <B 1> /* d */ >.", "S1F1 <L x>.", "S1F1 <L", "S1F1 <L <L <L >>>.", "S1F1 <L[1..2] <U1 1>>.", "S1F1 <L[..2]>.", "S1F1 <L[2..]>.", "S1F1 <L[3..2]>.",
	"S1F1 <L[ 1 .. 2 ]>.", "S1F1 <L[1.2]>.", "S1F1 <L[]>.", "S1F1 <L[2147483647]>x", "S1F1 <B 0x1 0b1 0o1 1 01 255>.", "S1F1 <B 256>.", "S1F1 <B -1>.", "S1F1 <B>.", "S1F1 <BOOLEAN t T true TRUE f F false False>.",
	"S1F1 <boolean tRuE>.", "S1F1 <BOOLEAN yes>.", "S1F1 <BOOLEAN falſe>.", "S1F1 <BOx 1>.", "S1F1 <BO 1>.", "S1F1 <B[1] 1>.", "S1F1 <Bx 1>.", "S1F1 <b 1>.",
	"S1F1 <I1 -128 127 0x7f -0x80>.", "S1F1 <I1 128>.", "S1F1 <I2 1_000>.", "S1F1 <I8 -9223372036854775808>.", "S1F1 <I3 1>.", "S1F1 <U1 255 0xff>.", "S1F1 <U1 -1>.", "S1F1 <U8 18446744073709551615>.", "S1F1 <U8 18446744073709551616>.",
	"S1F1 <F4 1 1.5 -0 +Inf inf NaN 1e38 0x1p-2>.", "S1F1 <F4 1e39>.", "S1F8 <F8 1e308 1e309>.", "S1F1 <F8 1\u00a02\u20033>.", "S1F1 <F8 1_0>.", "S1F1 <F4>.", "S1F1 <F2 1>.", "S1F1 <F8 x>.",
	"S1F1 <J 'a\"b'>.", "S1F1 <J \"a\">.", "S1F1 <J \"a>.", "S1F1 <J \">.", "S1F1 <J>.", "S1F1 <J x>.", "S1F1 <J \"a>b\">.", "S1F1 <J \"a\" >.", "S1F1 <J[3] \"日本\">.", "S1F1 <W \"x\">.", "S1F1 <W 'x\\n'>.", "S1F1 <W>.",
	"S1F1 <A 'x'> . S2F3 W <L> . S4F5 .", "S1F1 <A 'x'> .S2F2 W.", "// c\nS1F1 /* x */ <L> .", "/* S1F1", "S1F1 // c\n <L> .", "S1F1 /*c*/ /*d*/ <L>.", "S1F1 <U1 /* c */ 1>.", "S1F1 <A /* c */ 'x'>.",
	"S1F1 <A // c\n 'x'>.", "S1F1 <L /* c */ <L> /* d */ /* e */>.", "S1F1 <U1[1]// c\n 1>.", "S1F1 <L>/*x*/.", "S1F1 <L>/*x*//*y*/.", "S1F1\n<A[1] \">\">\n.", "S1F1\n<A[1] \"\\>\">\n.",
	"S1F1 <A", "S1F1 <A[", "S1F1 <A[1", "S1F1 <A[1]", "S1F1 <", "S1F1 <I", "S1F1 <F", "S1F1 <B", "S1F1 <BOOLEA", "S1F1 <U1 1", "S1F1 <A[99999999999]>.", "S1F1 <A[4294967295]>.",
}

func ws(r *rand.Rand) string {
	switch r.Intn(8) {
	case 0:
		return ""
	case 1:
		return "\n"
	case 2:
		return "\t"
	case 3:
		return "  "
	case 4:
		return "\r\n"
	default:
		return " "
	}
}

func ws1(r *rand.Rand) string {
	s := ws(r)
	if s == "" {
		return " "
	}
	return s
}

func comment(r *rand.Rand) string {
	switch r.Intn(12) {
	case 0:
		return "// note " + string(smlcase.PlainBytes(r, r.Intn(6), false)) + "\n"
	case 1:
		return "/* " + string(smlcase.PlainBytes(r, r.Intn(6), false)) + " */"
	default:
		return ""
	}
}

func caseMix(r *rand.Rand, s string) string {
	if r.Intn(3) != 0 {
		return s
	}
	b := []byte(s)
	for i := range b {
		if r.Intn(2) == 0 {
			b[i] = byte(strings.ToLower(string(b[i]))[0])
		}
	}
	return string(b)
}

func sizeHint(r *rand.Rand, n int) string {
	switch r.Intn(8) {
	case 0:
		return ""
	case 1:
		return fmt.Sprintf("[%d..%d]", r.Intn(n+1), n+r.Intn(3))
	case 2:
		return fmt.Sprintf("[..%d]", n+r.Intn(3))
	case 3:
		return fmt.Sprintf("[%d..]", n)
	case 4:
		return fmt.Sprintf("[ %d ]", n)
	case 5:
		return fmt.Sprintf("[%d]", r.Intn(50))
	default:
		return fmt.Sprintf("[%d]", n)
	}
}

func intLit(r *rand.Rand, v int64) string {
	neg := v < 0
	var u uint64
	if neg {
		u = uint64(-v)
	} else {
		u = uint64(v)
	}
	var s string
	switch r.Intn(7) {
	case 0:
		s = "0x" + strconv.FormatUint(u, 16)
	case 1:
		s = "0X" + strings.ToUpper(strconv.FormatUint(u, 16))
	case 2:
		s = "0b" + strconv.FormatUint(u, 2)
	case 3:
		s = "0o" + strconv.FormatUint(u, 8)
	case 4:
		s = "0" + strconv.FormatUint(u, 8)
	default:
		s = strconv.FormatUint(u, 10)
		if len(s) > 3 && r.Intn(4) == 0 {
			s = s[:len(s)-3] + "_" + s[len(s)-3:]
		}
	}
	if neg {
		return "-" + s
	}
	if r.Intn(8) == 0 {
		return "+" + s
	}
	return s
}

func asciiBody(r *rand.Rand) string {
	n := r.Intn(5)
	var parts []string
	for i := 0; i < n; i++ {
		switch r.Intn(3) {
		case 0:
			q := []string{"\"", "'"}[r.Intn(2)]
			if i > 0 && len(parts) > 0 {
				// all runs of one item must use the item's first quote character
				for _, p := range parts {
					if p[0] == '"' || p[0] == '\'' {
						q = string(p[0])
						break
					}
				}
			}
			var sb strings.Builder
			sb.WriteString(q)
			for j := r.Intn(6); j > 0; j-- {
				switch r.Intn(10) {
				case 0:
					sb.WriteString("\\" + q)
				case 1:
					sb.WriteString("\\\\")
				case 2:
					sb.WriteString("\\>")
				case 3:
					sb.WriteString([]string{"é", "日", "\xff", "\xc3", "\\n", "<", "."}[r.Intn(7)])
				default:
					ch := byte(0x20 + r.Intn(0x5f))
					if ch == '"' || ch == '\'' || ch == '\\' || ch == '>' {
						ch = 'z'
					}
					sb.WriteByte(ch)
				}
			}
			sb.WriteString(q)
			parts = append(parts, sb.String())
		case 1:
			parts = append(parts, intLit(r, int64(r.Intn(256))))
		default:
			parts = append(parts, fmt.Sprintf("0x%02X", r.Intn(256)))
		}
	}
	sep := " "
	return strings.Join(parts, sep)
}

func variantItem(r *rand.Rand, depth int) string {
	open := "<" + ws(r)
	if r.Intn(4) != 0 {
		open = "<"
	}
	k := r.Intn(12)
	if depth >= 3 && k == 0 {
		k = 1
	}
	switch k {
	case 0:
		n := r.Intn(4)
		var sb strings.Builder
		sb.WriteString(open + caseMix(r, "L") + sizeHint(r, n) + comment(r))
		for i := 0; i < n; i++ {
			sb.WriteString(ws(r) + variantItem(r, depth+1) + comment(r))
		}
		sb.WriteString(ws(r) + ">")
		return sb.String()
	case 1:
		return open + caseMix(r, "A") + sizeHint(r, r.Intn(5)) + ws(r) + comment(r) + ws(r) + asciiBody(r) + ws(r) + ">"
	case 2:
		q := []string{"\"", "'"}[r.Intn(2)]
		return open + caseMix(r, "J") + sizeHint(r, r.Intn(5)) + ws(r) + q + string(smlcase.PlainBytes(r, r.Intn(6), true)) + q + ">"
	case 3:
		q := []string{"\"", "'"}[r.Intn(2)]
		return open + caseMix(r, "W") + ws1(r) + q + string(smlcase.PlainBytes(r, r.Intn(6), true)) + q + ">"
	case 4:
		n := r.Intn(4)
		s := open + caseMix(r, "B") + sizeHint(r, n)
		if !strings.Contains(s, "[") {
			s += " "
		}
		for i := 0; i < n; i++ {
			s += ws1(r) + intLit(r, int64(r.Intn(256)))
		}
		return s + ws(r) + ">"
	case 5:
		n := r.Intn(4)
		s := open + caseMix(r, "BOOLEAN") + sizeHint(r, n)
		for i := 0; i < n; i++ {
			s += ws1(r) + caseMix(r, []string{"True", "False", "T", "F", "TRUE", "false"}[r.Intn(6)])
		}
		return s + ws(r) + ">"
	case 6, 7:
		w := []int{1, 2, 4, 8}[r.Intn(4)]
		n := r.Intn(4)
		s := open + caseMix(r, fmt.Sprintf("I%d", w)) + sizeHint(r, n) + comment(r)
		for i := 0; i < n; i++ {
			lim := int64(math.MinInt64) // 2^63 wraps: for w = 8 the "out of range" literal is MinInt64 itself
			var v int64
			if w == 8 {
				v = r.Int63()
			} else {
				lim = int64(1) << uint(8*w-1)
				v = r.Int63n(lim)
			}
			if r.Intn(2) == 0 {
				v = -v - 1
			}
			if r.Intn(12) == 0 {
				v = lim // out of range (except w = 8 where it wraps to MinInt64)
			}
			s += ws1(r) + intLit(r, v)
		}
		return s + ws(r) + ">"
	case 8, 9:
		w := []int{1, 2, 4, 8}[r.Intn(4)]
		n := r.Intn(4)
		s := open + caseMix(r, fmt.Sprintf("U%d", w)) + sizeHint(r, n)
		for i := 0; i < n; i++ {
			v := r.Uint64() >> uint(64-8*w)
			lit := intLit(r, int64(v>>1))
			if r.Intn(3) == 0 {
				lit = strconv.FormatUint(v, 10)
			}
			s += ws1(r) + lit
		}
		return s + ws(r) + ">"
	default:
		w := []int{4, 8}[r.Intn(2)]
		n := r.Intn(4)
		s := open + caseMix(r, fmt.Sprintf("F%d", w)) + sizeHint(r, n)
		for i := 0; i < n; i++ {
			var lit string
			switch r.Intn(6) {
			case 0:
				lit = []string{"inf", "-Inf", "+INF", "nan", "NaN", "Infinity", "1e400", "1e39", "-1e39", "0x1p-2", "1_0", ".5", "5.", "1e", "--1"}[r.Intn(15)]
			case 1:
				lit = strconv.FormatFloat(r.NormFloat64()*1e3, 'f', r.Intn(6), 64)
			case 2:
				lit = strconv.FormatFloat(math.Float64frombits(r.Uint64()), 'g', -1, 64)
			default:
				lit = strconv.FormatFloat(float64(r.Intn(2000)-1000)/8, 'G', -1, 64)
			}
			sep := ws1(r)
			if r.Intn(20) == 0 {
				sep = []string{"\u00a0", "\u2003", "\v", "\f", "\u0085"}[r.Intn(5)]
			}
			s += sep + lit
		}
		return s + ws(r) + ">"
	}
}

func variantText(r *rand.Rand) string {
	var sb strings.Builder
	n := 1
	if r.Intn(4) == 0 {
		n = 2 + r.Intn(2)
	}
	for i := 0; i < n; i++ {
		sb.WriteString(ws(r) + comment(r))
		if r.Intn(6) == 0 {
			sb.WriteString(string(smlcase.PlainBytes(r, r.Intn(5), false)) + ":")
		}
		q := []string{"", "", "", "'", "\""}[r.Intn(5)]
		f := r.Intn(256)
		s := r.Intn(128)
		if r.Intn(20) == 0 {
			s = 128 + r.Intn(200)
		}
		sb.WriteString(q + fmt.Sprintf("S%dF%d", s, f) + q)
		if r.Intn(2) == 0 && (f%2 == 1 || r.Intn(10) == 0) {
			sb.WriteString(ws(r) + "W")
		}
		sb.WriteString(ws1(r) + comment(r))
		if r.Intn(8) != 0 {
			sb.WriteString(variantItem(r, 0))
		}
		sb.WriteString(ws(r) + ".")
	}
	sb.WriteString(ws(r))
	return sb.String()
}

func mutate(r *rand.Rand, s string) string {
	b := []byte(s)
	if len(b) == 0 {
		return "<"
	}
	for k := 1 + r.Intn(2); k > 0; k-- {
		i := r.Intn(len(b))
		switch r.Intn(6) {
		case 0:
			b = append(b[:i], b[i+1:]...)
		case 1:
			b = b[:i]
		case 2:
			pool := []byte("<>[].\"'\\ \n/*:WwSF0x_-")
			ins := pool[r.Intn(len(pool))]
			b = append(b[:i], append([]byte{ins}, b[i:]...)...)
		case 3:
			pool := []byte("<>[].\"'\\ \n/*:9aZ\xff\xc3")
			b[i] = pool[r.Intn(len(pool))]
		case 4:
			b[i] ^= 1 << uint(r.Intn(8))
		default:
			j := r.Intn(len(b))
			b[i], b[j] = b[j], b[i]
		}
		if len(b) == 0 {
			break
		}
	}
	_ = utf8.RuneError
	return string(b)
}
