// Command c20 is the e2e harness for C20 (connection metrics conserve): real HSMS-SS connections
// over successive net.Pipe generations; histories of sends ending in every outcome (reply, peer
// reject, T3, disconnect, cancel, B1/B2 refusal, write error; sync W, sync W-clear, async),
// interleaved with drops, reconnects (also with a gated dial so that the reconnect loop is
// provably running), Close and reopen. The scripted peers and the harness keep INDEPENDENT counts;
// at quiescent points the metrics getters must equal them (implementation-level oracle), and the
// recorded log with the snapshots goes through the extracted monitor ok_C20 (H lines);
// deterministic scenarios are compared for equality with the model run (M lines).
package main

import (
	"context"
	"flag"
	"fmt"
	"math/rand"
	"os"
	"sync"
	"sync/atomic"
	"time"

	"github.com/arloliu/go-secs/v2/hsms"

	"verifharness/genx"
	"verifharness/vh"
)

const slack = 3 * time.Second

// -proto hsmsss|secs1: which transport sits under the shared engine
var proto = flag.String("proto", "hsmsss", "hsmsss|secs1")

func s1() bool { return *proto == "secs1" }

type S struct {
	c     *vh.Ctx
	name  string
	e     *genx.Env
	stopS chan struct{}
	sWg   sync.WaitGroup
	minIn atomic.Int64
	minRe atomic.Int64
	// expected reconnects: successful re-dials after involuntary drops
	reconnects int64
	unsettled  bool
	bad        bool
	// stableNoHandler: see indep
	stableNoHandler bool
}

func (s *S) fail(what, kase string) { s.bad = true; s.c.Fail(what, s.name+" "+kase) }

func (s *S) must(ok bool, what string) bool {
	if !ok {
		s.fail("scenario step not reached: "+what, "")
	}
	return ok
}

func newS(c *vh.Ctx, name string, o genx.Options, onGen func(p *genx.Peer)) *S {
	if s1() {
		o.Secs1, o.Retry = true, 1
		if o.T2 == 0 {
			// scripted scenarios: a line timer far above the scripted peer's worst scheduling delay,
			// so that the library does not end a generation on its own (random histories use 30 ms)
			o.T2 = 150 * time.Millisecond
		}
		name = "s1-" + name
	}
	e, err := genx.NewEnv(o)
	if err != nil {
		panic(err)
	}
	e.OnGen = onGen
	s := &S{c: c, name: name, e: e, stopS: make(chan struct{})}
	// gauge sampler: the two gauges are never negative at ANY instant
	s.sWg.Add(1)
	go func() {
		defer s.sWg.Done()
		m := e.Conn.Metrics()
		for {
			select {
			case <-s.stopS:
				return
			default:
			}
			if v := m.DataMsgInflightCount(); v < s.minIn.Load() {
				s.minIn.Store(v)
			}
			if v := m.Reconnecting(); v < s.minRe.Load() {
				s.minRe.Store(v)
			}
			time.Sleep(100 * time.Microsecond)
		}
	}()
	return s
}

// counts derived from the harness's own call records and the peers' own frame counts
type indep struct {
	sent, recvHi, recvEv, err, drop, aerr, redials int64
}

func (s *S) indep() (x indep) {
	for _, p := range s.e.Peers() {
		x.sent += p.DataRecv.Load()
		x.recvHi += p.DataSent.Load() + p.DataSentMaybe.Load()
	}
	// evidence that a frame the peer wrote was dispatched: a handler call, a decode-error handler
	// call, a reply result (below), or - for a foreign-session frame under session-ID validation -
	// the S9F1 the peer read back
	x.recvEv = s.e.HandlerCalls.Load() + s.e.DecodeErrCalls.Load()
	for _, p := range s.e.Peers() {
		x.recvEv += p.S9F1Seen.Load()
	}
	defer func() {
		if s.stableNoHandler {
			// no data handler is registered, so own-session primaries leave no evidence; the
			// scenario writes every peer frame at a stable Selected point (no drop in flight), so
			// every completely written frame must have been dispatched and counted
			x.recvEv = x.recvHi
		}
	}()
	for _, c := range s.e.Calls() {
		select {
		case <-c.Done():
		default:
			continue
		}
		switch c.Res {
		case genx.RReply:
			x.recvEv++
		case genx.RTimer:
			x.err++
		case genx.RWriteErr:
			if c.Kind != genx.KAsync {
				x.err++
			}
		case genx.RNotSel:
			x.drop++
		}
	}
	x.aerr, x.drop = s.e.AsyncErrs.Load(), x.drop+s.e.AsyncNotSel.Load()
	x.redials = s.e.ReDials.Load()
	return x
}

// quiesce waits until every started call has returned, the async sender has flushed (every
// queued call is on a wire or failed, unless its generation is gone), every frame the peers wrote
// shows evidence of dispatch, and the reconnect loop (if any) has exited; then snapshots and
// compares the getters with the independent counts. live: the connection is expected Selected.
func (s *S) quiesce(live bool, where string) {
	e := s.e
	for _, c := range e.Calls() {
		if !c.Wait(e.T3 + e.CloseTimeout + slack) {
			s.fail("send never returned", fmt.Sprintf("%s call=%d", where, c.ID))
			return
		}
	}
	if live && !s.must(e.WaitState(hsms.SelectedState, 10*time.Second), where+": selected") {
		return
	}
	dl := time.Now().Add(2 * time.Second)
	settled := false
	for time.Now().Before(dl) {
		x := s.indep()
		pending := 0
		for _, c := range e.Calls() {
			if c.Kind == genx.KAsync && c.Res == genx.RQueued && atomic.LoadInt32(&c.WireGen) < 0 && atomic.LoadInt32(&c.AsyncErr) == 0 && c.Lo == e.Gen() && live {
				pending++
			}
		}
		if x.recvEv == x.recvHi && pending == 0 {
			settled = true
			break
		}
		time.Sleep(300 * time.Microsecond)
	}
	if !e.WaitReconnectingZero(5 * time.Second) {
		s.fail("reconnecting gauge not zero at a quiescent point", fmt.Sprintf("%s value=%d", where, e.Conn.Metrics().Reconnecting()))
	}
	// the increments follow the observable effects by a few instructions on other goroutines:
	// poll (bounded) until the getters agree with the independent counts; a leaked or missed
	// unit never converges and is reported below
	var x indep
	tSettle := time.Now()
	defer func() {
		if time.Since(tSettle) > time.Second {
			s.c.Count("slow-settle") // visible in the evidence: a count that trailed by more than 1 s
		}
	}()
	// generous bound: the scripted SECS-I peer has 1 s line timeouts of its own, so after a line
	// hiccup its count can trail by seconds; a leaked or missed unit never converges at all
	agree := func(m [8]int64, x indep) bool {
		return m[0] == x.sent && m[1] >= x.recvEv && m[1] <= x.recvHi && m[2] == 0 && m[3] == x.err && m[4] == x.drop && m[5] == x.aerr && m[6] == 0 && m[7] == x.redials
	}
	var m [8]int64
	took := false
	for dl := time.Now().Add(8 * time.Second); !took && time.Now().Before(dl); {
		waitFor(time.Until(dl), func() bool { return agree(e.Metrics(), s.indep()) })
		// the snapshot is recorded with the harness's bookkeeping frozen, and only if the getters
		// still agree with it: a library-originated frame (S9F1 / S9F9 notice) landing between the
		// poll and the snapshot sends us round the loop again instead of into the log
		m, took = e.SnapshotIf(true, func(mm [8]int64) bool { x = s.indep(); return agree(mm, x) })
	}
	maybe := int64(0)
	for _, p := range e.Peers() {
		maybe += p.DataSentMaybe.Load()
	}
	if !settled || maybe > 0 {
		// (maybe > 0: a SECS-I block was written but its ACK never arrived; whether the library
		// dispatched it is not observable, so the log's D events would be a guess)
		s.unsettled = true
		s.c.Count("recv-unsettled")
	}
	if !took {
		m, _ = e.SnapshotIf(true, func(mm [8]int64) bool { x = s.indep(); return true }) // never converged: reported below
	}
	kase := fmt.Sprintf("%s sentDelta=%d getters{sent=%d recv=%d inflight=%d err=%d drop=%d asyncErr=%d reconnecting=%d reconnects=%d} independent{peerRecv=%d peerSent=%d dispatchEvidence=%d err=%d drop=%d asyncErr=%d reconnects=%d}",
		where, m[0]-x.sent, m[0], m[1], m[2], m[3], m[4], m[5], m[6], m[7], x.sent, x.recvHi, x.recvEv, x.err, x.drop, x.aerr, x.redials)
	if m[2] != 0 {
		s.fail("in-flight gauge not zero at a quiescent point", kase)
	}
	if m[0] != x.sent {
		s.fail("data-sent counter differs from the data frames the peers received", kase)
	}
	if m[1] < x.recvEv || m[1] > x.recvHi {
		s.fail("data-received counter outside [frames with dispatch evidence, frames the peers wrote]", kase)
	}
	if m[3] != x.err {
		s.fail("error counter differs from the number of T3 + write-error outcomes", kase)
	}
	if m[4] != x.drop {
		s.fail("not-selected drop counter differs from the number of refused sends", kase)
	}
	if m[5] != x.aerr {
		s.fail("async-error counter differs from the async error callbacks", kase)
	}
	if m[6] != 0 {
		s.fail("reconnecting gauge not zero at a quiescent point", kase)
	}
	if x.redials > s.reconnects {
		// a generation ended without the scenario injecting it (e.g. a SECS-I send ran out of
		// retries because the scripted peer was scheduled late): still an involuntary drop followed
		// by a successful re-dial, which the harness's dial callback counted
		s.c.Count("generation-ended-by-library")
		s.reconnects = x.redials
	}
	if m[7] != x.redials {
		s.fail("reconnects counter differs from the successful re-dials after involuntary drops", kase)
	}
}

func (s *S) finish() {
	e := s.e
	done := make(chan struct{})
	go func() { _ = e.Close(); close(done) }()
	select {
	case <-done:
	case <-time.After(e.CloseTimeout + slack):
		s.fail("Close did not return within closeTimeout + slack", "")
	}
	for _, p := range e.Peers() {
		p.Close()
	}
	for _, p := range e.Peers() {
		select {
		case <-p.EOF:
		case <-time.After(slack):
		}
	}
	s.quiesce(false, "closed")
	close(s.stopS)
	s.sWg.Wait()
	if s.minIn.Load() < 0 {
		s.fail("in-flight gauge negative", fmt.Sprintf("min=%d", s.minIn.Load()))
	}
	if s.minRe.Load() < 0 {
		s.fail("reconnecting gauge negative", fmt.Sprintf("min=%d", s.minRe.Load()))
	}
	evs := e.Finish()
	if s.unsettled {
		// a frame written by a peer raced a drop or a timer: whether it was dispatched while
		// Selected is not observable from outside; the log's dispatch evidence (D events) would
		// be a guess, so this history is judged by the Go bounds only
		s.c.Count("scenario-unsettled:" + s.name)
		return
	}
	for _, c := range e.Calls() {
		s.c.Count("result:" + genx.ResName(c.Res))
	}
	if s.bad {
		// the history already failed an implementation-level oracle (reported with its own
		// case): the monitor would only repeat it as a correspondence mismatch
		s.c.Count("scenario-failed:" + s.name)
		if os.Getenv("VERIF_DEBUG") != "" {
			fmt.Fprintln(os.Stderr, "FAILED-HISTORY "+s.name+" | "+genx.Line(evs))
		}
		return
	}
	line := "H " + s.name + " | " + genx.Line(evs)
	s.c.Case(line, line, len(evs) > 3)
	s.c.Count("scenario:" + s.name)
}

func (s *S) wait(cs ...*genx.Call) {
	for _, c := range cs {
		c.Wait(s.e.T3 + s.e.CloseTimeout + slack)
	}
}

func waitFor(d time.Duration, f func() bool) bool {
	dl := time.Now().Add(d)
	for time.Now().Before(dl) {
		if f() {
			return true
		}
		time.Sleep(200 * time.Microsecond)
	}
	return false
}

// dropAndReconnect closes the current peer and waits for the next generation to be Selected.
func (s *S) dropAndReconnect() bool {
	g := s.e.Gen()
	s.e.Peer(g).Close()
	if !s.must(s.e.WaitSelected(g+1, 10*time.Second), fmt.Sprintf("generation %d selected", g+1)) {
		return false
	}
	s.reconnects++
	return true
}

// scenario: one send per outcome, a snapshot after each group.
func outcomes(c *vh.Ctx) {
	o := genx.DefaultOptions()
	o.T3 = 40 * time.Millisecond
	s := newS(c, "outcomes", o, nil)
	defer s.finish()
	e := s.e
	if !s.must(e.Open(5*time.Second) == nil, "open") {
		return
	}
	bg := context.Background()
	p := e.Peer(0)
	// reply, W-clear, async
	s.wait(e.Start(genx.KSyncW, bg), e.Start(genx.KSyncNW, bg), e.Start(genx.KAsync, bg))
	// unsolicited primaries from the peer
	_ = p.Primary(1)
	_ = p.Primary(2)
	s.quiesce(true, "after-replies")
	// a duplicate of an already delivered reply: an orphan secondary, counted, handed to the handlers
	p.Mute.Store(true)
	cd := e.Start(genx.KSyncW, bg)
	s.must(waitFor(5*time.Second, cd.OnWire), "primary on the wire")
	held := p.TakeHeld()
	p.Mute.Store(false)
	for _, f := range held {
		_ = p.Reply(f)
	}
	s.wait(cd)
	if !s1() { // on a SECS-I line an identical block is a retransmission and is discarded (E4 9.4.2)
		for _, f := range held {
			_ = p.Reply(f)
		}
	}
	s.quiesce(true, "after-duplicate")
	// peer reject (HSMS-SS only: SECS-I has no Reject.req)
	if !s1() {
		p.RejectAll.Store(true)
		s.wait(e.Start(genx.KSyncW, bg))
		p.RejectAll.Store(false)
		s.quiesce(true, "after-reject")
	}
	// T3, then the late reply arrives as an unsolicited secondary
	p.Mute.Store(true)
	cl := e.Start(genx.KSyncW, bg)
	s.wait(cl)
	for _, f := range p.TakeHeld() {
		_ = p.Reply(f)
	}
	p.Mute.Store(false)
	s.quiesce(true, "after-t3")
	// caller cancellation while awaiting the reply
	p.Mute.Store(true)
	ctx, cancel := context.WithTimeout(bg, 5*time.Millisecond)
	s.wait(e.Start(genx.KSyncW, ctx))
	cancel()
	p.TakeHeld()
	p.Mute.Store(false)
	s.quiesce(true, "after-cancel")
	if !s1() {
		// B2 refusal: a sender parked in writeFrame while the peer deselects
		rel := e.StallCall(len(e.Calls()))
		cl = e.Start(genx.KSyncW, bg)
		if _, ok := e.WaitParked(5 * time.Second); s.must(ok, "parked") {
			_ = p.Deselect()
			s.must(e.WaitState(hsms.NotSelectedState, 5*time.Second), "deselected")
		}
		rel()
		s.wait(cl)
		s.must(waitFor(5*time.Second, func() bool { return p.CtrlSeen[4].Load() == 1 }), "Deselect.rsp received")
		// B1 refusals of every kind while NotSelected
		s.wait(e.Start(genx.KSyncW, bg), e.Start(genx.KSyncNW, bg), e.Start(genx.KAsync, bg))
		// a data frame received while NotSelected is answered with Reject.req and NOT counted
		_ = p.PrimaryUncounted(77)
		s.must(waitFor(5*time.Second, func() bool { return p.CtrlSeen[7].Load() == 1 }), "Reject.req for data while not selected")
		s.quiesce(false, "after-refusals")
	}
	// disconnect while awaiting the reply, on the next generation
	if !s.dropAndReconnect() {
		return
	}
	p = e.Peer(1)
	p.Mute.Store(true)
	cl = e.Start(genx.KSyncW, bg)
	s.must(waitFor(5*time.Second, cl.OnWire), "primary on the wire")
	if !s.dropAndReconnect() {
		return
	}
	s.wait(cl)
	s.quiesce(true, "after-disconnect")
	// write error: the peer stops reading, the write deadline fires (its own generation end);
	// SECS-I: the peer never grants the line and the send fails after T2 x (retry+1)
	if !s1() {
		_ = e.Conn.UpdateConfigOptions(hsms.WithWriteTimeout(30 * time.Millisecond))
	}
	p = e.Peer(2)
	p.StopRead.Store(true)
	cl = e.Start(genx.KSyncNW, bg)
	s.wait(cl)
	s.must(cl.Res == genx.RWriteErr, "write error outcome, got "+genx.ResName(cl.Res))
	if s.must(e.WaitSelected(3, 10*time.Second), "generation 3 selected") {
		s.reconnects++
	}
	s.wait(e.Start(genx.KSyncW, bg))
	s.quiesce(true, "after-writeerr")
}

// scenario: async frames whose generation ends while they are queued behind a parked sender:
// written / failed (counted) / stranded (not counted).
func asyncAcrossDrop(c *vh.Ctx, m int) {
	s := newS(c, "async-drop", genx.DefaultOptions(), nil)
	defer s.finish()
	e := s.e
	if !s.must(e.Open(5*time.Second) == nil, "open") {
		return
	}
	bg := context.Background()
	s.wait(e.Start(genx.KAsync, bg))
	s.quiesce(true, "before")
	rel := e.StallSender()
	cs := []*genx.Call{e.Start(genx.KAsync, bg)}
	if _, ok := e.WaitParked(5 * time.Second); !s.must(ok, "sender parked") {
		rel()
		return
	}
	for i := 0; i < m; i++ {
		cs = append(cs, e.Start(genx.KAsync, bg))
	}
	s.wait(cs...)
	ok := s.dropAndReconnect()
	rel()
	if ok {
		time.Sleep(3 * time.Millisecond)
		s.wait(e.Start(genx.KSyncW, bg), e.Start(genx.KAsync, bg))
		s.quiesce(true, "after")
	}
}

// scenario: the reconnect dial is gated by the harness, so the reconnect loop is provably running:
// the reconnecting gauge must be positive then, and zero once Selected again; k failed dials first.
func gatedReconnect(c *vh.Ctx, k int) {
	s := newS(c, fmt.Sprintf("gated-reconnect-%d", k), genx.DefaultOptions(), nil)
	defer s.finish()
	e := s.e
	gate := make(chan struct{})
	inDial := make(chan struct{}, 16)
	var fails atomic.Int64
	e.DialGate = func(g int) {
		if g >= 1 {
			select {
			case inDial <- struct{}{}:
			default:
			}
			<-gate
		}
	}
	e.DialErr = func(g int) error {
		if g >= 1 && fails.Add(1) <= int64(k) {
			return fmt.Errorf("scripted dial failure")
		}
		return nil
	}
	if !s.must(e.Open(5*time.Second) == nil, "open") {
		close(gate)
		return
	}
	bg := context.Background()
	s.wait(e.Start(genx.KSyncW, bg))
	s.quiesce(true, "before")
	e.Peer(0).Close()
	select {
	case <-inDial:
	case <-time.After(10 * time.Second):
		s.must(false, "reconnect loop reached the dial")
	}
	if v := e.Conn.Metrics().Reconnecting(); v <= 0 {
		s.fail("reconnecting gauge not positive while a reconnect loop is dialling", fmt.Sprintf("value=%d", v))
	}
	// sends while reconnecting are refused (B1)
	s.wait(e.Start(genx.KSyncW, bg), e.Start(genx.KAsync, bg))
	close(gate)
	if s.must(e.WaitSelected(1, 10*time.Second), "generation 1 selected") {
		s.reconnects++
		s.wait(e.Start(genx.KSyncW, bg))
		s.quiesce(true, "after")
	}
}

// scenario: two OVERLAPPING reconnect loops. Loop A (started by the drop of generation 0) publishes
// generation 1 and is held at the end of tr.Start; generation 1 selects and is dropped by its peer,
// so the supervisor starts loop B, which is held at its dial. Then A is released and exits (its
// deferred decrement runs) while B is provably still running: the reconnecting gauge must stay
// positive; it must be zero at the next quiescent Selected point and after Close.
func overlapLoops(c *vh.Ctx) {
	s := newS(c, "overlap-loops", genx.DefaultOptions(), nil)
	defer s.finish()
	e := s.e
	holdA, holdB := make(chan struct{}), make(chan struct{})
	aHeld, bHeld := make(chan struct{}, 1), make(chan struct{}, 1)
	var relA, relB sync.Once
	releaseA := func() { relA.Do(func() { close(holdA) }) }
	releaseB := func() { relB.Do(func() { close(holdB) }) }
	defer releaseA()
	defer releaseB()
	e.AfterStart = func(n int, err error) {
		if n == 2 && err == nil { // loop A's Start of generation 1 has completed
			aHeld <- struct{}{}
			<-holdA
		}
	}
	e.DialGate = func(g int) {
		if g == 2 { // loop B about to dial generation 2
			bHeld <- struct{}{}
			<-holdB
		}
	}
	if !s.must(e.Open(5*time.Second) == nil, "open") {
		return
	}
	bg := context.Background()
	s.wait(e.Start(genx.KSyncW, bg))
	s.quiesce(true, "before")
	m := e.Conn.Metrics()
	e.Peer(0).Close() // involuntary drop of generation 0 -> loop A
	select {
	case <-aHeld:
	case <-time.After(10 * time.Second):
		s.must(false, "loop A held at the end of tr.Start")
		return
	}
	if !s.must(e.WaitSelected(1, 10*time.Second), "generation 1 selected while loop A is inside Start") {
		return
	}
	if v := m.Reconnecting(); v <= 0 {
		s.fail("reconnecting gauge not positive while a reconnect loop is inside tr.Start", fmt.Sprintf("value=%d", v))
	}
	e.Peer(1).Close() // generation 1 dropped by its peer -> loop B
	select {
	case <-bHeld:
	case <-time.After(10 * time.Second):
		s.must(false, "loop B reached its dial")
		return
	}
	if v := m.Reconnecting(); v <= 0 {
		s.fail("reconnecting gauge not positive while two reconnect loops run", fmt.Sprintf("value=%d", v))
	}
	releaseA() // A counts the re-establishment of generation 1 and exits
	s.must(waitFor(5*time.Second, func() bool { return m.Reconnects() == 1 }), "loop A counted its reconnect")
	s.reconnects = 1
	// loop B is still held at its dial: the gauge must read positive at every instant
	for t0 := time.Now(); time.Since(t0) < 30*time.Millisecond; time.Sleep(200 * time.Microsecond) {
		if v := m.Reconnecting(); v <= 0 {
			s.fail("reconnecting gauge not positive while a reconnect loop runs (an overlapping loop exited)", fmt.Sprintf("value=%d", v))
			break
		}
	}
	releaseB()
	if s.must(e.WaitSelected(2, 10*time.Second), "generation 2 selected") {
		s.reconnects = 2
		s.wait(e.Start(genx.KSyncW, bg))
		s.quiesce(true, "after")
	}
}

// scenario (SECS-I): line-level retransmissions in both directions. The peer behaves as a sender that
// lost the library's ACK: after every acknowledged block (single-block messages, and the non-final
// and final blocks of multi-block messages) it transmits the identical block again once or twice;
// and as a receiver that rejects / misses the first transmission of every block the library sends,
// so the library retransmits. The counters count MESSAGES, not transmissions: dataRecv = messages
// the peer sent (each handed to the handlers / a waiter exactly once), dataSent = messages the peer
// received.
func s1Retransmissions(c *vh.Ctx, r *rand.Rand) {
	dup := int32(1 + r.Intn(2))
	s := newS(c, "retransmissions", genx.DefaultOptions(), func(p *genx.Peer) { p.Dup.Store(dup) })
	defer s.finish()
	e := s.e
	if !s.must(e.Open(5*time.Second) == nil, "open") {
		return
	}
	bg := context.Background()
	round := func(where string) {
		p := e.Peer(e.Gen())
		s.wait(e.Start(genx.KSyncW, bg), e.Start(genx.KSyncNW, bg), e.Start(genx.KAsync, bg), e.Start(genx.KSyncW, bg))
		_ = p.Primary(1)
		_ = p.PrimaryBig(2, 300+r.Intn(300)) // 2-3 blocks
		_ = p.Primary(3)
		_ = p.PrimaryBig(4, 244*2) // exactly two full blocks
		_ = p.PrimaryBig(5, 700)
		s.quiesce(true, where)
	}
	round("duplicates")
	if d := e.Peer(0).DupSent.Load(); d == 0 {
		s.must(false, "the peer retransmitted acknowledged blocks")
	}
	// the library's own blocks: first transmission NAKed, then first transmission unanswered
	e.Peer(0).NakFirst.Store(1)
	round("nak-first")
	e.Peer(0).NakFirst.Store(2)
	s.wait(e.Start(genx.KSyncW, bg), e.Start(genx.KSyncNW, bg))
	s.quiesce(true, "silent-first")
	e.Peer(0).NakFirst.Store(0)
	if s.dropAndReconnect() {
		round("next-generation")
	}
}

// scenario (HSMS-SS): the connection OPTIONS the counters depend on. One short history per
// combination of session-ID validation (off/on) x autoS9F9 (off/on) x handler mode (data handler /
// no data handler / data handler + decode-error handler), trace on in half of them. The peer sends
// own-session primaries, FOREIGN-session primaries, a primary whose body does not decode, a reply
// under a foreign session to a waiting send, and lets one send run into T3. References: dataRecv =
// data frames the peer wrote (whatever their session: a foreign-session frame is counted, then -
// with validation - dropped and answered S9F1), dataSent = data frames the peer read (the S9F1 /
// S9F9 notices included), errors = T3 outcomes.
func optionMatrix(c *vh.Ctx, validate, auto bool, hmode int) {
	o := genx.DefaultOptions()
	o.T3 = 250 * time.Millisecond // far above the scripted reply latency: a T3 here is never a scheduling accident
	o.ValidateSessionID, o.AutoS9F9, o.HandlerMode, o.TraceTraffic = validate, auto, hmode, (hmode+b2i(validate)+b2i(auto))%2 == 1
	s := newS(c, fmt.Sprintf("options-v%d-a%d-h%d", b2i(validate), b2i(auto), hmode), o, nil)
	s.stableNoHandler = hmode == 1
	defer s.finish()
	e := s.e
	if !s.must(e.Open(5*time.Second) == nil, "open") {
		return
	}
	bg := context.Background()
	round := func(where string) {
		p := e.Peer(e.Gen())
		s.wait(e.Start(genx.KSyncW, bg), e.Start(genx.KSyncNW, bg), e.Start(genx.KAsync, bg))
		_ = p.Primary(1)
		_ = p.PrimaryForeign(2)
		_ = p.PrimaryBadBody(3)
		_ = p.PrimaryForeign(4)
		_ = p.Primary(5)
		// a reply under a foreign session to a waiting send: with validation it is dropped (S9F1) and
		// the send runs into T3; without, it is routed by its system bytes
		p.Mute.Store(true)
		cl := e.Start(genx.KSyncW, bg)
		if s.must(waitFor(5*time.Second, cl.OnWire), "primary on the wire") {
			for _, f := range p.TakeHeld() {
				_ = p.ReplyForeign(f)
			}
		}
		s.wait(cl)
		want := genx.RReply
		if validate {
			want = genx.RTimer
		}
		if cl.Res != want {
			s.fail("a reply under a foreign session ID had the wrong effect on the waiting send", fmt.Sprintf("%s validation=%v result=%s", where, validate, genx.ResName(cl.Res)))
		}
		// one plain T3 (first round only)
		nT3 := int64(b2i(validate))
		if where == "gen0" {
			cl = e.Start(genx.KSyncW, bg)
			s.wait(cl)
			nT3++
		}
		p.TakeHeld()
		p.Mute.Store(false)
		if auto && nT3 > 0 {
			n := nT3
			s.must(waitFor(5*time.Second, func() bool { return p.S9F9Seen.Load() >= n }), "S9F9 after T3")
		}
		if validate {
			s.must(waitFor(5*time.Second, func() bool { return p.S9F1Seen.Load() >= 3 }), "S9F1 for every foreign-session frame")
		}
		s.quiesce(true, where)
		if !validate && p.S9F1Seen.Load() != 0 {
			s.fail("S9F1 sent although session-ID validation is off", where)
		}
		if !auto && p.S9F9Seen.Load() != 0 {
			s.fail("S9F9 sent although autoS9F9 is off", where)
		}
	}
	round("gen0")
	if s.dropAndReconnect() {
		round("gen1")
	}
}

func b2i(b bool) int {
	if b {
		return 1
	}
	return 0
}

// scenario (HSMS-SS): involuntary drop from Selected while an application data handler blocks the
// generation's receive goroutine, so the old generation's teardown is SLOW (its bounded join runs
// toward closeTimeout). The reconnect loop is running from the moment the drop is reported
// (State()==NotConnected) — it is waiting for that teardown — so the reconnecting gauge must read
// positive all along, until the next Selected point, where it must be zero again.
func slowTeardownGauge(c *vh.Ctx) {
	o := genx.DefaultOptions()
	o.CloseTimeout = 1500 * time.Millisecond
	s := newS(c, "slow-teardown-gauge", o, nil)
	defer s.finish()
	e := s.e
	if !s.must(e.Open(5*time.Second) == nil, "open") {
		return
	}
	bg := context.Background()
	s.wait(e.Start(genx.KSyncW, bg))
	s.quiesce(true, "before")
	m := e.Conn.Metrics()
	hold := make(chan struct{})
	var rel sync.Once
	release := func() { rel.Do(func() { close(hold) }) }
	defer release()
	e.HandlerHold.Store(&hold)
	p0 := e.Peer(0)
	_ = p0.Primary(1) // its handler blocks the receive goroutine of generation 0
	if !s.must(waitFor(5*time.Second, func() bool { return e.HandlerCalls.Load() == 1 }), "handler entered") {
		return
	}
	p0.Close() // involuntary drop; the blocked receive goroutine cannot notice, a sender does
	cl := e.Start(genx.KSyncNW, bg)
	s.wait(cl)
	if !s.must(e.WaitState(hsms.NotConnectedState, 5*time.Second), "drop reported (NotConnected)") {
		return
	}
	// the loop's first statement runs a goroutine switch after the state flips: a short grace, then
	// the gauge must read positive at every instant while the old generation is still tearing down
	time.Sleep(30 * time.Millisecond)
	for t0 := time.Now(); time.Since(t0) < 400*time.Millisecond; time.Sleep(time.Millisecond) {
		if st := e.Conn.State(); st != hsms.NotConnectedState {
			break
		}
		if v := m.Reconnecting(); v <= 0 {
			s.fail("reconnecting gauge not positive while a reconnect loop runs (it waits for the old generation's slow teardown)", fmt.Sprintf("value=%d state=NotConnected handler_blocked=true", v))
			break
		}
	}
	e.HandlerHold.Store(nil)
	release()
	if s.must(e.WaitSelected(1, 10*time.Second), "generation 1 selected") {
		s.wait(e.Start(genx.KSyncW, bg))
		s.quiesce(true, "after")
	}
}

// scenario: OpenBackground against a peer whose first k dials fail: the initial-connect retry loop
// holds the reconnecting gauge positive, is NOT a reconnect, and sends meanwhile are refused.
func coldConnect(c *vh.Ctx, k int) {
	s := newS(c, fmt.Sprintf("cold-connect-%d", k), genx.DefaultOptions(), nil)
	defer s.finish()
	e := s.e
	gate := make(chan struct{})
	inDial := make(chan struct{}, 16)
	var n atomic.Int64
	e.DialGate = func(int) {
		if n.Add(1) > 1 { // every attempt after the first synchronous one is gated
			select {
			case inDial <- struct{}{}:
			default:
			}
			<-gate
		}
	}
	var fails atomic.Int64
	e.DialErr = func(int) error {
		if fails.Add(1) <= int64(k) {
			return fmt.Errorf("scripted dial failure")
		}
		return nil
	}
	if !s.must(e.OpenBackground() == nil, "open in background") {
		close(gate)
		return
	}
	bg := context.Background()
	select {
	case <-inDial:
	case <-time.After(10 * time.Second):
		s.must(false, "initial-connect retry loop reached the dial")
	}
	if v := e.Conn.Metrics().Reconnecting(); v <= 0 {
		s.fail("reconnecting gauge not positive while the initial-connect retry loop is dialling", fmt.Sprintf("value=%d", v))
	}
	s.wait(e.Start(genx.KSyncW, bg), e.Start(genx.KAsync, bg)) // refused
	close(gate)
	if s.must(e.WaitSelected(0, 10*time.Second), "generation 0 selected") {
		s.wait(e.Start(genx.KSyncW, bg))
		s.quiesce(true, "after") // reconnects stays 0: the first connect is not a reconnect
	}
}

// scenario (SECS-I): Close is called the instant the peer's ACK of a block got through, iters times.
// The library's Write waits on {engine result | generation done} with an unordered select, so the
// acknowledged block may be reported as ErrConnClosed and left out of the data-sent counter
// (known finding C20-secs1-acked-block-uncounted when it shows).
func closeAfterAck(c *vh.Ctx, iters int) {
	for it := 0; it < iters; it++ {
		s := newS(c, "close-after-ack", genx.DefaultOptions(), func(p *genx.Peer) { p.Mute.Store(true) })
		e := s.e
		if s.must(e.Open(5*time.Second) == nil, "open") {
			bg := context.Background()
			cs := []*genx.Call{e.Start(genx.KSyncW, bg), e.Start(genx.KSyncW, bg)}
			s.must(waitFor(5*time.Second, func() bool { return cs[0].OnWire() && cs[1].OnWire() }), "primaries acknowledged")
			_ = e.Close()
			s.wait(cs...)
		}
		s.finish()
	}
}

// scenario: Close with sends in flight, reopen, more sends (Close is not a reconnect).
func closeReopen(c *vh.Ctx) {
	s := newS(c, "close-reopen", genx.DefaultOptions(), func(p *genx.Peer) {
		if p.Gen == 0 {
			p.Mute.Store(true)
		}
	})
	defer s.finish()
	e := s.e
	if !s.must(e.Open(5*time.Second) == nil, "open") {
		return
	}
	bg := context.Background()
	cs := []*genx.Call{e.Start(genx.KSyncW, bg), e.Start(genx.KSyncW, bg)}
	s.must(waitFor(5*time.Second, func() bool { return cs[0].OnWire() && cs[1].OnWire() }), "primaries on the wire")
	_ = e.Close()
	s.wait(cs...)
	s.quiesce(false, "closed-1")
	s.wait(e.Start(genx.KSyncW, bg)) // refused: closed
	if !s.must(e.Open(5*time.Second) == nil, "reopen") {
		return
	}
	s.wait(e.Start(genx.KSyncW, bg), e.Start(genx.KAsync, bg))
	s.quiesce(true, "reopened")
}

// scenario: random concurrent history with drops; snapshots at the quiescent point after each
// generation and at the end.
func random(c *vh.Ctx, r *rand.Rand, idx int) {
	o := genx.DefaultOptions()
	o.T3 = time.Duration(150+r.Intn(100)) * time.Millisecond
	o.T2 = 30 * time.Millisecond
	nGen := 1 + r.Intn(3)
	mode := make([]int, 16)
	for i := range mode {
		mode[i] = r.Intn(4)
	}
	if !s1() {
		o.ValidateSessionID, o.AutoS9F9, o.TraceTraffic = r.Intn(2) == 0, r.Intn(2) == 0, r.Intn(4) == 0
		if r.Intn(3) == 0 {
			o.HandlerMode = 2
		}
	}
	lineMode := make([]int, 16)
	for i := range lineMode {
		lineMode[i] = r.Intn(9)
	}
	s := newS(c, fmt.Sprintf("random-%d", idx), o, func(p *genx.Peer) {
		if s1() { // line-level faults: duplicates of acknowledged blocks / first transmission NAKed or missed
			lm := lineMode[p.Gen%len(lineMode)]
			p.Dup.Store(int32(lm % 3))
			p.NakFirst.Store(int32(lm / 3))
		}
		switch mode[p.Gen%len(mode)] {
		case 1:
			p.Mute.Store(true)
		case 2:
			p.RejectAll.Store(true)
		}
	})
	defer s.finish()
	e := s.e
	if !s.must(e.Open(5*time.Second) == nil, "open") {
		return
	}
	for g := 0; g < nGen; g++ {
		var wg sync.WaitGroup
		nS := 2 + r.Intn(4)
		for i := 0; i < nS; i++ {
			wg.Add(1)
			go func(seed int64) {
				defer wg.Done()
				rr := rand.New(rand.NewSource(seed))
				for j := 0; j < 6+rr.Intn(6); j++ {
					ctx, cancel := context.Background(), func() {}
					if rr.Intn(5) == 0 {
						ctx, cancel = context.WithTimeout(context.Background(), time.Duration(20+rr.Intn(30))*time.Millisecond)
					}
					cl := e.Start(rr.Intn(3), ctx)
					cl.Wait(10 * time.Second)
					cancel()
				}
			}(r.Int63())
		}
		// a few unsolicited primaries from the peer while senders run
		if p := e.Peer(e.Gen()); p != nil && r.Intn(2) == 0 {
			for i := 0; i < 1+r.Intn(3); i++ {
				switch {
				case s1() || r.Intn(3) > 0:
					_ = p.Primary(uint32(1000 + i))
				case r.Intn(2) == 0:
					_ = p.PrimaryForeign(uint32(1000 + i))
				default:
					_ = p.PrimaryBadBody(uint32(1000 + i))
				}
			}
		}
		dropNow := g < nGen-1 && r.Intn(2) == 0
		if dropNow {
			// drop in the middle of the traffic
			time.Sleep(time.Duration(200+r.Intn(3000)) * time.Microsecond)
			if !s.dropAndReconnect() {
				wg.Wait()
				return
			}
			wg.Wait()
			// frames the dropped peer wrote right at the drop may or may not have been dispatched
			s.quiesce(true, fmt.Sprintf("gen%d-middrop", g))
		} else {
			wg.Wait()
			s.quiesce(true, fmt.Sprintf("gen%d", g))
			if g < nGen-1 && !s.dropAndReconnect() {
				return
			}
		}
	}
}

// deterministic scenarios compared for EQUALITY with the model run, snapshots included
func modelEq(c *vh.Ctx) {
	if s1() {
		modelEqS1(c)
		return
	}
	o := genx.DefaultOptions()
	o.T3 = 40 * time.Millisecond
	s := newS(c, "eq-outcomes", o, nil)
	e := s.e
	bg := context.Background()
	if s.must(e.Open(5*time.Second) == nil, "open") {
		p := e.Peer(0)
		s.wait(e.Start(genx.KSyncW, bg)) // 0: reply
		e.WaitReconnectingZero(2 * time.Second)
		e.WaitSettled(2 * time.Second)
		e.Snapshot(true)
		p.RejectAll.Store(true)
		s.wait(e.Start(genx.KSyncW, bg)) // 1: reject
		p.RejectAll.Store(false)
		p.Mute.Store(true)
		s.wait(e.Start(genx.KSyncW, bg)) // 2: T3
		p.TakeHeld()
		p.Mute.Store(false)
		e.WaitSettled(2 * time.Second)
		e.Snapshot(true)
		rel := e.StallCall(3)
		cl := e.Start(genx.KSyncW, bg) // 3: B2 refusal
		_, ok := e.WaitParked(5 * time.Second)
		s.must(ok, "parked")
		_ = p.Deselect()
		s.must(e.WaitState(hsms.NotSelectedState, 5*time.Second), "deselected")
		rel()
		s.wait(cl)
		// the Deselect.rsp was queued behind the parked sender: wait until the peer has it
		s.must(waitFor(5*time.Second, func() bool { return p.CtrlSeen[4].Load() == 1 }), "Deselect.rsp received")
		s.wait(e.Start(genx.KAsync, bg)) // 4: B1 refusal
		e.Snapshot(true)
		p.Close()
		<-p.EOF
		s.must(e.WaitSelected(1, 10*time.Second), "generation 1")
		e.WaitReconnectingZero(2 * time.Second)
		s.wait(e.Start(genx.KSyncNW, bg)) // 5
		e.WaitSettled(2 * time.Second)
		e.Snapshot(true)
		acts := "open up sel " +
			"en 0 0 b1 0 rg 0 cp 0 ck 0 wo 0 ar 0 ps 0 reply 0 rd 0 rt 0 cr 0 snap " +
			"en 1 0 b1 1 rg 1 cp 1 ck 1 wo 1 ar 1 ps 0 reject 1 rd 0 rt 0 cr 1 " +
			"en 2 0 b1 2 rg 2 cp 2 ck 2 wo 2 ar 2 ct 2 snap " +
			"en 3 0 b1 3 rg 3 cp 3 desel ck 3 en 4 2 b1 4 snap " +
			"drop lsp td join 0 lbeg pub up sel lend 1 en 5 1 b1 5 rg 5 cp 5 ck 5 wo 5 snap"
		evs := e.Finish()
		line := "M eq-outcomes | " + acts + " | " + genx.Line(evs)
		c.Case(line, line, true)
	}
	close(s.stopS)
	s.sWg.Wait()
	_ = e.Close()
}

// SECS-I variant: reply, T3, async, drop while waiting, write failure by retry exhaustion
func modelEqS1(c *vh.Ctx) {
	o := genx.DefaultOptions()
	o.T3 = 40 * time.Millisecond
	s := newS(c, "eq-outcomes", o, nil)
	e := s.e
	bg := context.Background()
	if s.must(e.Open(5*time.Second) == nil, "open") {
		p := e.Peer(0)
		s.wait(e.Start(genx.KSyncW, bg)) // 0: reply
		e.WaitReconnectingZero(2 * time.Second)
		e.WaitSettled(2 * time.Second)
		e.Snapshot(true)
		p.Mute.Store(true)
		s.wait(e.Start(genx.KSyncW, bg)) // 1: T3
		p.TakeHeld()
		p.Mute.Store(false)
		ca := e.Start(genx.KAsync, bg) // 2: async, written
		s.wait(ca)
		s.must(waitFor(5*time.Second, ca.OnWire), "async frame on the wire")
		e.WaitSettled(2 * time.Second)
		e.Snapshot(true)
		p.Mute.Store(true)
		cl := e.Start(genx.KSyncW, bg) // 3: disconnect while waiting
		s.must(waitFor(5*time.Second, cl.OnWire), "primary on the wire")
		p.Close()
		<-p.EOF
		s.wait(cl)
		s.must(e.WaitSelected(1, 10*time.Second), "generation 1")
		e.WaitReconnectingZero(2 * time.Second)
		s.wait(e.Start(genx.KSyncNW, bg)) // 4
		e.WaitSettled(2 * time.Second)
		e.Snapshot(true)
		acts := "open up sel " +
			"en 0 0 b1 0 rg 0 cp 0 ck 0 wo 0 ar 0 ps 0 reply 0 rd 0 rt 0 cr 0 snap " +
			"en 1 0 b1 1 rg 1 cp 1 ck 1 wo 1 ar 1 ct 1 en 1000 2 b1 1000 eq 1000 dr 1000 cp 1000 ck 1000 wo 1000 " +
			"en 2 2 b1 2 eq 2 dr 2 cp 2 ck 2 wo 2 snap " +
			"en 3 0 b1 3 rg 3 cp 3 ck 3 wo 3 ar 3 drop lsp td cc 3 join 0 lbeg pub up sel lend 1 " +
			"en 4 1 b1 4 rg 4 cp 4 ck 4 wo 4 snap"
		evs := e.Finish()
		line := "M s1-eq-outcomes | " + acts + " | " + genx.Line(evs)
		c.Case(line, line, true)
	}
	close(s.stopS)
	s.sWg.Wait()
	_ = e.Close()
}

func main() {
	c := vh.New()
	r := c.Rng
	reps := 1
	if c.Tier == "thorough" {
		reps = 5
	}
	modelEq(c)
	for rep := 0; rep < reps; rep++ {
		outcomes(c)
		asyncAcrossDrop(c, 1+r.Intn(6))
		gatedReconnect(c, 0)
		gatedReconnect(c, 1+r.Intn(2))
		coldConnect(c, 1+r.Intn(2))
		overlapLoops(c)
		if !s1() {
			slowTeardownGauge(c)
		}
		closeReopen(c)
		if !s1() {
			for _, v := range []bool{false, true} {
				for _, a := range []bool{false, true} {
					for h := 0; h < 3; h++ {
						optionMatrix(c, v, a, h)
					}
				}
			}
		}
		if s1() {
			closeAfterAck(c, 10)
			s1Retransmissions(c, r)
		}
	}
	for i := 0; i < c.N; i++ {
		random(c, r, i)
	}
	c.Note("hsms options that change which frames are counted/dropped/answered, and their coverage: WithSessionIDValidation off/on (options-* matrix + random), " +
		"WithAutoS9F9 off/on (matrix + random; on by default in the SECS-I equipment pass), data handler present / absent / with a decode-error handler (matrix; random: present, sometimes with a decode-error handler), " +
		"WithTraceTraffic off/on (matrix + random; must not change any counter), WithWriteTimeout (outcomes: write error), WithSenderQueueSize (C09 parked-* scenarios), " +
		"WithAsyncSendErrorHandler (always installed: it is the harness's independent asyncErr count), WithLinktest* / WithT5..T8 / WithReconnectBackoff / WithCloseTimeout / WithLogger (no data counter depends on them; linktest traffic is control-only). " +
		"Not covered: session-ID validation and decode-error handlers on the SECS-I pass")
	c.Note("reconnecting gauge, model side: the gauge is incremented by the loop-start action LoopBegin of Hsms/Generations.v (first statement of connectLoop), which PRECEDES the wait for the previous generation: " +
		"Publish is enabled only once that generation is joined (g_joined), so the gauge is positive throughout the wait (theorem C20_retry, example C20_gauge_positive_during_slow_teardown); e2e: scenario slow-teardown-gauge (HSMS-SS)")
	c.Finish()
}
