// Harness for C05 (driver level): random and boundary schedules over the supervisor's atomic
// actions are run through the REAL supervisor (hsms.VerifSupervisorRun, no goroutines; commits
// inside the load/store window go through the code's own testHookAfterStateLoad seam). The case
// file carries the schedule and the snapshot after every action for the extracted model to replay;
// the implementation-level oracle below checks the property on the snapshots directly.
package main

import (
	"fmt"
	"strings"

	"github.com/arloliu/go-secs/v2/hsms"

	"verifharness/vh"
)

const (
	aCC, aCS, aCL, aID, aIT, aIC, aLoad, aFin, aDel = 0, 1, 2, 3, 4, 5, 6, 7, 8
)

var names = []string{"CommitConnected", "CommitSelected", "CommitSelectLost", "InjectDisconnect", "InjectT7", "InjectClose", "StepLoad", "StepFinish", "Deliver"}

func legal(a, b uint8) bool {
	switch [2]uint8{a, b} {
	case [2]uint8{0, 1}, [2]uint8{1, 2}, [2]uint8{2, 1}, [2]uint8{1, 0}, [2]uint8{2, 0}:
		return true
	}
	return false
}

func snapStr(s hsms.VerifSupSnap) string {
	var sb strings.Builder
	fmt.Fprintf(&sb, "%d %d %s %d %d %d", s.State, s.LastReacted, vh.B01(s.Closed), s.QLen, s.NLen, s.Dropped)
	for _, r := range s.Reacts {
		fmt.Fprintf(&sb, " r%d%d", r[0], r[1])
	}
	for _, d := range s.Delivered {
		fmt.Fprintf(&sb, " d%d%d", d[0], d[1])
	}
	if s.Skipped {
		sb.WriteString(" X")
	}
	return sb.String()
}

func schedStr(sched []int) string {
	parts := make([]string, len(sched))
	for i, a := range sched {
		parts[i] = names[a]
	}
	return strings.Join(parts, ",")
}

// gen produces a well-formed schedule: every StepLoad is closed by a StepFinish, with a (possibly
// empty) window of commits / injects / deliveries in between; pending events stay below the
// capacity of the real events channel.
func gen(c *vh.Ctx, n int, bias int) []int {
	r := c.Rng
	var s []int
	pending := 0
	simple := func() int {
		for {
			var a int
			switch bias {
			case 0: // uniform
				a = []int{aCC, aCS, aCL, aID, aIT, aIC, aDel}[r.Intn(7)]
			case 1: // commit bursts (lagging supervisor)
				a = []int{aCC, aCS, aCL, aCS, aCL, aCC, aID, aIT, aDel}[r.Intn(9)]
			default: // notification pressure: few deliveries, many reconnect cycles
				a = []int{aCC, aCS, aID, aCC, aCS, aCL, aIT, aID}[r.Intn(8)]
			}
			if a == aIC && r.Intn(4) != 0 {
				continue // close is terminal: keep it rare so runs stay interesting
			}
			if a != aDel {
				if pending >= 12 {
					return aDel
				}
				pending++ // upper bound (a failed CAS enqueues nothing)
			}
			return a
		}
	}
	for len(s) < n {
		if r.Intn(3) == 0 || pending >= 10 {
			s = append(s, aLoad)
			for w := r.Intn(4); w > 0; w-- {
				if bias == 1 || r.Intn(2) == 0 {
					s = append(s, simple())
				}
			}
			s = append(s, aFin)
			if pending > 0 {
				pending--
			}
		} else {
			s = append(s, simple())
		}
	}
	// drain: process everything that is queued, then deliver everything
	for i := 0; i < 14; i++ {
		s = append(s, aLoad, aFin)
	}
	for i := 0; i < 17; i++ {
		s = append(s, aDel)
	}
	return s
}

func runOne(c *vh.Ctx, sched []int, label string, via bool) {
	snaps := hsms.VerifSupervisorRun(sched)
	if via {
		// the same schedule entering through the connection's TransportRuntime glue
		snaps = hsms.VerifSupervisorRunViaConnection(sched)
		label += "/via-connection"
	}
	var sb strings.Builder
	fmt.Fprintf(&sb, "S %d", len(sched))
	for _, a := range sched {
		fmt.Fprintf(&sb, " %d", a)
	}
	sb.WriteString(" |")
	for i, sn := range snaps {
		if i > 0 {
			sb.WriteString(" ;")
		}
		sb.WriteString(" " + snapStr(sn))
	}
	line := sb.String()
	key := line
	if via {
		key = "via:" + line
	}
	c.Case(line, key, len(sched) >= 6)
	c.Count("S/" + label)
	if len(snaps) != len(sched) {
		c.Fail(fmt.Sprintf("driver returned %d snapshots for %d actions", len(snaps), len(sched)), schedStr(sched))
		return
	}

	// ---- implementation-level oracle: the property, on the real supervisor's behaviour ----
	human := schedStr(sched)
	prev := uint8(0)
	closedAt := -1
	var fifo []int   // harness mirror of the events channel: which event each StepLoad takes
	var fifoGen []int // TCP-up generation (count of successful CommitConnected) at enqueue time
	gen := 0
	stepping := -1    // event kind being stepped (-1 none)
	steppingGen := 0
	upQueuedAtLoad := false
	lastDeliv := uint8(0)
	lastDropped := uint64(0)
	gap := false
	for i, a := range sched {
		sn := snaps[i]
		if sn.Skipped {
			c.Fail("events channel filled up (harness bound broken)", human)
			return
		}
		changed := sn.State != prev
		if changed && !legal(prev, sn.State) {
			c.Fail(fmt.Sprintf("illegal edge %d->%d at action #%d %s", prev, sn.State, i, names[a]), human)
		}
		if changed && closedAt >= 0 {
			c.Fail(fmt.Sprintf("State() changed %d->%d at action #%d after the close step (#%d)", prev, sn.State, i, closedAt), human)
		}
		switch a {
		case aCC, aCS, aCL:
			if changed {
				if a == aCC {
					gen++
				}
				fifo = append(fifo, a) // echo of this commit
				fifoGen = append(fifoGen, gen)
			}
		case aID, aIT, aIC:
			fifo = append(fifo, a)
			fifoGen = append(fifoGen, gen)
			if changed {
				c.Fail(fmt.Sprintf("State() changed at an inject (action #%d)", i), human)
			}
		case aLoad:
			stepping = -1
			if len(fifo) > 0 {
				if closedAt < 0 {
					stepping = fifo[0]
					steppingGen = fifoGen[0]
				}
				fifo = fifo[1:]
				fifoGen = fifoGen[1:]
			}
			upQueuedAtLoad = false
			for _, e := range fifo {
				if e == aCC {
					upQueuedAtLoad = true
				}
			}
			if changed {
				c.Fail(fmt.Sprintf("State() changed at a StepLoad (action #%d)", i), human)
			}
		case aFin:
			if changed {
				switch stepping {
				case aCC, aCS, aCL:
					c.Fail(fmt.Sprintf("replay: processing the echo of %s changed State() %d->%d", names[stepping], prev, sn.State), human)
				case aIT:
					if prev == 2 {
						c.Fail("a T7 expiry moved State() out of Selected", human)
					}
					if steppingGen < gen {
						c.Fail(fmt.Sprintf("undo: a T7 expiry injected before the current TCP-up was committed changed State() %d->%d", prev, sn.State), human)
					}
				case aID:
					if steppingGen < gen {
						c.Fail(fmt.Sprintf("undo: a disconnect injected before the current TCP-up was committed changed State() %d->%d", prev, sn.State), human)
					}
				case -1:
					c.Fail("State() changed at a StepFinish with no step in flight", human)
				}
			}
			// a disconnect of the CURRENT TCP generation takes effect when it is processed, whatever
			// receive-path commit landed inside the step's load/store window (TCP is down: nothing a
			// commit says can keep the session up); the only disconnects the supervisor may ignore are
			// stale ones (injected before the current TCP-up, or with a TCP-up echo still queued)
			if stepping == aID && closedAt < 0 && steppingGen == gen && !upQueuedAtLoad && sn.State != 0 {
				c.Fail(fmt.Sprintf("a disconnect of the current generation was processed but State() is %d, not NotConnected", sn.State), human)
			}
			if stepping == aIC && closedAt < 0 {
				closedAt = i
				if sn.State != 0 || !sn.Closed {
					c.Fail("close step did not leave State() NotConnected / latch closed", human)
				}
			}
			stepping = -1
		case aDel:
			if changed {
				c.Fail(fmt.Sprintf("State() changed at a Deliver (action #%d)", i), human)
			}
		}
		if sn.Dropped > lastDropped {
			gap = true
			lastDropped = sn.Dropped
		}
		for _, d := range sn.Delivered {
			if d[0] == d[1] {
				c.Fail("self-transition notification delivered", human)
			}
			if !gap && d[0] != lastDeliv {
				c.Fail(fmt.Sprintf("delivered notification %d->%d does not chain from %d (no coalesce reported)", d[0], d[1], lastDeliv), human)
			}
			lastDeliv = d[1]
			gap = false
		}
		prev = sn.State
	}
	// quiescence at the end (the generator drains the queue and the buffer)
	end := snaps[len(snaps)-1]
	if end.QLen == 0 && !end.Closed {
		if end.LastReacted != end.State {
			c.Fail(fmt.Sprintf("quiescent: last reported state %d != State() %d", end.LastReacted, end.State), human)
		}
		if end.NLen == 0 && lastDeliv != end.State {
			c.Fail(fmt.Sprintf("drained: last delivered next %d != State() %d", lastDeliv, end.State), human)
		}
	}
}

func main() {
	c := vh.New()

	// transition table, exhaustively (also beyond the defined events)
	for cur := 0; cur <= 2; cur++ {
		for ev := 0; ev <= 8; ev++ {
			n, ok := hsms.VerifTransition(hsms.ConnState(cur), uint8(ev))
			line := fmt.Sprintf("T %d %d | %d %s", cur, ev, n, vh.B01(ok))
			c.Case(line, line, true)
		}
	}

	// corpus: the schedules of the known findings and of the repaired close race, first
	corpus := [][]int{
		{aCC, aCS, aCL, aLoad, aFin, aLoad, aFin, aLoad, aFin},                       // replay (known finding)
		{aCC, aIC, aLoad, aFin, aLoad, aFin, aCC, aCS, aLoad, aFin},                  // commit after the close step
		{aIC, aLoad, aCC, aFin, aLoad, aFin},                                         // commit inside the close step's window
		{aCC, aIT, aLoad, aFin, aLoad, aCS, aFin, aLoad, aFin},                       // T7 loses the CAS tie
		{aCC, aCS, aCL, aCS, aLoad, aFin, aLoad, aFin, aLoad, aFin, aLoad, aFin},     // re-select supersedes select-lost
		{aCC, aLoad, aFin, aID, aID, aLoad, aFin, aCC, aLoad, aFin, aLoad, aFin},     // duplicate disconnect across a reconnect
		{aCC, aLoad, aFin, aID, aLoad, aCS, aFin, aLoad, aFin, aLoad, aFin},                     // select commit lands inside the DISCONNECT step's load/store window
		{aCC, aCS, aLoad, aFin, aLoad, aFin, aID, aLoad, aCL, aFin, aLoad, aFin, aLoad, aFin}, // select-lost commit inside the disconnect step's window
		{aCC, aLoad, aFin, aCS, aID, aLoad, aFin, aLoad, aCL, aFin, aLoad, aFin, aLoad, aFin}, // disconnect step racing a deselect after a select
	}
	for _, s := range corpus {
		full := append(append([]int{}, s...), aDel, aDel, aDel, aDel, aDel, aDel)
		runOne(c, full, "corpus", false)
		runOne(c, full, "corpus", true)
	}
	// notification pressure: 40 reconnect cycles without a delivery
	var press []int
	for i := 0; i < 40; i++ {
		press = append(press, aCC, aLoad, aFin, aCS, aLoad, aFin, aID, aLoad, aFin)
	}
	for i := 0; i < 20; i++ {
		press = append(press, aDel)
	}
	runOne(c, press, "pressure", false)

	for i := 0; i < c.N; i++ {
		bias := i % 3
		n := 4 + c.Rng.Intn(60)
		runOne(c, gen(c, n, bias), fmt.Sprintf("random/bias=%d", bias), i%2 == 1)
	}
	c.Finish()
}
