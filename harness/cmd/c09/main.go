// Command c09 is the e2e harness for C09 (nothing crosses TCP connection generations): a real
// HSMS-SS connection over successive net.Pipe generations, generation ends injected at every phase
// of a send (queued async, mid-write, awaiting reply) by every cause (peer close, stall + write
// timeout, Close, linktest / T7 / T8 expiry), payloads tagged with (token, accepted generation).
// Implementation-level oracles: stale frame, stale reply, promptness. The recorded log goes to the
// extracted monitor ok_C09 (H lines); deterministic single-sender scenarios are compared for
// equality with the model run (M lines).
package main

import (
	"context"
	"errors"
	"flag"
	"fmt"
	"math/rand"
	"sync"
	"time"

	"github.com/arloliu/go-secs/v2/hsms"

	"verifharness/genx"
	"verifharness/vh"
)

const slack = 3 * time.Second

// -proto hsmsss|secs1: which transport sits under the shared engine
var proto = flag.String("proto", "hsmsss", "hsmsss|secs1")

func s1() bool { return *proto == "secs1" }

type S struct {
	c    *vh.Ctx
	name string
	e    *genx.Env
	t0   time.Time // time the generation end was injected (promptness reference); zero = none
	bad  bool
	// alwaysLog: pass the history to the extracted monitor even when an oracle already failed
	alwaysLog bool
}

func (s *S) fail(what, kase string) { s.bad = true; s.c.Fail(what, s.name+" "+kase) }

func (s *S) must(ok bool, what string) bool {
	if !ok {
		// a harness-level expectation (the scenario did not unfold as scripted): reported as an
		// oracle failure because on correct code every scripted step is reachable
		s.fail("scenario step not reached: "+what, "")
	}
	return ok
}

func newS(c *vh.Ctx, name string, o genx.Options, onGen func(p *genx.Peer)) *S {
	if s1() {
		o.Secs1, o.Retry = true, 1
		if o.T2 == 0 {
			// scripted scenarios: a line timer far above the scripted peer's worst scheduling delay,
			// so that the library does not end a generation on its own (random histories use 30 ms)
			o.T2 = 150 * time.Millisecond
		}
		name = "s1-" + name
	}
	e, err := genx.NewEnv(o)
	if err != nil {
		panic(err)
	}
	e.OnGen = onGen
	return &S{c: c, name: name, e: e}
}

// finish closes everything, runs the oracles and writes the H line.
func (s *S) finish() {
	e := s.e
	// let frames in flight land before closing, so that the final Close is not one more fault
	// injection (those are the scenarios' job)
	e.WaitSettled(500 * time.Millisecond)
	done := make(chan struct{})
	var cerr error
	go func() { cerr = e.Close(); close(done) }()
	select {
	case <-done:
		// nothing in these scenarios wedges an application handler, so the bounded join of the
		// last generation must complete: a close timeout means a goroutine of the generation was
		// still waiting on something only the END of the teardown releases
		if errors.Is(cerr, hsms.ErrCloseTimeout) {
			s.fail("Close returned ErrCloseTimeout although no application handler is blocked", "final close")
		}
	case <-time.After(e.CloseTimeout + slack):
		s.fail("Close did not return within closeTimeout + slack", "")
	}
	for _, p := range e.Peers() {
		p.Close()
	}
	for _, p := range e.Peers() {
		select {
		case <-p.EOF:
		case <-time.After(slack):
		}
	}
	for _, c := range e.Calls() {
		if !c.Wait(e.T3 + e.CloseTimeout + slack) {
			s.fail("send never returned", fmt.Sprintf("call=%d kind=%d", c.ID, c.Kind))
		}
	}
	e.OracleC09(s.fail, "")
	if !s.t0.IsZero() {
		for _, c := range e.Calls() {
			// outstanding when the generation end was injected: must return within closeTimeout + slack
			if c.Start.Before(s.t0) && c.End.After(s.t0) && c.Kind != genx.KAsync && c.HookGen >= 0 {
				if d := c.End.Sub(s.t0); d > e.CloseTimeout+slack && c.Res == genx.RClosed {
					s.fail("waiter released late after its generation ended", fmt.Sprintf("call=%d after=%s", c.ID, d))
				}
			}
		}
	}
	evs := e.Finish()
	amb := 0
	for _, c := range e.Calls() {
		if !c.Exact() {
			amb++
		}
		s.c.Count("result:" + genx.ResName(c.Res))
	}
	if amb > 0 {
		s.c.Count("ambiguous-acceptance")
	}
	if s.bad && !s.alwaysLog {
		// already reported by an implementation-level oracle with its own case
		s.c.Count("scenario-failed:" + s.name)
		return
	}
	line := "H " + s.name + " | " + genx.Line(evs)
	s.c.Case(line, line, len(evs) > 3)
	s.c.Count("scenario:" + s.name)
}

// cause injects a generation end on generation g.
type cause int

const (
	cPeerClose cause = iota
	cClose
	cLinktest
	cT8
	cWriteTimeout
	nCauses
)

var causeName = []string{"peerclose", "close", "linktest", "t8", "writetimeout"}

func optsFor(k cause) genx.Options {
	o := genx.DefaultOptions()
	switch k {
	case cLinktest:
		o.Linktest, o.T6, o.LinktestThreshold = 10*time.Millisecond, 25*time.Millisecond, 2
	case cT8:
		o.T8 = 30 * time.Millisecond
	case cWriteTimeout:
		o.WriteTimeout = 40 * time.Millisecond
	}
	return o
}

// inject ends generation g by cause k; returns after the end has been initiated. For cClose the
// connection is closed and reopened (a new generation follows either way).
func (s *S) inject(k cause, g int) {
	p := s.e.Peer(g)
	s.t0 = time.Now()
	switch k {
	case cPeerClose:
		p.Close()
	case cClose:
		_ = s.e.Close()
		go func() { _ = s.e.Open(5 * time.Second) }()
	case cLinktest:
		p.NoLinktest.Store(true)
	case cT8:
		_ = p.WriteRaw([]byte{0, 0, 0, 20, 0, 7}) // a frame prefix, then silence: T8 expires
	case cWriteTimeout:
		// the peer stops reading; one W-clear send then blocks in its write until the write deadline
		// (SECS-I: the peer never grants the line; the send fails after T2 x (retry+1))
		p.StopRead.Store(true)
		s.e.Start(genx.KSyncNW, context.Background())
	}
}

// nextGen waits for the generation after g to be Selected.
func (s *S) nextGen(g int) bool {
	return s.must(s.e.WaitSelected(g+1, 10*time.Second), fmt.Sprintf("generation %d selected", g+1))
}

// probe sends a few calls of every kind on the current generation and waits for them.
func (s *S) probe(n int) {
	var cs []*genx.Call
	for i := 0; i < n; i++ {
		cs = append(cs, s.e.Start(i%3, context.Background()))
	}
	for _, c := range cs {
		c.Wait(10 * time.Second)
	}
	time.Sleep(2 * time.Millisecond) // let the async sender flush
}

// scenario: n W-bit sends are awaiting their reply when the generation ends.
func awaitReply(c *vh.Ctx, k cause, n int) {
	s := newS(c, "await-"+causeName[k], optsFor(k), func(p *genx.Peer) {
		if p.Gen == 0 {
			p.Mute.Store(true)
		}
	})
	defer s.finish()
	if !s.must(s.e.Open(5*time.Second) == nil, "open") {
		return
	}
	var cs []*genx.Call
	for i := 0; i < n; i++ {
		cs = append(cs, s.e.Start(genx.KSyncW, context.Background()))
	}
	dl := time.Now().Add(5 * time.Second)
	all := func() bool {
		for _, cl := range cs {
			if !cl.OnWire() {
				return false
			}
		}
		return true
	}
	for !all() && time.Now().Before(dl) {
		time.Sleep(200 * time.Microsecond)
	}
	s.must(all(), "all primaries on the wire")
	time.Sleep(time.Millisecond)
	s.inject(k, 0)
	for _, cl := range cs {
		if !cl.Wait(s.e.CloseTimeout + slack) {
			s.fail("waiter not released after its generation ended", fmt.Sprintf("call=%d cause=%s", cl.ID, causeName[k]))
		} else if cl.Res != genx.RClosed {
			s.fail("waiter of an ended generation completed with an unexpected result", fmt.Sprintf("call=%d result=%s", cl.ID, genx.ResName(cl.Res)))
		}
	}
	if s.nextGen(0) {
		s.probe(4)
	}
}

// scenario: a synchronous send is parked inside writeFrame (socket captured, nothing written)
// across the end of its generation and the establishment of the next one.
func midWrite(c *vh.Ctx, k cause, kind int) {
	s := newS(c, fmt.Sprintf("midwrite-%s-k%d", causeName[k], kind), optsFor(k), nil)
	defer s.finish()
	if !s.must(s.e.Open(5*time.Second) == nil, "open") {
		return
	}
	s.probe(2)
	ids := s.e.Calls()
	release := s.e.StallCall(len(ids)) // the next call id
	cl := s.e.Start(kind, context.Background())
	if _, ok := s.e.WaitParked(5 * time.Second); !s.must(ok, "call parked in writeFrame") {
		release()
		return
	}
	s.inject(k, 0)
	ok := s.nextGen(0)
	release()
	if !cl.Wait(s.e.CloseTimeout + slack) {
		s.fail("stalled sender not released", fmt.Sprintf("call=%d", cl.ID))
	} else if cl.Res != genx.RClosed {
		s.fail("a sender stalled across its generation's end completed with an unexpected result", fmt.Sprintf("call=%d result=%s", cl.ID, genx.ResName(cl.Res)))
	}
	if ok {
		s.probe(4)
	}
}

// scenario: the generation's async sender is parked inside writeFrame with m more frames queued
// behind it when the generation ends.
func queuedAsync(c *vh.Ctx, k cause, m int) {
	s := newS(c, "queued-"+causeName[k], optsFor(k), nil)
	defer s.finish()
	if !s.must(s.e.Open(5*time.Second) == nil, "open") {
		return
	}
	s.probe(2)
	release := s.e.StallSender()
	var cs []*genx.Call
	cs = append(cs, s.e.Start(genx.KAsync, context.Background()))
	if _, ok := s.e.WaitParked(5 * time.Second); !s.must(ok, "sender parked in writeFrame") {
		release()
		return
	}
	for i := 0; i < m; i++ {
		cs = append(cs, s.e.Start(genx.KAsync, context.Background()))
	}
	for _, cl := range cs {
		cl.Wait(5 * time.Second)
	}
	s.inject(k, 0)
	ok := s.nextGen(0)
	release()
	if ok {
		s.probe(4)
		time.Sleep(5 * time.Millisecond)
	}
}

// scenario: the peer stops reading, so a synchronous send blocks in the write itself and async
// frames pile up behind the sender goroutine; then the peer closes / the write deadline fires.
func blockedWrite(c *vh.Ctx, k cause) {
	s := newS(c, "blocked-"+causeName[k], optsFor(k), nil)
	defer s.finish()
	if !s.must(s.e.Open(5*time.Second) == nil, "open") {
		return
	}
	s.probe(2)
	s.e.Peer(0).StopRead.Store(true)
	time.Sleep(time.Millisecond)
	var cs []*genx.Call
	cs = append(cs, s.e.Start(genx.KSyncW, context.Background()))
	for i := 0; i < 4; i++ {
		cs = append(cs, s.e.Start(genx.KAsync, context.Background()))
	}
	time.Sleep(3 * time.Millisecond)
	if k == cWriteTimeout {
		s.t0 = time.Now()
	} else {
		s.inject(cPeerClose, 0)
	}
	for _, cl := range cs {
		if !cl.Wait(s.e.CloseTimeout + slack) {
			s.fail("blocked sender not released", fmt.Sprintf("call=%d", cl.ID))
		}
	}
	if s.nextGen(0) {
		s.probe(4)
	}
}

// scenario: a "stalled reader" peer. It completes Select, then stops reading: the generation's async
// sender blocks in the middle of a write, the (small) async queue fills, and n application
// goroutines park inside their fire-and-forget send waiting for queue space; optionally the peer
// then sends one primary whose INLINE handler answers with ReplyDataMessage on the generation's own
// receive goroutine, so that reply parks too. Then the generation ends by cause k. Every parked
// send must be released by the START of the teardown: it returns within parkBound (far below
// closeTimeout), Close does not time out, and the next generation is not delayed by closeTimeout.
const parkBound = time.Second

func parkedOnFullQueue(c *vh.Ctx, k cause, n int, inline bool) {
	o := optsFor(k)
	o.QueueSize, o.CloseTimeout = 2, 4*time.Second
	switch k {
	case cWriteTimeout:
		o.WriteTimeout = 500 * time.Millisecond
	case cT8:
		o.T8 = 100 * time.Millisecond
	}
	if s1() {
		o.T2 = time.Second // the stalled line must not exhaust the retries before the scripted end
	}
	name := fmt.Sprintf("parked-%s-n%d", causeName[k], n)
	if inline {
		name += "-inline"
	}
	s := newS(c, name, o, nil)
	defer s.finish()
	e := s.e
	if !s.must(e.Open(5*time.Second) == nil, "open") {
		return
	}
	s.probe(2)
	time.Sleep(2 * time.Millisecond)
	bg := context.Background()
	p0 := e.Peer(0)
	p0.StopRead.Store(true)
	alive := func() bool { return e.Conn.State() == hsms.SelectedState && e.Gen() == 0 }
	// 1 frame stuck in the sender's write + QueueSize queued + n parked
	var queued, parked []*genx.Call
	for i := 0; i < 1+o.QueueSize; i++ {
		cl := e.Start(genx.KAsync, bg)
		queued = append(queued, cl)
		if !cl.Wait(2 * time.Second) {
			if alive() {
				s.must(false, "the first sends are queued")
			}
			return
		}
	}
	for i := 0; i < n; i++ {
		parked = append(parked, e.Start(genx.KAsync, bg))
	}
	time.Sleep(15 * time.Millisecond)
	for _, cl := range parked {
		select {
		case <-cl.Done():
			if alive() {
				s.must(false, "a send waits for queue space")
			}
			c.Count("scenario-aborted:" + s.name) // the generation ended before the set-up was complete
			return
		default:
		}
	}
	if inline {
		e.InlineReply.Store(true)
		_ = p0.Primary(900)
		if !waitUntil(2*time.Second, func() bool { return len(e.Inline()) == 1 }) {
			if alive() {
				s.must(false, "the inline handler ran")
			}
			return
		}
		time.Sleep(5 * time.Millisecond)
		if e.Inline()[0].Returned && alive() {
			s.must(false, "the inline reply waits for queue space")
			return
		}
	}
	// end the generation
	var t0 time.Time
	switch k {
	case cClose:
		t0 = time.Now()
		err := e.Close()
		if d := time.Since(t0); d > parkBound {
			s.fail("Close blocked although every wait of the generation is released by the start of its teardown", fmt.Sprintf("took=%s closeTimeout=%s", d.Round(time.Millisecond), o.CloseTimeout))
		}
		if errors.Is(err, hsms.ErrCloseTimeout) {
			s.fail("Close returned ErrCloseTimeout although no application handler is blocked", "sends parked on a full async queue")
		}
	case cPeerClose:
		t0 = time.Now()
		p0.Close()
	case cT8:
		t0 = time.Now().Add(o.T8)
		_ = p0.WriteRaw([]byte{0, 0, 0, 20, 0, 7})
	case cWriteTimeout:
		waitUntil(5*time.Second, func() bool { return e.Conn.State() != hsms.SelectedState || e.Gen() > 0 })
		t0 = time.Now()
	}
	s.t0 = t0
	late := func(what string, end time.Time, returned bool) {
		if !returned {
			s.fail("a send parked on the full async queue was not released when its generation ended", what+" never returned within the bound")
		} else if d := end.Sub(t0); d > parkBound {
			s.fail("a send parked on the full async queue was released late (by the end, not the start, of the teardown)", fmt.Sprintf("%s after=%s closeTimeout=%s", what, d.Round(10*time.Millisecond), o.CloseTimeout))
		}
	}
	dl := t0.Add(parkBound + 500*time.Millisecond)
	for _, cl := range parked {
		ok := cl.Wait(time.Until(dl))
		late(fmt.Sprintf("call=%d", cl.ID), cl.End, ok)
		if ok && cl.Res != genx.RClosed && cl.Res != genx.RQueued {
			s.fail("a parked fire-and-forget send completed with an unexpected result", fmt.Sprintf("call=%d result=%s", cl.ID, genx.ResName(cl.Res)))
		}
	}
	if inline {
		waitUntil(time.Until(dl), func() bool { return e.Inline()[0].Returned })
		r := e.Inline()[0]
		late("inline-reply", r.End, r.Returned)
	}
	e.InlineReply.Store(false)
	if k == cClose {
		if !s.must(e.Open(5*time.Second) == nil, "reopen") {
			return
		}
	} else if !e.WaitSelected(1, parkBound+500*time.Millisecond-time.Since(t0)+time.Second) || time.Since(t0) > 2*parkBound {
		s.fail("the next generation was delayed (reconnect waited for a close timeout)", fmt.Sprintf("after=%s closeTimeout=%s", time.Since(t0).Round(10*time.Millisecond), o.CloseTimeout))
		if !e.WaitSelected(1, 10*time.Second) {
			return
		}
	}
	s.probe(3)
}

func waitUntil(d time.Duration, f func() bool) bool {
	dl := time.Now().Add(d)
	for time.Now().Before(dl) {
		if f() {
			return true
		}
		time.Sleep(200 * time.Microsecond)
	}
	return f()
}

// scenario (passive HSMS-SS): a connection is accepted at the instant its still-listening generation
// is torn down by Close (just before / from inside / just after the listener's Close). The library
// must close that connection: after a re-Open the OLD connection then writes a reply carrying the
// system bytes of a send in flight on the NEW generation, a Linktest.req, a Select.req and a data
// primary — nothing of it may be delivered or answered on the new generation.
func passiveAcceptRace(c *vh.Ctx, mode int) {
	o := genx.DefaultOptions()
	o.Passive, o.CloseTimeout = true, 3*time.Second
	s := newS(c, fmt.Sprintf("passive-accept-race-%d", mode), o, nil)
	s.alwaysLog = true
	defer s.finish()
	e := s.e
	if !s.must(e.OpenBackground() == nil, "open (listening)") {
		return
	}
	if !s.must(waitUntil(5*time.Second, func() bool { return e.Listener() != nil }), "listening") {
		return
	}
	l0 := e.Listener()
	old := e.ArmRace(mode, 2*time.Second)
	if !s.must(old != nil, "connection armed") {
		return
	}
	t0 := time.Now()
	err := e.Close()
	if d := time.Since(t0); d > parkBound {
		s.fail("Close of a listening generation blocked", fmt.Sprintf("mode=%d took=%s closeTimeout=%s", mode, d.Round(time.Millisecond), o.CloseTimeout))
	}
	if errors.Is(err, hsms.ErrCloseTimeout) {
		s.fail("Close returned ErrCloseTimeout although no application handler is blocked", fmt.Sprintf("accept racing the teardown of a listening generation, mode=%d", mode))
	}
	select {
	case <-old.EOF:
	case <-time.After(parkBound):
		s.fail("a connection accepted while its listening generation was being torn down was left open", fmt.Sprintf("mode=%d", mode))
	}
	if !s.must(e.OpenBackground() == nil, "re-open") {
		return
	}
	if !s.must(waitUntil(5*time.Second, func() bool { return e.Listener() != nil && e.Listener() != l0 }), "listening again") {
		return
	}
	np := e.Connect(5 * time.Second)
	if !s.must(np != nil && e.WaitState(hsms.SelectedState, 5*time.Second), "new peer selected") {
		return
	}
	np.Mute.Store(true)
	cl := e.Start(genx.KSyncW, context.Background())
	if !s.must(waitUntil(5*time.Second, cl.OnWire), "primary of the new generation on the wire") {
		return
	}
	held := np.TakeHeld()
	// the OLD connection keeps talking
	for _, f := range held {
		_ = old.Reply(f)
	}
	_ = old.LinktestReq()
	_ = old.SelectReq()
	_ = old.Primary(7)
	time.Sleep(20 * time.Millisecond)
	if n := np.CtrlSeen[6].Load(); n > 0 {
		s.fail("stale frame: a Linktest.req received on a connection of an ended generation was answered on the current generation's connection", fmt.Sprintf("mode=%d linktest.rsp=%d", mode, n))
	}
	if n := np.CtrlSeen[2].Load(); n > 1 {
		s.fail("stale frame: a Select.req received on a connection of an ended generation was answered on the current generation's connection", fmt.Sprintf("mode=%d select.rsp=%d", mode, n))
	}
	if n := e.HandlerCalls.Load(); n > 0 {
		s.fail("a data message received on a connection of an ended generation was delivered to the handlers", fmt.Sprintf("mode=%d handler_calls=%d", mode, n))
	}
	for _, f := range held {
		_ = np.Reply(f)
	}
	np.Mute.Store(false)
	cl.Wait(5 * time.Second)
	s.probe(3)
}

// scenario: the peer of generation 0 never answers Select.req; T7 ends the generation; data sends
// issued meanwhile are refused; generation 1 selects.
func t7(c *vh.Ctx) {
	o := genx.DefaultOptions()
	o.T7, o.T6 = 30*time.Millisecond, 2*time.Second
	s := newS(c, "t7", o, func(p *genx.Peer) {
		if p.Gen == 0 {
			p.NoSelect.Store(true)
		}
	})
	defer s.finish()
	go func() { _ = s.e.Open(5 * time.Second) }()
	dl := time.Now().Add(2 * time.Second)
	for s.e.Gen() < 0 && time.Now().Before(dl) {
		time.Sleep(200 * time.Microsecond)
	}
	s.t0 = time.Now()
	s.probe(3)
	if s.nextGen(0) {
		s.probe(4)
	}
}

// scenario: random concurrent history — senders of every kind, peers answering / muting /
// rejecting, generation ends by random causes at random instants.
func random(c *vh.Ctx, r *rand.Rand, idx int) {
	o := genx.DefaultOptions()
	o.T3 = time.Duration(20+r.Intn(40)) * time.Millisecond
	o.T2 = 30 * time.Millisecond
	nGen := 2 + r.Intn(3)
	mode := make([]int, nGen+8)
	for i := range mode {
		mode[i] = r.Intn(4)
	}
	s := newS(c, fmt.Sprintf("random-%d", idx), o, func(p *genx.Peer) {
		switch mode[p.Gen%len(mode)] {
		case 1:
			p.Mute.Store(true)
		case 2:
			p.RejectAll.Store(true)
		}
	})
	defer s.finish()
	if !s.must(s.e.Open(5*time.Second) == nil, "open") {
		return
	}
	stop := make(chan struct{})
	var wg sync.WaitGroup
	nS := 2 + r.Intn(4)
	seeds := make([]int64, nS)
	for i := range seeds {
		seeds[i] = r.Int63()
	}
	for i := 0; i < nS; i++ {
		wg.Add(1)
		go func(seed int64) {
			defer wg.Done()
			rr := rand.New(rand.NewSource(seed))
			for j := 0; j < 12; j++ {
				select {
				case <-stop:
					return
				default:
				}
				ctx, cancel := context.Background(), func() {}
				if rr.Intn(4) == 0 {
					ctx, cancel = context.WithTimeout(context.Background(), time.Duration(1+rr.Intn(15))*time.Millisecond)
				}
				cl := s.e.Start(rr.Intn(3), ctx)
				cl.Wait(10 * time.Second)
				cancel()
				if rr.Intn(3) == 0 {
					time.Sleep(time.Duration(rr.Intn(2000)) * time.Microsecond)
				}
			}
		}(seeds[i])
	}
	for g := 0; g < nGen-1; g++ {
		time.Sleep(time.Duration(500+r.Intn(6000)) * time.Microsecond)
		k := cause(r.Intn(2)) // peer close or Close+reopen (timer-driven causes have their own scenarios)
		if s1() {
			// on SECS-I a Close that coincides with the end of a line transaction can report an
			// acknowledged block as ErrConnClosed (known finding C20-secs1-acked-block-uncounted,
			// not a generation crossing): random SECS-I histories end generations by peer close only
			k = cPeerClose
		}
		cur := s.e.Gen()
		s.inject(k, cur)
		if !s.e.WaitSelected(cur+1, 10*time.Second) {
			s.fail("scenario step not reached: reconnect", fmt.Sprintf("after generation %d", cur))
			break
		}
	}
	wg.Wait()
	close(stop)
	s.t0 = time.Time{}
}

// deterministic single-sender scenarios compared for EQUALITY with the model run (M lines)
func modelEq(c *vh.Ctx) {
	// 1: one W-bit round trip, one W-clear send, one async send, snapshot
	{
		s := newS(c, "eq-roundtrip", genx.DefaultOptions(), nil)
		if s.must(s.e.Open(5*time.Second) == nil, "open") {
			for k := 0; k < 3; k++ {
				cl := s.e.Start(k, context.Background())
				cl.Wait(5 * time.Second)
				if k == genx.KAsync {
					dl := time.Now().Add(5 * time.Second)
					for !cl.OnWire() && time.Now().Before(dl) {
						time.Sleep(200 * time.Microsecond)
					}
				}
			}
			s.e.WaitReconnectingZero(2 * time.Second)
			s.e.WaitSettled(2 * time.Second)
			s.e.Snapshot(true)
			acts := "open up sel " +
				"en 0 0 b1 0 rg 0 cp 0 ck 0 wo 0 ar 0 ps 0 reply 0 rd 0 rt 0 cr 0 " +
				"en 1 1 b1 1 rg 1 cp 1 ck 1 wo 1 " +
				"en 2 2 b1 2 eq 2 dr 2 cp 2 ck 2 wo 2 snap"
			evs := s.e.Finish()
			line := "M eq-roundtrip | " + acts + " | " + genx.Line(evs)
			c.Case(line, line, true)
		}
		s.e.OracleC09(s.fail, "")
		_ = s.e.Close()
	}
	// 2: a W-bit send parked in writeFrame across a peer close and the reconnect
	{
		s := newS(c, "eq-midwrite", genx.DefaultOptions(), nil)
		if s.must(s.e.Open(5*time.Second) == nil, "open") {
			release := s.e.StallCall(0)
			cl := s.e.Start(genx.KSyncW, context.Background())
			_, ok := s.e.WaitParked(5 * time.Second)
			s.must(ok, "parked")
			s.e.Peer(0).Close()
			<-s.e.Peer(0).EOF
			s.nextGen(0)
			s.e.WaitReconnectingZero(2 * time.Second)
			release()
			cl.Wait(5 * time.Second)
			c2 := s.e.Start(genx.KSyncW, context.Background())
			c2.Wait(5 * time.Second)
			s.e.WaitSettled(2 * time.Second)
			s.e.Snapshot(true)
			acts := "open up sel en 0 0 b1 0 rg 0 cp 0 drop lsp td join 0 lbeg pub up sel lend 1 ck 0 " +
				"en 1 0 b1 1 rg 1 cp 1 ck 1 wo 1 ar 1 ps 1 reply 1 rd 1 rt 1 cr 1 snap"
			evs := s.e.Finish()
			line := "M eq-midwrite | " + acts + " | " + genx.Line(evs)
			c.Case(line, line, true)
		}
		s.e.OracleC09(s.fail, "")
		_ = s.e.Close()
	}
}

func main() {
	c := vh.New()
	r := c.Rng
	reps := 1
	nRandom := c.N
	if c.Tier == "thorough" {
		reps = 5
	}
	causes := []cause{cPeerClose, cClose, cLinktest, cT8, cWriteTimeout}
	if s1() {
		causes = []cause{cPeerClose, cClose, cWriteTimeout} // SECS-I has no linktest and no T8
	}
	modelEq(c)
	for rep := 0; rep < reps; rep++ {
		for _, k := range causes {
			awaitReply(c, k, 1+r.Intn(4))
			// a sender parked under the write lock also blocks the linktest probe (it shares the send
			// path), and nothing is being written for a write deadline to hit: those two causes
			// cannot end a generation whose writer is parked
			if k != cWriteTimeout && k != cLinktest {
				midWrite(c, k, genx.KSyncW)
				queuedAsync(c, k, 1+r.Intn(5))
			}
		}
		midWrite(c, cPeerClose, genx.KSyncNW)
		blockedWrite(c, cPeerClose)
		blockedWrite(c, cWriteTimeout)
		if !s1() {
			t7(c)
			parkedOnFullQueue(c, cClose, 2+r.Intn(3), true)
			parkedOnFullQueue(c, cPeerClose, 2+r.Intn(3), true)
			parkedOnFullQueue(c, cWriteTimeout, 2+r.Intn(3), true)
			parkedOnFullQueue(c, cT8, 2+r.Intn(3), false) // T8 needs the receive goroutine reading
			parkedOnFullQueue(c, cPeerClose, 1, false)
			for _, m := range []int{genx.RaceBeforeClose, genx.RaceAtClose, genx.RaceAfterClose} {
				passiveAcceptRace(c, m)
			}
		} else {
			parkedOnFullQueue(c, cClose, 2+r.Intn(3), false)
			parkedOnFullQueue(c, cPeerClose, 2+r.Intn(3), false)
		}
	}
	for i := 0; i < nRandom; i++ {
		random(c, r, i)
	}
	c.Finish()
}
