package main

// Receive-side histories at the character level: the REAL lineIO (readByte / receiveBlock /
// drainUntilSilence through the verif hook, injected clock) is driven by the idle loop of
// lineEngine over a scripted conn in VIRTUAL time. A history is a list of bursts (characters less
// than T1 apart, arbitrarily segmented) separated by silences; it contains whole good blocks and
// transmissions that must be NAK'd: a length character corrupted DOWNWARD or UPWARD while the
// sender transmits the ORIGINAL extent (with tails that contain ENQ + a valid block image
// addressed to this receiver, ENQ + garbage, EOT/ACK/NAK characters), flipped data characters,
// truncations, illegal lengths. After the silence the peer retransmits the good block. Everything
// the receiver writes and delivers is compared with the extracted character-level model
// (Secs1/RecvStream.v); the oracle checks that only blocks sent as whole good transmissions are
// delivered and that a rejected transmission is answered by exactly one NAK.

import (
	"context"
	"errors"
	"fmt"
	"net"
	"strings"
	"time"

	"github.com/arloliu/go-secs/v2/hsms"
	"github.com/arloliu/go-secs/v2/secs1"

	"verifharness/vh"
)

type rsTimeout struct{}

func (rsTimeout) Error() string   { return "i/o timeout (virtual)" }
func (rsTimeout) Timeout() bool   { return true }
func (rsTimeout) Temporary() bool { return true }

type rsChunk struct {
	at   time.Duration
	data []byte
}

type scriptConn struct {
	now      time.Duration
	chunks   []rsChunk
	rbuf     []byte
	deadline time.Duration
	events   []string
}

func (s *scriptConn) clock() time.Time { return time.Unix(1_700_000_000, 0).Add(s.now) }

func (s *scriptConn) Read(p []byte) (int, error) {
	for {
		if len(s.rbuf) > 0 {
			n := copy(p, s.rbuf)
			s.rbuf = s.rbuf[n:]
			return n, nil
		}
		if len(s.chunks) > 0 && s.chunks[0].at <= s.deadline {
			if s.chunks[0].at > s.now {
				s.now = s.chunks[0].at
			}
			s.rbuf = append(s.rbuf, s.chunks[0].data...)
			s.chunks = s.chunks[1:]
			continue
		}
		if s.deadline > s.now {
			s.now = s.deadline
		}
		return 0, rsTimeout{}
	}
}

func (s *scriptConn) Write(p []byte) (int, error) {
	for _, b := range p {
		s.events = append(s.events, fmt.Sprintf("W%02x", b))
	}
	return len(p), nil
}
func (s *scriptConn) SetReadDeadline(t time.Time) error {
	s.deadline = t.Sub(time.Unix(1_700_000_000, 0))
	return nil
}
func (s *scriptConn) Close() error                     { return nil }
func (s *scriptConn) LocalAddr() net.Addr              { return &net.TCPAddr{} }
func (s *scriptConn) RemoteAddr() net.Addr             { return &net.TCPAddr{} }
func (s *scriptConn) SetDeadline(time.Time) error      { return nil }
func (s *scriptConn) SetWriteDeadline(time.Time) error { return nil }

// rsItem is one element of a history: a burst of characters, or a silence.
type rsItem struct {
	silence bool
	data    []byte
	class   string
}

func unitRecvStream(c *vh.Ctx) {
	r := c.Rng
	const t1, t2 = 500*time.Millisecond + 7, 10 * time.Second
	n := c.N / 10
	for i := 0; i < n; i++ {
		equip := r.Intn(2) == 0
		dev := r.Intn(0x8000)
		var items []rsItem
		good := map[string]bool{} // "hdr body" of every block sent as a whole good transmission
		nakExpected := 0
		sys := byte(0)
		mkBlock := func(body []byte) e4Block {
			sys++
			f := e4Fields{dev: dev, rbit: !equip, stream: 1 + r.Intn(100), fn: 1 + 2*r.Intn(100), num: 1, ebit: true,
				sys: [4]byte{5, byte(i), byte(i >> 8), sys}}
			return e4Block{hdr: e4Encode(f), body: body}
		}
		burst := func(class string, data []byte) {
			items = append(items, rsItem{data: data, class: class}, rsItem{silence: true})
			c.Count("RS/" + class)
		}
		sendGood := func(b e4Block) {
			good[hx(b.hdr[:])+" "+hx(b.body)] = true
			burst("good", append([]byte{chENQ}, e4Wire(b)...))
		}
		for k := 1 + r.Intn(4); k > 0; k-- {
			// the tail a damaged transmission may carry
			image := mkBlock(randBytes(c, r.Intn(12)))
			var tail []byte
			tailClass := ""
			switch r.Intn(4) {
			case 0:
				tail, tailClass = append([]byte{chENQ}, e4Wire(image)...), "enq+block-image"
			case 1:
				tail, tailClass = append([]byte{chENQ}, randBytes(c, 3+r.Intn(30))...), "enq+garbage"
			case 2:
				tail, tailClass = []byte{chEOT, chACK, chNAK, chENQ, chEOT, chACK}[:2+r.Intn(5)], "control-chars"
			default:
				tail, tailClass = randBytes(c, r.Intn(20)), "random"
			}
			body := append(append([]byte{0xFF, 0xFF}, tail...), randBytes(c, r.Intn(6))...)
			if r.Intn(3) == 0 {
				body = append(randBytes(c, 2+r.Intn(40)), body...)
			}
			if len(body) > 244 {
				body = body[:244]
			}
			blk := mkBlock(body)
			w := e4Wire(blk)
			switch a := r.Intn(12); {
			case a < 4: // length character lowered, the ORIGINAL extent transmitted
				bad := append([]byte(nil), w...)
				lo := 10
				if int(w[0]) > 11 && r.Intn(2) == 0 {
					lo = 10 + r.Intn(int(w[0])-10)
				}
				if r.Intn(3) == 0 { // a single flipped bit, if one gives a smaller legal value
					for bit := 7; bit >= 0; bit-- {
						if v := int(w[0]) &^ (1 << bit); v != int(w[0]) && v >= 10 {
							lo = v
							break
						}
					}
				}
				bad[0] = byte(lo)
				if _, ok := e4Parse(bad[0], bad[1:1+lo+2]); ok {
					continue // the 16-bit sum cannot tell (C17_short_length_undetected): not a detectable fault
				}
				burst("length-down/"+tailClass, append([]byte{chENQ}, bad...))
				nakExpected++
			case a < 6: // length character raised, the ORIGINAL extent transmitted
				bad := append([]byte(nil), w...)
				if int(w[0]) >= 254 {
					continue
				}
				bad[0] = byte(int(w[0]) + 1 + r.Intn(254-int(w[0])))
				burst("length-up", append([]byte{chENQ}, bad...))
				nakExpected++
			case a < 8: // one flipped data character, exactly n+2 characters on the wire
				bad := append([]byte(nil), w...)
				bad[1+r.Intn(len(bad)-1)] ^= byte(1 << r.Intn(8))
				burst("flipped-character", append([]byte{chENQ}, bad...))
				nakExpected++
			case a < 9: // truncated
				burst("truncated", append([]byte{chENQ}, w[:r.Intn(len(w))]...))
				nakExpected++
			case a < 10: // illegal length, then whatever the sender goes on transmitting
				bad := append([]byte{byte(r.Intn(10))}, w[1:]...)
				if r.Intn(2) == 0 {
					bad[0] = 255
				}
				burst("illegal-length/"+tailClass, append([]byte{chENQ}, bad...))
				nakExpected++
			case a < 11: // characters on an idle line that are not a line bid
				burst("idle-noise", []byte{chEOT, chACK, chNAK, 0x00, 0xFF, 0x41}[:1+r.Intn(6)])
			default: // no fault
			}
			sendGood(blk) // the (re)transmission of the good block after the silence
		}

		// timing: characters of a burst at most 400 ms apart (< T1), arbitrarily segmented; silences
		// longer than T2
		sc := &scriptConn{}
		at := time.Duration(0)
		var lhs strings.Builder
		fmt.Fprintf(&lhs, "RS %d", len(items))
		for _, it := range items {
			if it.silence {
				at += t2 + 2*t1
				lhs.WriteString(" s")
				continue
			}
			lhs.WriteString(" c" + hx(it.data))
			for pos := 0; pos < len(it.data); {
				step := len(it.data) - pos
				if r.Intn(2) == 0 {
					step = 1 + r.Intn(step)
				}
				sc.chunks = append(sc.chunks, rsChunk{at: at, data: it.data[pos : pos+step]})
				pos += step
				at += time.Duration(r.Intn(400)) * time.Millisecond
			}
		}
		end := at + t2 + 2*t1
		line, err := secs1.VerifNewLine(sc, equip, sc.clock, func() hsms.TimerConfig {
			return hsms.TimerConfig{T1: t1, T2: t2, T4: 45 * time.Second}
		})
		if err != nil {
			panic(err)
		}
		// the idle loop of transport.lineEngine
		var delivered []string
		for polls := 0; sc.now < end && polls < 100000; polls++ {
			b, err := line.PollByte(time.Second)
			if err != nil {
				var ne net.Error
				if errors.As(err, &ne) && ne.Timeout() {
					continue
				}
				break
			}
			if b != chENQ {
				continue
			}
			if line.PutByte(chEOT) != nil {
				break
			}
			if blk, ec := line.ReceiveBlock(context.Background()); ec == secs1.VerifOK {
				d := hx(blk.Header[:]) + " " + hx(blk.Body)
				delivered = append(delivered, d)
				sc.events = append(sc.events, "D "+d)
			}
		}
		cl := lhs.String() + " | " + strings.Join(sc.events, " ")
		c.Case(cl, cl, len(items) > 2)

		// oracle
		naks := 0
		for _, e := range sc.events {
			if e == fmt.Sprintf("W%02x", chNAK) {
				naks++
			}
		}
		for _, d := range delivered {
			if !good[d] {
				c.Fail("the receiver delivered a block that was never sent as a whole good transmission (taken out of a corrupt, NAK'd one)", cl)
			}
		}
		if len(delivered) != len(good) {
			c.Fail(fmt.Sprintf("the receiver delivered %d blocks, the peer sent %d whole good ones", len(delivered), len(good)), cl)
		}
		if naks != nakExpected {
			c.Fail(fmt.Sprintf("%d NAKs for %d rejected transmissions", naks, nakExpected), cl)
		}
	}
}
