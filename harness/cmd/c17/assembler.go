package main

import (
	"fmt"
	"strings"

	"github.com/arloliu/go-secs/v2/secs1"

	"verifharness/vh"
)

// ---------------------------------------------------------------------------------------------
// An independent reading of SEMI E4 blocks, written for this harness (shares no code with /repo).

type e4Fields struct {
	dev    int
	rbit   bool
	stream int
	fn     int
	wbit   bool
	sys    [4]byte
	num    int
	ebit   bool
}

func e4Decode(h [10]byte) e4Fields {
	return e4Fields{
		dev: int(h[0]&0x7F)<<8 | int(h[1]), rbit: h[0]&0x80 != 0,
		stream: int(h[2] & 0x7F), wbit: h[2]&0x80 != 0, fn: int(h[3]),
		num: int(h[4]&0x7F)<<8 | int(h[5]), ebit: h[4]&0x80 != 0,
		sys: [4]byte{h[6], h[7], h[8], h[9]},
	}
}

func e4Encode(f e4Fields) [10]byte {
	var h [10]byte
	h[0], h[1] = byte(f.dev>>8), byte(f.dev)
	if f.rbit {
		h[0] |= 0x80
	}
	h[2] = byte(f.stream)
	if f.wbit {
		h[2] |= 0x80
	}
	h[3] = byte(f.fn)
	h[4], h[5] = byte(f.num>>8), byte(f.num)
	if f.ebit {
		h[4] |= 0x80
	}
	copy(h[6:], f.sys[:])
	return h
}

func (f e4Fields) sameMessage(g e4Fields) bool {
	return f.dev == g.dev && f.rbit == g.rbit && f.stream == g.stream && f.fn == g.fn && f.wbit == g.wbit && f.sys == g.sys
}

type e4Block struct {
	hdr  [10]byte
	body []byte
}

// e4Split cuts a body into blocks of at most 244 bytes, numbered from 1, E-bit on the last.
func e4Split(f e4Fields, body []byte) []e4Block {
	var out []e4Block
	n := (len(body) + 243) / 244
	if n == 0 {
		n = 1
	}
	for i := 0; i < n; i++ {
		lo, hi := i*244, (i+1)*244
		if hi > len(body) {
			hi = len(body)
		}
		g := f
		g.num, g.ebit = i+1, i == n-1
		out = append(out, e4Block{hdr: e4Encode(g), body: append([]byte(nil), body[lo:hi]...)})
	}
	return out
}

// e4Wire is [len][header][body][16-bit sum].
func e4Wire(b e4Block) []byte {
	w := []byte{byte(10 + len(b.body))}
	w = append(w, b.hdr[:]...)
	w = append(w, b.body...)
	sum := 0
	for _, v := range w[1:] {
		sum += int(v)
	}
	return append(w, byte(sum>>8), byte(sum))
}

// e4Parse checks the length and the checksum of one transmission.
func e4Parse(lb byte, rest []byte) (e4Block, bool) {
	n := int(lb)
	if n < 10 || n > 254 || len(rest) != n+2 {
		return e4Block{}, false
	}
	sum := 0
	for _, v := range rest[:n] {
		sum += int(v)
	}
	if sum&0xFFFF != int(rest[n])<<8|int(rest[n+1]) {
		return e4Block{}, false
	}
	var b e4Block
	copy(b.hdr[:], rest[:10])
	b.body = append([]byte(nil), rest[10:n]...)
	return b, true
}

// e4Receiver is the §9.4 receive algorithm read as "re-validate the whole candidate message".
type e4Receiver struct {
	equip bool
	dev   int
	last  *[10]byte
	run   []e4Block
	times []int64
}

func e4Prefix(run []e4Block, times []int64, t4s []int64) bool {
	if len(run) == 0 {
		return false
	}
	f0 := e4Decode(run[0].hdr)
	if !(f0.num == 1 || (f0.num == 0 && f0.ebit)) {
		return false
	}
	for i := 1; i < len(run); i++ {
		p, q := e4Decode(run[i-1].hdr), e4Decode(run[i].hdr)
		if p.ebit || q.num != p.num+1 || !q.sameMessage(p) || times[i]-times[i-1] > t4s[i] {
			return false
		}
	}
	return true
}

// accept returns the frame delivered by this block, if any.
func (r *e4Receiver) accept(now, t4 int64, b e4Block) []byte {
	f := e4Decode(b.hdr)
	if f.dev != r.dev || f.rbit == r.equip {
		return nil
	}
	if len(r.run) > 0 && now-r.times[len(r.times)-1] > t4 {
		r.run, r.times = nil, nil
	}
	if r.last != nil && *r.last == b.hdr {
		return nil
	}
	t4s := make([]int64, len(r.run)+1) // earlier gaps were validated when those blocks arrived
	t4s[len(r.run)] = t4
	for i := range r.run {
		t4s[i] = 1 << 62
	}
	cand := append(append([]e4Block(nil), r.run...), b)
	ct := append(append([]int64(nil), r.times...), now)
	if !e4Prefix(cand, ct, t4s) {
		cand, ct = []e4Block{b}, []int64{now}
		if !e4Prefix(cand, ct, []int64{t4}) {
			r.run, r.times = nil, nil
			return nil
		}
	}
	h := b.hdr
	r.last = &h
	if !f.ebit {
		r.run, r.times = cand, ct
		return nil
	}
	r.run, r.times = nil, nil
	f0 := e4Decode(cand[0].hdr)
	frame := []byte{byte(f0.dev >> 8), byte(f0.dev), byte(f0.stream), byte(f0.fn), 0, 0, f0.sys[0], f0.sys[1], f0.sys[2], f0.sys[3]}
	if f0.wbit {
		frame[2] |= 0x80
	}
	for _, x := range cand {
		frame = append(frame, x.body...)
	}
	return frame
}

// ---------------------------------------------------------------------------------------------
// inbound sequences over the alphabet of the property

type wireEv struct {
	now, t4 int64
	lb      byte
	rest    []byte
	class   string
}

func genSequence(c *vh.Ctx, equip bool, dev int) []wireEv {
	r := c.Rng
	k := 1 + r.Intn(24)
	t4 := int64(1000)
	now := int64(r.Intn(5000))
	var evs []wireEv
	var plan []e4Block
	idx := 0
	var lastGood *e4Block
	newMsg := func(sameAsLast bool) {
		f := e4Fields{dev: dev, rbit: !equip, stream: r.Intn(128), fn: r.Intn(256), wbit: r.Intn(2) == 0}
		f.sys = [4]byte{0, 0, byte(r.Intn(3)), byte(r.Intn(4))}
		if sameAsLast && lastGood != nil {
			f = e4Decode(lastGood.hdr)
		}
		nb := []int{0, 1, 1, 2, 2, 3, 4}[r.Intn(7)]
		ln := 0
		if nb > 0 {
			ln = (nb-1)*244 + 1 + r.Intn(244)
		}
		if r.Intn(3) == 0 && nb > 0 { // short bodies keep the case lines small
			ln = (nb-1)*244 + 1 + r.Intn(8)
		}
		plan = e4Split(f, randBytes(c, ln))
		idx = 0
	}
	newMsg(false)
	forceNext := false
	lastAccept := now
	emit := func(b e4Block, class string) {
		w := e4Wire(b)
		evs = append(evs, wireEv{now: now, t4: t4, lb: w[0], rest: w[1:], class: class})
	}
	for len(evs) < k {
		if idx >= len(plan) {
			newMsg(r.Intn(12) == 0)
		}
		a := r.Intn(100)
		if forceNext {
			a, forceNext = 0, false
		} else {
			now += int64(r.Intn(int(t4)/3 + 1))
		}
		switch {
		case a < 52:
			b := plan[idx]
			idx++
			emit(b, "next")
			lastGood = &b
			lastAccept = now
		case a < 60:
			if lastGood != nil {
				emit(*lastGood, "dup")
			}
		case a < 65:
			if idx+1 < len(plan) {
				idx++
				b := plan[idx]
				idx++
				emit(b, "skip")
			}
		case a < 71:
			b := plan[idx]
			idx++
			f := e4Decode(b.hdr)
			switch r.Intn(4) {
			case 0:
				f.stream ^= 1
			case 1:
				f.fn ^= 1 << r.Intn(8)
			case 2:
				f.wbit = !f.wbit
			default:
				f.sys[r.Intn(4)] ^= 1
			}
			b.hdr = e4Encode(f)
			emit(b, "field")
		case a < 75:
			b := plan[idx]
			f := e4Decode(b.hdr)
			f.dev = (f.dev + 1 + r.Intn(100)) & 0x7FFF
			b.hdr = e4Encode(f)
			emit(b, "device")
		case a < 79:
			b := plan[idx]
			b.hdr[0] ^= 0x80
			emit(b, "direction")
		case a < 83:
			w := e4Wire(plan[idx])
			w[1+r.Intn(len(w)-1)] ^= byte(1 << r.Intn(8))
			evs = append(evs, wireEv{now: now, t4: t4, lb: w[0], rest: w[1:], class: "checksum"})
		case a < 86:
			w := e4Wire(plan[idx])
			if r.Intn(2) == 0 {
				evs = append(evs, wireEv{now: now, t4: t4, lb: w[0] + 1, rest: w[1:], class: "length"})
			} else {
				evs = append(evs, wireEv{now: now, t4: t4, lb: byte(r.Intn(10)), rest: w[1:], class: "length"})
			}
		case a < 90: // block 0: lone with E-bit (accepted), or without (never a first block)
			f := e4Fields{dev: dev, rbit: !equip, stream: r.Intn(128), fn: r.Intn(256), sys: [4]byte{9, 9, 9, byte(r.Intn(4))}, num: 0, ebit: r.Intn(3) != 0}
			b := e4Block{hdr: e4Encode(f), body: randBytes(c, r.Intn(6))}
			emit(b, "zero")
			if f.ebit {
				lastGood = &b
			}
		case a < 96: // T4 gap since the last in-sequence block: exactly T4 (in time), T4+1 (late), T4-1, far beyond
			if now <= lastAccept+t4+1 {
				now = lastAccept + []int64{t4, t4, t4 + 1, t4 + 1, t4 - 1, 3 * t4}[r.Intn(6)]
				forceNext = r.Intn(4) != 0 // the boundary only shows when the expected block comes next
			} else {
				now += t4 + 1
			}
		case a < 98:
			newMsg(r.Intn(4) == 0)
		case a < 99:
			t4 = []int64{1, 500, 1000, 2000}[r.Intn(4)] // live UpdateConfigOptions(WithT4)
		default:
			now -= int64(r.Intn(50)) // a clock that does not advance / steps back a little
		}
	}
	return evs
}

func unitAssembler(c *vh.Ctx) {
	r := c.Rng
	n := c.N / 4
	for i := 0; i < n; i++ {
		equip := r.Intn(2) == 0
		dev := []int{0, 1, 0x7FFF, r.Intn(0x8000)}[r.Intn(4)]
		evs := genSequence(c, equip, dev)

		// run the real code: parseBlock, then the real assembler on what parsed
		var in []secs1.VerifEvent
		parsed := make([]int, len(evs)) // index into `in`, or -1-errclass
		for j, e := range evs {
			b, ec := secs1.VerifParseBlock(e.lb, e.rest)
			if ec != secs1.VerifOK {
				parsed[j] = -1 - ec
				continue
			}
			parsed[j] = len(in)
			in = append(in, secs1.VerifEvent{Now: e.now, T4: e.t4, Block: b})
		}
		outs := secs1.VerifAssemblerRun(equip, uint16(dev), in)

		var lhs, rhs strings.Builder
		fmt.Fprintf(&lhs, "Q %s %d %d", vh.B01(equip), dev, len(evs))
		ref := &e4Receiver{equip: equip, dev: dev}
		classes := map[string]bool{}
		nDeliv := 0
		for j, e := range evs {
			fmt.Fprintf(&lhs, " %d %d %d %s", e.now, e.t4, e.lb, hx(e.rest))
			classes[e.class] = true
			c.Count("Q/ev=" + e.class)
			if j > 0 {
				rhs.WriteString(" ;")
			}
			rb, rok := e4Parse(e.lb, e.rest)
			if parsed[j] < 0 {
				fmt.Fprintf(&rhs, " P%d", -1-parsed[j])
				if rok {
					c.Fail("parseBlock rejected a transmission with valid length and checksum", lhs.String())
				}
				continue
			}
			o := outs[parsed[j]]
			fmt.Fprintf(&rhs, " A %d", len(o.Deliveries))
			for _, d := range o.Deliveries {
				rhs.WriteString(" " + hx(d))
			}
			fmt.Fprintf(&rhs, " %d", len(o.Violations))
			for _, v := range o.Violations {
				fmt.Fprintf(&rhs, " %d %s", v.Kind, hx(v.Header[:]))
			}
			for _, x := range o.Counters {
				fmt.Fprintf(&rhs, " %d", x)
			}
			fmt.Fprintf(&rhs, " %d", o.Err)
			nDeliv += len(o.Deliveries)

			// oracle: the property on the real code, against the harness's own E4 receiver
			if !rok {
				c.Fail("parseBlock accepted a transmission with a bad length or checksum", lhs.String())
				continue
			}
			want := ref.accept(e.now, e.t4, rb)
			switch {
			case want == nil && len(o.Deliveries) != 0:
				c.Fail(fmt.Sprintf("assembler delivered a message E4 does not deliver (event %d, %s)", j, e.class), lhs.String())
			case want != nil && (len(o.Deliveries) != 1 || string(o.Deliveries[0]) != string(want)):
				c.Fail(fmt.Sprintf("assembler did not deliver the complete message byte-identically (event %d, %s)", j, e.class), lhs.String())
			}
			if o.Err != secs1.VerifOK {
				c.Fail(fmt.Sprintf("accept returned an error (event %d, %s)", j, e.class), lhs.String())
			}
		}
		line := lhs.String() + " |" + rhs.String()
		c.Case(line, line, len(classes) >= 3)
		c.Count(fmt.Sprintf("Q/deliveries=%d", min(nDeliv, 4)))
	}
}
