package main

// E2E: a REAL secs1 connection (public API only: secs1.New + WithDialer/WithListener over
// net.Pipe) against the harness's own minimal SEMI E4 peer. Outbound: every character the
// connection puts on the line is recorded and the block transmissions are compared with the E4
// split computed independently here (oracle) and by the extracted model (case line X). Inbound:
// the peer transmits block sequences over the alphabet {valid next, duplicate, skipped number,
// wrong header field, wrong device, wrong direction, bad checksum, block 0, T4 gap}; the frames
// the connection hands to its DataMessageHandler are compared with the harness's own E4 receiver
// (oracle) and with the model (case line Y); the link must stay Selected throughout.

import (
	"context"
	"errors"
	"fmt"
	"net"
	"os"
	"strings"
	"sync"
	"time"

	"github.com/arloliu/go-secs/v2/hsms"
	"github.com/arloliu/go-secs/v2/secs1"
	"github.com/arloliu/go-secs/v2/secs2"

	"verifharness/vh"
)

const (
	chENQ = 0x05
	chEOT = 0x04
	chACK = 0x06
	chNAK = 0x15

	e2eT1 = 300 * time.Millisecond
	e2eT2 = 2 * time.Second
	e2eT4 = 80 * time.Millisecond // a deliberate gap sleeps 4x this; prompt blocks must stay below T4/2
)

// pipeListener hands out one pre-made conn per Accept and then blocks until closed.
type pipeListener struct {
	ch     chan net.Conn
	closed chan struct{}
	once   sync.Once
}

func (l *pipeListener) Accept() (net.Conn, error) {
	select {
	case c := <-l.ch:
		return c, nil
	case <-l.closed:
		return nil, errors.New("listener closed")
	}
}
func (l *pipeListener) Close() error   { l.once.Do(func() { close(l.closed) }); return nil }
func (l *pipeListener) Addr() net.Addr { return &net.TCPAddr{IP: net.IPv4(127, 0, 0, 1), Port: 5000} }

// e4Peer is the harness's end of the line.
type e4Peer struct {
	conn   net.Conn
	in     chan byte
	master bool // the peer's own role: master (equipment) iff the connection under test is the host

	trace    []string // last line events, for diagnostics
	mu       sync.Mutex
	received []e4Block // checksum-valid blocks taken from the connection, in order (retransmissions dropped)
	rawBlk   [][]byte  // their raw transmissions [len..checksum]
	lineErr  string    // first protocol anomaly seen by the peer
}

func newPeer(conn net.Conn, master bool) *e4Peer {
	p := &e4Peer{conn: conn, in: make(chan byte, 1<<16), master: master}
	go func() {
		buf := make([]byte, 1024)
		for {
			n, err := conn.Read(buf)
			for _, b := range buf[:n] {
				p.in <- b
			}
			if err != nil {
				close(p.in)
				return
			}
		}
	}()
	return p
}

func (p *e4Peer) anomaly(s string) {
	p.mu.Lock()
	if p.lineErr == "" {
		p.lineErr = s
	}
	p.mu.Unlock()
}

func (p *e4Peer) tr(format string, a ...any) {
	p.mu.Lock()
	p.trace = append(p.trace, time.Now().Format("05.000")+" "+fmt.Sprintf(format, a...))
	if len(p.trace) > 60 {
		p.trace = p.trace[len(p.trace)-60:]
	}
	p.mu.Unlock()
}

func (p *e4Peer) readByte(d time.Duration) (byte, bool) {
	select {
	case b, ok := <-p.in:
		p.tr("<%02x", b)
		return b, ok
	case <-time.After(d):
		return 0, false
	}
}

func (p *e4Peer) write(b []byte) bool {
	if len(b) == 1 {
		p.tr(">%02x", b[0])
	} else {
		p.tr(">blk[%d] %x", len(b), b[:min(len(b), 11)])
	}
	_ = p.conn.SetWriteDeadline(time.Now().Add(5 * time.Second))
	_, err := p.conn.Write(b)
	return err == nil
}

// takeBlock runs the receiver half after our EOT: length, data, checksum, ACK/NAK.
func (p *e4Peer) takeBlock() bool {
	lb, ok := p.readByte(e2eT2)
	if !ok {
		p.anomaly("no length character after our EOT")
		p.write([]byte{chNAK})
		return false
	}
	n := int(lb)
	if n < 10 || n > 254 {
		p.anomaly(fmt.Sprintf("length character %d out of range", n))
		p.write([]byte{chNAK})
		return false
	}
	rest := make([]byte, 0, n+2)
	for len(rest) < n+2 {
		b, ok := p.readByte(e2eT1 * 3)
		if !ok {
			p.anomaly("inter-character gap inside a block")
			p.write([]byte{chNAK})
			return false
		}
		rest = append(rest, b)
	}
	blk, good := e4Parse(lb, rest)
	if !good {
		p.anomaly("block with a bad checksum on a fault-free line")
		p.write([]byte{chNAK})
		return false
	}
	p.write([]byte{chACK})
	raw := append([]byte{lb}, rest...)
	p.mu.Lock()
	if k := len(p.rawBlk); k == 0 || string(p.rawBlk[k-1]) != string(raw) { // E4 §9.4.2: drop a retransmission
		p.received = append(p.received, blk)
		p.rawBlk = append(p.rawBlk, raw)
	}
	p.mu.Unlock()
	return true
}

// serve answers inbound ENQs until the line has been quiet for `quiet` or `max` has passed.
func (p *e4Peer) serve(quiet, max time.Duration) {
	end := time.Now().Add(max)
	for time.Now().Before(end) {
		b, ok := p.readByte(quiet)
		if !ok {
			return
		}
		if b == chENQ {
			p.write([]byte{chEOT})
			p.takeBlock()
		}
	}
}

// sendRaw transmits one block transmission (already in wire form, possibly corrupted) with the
// E4 handshake and contention rules. Returns 'A' (ACK), 'N' (NAK), or 'T' (gave up).
func (p *e4Peer) sendRaw(w []byte) byte {
	yields := 0
	for try := 0; try < 6; try++ {
		if !p.write([]byte{chENQ}) {
			return 'T'
		}
		deadline := time.Now().Add(e2eT2)
		granted := false
		for !granted {
			b, ok := p.readByte(time.Until(deadline))
			if !ok {
				break
			}
			switch {
			case b == chEOT:
				granted = true
			case b == chENQ && !p.master: // we are the slave: yield, take the master's block, start over
				p.write([]byte{chEOT})
				p.takeBlock()
				if yields++; yields < 40 {
					try-- // E4 7.8.2.1: after a yield the postponed send is a new request, not a retry
				}
				goto retry
			}
		}
		if !granted {
			continue
		}
		if len(w) > 0 && !p.write(w) {
			return 'T'
		}
		for {
			b, ok := p.readByte(e2eT2 + 2*e2eT1)
			if !ok {
				return 'T'
			}
			if b == chACK {
				return 'A'
			}
			if b == chNAK {
				return 'N'
			}
		}
	retry:
		continue
	}
	return 'T'
}

// session is one real connection plus its peer.
type session struct {
	conn      secs1.Connection
	peer      *e4Peer
	equip     bool
	active    bool
	dev       int
	newConns  chan net.Conn      // harness ends of the pipes the connection dialled
	listeners chan *pipeListener // listeners the connection opened, one per generation
	mu        sync.Mutex
	delivered [][]byte // HSMS header ++ body of every message the handler saw
	notify    chan struct{}
}

func openSession(equip, active bool, dev int, t4 time.Duration) (*session, error) {
	s := &session{equip: equip, active: active, dev: dev, notify: make(chan struct{}, 1024),
		newConns: make(chan net.Conn, 16), listeners: make(chan *pipeListener, 16)}
	opts := []secs1.Option{secs1.WithDeviceID(uint16(dev)), secs1.WithT1(e2eT1), secs1.WithT2(e2eT2), secs1.WithT4(t4),
		secs1.WithRetryLimit(3), secs1.WithT5(200 * time.Millisecond),
		secs1.WithConnectionOption(hsms.WithReconnectBackoff(20*time.Millisecond, 1.5))}
	if equip {
		opts = append(opts, secs1.WithEquipment())
	} else {
		opts = append(opts, secs1.WithHost())
	}
	if active {
		// every dial (the first one and each re-dial after a line drop) gets a fresh pipe; the
		// harness's end of it is handed to attach()
		opts = append(opts, secs1.WithActive(), secs1.WithDialer(func(ctx context.Context, _, _ string) (net.Conn, error) {
			a, b := net.Pipe()
			select {
			case s.newConns <- b:
				return a, nil
			case <-ctx.Done():
				return nil, ctx.Err()
			}
		}))
	} else {
		// every generation listens anew; attach() connects to the latest listener
		opts = append(opts, secs1.WithPassive(), secs1.WithListener(func(context.Context, string, string) (net.Listener, error) {
			l := &pipeListener{ch: make(chan net.Conn, 1), closed: make(chan struct{})}
			s.listeners <- l
			return l, nil
		}))
	}
	cfg, err := secs1.NewConfig("127.0.0.1", 5000, opts...)
	if err != nil {
		return nil, err
	}
	conn, err := secs1.New(cfg)
	if err != nil {
		return nil, err
	}
	conn.AddDataMessageHandler(func(msg *hsms.DataMessage, _ hsms.SECS2Endpoint) {
		h := msg.HeaderBytes()
		f := msg.AppendBodyTo(append([]byte(nil), h[:]...))
		s.mu.Lock()
		s.delivered = append(s.delivered, f)
		s.mu.Unlock()
		select {
		case s.notify <- struct{}{}:
		default:
		}
	})
	s.conn = conn
	ctx, cancel := context.WithTimeout(context.Background(), 10*time.Second)
	defer cancel()
	if err := conn.Open(ctx, hsms.OpenBackground); err != nil {
		return nil, err
	}
	if err := s.attach(); err != nil {
		return nil, err
	}
	return s, nil
}

// attach connects the harness's E4 peer to the connection's CURRENT generation (the pipe end of
// the latest dial, or a fresh pipe into the latest listener) and waits for Selected.
func (s *session) attach() error {
	var b net.Conn
	if s.active {
		select {
		case b = <-s.newConns:
		case <-time.After(8 * time.Second):
			return errors.New("the connection never dialled")
		}
	} else {
		var l *pipeListener
		select {
		case l = <-s.listeners:
		case <-time.After(8 * time.Second):
			return errors.New("the connection never listened")
		}
		for more := true; more; { // the latest listener
			select {
			case l = <-s.listeners:
			default:
				more = false
			}
		}
		var a net.Conn
		a, b = net.Pipe()
		select {
		case l.ch <- a:
		case <-l.closed:
			return errors.New("listener closed before the peer connected")
		}
	}
	s.peer = newPeer(b, !s.equip)
	for i := 0; s.conn.State() != hsms.SelectedState; i++ {
		if i > 4000 {
			return errors.New("connection never reached Selected")
		}
		time.Sleep(time.Millisecond)
	}
	return nil
}

// reconnect drops the line from the peer's side (TCP close) and attaches a fresh peer to the
// generation the connection brings up next.
func (s *session) reconnect() error {
	_ = s.peer.conn.Close()
	for i := 0; s.conn.State() == hsms.SelectedState && i < 3000; i++ {
		time.Sleep(time.Millisecond)
	}
	return s.attach()
}

func (s *session) close() {
	done := make(chan struct{})
	go func() { _ = s.conn.Close(); close(done) }()
	select {
	case <-done:
	case <-time.After(10 * time.Second):
	}
	_ = s.peer.conn.Close()
}

func (s *session) deliveredSince(k int) [][]byte {
	s.mu.Lock()
	defer s.mu.Unlock()
	return append([][]byte(nil), s.delivered[k:]...)
}

func (s *session) deliveredCount() int {
	s.mu.Lock()
	defer s.mu.Unlock()
	return len(s.delivered)
}

var e2eBodyLens = []int{0, 2, 3, 243, 244, 245, 246, 487, 488, 489, 490, 732, 733, 1000}

// bodyItem returns an item whose SECS-II encoding has exactly `total` bytes (total 0 = no item).
func bodyItem(c *vh.Ctx, total int) secs2.Item {
	switch {
	case total == 0:
		return nil
	case total < 2:
		total = 2
	}
	data := total - 2
	if total > 257 {
		data = total - 3
	}
	vals := make([]any, data)
	raw := randBytes(c, data)
	for i, v := range raw {
		vals[i] = v
	}
	return secs2.NewBinaryItem(vals...)
}

func (s *session) outbound(c *vh.Ctx, sys uint32) {
	r := c.Rng
	total := e2eBodyLens[r.Intn(len(e2eBodyLens))]
	if r.Intn(3) == 0 {
		total = r.Intn(1300)
	}
	item := bodyItem(c, total)
	stream, fn, w := uint8(1+r.Intn(127)), uint8(r.Intn(256)), r.Intn(2) == 0
	if stream == 9 {
		stream = 10
	}
	if w {
		fn |= 1 // NewDataMessage refuses a W-bit on a secondary
	}
	var sb [4]byte
	sb[0], sb[1], sb[2], sb[3] = byte(sys>>24), byte(sys>>16), byte(sys>>8), byte(sys)
	msg, err := hsms.NewDataMessage(stream, fn, w, uint16(r.Intn(65536)), sb, item)
	if err != nil {
		c.Note("NewDataMessage: " + err.Error())
		return
	}
	hh := msg.HeaderBytes()
	body := msg.AppendBodyTo(nil)

	s.peer.mu.Lock()
	base := len(s.peer.rawBlk)
	s.peer.mu.Unlock()
	res := make(chan error, 1)
	go func() {
		ctx, cancel := context.WithTimeout(context.Background(), 20*time.Second)
		defer cancel()
		res <- s.conn.ForwardDataMessage(ctx, msg)
	}()
	// take blocks until the send call returns and the line is quiet
	var sendErr error
	returned := false
	for deadline := time.Now().Add(25 * time.Second); time.Now().Before(deadline); {
		s.peer.serve(15*time.Millisecond, 200*time.Millisecond)
		if !returned {
			select {
			case sendErr = <-res:
				returned = true
			default:
			}
			continue
		}
		break
	}
	s.peer.serve(30*time.Millisecond, 300*time.Millisecond)

	s.peer.mu.Lock()
	var wire []byte
	var got []e4Block
	for i := base; i < len(s.peer.rawBlk); i++ {
		f := e4Decode(s.peer.received[i].hdr)
		if f.stream == 9 && f.sys != sb { // an S9Fx notice the equipment role sends on its own
			continue
		}
		wire = append(wire, s.peer.rawBlk[i]...)
		got = append(got, s.peer.received[i])
	}
	anomaly := s.peer.lineErr
	s.peer.mu.Unlock()

	line := vh.Join("X", vh.B01(s.equip), fmt.Sprint(s.dev), hx(hh[:]), hx(body), "|", hx(wire))
	c.Case(line, line, true)
	c.Count(fmt.Sprintf("X/equip=%v/blocks=%d", s.equip, min(len(got), 5)))

	// oracle: the property, from the harness's own E4 split
	if !returned || sendErr != nil {
		c.Fail(fmt.Sprintf("send over a fault-free line did not succeed (returned=%v err=%v)", returned, sendErr), line)
	}
	if anomaly != "" {
		c.Fail("line anomaly seen by the E4 peer: "+anomaly, line)
	}
	want := e4Split(e4Fields{dev: s.dev, rbit: s.equip, stream: int(stream), fn: int(fn), wbit: w, sys: sb}, body)
	ok := len(want) == len(got)
	for i := 0; ok && i < len(want); i++ {
		ok = want[i].hdr == got[i].hdr && string(want[i].body) == string(got[i].body)
	}
	if !ok {
		c.Fail("blocks on the line are not the E4 split of the message", line)
	}
	if st := s.conn.State(); st != hsms.SelectedState {
		c.Fail(fmt.Sprintf("link left Selected after an outbound message (state %v)", st), line)
	}
}

func (s *session) inbound(c *vh.Ctx, sentinelSys byte) {
	r := c.Rng
	k := 1 + r.Intn(7)
	type tx struct {
		gap      bool
		w        []byte
		blk      e4Block
		class    string
		bad      bool
		lenFault int // > 0: the length character is replaced by this value, the original extent is sent
	}
	var txs []tx
	var plan []e4Block
	idx := 0
	var lastGood *e4Block
	newMsg := func() {
		f := e4Fields{dev: s.dev, rbit: !s.equip, stream: 1 + r.Intn(8), fn: 1 + 2*r.Intn(60), wbit: r.Intn(4) == 0}
		f.sys = [4]byte{1, byte(r.Intn(2)), byte(r.Intn(3)), byte(r.Intn(4))}
		nb := []int{0, 1, 1, 2, 2, 3}[r.Intn(6)]
		ln := 0
		if nb > 0 {
			ln = (nb-1)*244 + 1 + r.Intn(12)
			if r.Intn(3) == 0 {
				ln = nb * 244
			}
		}
		plan = e4Split(f, randBytes(c, ln))
		idx = 0
	}
	newMsg()
	for len(txs) < k {
		if idx >= len(plan) {
			newMsg()
		}
		t := tx{gap: r.Intn(9) == 0 && len(txs) > 0}
		switch a := r.Intn(100); {
		case a < 55:
			t.blk, t.class = plan[idx], "next"
			idx++
			b := t.blk
			lastGood = &b
		case a < 63 && lastGood != nil:
			t.blk, t.class = *lastGood, "dup"
		case a < 68 && idx+1 < len(plan):
			idx++
			t.blk, t.class = plan[idx], "skip"
			idx++
		case a < 74:
			t.blk, t.class = plan[idx], "field"
			idx++
			f := e4Decode(t.blk.hdr)
			switch r.Intn(3) {
			case 0:
				f.fn ^= 2
			case 1:
				f.wbit = !f.wbit
			default:
				f.sys[3] ^= 0x10
			}
			t.blk.hdr = e4Encode(f)
		case a < 80:
			t.blk, t.class = plan[idx], "device"
			f := e4Decode(t.blk.hdr)
			f.dev = (f.dev + 1 + r.Intn(50)) & 0x7FFF
			t.blk.hdr = e4Encode(f)
		case a < 86:
			t.blk, t.class = plan[idx], "direction"
			t.blk.hdr[0] ^= 0x80
		case a < 89:
			t.blk, t.class, t.bad = plan[idx], "checksum", true
		case a < 92:
			// a length character corrupted while the sender transmits the ORIGINAL extent: downward
			// (the frame read is the bare header, its "checksum" FF FF fails; the tail carries ENQ + a
			// complete block image addressed to this receiver, or ENQ + garbage, or control
			// characters) or upward. E4 7.8.5: one NAK after the line fell silent, nothing out of it.
			img := e4Block{hdr: e4Encode(e4Fields{dev: s.dev, rbit: !s.equip, stream: 77, fn: 77, num: 1, ebit: true,
				sys: [4]byte{4, byte(r.Intn(256)), byte(r.Intn(256)), byte(r.Intn(256))}}), body: randBytes(c, r.Intn(8))}
			tail := append([]byte{chENQ}, e4Wire(img)...)
			switch r.Intn(4) {
			case 0:
				tail = append([]byte{chENQ}, randBytes(c, 5+r.Intn(20))...)
			case 1:
				tail = []byte{chEOT, chACK, chNAK, chENQ, chEOT}
			}
			t.blk = e4Block{hdr: plan[idx].hdr, body: append(append([]byte{0xFF, 0xFF}, tail...), 0xEE)}
			t.class, t.bad, t.lenFault = "length-down", true, 10
			if r.Intn(4) == 0 {
				t.class, t.lenFault = "length-up", 10+len(t.blk.body)+1+r.Intn(20)
			}
		default:
			f := e4Fields{dev: s.dev, rbit: !s.equip, stream: 1 + r.Intn(8), fn: 1 + 2*r.Intn(60), sys: [4]byte{2, 0, 0, byte(r.Intn(4))}, ebit: r.Intn(3) != 0}
			t.blk, t.class = e4Block{hdr: e4Encode(f), body: randBytes(c, r.Intn(5))}, "zero"
			if f.ebit {
				b := t.blk
				lastGood = &b
			}
		}
		if t.class == "" {
			continue
		}
		t.w = e4Wire(t.blk)
		switch {
		case t.lenFault > 0:
			t.w[0] = byte(t.lenFault)
		case t.bad:
			t.w[1+r.Intn(len(t.w)-1)] ^= byte(1 << r.Intn(8))
		}
		txs = append(txs, t)
	}

	base := s.deliveredCount()
	ref := &e4Receiver{equip: s.equip, dev: s.dev}
	var lhs strings.Builder
	var want [][]byte
	nEv := 0
	var evs strings.Builder
	inconclusive := false
	var lastAck time.Time
	var clock int64
	classes := ""
	for _, t := range txs {
		if t.gap {
			time.Sleep(4 * e2eT4)
		}
		res := s.peer.sendRaw(t.w)
		now := time.Now()
		classes += t.class + ","
		c.Count("Y/ev=" + t.class)
		if t.bad {
			if res != 'N' {
				c.Fail(fmt.Sprintf("a block with a corrupted character was answered %q, not NAK", res), hx(t.w))
			}
			continue
		}
		if res != 'A' {
			if os.Getenv("VERIF_TRACE") != "" {
				s.peer.mu.Lock()
				fmt.Fprintln(os.Stderr, "TRACE (block not ACKed):\n  "+strings.Join(s.peer.trace, "\n  "))
				s.peer.mu.Unlock()
			}
			c.Fail(fmt.Sprintf("a checksum-valid block was answered %q, not ACK (%s)", res, t.class), hx(t.w))
			inconclusive = true
			break
		}
		if !lastAck.IsZero() {
			d := now.Sub(lastAck)
			if t.gap && d < 2*e2eT4 || !t.gap && d > e2eT4/2 {
				inconclusive = true // the scheduler blurred the intended timing; do not judge this case
			}
		}
		lastAck = now
		if t.gap {
			clock += 1000
		}
		if f := ref.accept(clock, 10, t.blk); f != nil {
			want = append(want, f)
		}
		fmt.Fprintf(&evs, " %s %s %s", vh.B01(t.gap), hx(t.blk.hdr[:]), hx(t.blk.body))
		nEv++
	}
	// sentinel: a lone valid message; once the handler has it, every earlier delivery has happened
	sf := e4Fields{dev: s.dev, rbit: !s.equip, stream: 99, fn: 99, sys: [4]byte{0xEE, 0xEE, 0xEE, sentinelSys}, num: 1, ebit: true}
	sblk := e4Block{hdr: e4Encode(sf)}
	// (block 1 with the E-bit always starts a new message, whatever is in progress: no pause needed)
	if res := s.peer.sendRaw(e4Wire(sblk)); res != 'A' {
		c.Fail(fmt.Sprintf("sentinel block answered %q", res), "")
		return
	}
	sentinelFrame := ref.accept(clock, 10, sblk)
	deadline := time.Now().Add(10 * time.Second)
	var got [][]byte
	for {
		got = s.deliveredSince(base)
		if n := len(got); n > 0 && sentinelFrame != nil && string(got[n-1]) == string(sentinelFrame) {
			got = got[:n-1]
			break
		}
		if time.Now().After(deadline) {
			c.Fail("the sentinel message was never delivered to the handler", classes)
			return
		}
		select {
		case <-s.notify:
		case <-time.After(20 * time.Millisecond):
		}
	}
	s.peer.serve(30*time.Millisecond, 500*time.Millisecond) // S9Fx notices of an equipment-role connection
	if inconclusive {
		c.Count("Y/inconclusive-timing")
		return
	}
	fmt.Fprintf(&lhs, "Y %s %d %d%s", vh.B01(s.equip), s.dev, nEv, evs.String())
	rhs := fmt.Sprint(len(got))
	for _, g := range got {
		rhs += " " + hx(g)
	}
	line := lhs.String() + " | " + rhs
	c.Case(line, line, nEv >= 2)
	c.Count(fmt.Sprintf("Y/equip=%v/deliveries=%d", s.equip, min(len(got), 4)))

	ok := len(got) == len(want)
	for i := 0; ok && i < len(got); i++ {
		ok = string(got[i]) == string(want[i])
	}
	if !ok {
		c.Fail("handler deliveries differ from the complete, in-order, correctly addressed, in-time, non-duplicate messages ("+classes+")", line)
	}
	if st := s.conn.State(); st != hsms.SelectedState {
		c.Fail(fmt.Sprintf("link left Selected during an inbound sequence (state %v; %s)", st, classes), line)
	}
}

// inboundReconnect: inbound block sequences that SPAN A LINE DROP on one connection object. Each
// connection generation has its own inbound assembler (fresh partial-message state, fresh
// duplicate record): a partial message opened before the drop must not be completed by a block
// arriving alone on the next line session, and a complete message on the new session is delivered
// even if its header equals the last block accepted on the previous one. The session runs with a
// long T4, so nothing here is explained by an inter-block timeout.
func (s *session) inboundReconnect(c *vh.Ctx, sentinelSys byte, scenario int) {
	r := c.Rng
	type item struct {
		reconnect bool
		blk       e4Block
		class     string
	}
	mk := func(nb int) []e4Block {
		f := e4Fields{dev: s.dev, rbit: !s.equip, stream: 1 + r.Intn(8), fn: 1 + 2*r.Intn(60), wbit: r.Intn(4) == 0}
		f.sys = [4]byte{3, byte(r.Intn(256)), byte(r.Intn(256)), byte(r.Intn(256))}
		return e4Split(f, randBytes(c, (nb-1)*244+1+r.Intn(12)))
	}
	R := item{reconnect: true, class: "reconnect"}
	blk := func(b e4Block, class string) item { return item{blk: b, class: class} }
	var items []item
	switch scenario {
	case 0: // block 1 of 2, drop, block 2 alone: nothing may be delivered
		m := mk(2)
		items = []item{blk(m[0], "next"), R, blk(m[1], "continuation-after-drop")}
	case 1: // complete single-block message, drop, the same header again: delivered twice
		m := mk(1)
		items = []item{blk(m[0], "next"), R, blk(m[0], "same-header-after-drop")}
	case 2: // two of three blocks, drop, the third alone (dropped), then the whole message (delivered)
		m := mk(3)
		items = []item{blk(m[0], "next"), blk(m[1], "next"), R, blk(m[2], "continuation-after-drop"),
			blk(m[0], "next"), blk(m[1], "next"), blk(m[2], "next")}
	case 3: // the last block of a delivered 2-block message repeated after the drop, then a new message
		m, n := mk(2), mk(1)
		items = []item{blk(m[0], "next"), blk(m[1], "next"), R, blk(m[1], "same-header-after-drop"), blk(n[0], "next")}
	default: // random mix
		m := mk(1 + r.Intn(3))
		idx := 0
		for k := 3 + r.Intn(5); k > 0; k-- {
			switch a := r.Intn(10); {
			case a < 2:
				items = append(items, R)
			case a < 4 && idx > 0:
				items = append(items, blk(m[idx-1], "dup"))
			default:
				if idx >= len(m) {
					m, idx = mk(1+r.Intn(3)), 0
				}
				items = append(items, blk(m[idx], "next"))
				idx++
			}
		}
	}

	base := s.deliveredCount()
	ref := &e4Receiver{equip: s.equip, dev: s.dev}
	var evs strings.Builder
	var want [][]byte
	nEv := 0
	classes := ""
	for _, it := range items {
		classes += it.class + ","
		c.Count("Y/ev=" + it.class)
		if it.reconnect {
			if err := s.reconnect(); err != nil {
				c.Fail("the connection did not re-establish the line after a TCP drop", fmt.Sprintf("equip=%v active=%v: %v (%s)", s.equip, s.active, err, classes))
				return
			}
			ref = &e4Receiver{equip: s.equip, dev: s.dev} // a new generation: fresh assembler state
			evs.WriteString(" R")
			nEv++
			continue
		}
		if res := s.peer.sendRaw(e4Wire(it.blk)); res != 'A' {
			c.Fail(fmt.Sprintf("a checksum-valid block was answered %q, not ACK (%s)", res, it.class), classes)
			return
		}
		if f := ref.accept(0, 10, it.blk); f != nil {
			want = append(want, f)
		}
		fmt.Fprintf(&evs, " 0 %s %s", hx(it.blk.hdr[:]), hx(it.blk.body))
		nEv++
	}
	// sentinel: block 1 with the E-bit always starts (and here completes) a new message
	sf := e4Fields{dev: s.dev, rbit: !s.equip, stream: 99, fn: 99, sys: [4]byte{0xEE, 0xEE, 0xEF, sentinelSys}, num: 1, ebit: true}
	sblk := e4Block{hdr: e4Encode(sf)}
	if res := s.peer.sendRaw(e4Wire(sblk)); res != 'A' {
		c.Fail(fmt.Sprintf("sentinel block answered %q", res), classes)
		return
	}
	sentinelFrame := ref.accept(0, 10, sblk)
	deadline := time.Now().Add(10 * time.Second)
	var got [][]byte
	for {
		got = s.deliveredSince(base)
		if n := len(got); n > 0 && string(got[n-1]) == string(sentinelFrame) {
			got = got[:n-1]
			break
		}
		if time.Now().After(deadline) {
			c.Fail("the sentinel message was never delivered to the handler", classes)
			return
		}
		select {
		case <-s.notify:
		case <-time.After(20 * time.Millisecond):
		}
	}
	s.peer.serve(30*time.Millisecond, 500*time.Millisecond)
	rhs := fmt.Sprint(len(got))
	for _, g := range got {
		rhs += " " + hx(g)
	}
	line := fmt.Sprintf("Y %s %d %d%s | %s", vh.B01(s.equip), s.dev, nEv, evs.String(), rhs)
	c.Case(line, line, true)
	c.Count(fmt.Sprintf("Y/reconnect/scenario=%d/deliveries=%d", scenario, min(len(got), 4)))
	ok := len(got) == len(want)
	for i := 0; ok && i < len(got); i++ {
		ok = string(got[i]) == string(want[i])
	}
	if !ok {
		c.Fail("across a line drop: handler deliveries differ from the messages that arrived complete and in order on ONE line session ("+classes+")", line)
	}
	if st := s.conn.State(); st != hsms.SelectedState {
		c.Fail(fmt.Sprintf("link not Selected after an inbound sequence with reconnects (state %v; %s)", st, classes), line)
	}
}

// inboundFaults: every error class of receiveBlock, on the IDLE line of the real line engine —
// length character 0..9 and 255 (followed by whatever the sender goes on transmitting), too few
// characters then silence (T1), no character at all after the grant (T2), a failing checksum.
// Each must be answered by NAK and nothing else: the very next valid message on the SAME line
// session is ACK'd and delivered, the connection stays Selected and never re-dials / re-listens
// ("corrupt blocks never take the link down").
func (s *session) inboundFaults(c *vh.Ctx, round int) {
	r := c.Rng
	type fault struct {
		class string
		w     []byte
	}
	good := func(tag byte) e4Block {
		f := e4Fields{dev: s.dev, rbit: !s.equip, stream: 1 + r.Intn(8), fn: 1 + 2*r.Intn(60), num: 1, ebit: true,
			sys: [4]byte{6, byte(round), tag, byte(r.Intn(256))}}
		return e4Block{hdr: e4Encode(f), body: randBytes(c, r.Intn(10))}
	}
	carrier := e4Wire(good(0xF0))
	ck := append([]byte(nil), carrier...)
	ck[1+r.Intn(len(ck)-1)] ^= byte(1 << r.Intn(8))
	faults := []fault{
		{"illegal-length-low", append([]byte{byte(r.Intn(10))}, carrier[1:]...)},
		{"illegal-length-255", append([]byte{255}, randBytes(c, r.Intn(30))...)},
		{"illegal-length-alone", []byte{byte(r.Intn(10))}},
		{"too-few-characters-T1", carrier[:1+r.Intn(len(carrier)-1)]},
		{"checksum", ck},
		{"no-character-T2", nil},
	}
	for k, ft := range faults {
		c.Count("Y/idle-fault=" + ft.class)
		ctxs := fmt.Sprintf("idle-line fault %s, equip=%v active=%v, transmission %s", ft.class, s.equip, s.active, hx(ft.w))
		if res := s.peer.sendRaw(ft.w); res != 'N' {
			c.Fail(fmt.Sprintf("a transmission receiveBlock must reject was answered %q, not NAK", res), ctxs)
			return
		}
		base := s.deliveredCount()
		g := good(byte(k))
		if res := s.peer.sendRaw(e4Wire(g)); res != 'A' {
			c.Fail(fmt.Sprintf("the valid block after a NAK'd transmission was answered %q, not ACK: a corrupt block took the line down", res), ctxs)
			return
		}
		f0 := e4Decode(g.hdr)
		want := []byte{byte(f0.dev >> 8), byte(f0.dev), byte(f0.stream), byte(f0.fn), 0, 0, f0.sys[0], f0.sys[1], f0.sys[2], f0.sys[3]}
		want = append(want, g.body...)
		ok := false
		for deadline := time.Now().Add(5 * time.Second); time.Now().Before(deadline) && !ok; {
			for _, d := range s.deliveredSince(base) {
				ok = ok || string(d) == string(want)
			}
			if !ok {
				time.Sleep(2 * time.Millisecond)
			}
		}
		if !ok {
			c.Fail("the valid message after a NAK'd transmission was ACK'd but never delivered", ctxs)
		}
		if st := s.conn.State(); st != hsms.SelectedState {
			c.Fail(fmt.Sprintf("a corrupt block took the link down (state %v)", st), ctxs)
			return
		}
		if len(s.newConns) != 0 || len(s.listeners) != 0 {
			c.Fail("the connection re-dialled / re-listened after a corrupt block", ctxs)
			return
		}
		s.peer.serve(20*time.Millisecond, 300*time.Millisecond) // S9Fx notices of an equipment-role connection
	}
}

func e2e(c *vh.Ctx) {
	type roleT struct{ equip, active bool }
	roles := []roleT{{true, false}, {false, true}, {true, true}, {false, false}}
	per := c.N / len(roles)
	if per < 2 {
		per = 2
	}
	sys := uint32(0x01000000)
	for ri, ro := range roles {
		dev := []int{0, 1, 0x7FFF, 0x0123}[ri]
		s, err := openSession(ro.equip, ro.active, dev, e2eT4)
		if err != nil {
			c.Fail("cannot open a secs1 connection over net.Pipe", fmt.Sprintf("equip=%v active=%v: %v", ro.equip, ro.active, err))
			continue
		}
		for i := 0; i < per; i++ {
			if i%2 == 0 {
				sys++
				s.outbound(c, sys)
			} else {
				s.inbound(c, byte(i))
			}
		}
		s.close()
		// a second session per role with a long T4 for the sequences that span a line drop
		nR := 5 // every scenario once per role/mode combination
		if c.Tier == "thorough" {
			nR = 15
		}
		s2, err := openSession(ro.equip, ro.active, dev, 3*time.Second)
		if err != nil {
			c.Fail("cannot open a secs1 connection over net.Pipe", fmt.Sprintf("equip=%v active=%v: %v", ro.equip, ro.active, err))
			continue
		}
		s2.inboundFaults(c, ri)
		for i := 0; i < nR; i++ {
			s2.inboundReconnect(c, byte(i), i%5)
		}
		s = s2
		s.close()
	}
}
