// Harness for C17: runs the real SECS-I block layer (buildHeader, splitBody, splitFrame,
// block.appendTo, parseBlock, assembleFrame), the real inbound assembler (with injected clock and
// live T4) and — in e2e mode — a real secs1 connection against an independent minimal SEMI E4
// peer over net.Pipe. Records inputs + observed behaviour for the extracted Coq model and checks
// the property itself on the real code (oracles) without reference to the model.
package main

import (
	"flag"
	"fmt"
	"strings"

	"github.com/arloliu/go-secs/v2/secs1"

	"verifharness/vh"
)

var mode = flag.String("mode", "unit", "unit | e2e")

func hx(b []byte) string { return vh.Hex(b) }

func hdrLine(h secs1.VerifHeader) string {
	return fmt.Sprintf("%d %s %d %d %s %s", h.DeviceID, vh.B01(h.RBit), h.Stream, h.Function, vh.B01(h.WBit), hx(h.SystemBytes[:]))
}

func blocksLine(bs []secs1.VerifBlock) string {
	var sb strings.Builder
	fmt.Fprintf(&sb, "%d", len(bs))
	for _, b := range bs {
		sb.WriteString(" " + hx(b.Header[:]) + " " + hx(b.Body))
	}
	return sb.String()
}

func main() {
	c := vh.New()
	switch *mode {
	case "unit":
		unitHeaders(c)
		unitSplit(c)
		unitWire(c)
		unitAssemble(c)
		unitAssembler(c)
		unitRecvStream(c)
	case "e2e":
		e2e(c)
	default:
		panic("unknown mode")
	}
	c.Finish()
}

// ---------------------------------------------------------------------------------------------
// generators

func randHeader(c *vh.Ctx, valid bool) secs1.VerifHeader {
	r := c.Rng
	h := secs1.VerifHeader{RBit: r.Intn(2) == 0, WBit: r.Intn(2) == 0}
	devs := []uint16{0, 1, 255, 256, 0x7FFF, 0x1234}
	if r.Intn(2) == 0 {
		h.DeviceID = devs[r.Intn(len(devs))]
	} else {
		h.DeviceID = uint16(r.Intn(0x8000))
	}
	streams := []uint8{0, 1, 9, 64, 127}
	if r.Intn(2) == 0 {
		h.Stream = streams[r.Intn(len(streams))]
	} else {
		h.Stream = uint8(r.Intn(128))
	}
	h.Function = uint8(r.Intn(256))
	for i := range h.SystemBytes {
		switch r.Intn(4) {
		case 0:
			h.SystemBytes[i] = 0
		case 1:
			h.SystemBytes[i] = 0xFF
		default:
			h.SystemBytes[i] = byte(r.Intn(256))
		}
	}
	if !valid {
		if r.Intn(2) == 0 {
			h.DeviceID = 0x8000 + uint16(r.Intn(0x8000))
		} else {
			h.Stream = 128 + uint8(r.Intn(128))
		}
	}
	return h
}

func randBytes(c *vh.Ctx, n int) []byte {
	b := make([]byte, n)
	switch c.Rng.Intn(4) {
	case 0: // all 0xFF: the largest checksums
		for i := range b {
			b[i] = 0xFF
		}
	case 1: // zeros
	default:
		for i := range b {
			b[i] = byte(c.Rng.Intn(256))
		}
	}
	return b
}

// ---------------------------------------------------------------------------------------------
// buildHeader / accessors

func unitHeaders(c *vh.Ctx) {
	r := c.Rng
	n := c.N / 5
	nums := []uint16{0, 1, 2, 127, 128, 255, 256, 257, 32766, 32767, 32768, 65535}
	for i := 0; i < n; i++ {
		h := randHeader(c, r.Intn(8) != 0)
		var num uint16
		if r.Intn(2) == 0 {
			num = nums[r.Intn(len(nums))]
		} else {
			num = uint16(r.Intn(65536))
		}
		last := r.Intn(2) == 0
		hdr := secs1.VerifBuildHeader(h, num, last)
		line := vh.Join("H", hdrLine(h), fmt.Sprint(num), vh.B01(last), "|", hx(hdr[:]))
		c.Case(line, line, true)
		c.Count("H")
		// oracle: in-range fields read back through the accessors
		if h.DeviceID <= 0x7FFF && h.Stream <= 0x7F && num <= 0x7FFF {
			g, gn, ge := secs1.VerifHeaderFields(hdr)
			if g != h || gn != num || ge != last {
				c.Fail("header fields do not read back from buildHeader", line)
			}
		}
		// accessors on arbitrary header bytes
		var raw [10]byte
		copy(raw[:], randBytes(c, 10))
		g, gn, ge := secs1.VerifHeaderFields(raw)
		line2 := vh.Join("A", hx(raw[:]), "|", hdrLine(g), fmt.Sprint(gn), vh.B01(ge))
		c.Case(line2, line2, true)
		c.Count("A")
	}
}

// ---------------------------------------------------------------------------------------------
// splitBody / splitFrame

var boundaryLens = []int{0, 1, 2, 243, 244, 245, 246, 487, 488, 489, 731, 732, 733, 975, 976, 977, 1220, 2440, 2441}

func checkSplitOracle(c *vh.Ctx, what string, h secs1.VerifHeader, body []byte, bs []secs1.VerifBlock, line string) {
	if len(bs) == 0 {
		c.Fail(what+": no block produced", line)
		return
	}
	var cat []byte
	for i, b := range bs {
		if len(b.Body) > 244 {
			c.Fail(what+": block body longer than 244", line)
		}
		g, num, e := secs1.VerifHeaderFields(b.Header)
		if int(num) != i+1 {
			c.Fail(what+": block numbers are not 1..N", line)
		}
		if e != (i == len(bs)-1) {
			c.Fail(what+": E-bit not exactly on the last block", line)
		}
		if g != h {
			c.Fail(what+": block does not carry the message's header fields", line)
		}
		cat = append(cat, b.Body...)
		// wire form: length byte, checksum = 16-bit sum of header+body
		w := secs1.VerifAppendBlock(b)
		sum := 0
		for _, v := range b.Header {
			sum += int(v)
		}
		for _, v := range b.Body {
			sum += int(v)
		}
		if len(w) != 1+10+len(b.Body)+2 || int(w[0]) != 10+len(b.Body) ||
			string(w[1:11]) != string(b.Header[:]) || string(w[11:11+len(b.Body)]) != string(b.Body) ||
			int(w[len(w)-2])<<8|int(w[len(w)-1]) != sum&0xFFFF {
			c.Fail(what+": wire form is not [len][header][body][16-bit sum]", line)
		}
	}
	if string(cat) != string(body) {
		c.Fail(what+": block bodies do not concatenate to the message body", line)
	}
	if len(body) == 0 && (len(bs) != 1 || len(bs[0].Body) != 0) {
		c.Fail(what+": empty body did not give one header-only block", line)
	}
	frame, ec := secs1.VerifAssembleFrame(bs)
	want := append([]byte{byte(h.DeviceID >> 8), byte(h.DeviceID), h.Stream, h.Function, 0, 0}, h.SystemBytes[:]...)
	if h.WBit {
		want[2] |= 0x80
	}
	want = append(want, body...)
	if ec != secs1.VerifOK || string(frame) != string(want) {
		c.Fail(what+": assembleFrame(split) is not header ++ body", line)
	}
}

func unitSplit(c *vh.Ctx) {
	r := c.Rng
	n := c.N / 10
	for i := 0; i < n+len(boundaryLens); i++ {
		var ln int
		switch {
		case i < len(boundaryLens):
			ln = boundaryLens[i]
		case r.Intn(3) == 0:
			ln = 244*r.Intn(12) + r.Intn(3) - 1
			if ln < 0 {
				ln = 0
			}
		case r.Intn(100) == 0 && c.Tier == "thorough":
			ln = r.Intn(30000)
		default:
			ln = r.Intn(1500)
		}
		valid := r.Intn(10) != 0
		h := randHeader(c, valid)
		body := randBytes(c, ln)
		bs, ec := secs1.VerifSplitBody(body, h)
		line := vh.Join("S", hdrLine(h), hx(body), "|", fmt.Sprint(ec), blocksLine(bs))
		c.Case(line, fmt.Sprintf("S%v/%d/%v", h, ln, ec), true)
		c.Count(fmt.Sprintf("S/blocks=%d", min(len(bs), 6)))
		if valid {
			if ec != secs1.VerifOK {
				c.Fail("splitBody refused a valid header/body", line)
			} else {
				checkSplitOracle(c, "splitBody", h, body, bs, line)
			}
		} else if ec != secs1.VerifErrInvalidHeader {
			c.Fail("splitBody accepted an out-of-range device id or stream", line)
		}

		// splitFrame: the header comes from the connection's configuration and the HSMS header
		dev := uint16(r.Intn(0x8000))
		equip := r.Intn(2) == 0
		hh := randBytes(c, 10)
		hh[4], hh[5] = 0, 0
		prefix := append([]byte{0, 0, 0, 0}, hh...)
		bufs := [][]byte{prefix}
		switch r.Intn(3) { // 1, 2 or 3+ buffers, as the core may hand them over
		case 0:
			if ln > 0 {
				bufs = append(bufs, body)
			}
		case 1:
			bufs = append(bufs, body)
		default:
			cut := 0
			if ln > 0 {
				cut = r.Intn(ln + 1)
			}
			bufs = append(bufs, body[:cut], body[cut:])
		}
		fb, fec := secs1.VerifSplitFrame(dev, equip, bufs)
		fline := vh.Join("F", fmt.Sprint(dev), vh.B01(equip), hx(hh), hx(body), "|", fmt.Sprint(fec), blocksLine(fb))
		c.Case(fline, fmt.Sprintf("F%d/%v/%x/%d", dev, equip, hh, ln), true)
		c.Count("F")
		if fec != secs1.VerifOK {
			c.Fail("splitFrame refused a data frame", fline)
		} else {
			var sys [4]byte
			copy(sys[:], hh[6:10])
			checkSplitOracle(c, "splitFrame", secs1.VerifHeader{DeviceID: dev, RBit: equip, Stream: hh[2] & 0x7F,
				Function: hh[3], WBit: hh[2]&0x80 != 0, SystemBytes: sys}, body, fb, fline)
		}
	}
	// the size cap: 244*32767 is accepted, one more byte is refused (pattern bodies: "z<len>")
	if c.Tier == "thorough" {
		for _, ln := range []int{244 * 32767, 244*32767 + 1} {
			h := randHeader(c, true)
			body := make([]byte, ln)
			bs, ec := secs1.VerifSplitBody(body, h)
			digest := fnv(bs)
			line := vh.Join("SZ", hdrLine(h), fmt.Sprint(ln), "|", fmt.Sprint(ec), fmt.Sprint(len(bs)), fmt.Sprint(digest))
			c.Case(line, line, true)
			c.Count("SZ")
			if ln <= 244*32767 {
				if ec != secs1.VerifOK {
					c.Fail("splitBody refused the maximum body", line)
				} else {
					checkSplitOracle(c, "splitBody(max)", h, body, bs, vh.Join("SZ", hdrLine(h), fmt.Sprint(ln)))
				}
			} else if ec != secs1.VerifErrTooLarge {
				c.Fail("splitBody accepted a body above 244*32767", line)
			}
		}
	}
}

func fnv(bs []secs1.VerifBlock) uint32 {
	h := uint32(2166136261)
	for _, b := range bs {
		for _, v := range b.Header {
			h = (h ^ uint32(v)) * 16777619
		}
		for _, v := range b.Body {
			h = (h ^ uint32(v)) * 16777619
		}
	}
	return h
}

// ---------------------------------------------------------------------------------------------
// appendTo / parseBlock

func randBlock(c *vh.Ctx) secs1.VerifBlock {
	r := c.Rng
	var b secs1.VerifBlock
	copy(b.Header[:], randBytes(c, 10))
	lens := []int{0, 1, 2, 243, 244}
	if r.Intn(2) == 0 {
		b.Body = randBytes(c, lens[r.Intn(len(lens))])
	} else {
		b.Body = randBytes(c, r.Intn(245))
	}
	return b
}

func parseLine(lb byte, rest []byte) (string, secs1.VerifBlock, int) {
	b, ec := secs1.VerifParseBlock(lb, rest)
	out := fmt.Sprint(ec)
	if ec == secs1.VerifOK {
		out += " " + hx(b.Header[:]) + " " + hx(b.Body)
	}
	return vh.Join("P", fmt.Sprint(lb), hx(rest), "|", out), b, ec
}

func unitWire(c *vh.Ctx) {
	r := c.Rng
	n := c.N / 5
	for i := 0; i < n; i++ {
		b := randBlock(c)
		if r.Intn(40) == 0 { // a body no splitter produces: the length byte wraps
			b.Body = randBytes(c, 245+r.Intn(60))
		}
		w := secs1.VerifAppendBlock(b)
		line := vh.Join("W", hx(b.Header[:]), hx(b.Body), "|", hx(w))
		c.Case(line, line, true)
		c.Count("W")
		if len(b.Body) > 244 {
			continue
		}
		lb, rest := w[0], w[1:]
		// round trip
		pl, pb, ec := parseLine(lb, rest)
		c.Case(pl, pl, true)
		c.Count("P/valid")
		if ec != secs1.VerifOK || pb.Header != b.Header || string(pb.Body) != string(b.Body) {
			c.Fail("parseBlock(appendTo(b)) is not b", pl)
		}
		// single-character corruption of header / body / checksum: always rejected
		for k := 0; k < 3; k++ {
			var idx int
			switch k {
			case 0:
				idx = r.Intn(10)
			case 1:
				if len(b.Body) == 0 {
					idx = r.Intn(10)
				} else {
					idx = 10 + r.Intn(len(b.Body))
				}
			default:
				idx = len(rest) - 1 - r.Intn(2)
			}
			bad := append([]byte(nil), rest...)
			delta := byte(1 + r.Intn(255))
			if r.Intn(3) == 0 {
				delta = []byte{1, 0x80, 0xFF}[r.Intn(3)]
			}
			bad[idx] += delta
			pl, _, ec := parseLine(lb, bad)
			c.Case(pl, pl, true)
			c.Count("P/corrupt")
			if ec != secs1.VerifErrChecksum {
				c.Fail("a single corrupted character was not rejected with a checksum error", pl)
			}
		}
		// length byte replaced / transmission truncated or extended
		var lb2 byte
		var rest2 []byte
		switch r.Intn(4) {
		case 0:
			lb2, rest2 = byte(r.Intn(256)), rest
		case 1:
			lb2, rest2 = lb, rest[:r.Intn(len(rest))]
		case 2:
			lb2, rest2 = lb, append(append([]byte(nil), rest...), randBytes(c, 1+r.Intn(3))...)
		default:
			lb2 = []byte{0, 9, 10, 11, 253, 254, 255}[r.Intn(7)]
			rest2 = randBytes(c, int(lb2)+2)
		}
		pl, _, ec = parseLine(lb2, rest2)
		c.Case(pl, pl, true)
		c.Count(fmt.Sprintf("P/malformed/err=%d", ec))
		if (lb2 < 10 || lb2 > 254 || len(rest2) != int(lb2)+2) && ec != secs1.VerifErrInvalidLength {
			c.Fail("bad length not rejected with a length error", pl)
		}
	}
}

// ---------------------------------------------------------------------------------------------
// assembleFrame

func unitAssemble(c *vh.Ctx) {
	r := c.Rng
	n := c.N / 10
	for i := 0; i < n; i++ {
		h := randHeader(c, true)
		body := randBytes(c, r.Intn(1000))
		bs, _ := secs1.VerifSplitBody(body, h)
		bs = append([]secs1.VerifBlock(nil), bs...)
		mut := r.Intn(8)
		switch mut {
		case 0: // unchanged
		case 1:
			if len(bs) > 1 {
				a, b := r.Intn(len(bs)), r.Intn(len(bs))
				bs[a], bs[b] = bs[b], bs[a]
			}
		case 2:
			bs = bs[:r.Intn(len(bs)+1)]
		case 3:
			k := r.Intn(len(bs))
			bs[k].Header[4+r.Intn(2)] ^= byte(1 << r.Intn(8))
		case 4:
			k := r.Intn(len(bs))
			bs[k].Header[[]int{0, 1, 2, 3, 6, 7, 8, 9}[r.Intn(8)]] ^= byte(1 << r.Intn(8))
		case 5: // lone block 0 (interop leniency), with or without the E-bit
			bs = bs[:1]
			bs[0].Header[4] &= 0x80
			bs[0].Header[5] = 0
			if r.Intn(3) == 0 {
				bs[0].Header[4] ^= 0x80
			}
		case 6: // block 0 leading a multi-block message
			bs[0].Header[4] &= 0x80
			bs[0].Header[5] = 0
		default:
			bs = append(bs, bs[len(bs)-1])
		}
		frame, ec := secs1.VerifAssembleFrame(bs)
		out := fmt.Sprint(ec)
		if ec == secs1.VerifOK {
			out += " " + hx(frame)
		}
		line := vh.Join("M", blocksLine(bs), "|", out)
		c.Case(line, line, true)
		c.Count(fmt.Sprintf("M/mut=%d/err=%d", mut, ec))
	}
}
