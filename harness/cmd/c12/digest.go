package main

import (
	"encoding/hex"
	"errors"
	"fmt"
	"math"
	"strings"

	"github.com/arloliu/go-secs/v2/hsms"
	"github.com/arloliu/go-secs/v2/secs2"
)

func hx(b []byte) string {
	if len(b) == 0 {
		return "-"
	}
	return hex.EncodeToString(b)
}

func ec(err error) string {
	if err != nil {
		return "E"
	}
	return "ok"
}

// itemValues renders EVERY value-level observation of an item: declared type, predicates, size,
// error class, every To* accessor, every *At accessor at every index (and one past), every
// iterator, Get, AppendBinaryTo, ToSML; recursively for lists.
func itemValues(it secs2.Item, sb *strings.Builder) {
	if it == nil {
		sb.WriteString("nil")
		return
	}
	fmt.Fprintf(sb, "{%s %d %s ", it.Type(), it.Size(), ec(it.Error()))
	for _, p := range []bool{it.IsEmpty(), it.IsList(), it.IsBinary(), it.IsBoolean(), it.IsASCII(), it.IsJIS8(), it.IsLocalizedStr(),
		it.IsInt8(), it.IsInt16(), it.IsInt32(), it.IsInt64(), it.IsUint8(), it.IsUint16(), it.IsUint32(), it.IsUint64(), it.IsFloat32(), it.IsFloat64()} {
		if p {
			sb.WriteByte('1')
		} else {
			sb.WriteByte('0')
		}
	}
	n := it.Size()
	if n < 0 {
		n = 0
	}
	// To*
	if v, err := it.ToBinary(); err == nil {
		fmt.Fprintf(sb, " bin=%s", hx(v))
	} else {
		sb.WriteString(" bin=E")
	}
	fmt.Fprintf(sb, " abt=%s", hx(it.AppendBinaryTo(nil)))
	if v, err := it.ToBoolean(); err == nil {
		fmt.Fprintf(sb, " bool=%v", v)
	}
	if v, err := it.ToASCII(); err == nil {
		fmt.Fprintf(sb, " a=%s", hx([]byte(v)))
	}
	if v, err := it.ToJIS8(); err == nil {
		fmt.Fprintf(sb, " j=%s", hx([]byte(v)))
	}
	if v, err := it.ToLocalizedStr(); err == nil {
		h, herr := it.ToLocalizedStrHeader()
		fmt.Fprintf(sb, " w=%d/%s/%s", h, ec(herr), hx([]byte(v)))
	}
	if v, err := it.ToInt(); err == nil {
		fmt.Fprintf(sb, " i=%v", v)
	}
	if v, err := it.ToUint(); err == nil {
		fmt.Fprintf(sb, " u=%v", v)
	}
	if v, err := it.ToFloat(); err == nil {
		sb.WriteString(" f=")
		for _, x := range v {
			fmt.Fprintf(sb, "%x,", math.Float64bits(x))
		}
	}
	// *At, one past the end included
	for i := -1; i <= n; i++ {
		if b, err := it.ByteAt(i); err == nil {
			fmt.Fprintf(sb, " b@%d=%d", i, b)
		}
		if b, err := it.BoolAt(i); err == nil {
			fmt.Fprintf(sb, " o@%d=%v", i, b)
		}
		if b, err := it.IntAt(i); err == nil {
			fmt.Fprintf(sb, " i@%d=%d", i, b)
		}
		if b, err := it.UintAt(i); err == nil {
			fmt.Fprintf(sb, " u@%d=%d", i, b)
		}
		if b, err := it.FloatAt(i); err == nil {
			fmt.Fprintf(sb, " f@%d=%x", i, math.Float64bits(b))
		}
		if k, err := it.ItemAt(i); err == nil {
			fmt.Fprintf(sb, " l@%d=", i)
			itemValues(k, sb)
		}
	}
	// iterators
	sb.WriteString(" it=")
	for b := range it.Bools() {
		fmt.Fprintf(sb, "%v,", b)
	}
	for b := range it.Ints() {
		fmt.Fprintf(sb, "%d,", b)
	}
	for b := range it.Uints() {
		fmt.Fprintf(sb, "%d,", b)
	}
	for b := range it.Floats() {
		fmt.Fprintf(sb, "%x,", math.Float64bits(b))
	}
	for k := range it.Items() {
		itemValues(k, sb)
		sb.WriteByte(',')
	}
	if kids, err := it.ToList(); err == nil {
		sb.WriteString(" L[")
		for i, k := range kids {
			itemValues(k, sb)
			if g, gerr := it.Get(i); gerr == nil {
				if g != k {
					sb.WriteString("!get")
				}
			} else {
				sb.WriteString("!geterr")
			}
			sb.WriteByte(';')
		}
		sb.WriteString("]")
	}
	if g, err := it.Get(); err == nil && g != nil {
		sb.WriteString(" get0")
	}
	fmt.Fprintf(sb, " sml=%s}", hx([]byte(it.ToSML())))
}

// itemBytes renders every serialisation-level observation.
func itemBytes(it secs2.Item, sb *strings.Builder) {
	if it == nil {
		sb.WriteString("nil")
		return
	}
	fmt.Fprintf(sb, "len=%d tb=%s at=%s", it.EncodedLen(), hx(it.ToBytes()), hx(it.AppendTo(nil)))
	pre := []byte{0xAA, 0xBB}
	fmt.Fprintf(sb, " atp=%s", hx(it.AppendTo(pre)))
}

type subject interface {
	digest() (vals, bytes string)
}

type itemSubject struct{ it secs2.Item }

func (s itemSubject) digest() (string, string) {
	var a, b strings.Builder
	itemValues(s.it, &a)
	itemBytes(s.it, &b)
	return a.String(), b.String()
}

type msgSubject struct{ m hsms.Message }

func (s msgSubject) digest() (string, string) {
	var a, b strings.Builder
	m := s.m
	fmt.Fprintf(&a, "T=%d sid=%d sb=%x hb=%x", m.Type(), m.SessionID(), m.SystemBytes(), m.HeaderBytes())
	fmt.Fprintf(&b, "tb=%s", hx(m.ToBytes()))
	if dm, ok := m.ToDataMessage(); ok {
		fmt.Fprintf(&a, " S%dF%d w=%v id=%d", dm.Stream(), dm.Function(), dm.WaitBit(), dm.ID())
		it, err := dm.Item()
		fmt.Fprintf(&a, " derr=%s/%s item=", ec(err), ec(dm.DecodeErr()))
		if err == nil {
			itemValues(it, &a)
			b.WriteString(" ib=")
			itemBytes(it, &b)
		}
		fmt.Fprintf(&a, " eq=%v", dm.Equal(dm))
		cd := dm.Codec()
		mb, merr := cd.MarshalBinary()
		fmt.Fprintf(&b, " bl=%d ab=%s mb=%s/%s", dm.BodyLen(), hx(dm.AppendBodyTo(nil)), hx(mb), ec(merr))
		fmt.Fprintf(&a, " cd=%d/%d/%v/%d/%d/%x/%x/%d", cd.Stream(), cd.Function(), cd.WaitBit(), cd.SessionID(), cd.ID(), cd.SystemBytes(), cd.HeaderBytes(), cd.Type())
		fmt.Fprintf(&b, " cdtb=%s", hx(cd.ToBytes()))
	} else if cm, ok := m.(*hsms.ControlMessage); ok {
		rc, rerr := cm.RejectReasonCode()
		fmt.Fprintf(&a, " w=%v id=%d rc=%d/%s", cm.WaitBit(), cm.ID(), rc, ec(rerr))
	}
	return a.String(), b.String()
}

var errUnused = errors.New("unused")
