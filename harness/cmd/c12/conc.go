package main

// Concurrent FIRST calls. For fresh values of every provenance (constructed leaves and lists —
// wide (10^3..10^5 children) and nested —, decoded items, constructed / decoded messages and
// re-stamped siblings created BEFORE any observation) a barrier releases 2..32 goroutines so that
// their first call of an observer overlaps; one fresh value per observer, and mixed observers on one
// value. Every goroutine's result must equal the MODEL value, which is computed from the logical
// tree (spec) by the harness's own SECS-II encoder — never from the implementation —, and a later
// sequential re-observation must equal it too (a poisoned memo persists). ToSML and the full
// accessor digest, whose text the harness does not model, are compared with a sequentially observed,
// separately built twin.

import (
	"encoding/binary"
	"fmt"
	"math"
	"strings"
	"sync"

	"github.com/arloliu/go-secs/v2/hsms"
	"github.com/arloliu/go-secs/v2/secs2"

	"verifharness/vh"
)

// spec is the logical tree.
type spec struct {
	kind string // L B BOOL A J W I1 I2 I4 I8 U1 U2 U4 U8 F4 F8
	kids []*spec
	by   []byte
	bo   []bool
	str  string
	lsh  uint16
	i    []int64
	u    []uint64
	f    []float64
}

var fcOf = map[string]byte{"L": 0o00, "B": 0o10, "BOOL": 0o11, "A": 0o20, "J": 0o21, "W": 0o22,
	"I8": 0o30, "I1": 0o31, "I2": 0o32, "I4": 0o34, "F8": 0o40, "F4": 0o44, "U8": 0o50, "U1": 0o51, "U2": 0o52, "U4": 0o54}

func width(kind string) int { return int(kind[1] - '0') }

func (s *spec) size() int {
	switch s.kind {
	case "L":
		return len(s.kids)
	case "B":
		return len(s.by)
	case "BOOL":
		return len(s.bo)
	case "A", "J":
		return len(s.str)
	case "W":
		return len(s.str) + 2
	}
	switch s.kind[0] {
	case 'I':
		return len(s.i)
	case 'U':
		return len(s.u)
	default:
		return len(s.f)
	}
}

func appendHeader(dst []byte, fc byte, n int) []byte {
	switch {
	case n > 0xFFFF:
		return append(dst, fc<<2|3, byte(n>>16), byte(n>>8), byte(n))
	case n > 0xFF:
		return append(dst, fc<<2|2, byte(n>>8), byte(n))
	default:
		return append(dst, fc<<2|1, byte(n))
	}
}

// encode is the harness's own SECS-II encoder (SEMI E5 §9), independent of the library.
func (s *spec) encode(dst []byte) []byte {
	fc := fcOf[s.kind]
	switch s.kind {
	case "L":
		dst = appendHeader(dst, fc, len(s.kids))
		for _, k := range s.kids {
			dst = k.encode(dst)
		}
		return dst
	case "B":
		return append(appendHeader(dst, fc, len(s.by)), s.by...)
	case "BOOL":
		dst = appendHeader(dst, fc, len(s.bo))
		for _, b := range s.bo {
			if b {
				dst = append(dst, 1)
			} else {
				dst = append(dst, 0)
			}
		}
		return dst
	case "A", "J":
		return append(appendHeader(dst, fc, len(s.str)), s.str...)
	case "W":
		dst = appendHeader(dst, fc, len(s.str)+2)
		dst = append(dst, byte(s.lsh>>8), byte(s.lsh))
		return append(dst, s.str...)
	}
	w := width(s.kind)
	put := func(dst []byte, v uint64) []byte {
		switch w {
		case 1:
			return append(dst, byte(v))
		case 2:
			return binary.BigEndian.AppendUint16(dst, uint16(v))
		case 4:
			return binary.BigEndian.AppendUint32(dst, uint32(v))
		default:
			return binary.BigEndian.AppendUint64(dst, v)
		}
	}
	dst = appendHeader(dst, fc, s.size()*w)
	switch s.kind[0] {
	case 'I':
		for _, v := range s.i {
			dst = put(dst, uint64(v))
		}
	case 'U':
		for _, v := range s.u {
			dst = put(dst, v)
		}
	default:
		for _, v := range s.f {
			if w == 4 {
				dst = put(dst, uint64(math.Float32bits(float32(v))))
			} else {
				dst = put(dst, math.Float64bits(v))
			}
		}
	}
	return dst
}

// build constructs a FRESH real item through the public constructors.
func (s *spec) build() secs2.Item {
	switch s.kind {
	case "L":
		kids := make([]secs2.Item, len(s.kids))
		for i, k := range s.kids {
			kids[i] = k.build()
		}
		return secs2.NewListItem(kids...)
	case "B":
		return secs2.NewBinaryItem(append([]byte(nil), s.by...))
	case "BOOL":
		return secs2.NewBooleanItem(append([]bool(nil), s.bo...))
	case "A":
		return secs2.A(s.str)
	case "J":
		return secs2.J(s.str)
	case "W":
		return secs2.NewLocalizedStrItem(s.lsh, s.str)
	}
	w := width(s.kind)
	switch s.kind[0] {
	case 'I':
		return secs2.NewIntItem(w, append([]int64(nil), s.i...))
	case 'U':
		return secs2.NewUintItem(w, append([]uint64(nil), s.u...))
	default:
		return secs2.NewFloatItem(w, append([]float64(nil), s.f...))
	}
}

var specLeafKinds = []string{"B", "BOOL", "A", "J", "W", "I1", "I2", "I4", "I8", "U1", "U2", "U4", "U8", "F4", "F8"}

func genLeaf(maxn int) *spec {
	r := c.Rng
	k := specLeafKinds[r.Intn(len(specLeafKinds))]
	n := r.Intn(maxn + 1)
	s := &spec{kind: k}
	switch k {
	case "B":
		s.by = make([]byte, n)
		r.Read(s.by)
	case "BOOL":
		s.bo = make([]bool, n)
		for i := range s.bo {
			s.bo[i] = r.Intn(2) == 0
		}
	case "A", "J", "W":
		b := make([]byte, n)
		for i := range b {
			b[i] = byte(33 + r.Intn(90))
		}
		s.str = string(b)
		s.lsh = uint16(r.Intn(65536))
	default:
		w := uint(width(k) * 8)
		switch k[0] {
		case 'I':
			s.i = make([]int64, n)
			for i := range s.i {
				s.i[i] = int64(r.Uint64()) >> (64 - w)
			}
		case 'U':
			s.u = make([]uint64, n)
			for i := range s.u {
				s.u[i] = r.Uint64() >> (64 - w)
			}
		default:
			s.f = make([]float64, n)
			for i := range s.f {
				if w == 32 {
					s.f[i] = float64(float32(r.NormFloat64()))
				} else {
					s.f[i] = r.NormFloat64()
				}
			}
		}
	}
	return s
}

// genWide: a list of `total` leaves arranged flat (fan = total) or nested (fan children per level).
func genWide(total, fan int) *spec {
	if total <= fan {
		kids := make([]*spec, total)
		for i := range kids {
			kids[i] = genLeaf(3)
		}
		return &spec{kind: "L", kids: kids}
	}
	per := (total + fan - 1) / fan
	var kids []*spec
	for total > 0 {
		n := per
		if n > total {
			n = total
		}
		kids = append(kids, genWide(n, fan))
		total -= n
	}
	return &spec{kind: "L", kids: kids}
}

func genSmallTree(depth int) *spec {
	r := c.Rng
	if depth == 0 || r.Intn(3) != 0 {
		return genLeaf(6)
	}
	n := r.Intn(5)
	kids := make([]*spec, n)
	for i := range kids {
		kids[i] = genSmallTree(depth - 1)
	}
	return &spec{kind: "L", kids: kids}
}

// ---------------------------------------------------------------------------------------------

type hdr struct {
	stream, fn uint8
	w          bool
	sid        uint16
	sys        [4]byte
}

func (h hdr) bytes() [10]byte {
	var b [10]byte
	b[0], b[1] = byte(h.sid>>8), byte(h.sid)
	b[2] = h.stream & 0x7F
	if h.w {
		b[2] |= 0x80
	}
	b[3] = h.fn
	copy(b[6:], h.sys[:])
	return b
}

func frameOf(h [10]byte, body []byte) []byte {
	f := make([]byte, 4, 14+len(body))
	binary.BigEndian.PutUint32(f, uint32(10+len(body)))
	f = append(f, h[:]...)
	return append(f, body...)
}

// an observer: name, the call on the real value, and the model value.
type itemObs struct {
	name  string
	call  func(it secs2.Item) string
	model func(s *spec, enc []byte, twin secs2.Item) string
	heavy bool // full accessor digest: only on lists up to about a thousand elements
	text  bool // O(n) text or per-child work: only on lists up to about ten thousand elements
}

func sum(b []byte) string { return fmt.Sprintf("%d:%x", len(b), fnv(b)) }

func fnv(b []byte) uint64 {
	h := uint64(14695981039346656037)
	for _, x := range b {
		h = (h ^ uint64(x)) * 1099511628211
	}
	return h
}

var itemObservers = []itemObs{
	{"EncodedLen", func(it secs2.Item) string { return fmt.Sprint(it.EncodedLen()) },
		func(s *spec, enc []byte, _ secs2.Item) string { return fmt.Sprint(len(enc)) }, false, false},
	{"ToBytes", func(it secs2.Item) string { return sum(it.ToBytes()) },
		func(s *spec, enc []byte, _ secs2.Item) string { return sum(enc) }, false, false},
	{"AppendTo(nil)", func(it secs2.Item) string { return sum(it.AppendTo(nil)) },
		func(s *spec, enc []byte, _ secs2.Item) string { return sum(enc) }, false, false},
	{"AppendTo(prefix)", func(it secs2.Item) string { return sum(it.AppendTo([]byte{1, 2, 3})) },
		func(s *spec, enc []byte, _ secs2.Item) string { return sum(append([]byte{1, 2, 3}, enc...)) }, false, false},
	{"ToBytes+EncodedLen", func(it secs2.Item) string { b := it.ToBytes(); return fmt.Sprintf("%s/%d", sum(b), it.EncodedLen()) },
		func(s *spec, enc []byte, _ secs2.Item) string { return fmt.Sprintf("%s/%d", sum(enc), len(enc)) }, false, false},
	{"Size", func(it secs2.Item) string { return fmt.Sprint(it.Size()) },
		func(s *spec, _ []byte, _ secs2.Item) string { return fmt.Sprint(s.size()) }, false, false},
	{"Error", func(it secs2.Item) string { return ec(it.Error()) },
		func(*spec, []byte, secs2.Item) string { return "ok" }, false, false},
	{"Type/Is*", func(it secs2.Item) string {
		return fmt.Sprint(it.Type(), it.IsList(), it.IsBinary(), it.IsASCII(), it.IsEmpty())
	},
		func(s *spec, _ []byte, tw secs2.Item) string {
			return fmt.Sprint(typeName(s.kind), s.kind == "L", s.kind == "B", s.kind == "A", false)
		}, false, false},
	{"Equal(twin)", func(it secs2.Item) string { return "" }, nil, false, false}, // filled in below (needs the twin)
	{"ToList/ItemAt/Items/Get", func(it secs2.Item) string {
		kids, err := it.ToList()
		n := 0
		for range it.Items() {
			n++
		}
		_, e1 := it.ItemAt(0)
		_, e2 := it.Get(0)
		return fmt.Sprint(len(kids), ec(err), n, ec(e1), ec(e2))
	}, func(s *spec, _ []byte, _ secs2.Item) string {
		if s.kind != "L" {
			return fmt.Sprint(0, "E", 0, "E", "E")
		}
		e := "ok"
		if len(s.kids) == 0 {
			e = "E"
		}
		return fmt.Sprint(len(s.kids), "ok", len(s.kids), e, e)
	}, false, false},
	{"ToSML", func(it secs2.Item) string { return sum([]byte(it.ToSML())) },
		func(_ *spec, _ []byte, tw secs2.Item) string { return sum([]byte(tw.ToSML())) }, false, true},
	{"all ~45 accessors (digest)", func(it secs2.Item) string { v, b := itemSubject{it}.digest(); return sum([]byte(v + b)) },
		func(_ *spec, _ []byte, tw secs2.Item) string {
			v, b := itemSubject{tw}.digest()
			return sum([]byte(v + b))
		}, true, true},
}

func typeName(kind string) string {
	switch kind {
	case "L":
		return "list"
	case "B":
		return "binary"
	case "BOOL":
		return "boolean"
	case "A":
		return "ascii"
	case "J":
		return "jis8"
	case "W":
		return "localized_str"
	}
	return strings.ToLower(kind)
}

type msgObs struct {
	name  string
	call  func(m *hsms.DataMessage) string
	model func(h [10]byte, enc []byte, tw *hsms.DataMessage) string
	heavy bool
}

var msgObservers = []msgObs{
	{"BodyLen", func(m *hsms.DataMessage) string { return fmt.Sprint(m.BodyLen()) },
		func(_ [10]byte, enc []byte, _ *hsms.DataMessage) string { return fmt.Sprint(len(enc)) }, false},
	{"ToBytes", func(m *hsms.DataMessage) string { return sum(m.ToBytes()) },
		func(h [10]byte, enc []byte, _ *hsms.DataMessage) string { return sum(frameOf(h, enc)) }, false},
	{"AppendBodyTo(nil)", func(m *hsms.DataMessage) string { return sum(m.AppendBodyTo(nil)) },
		func(_ [10]byte, enc []byte, _ *hsms.DataMessage) string { return sum(enc) }, false},
	{"Codec().MarshalBinary", func(m *hsms.DataMessage) string { b, err := m.Codec().MarshalBinary(); return sum(b) + ec(err) },
		func(h [10]byte, enc []byte, _ *hsms.DataMessage) string { return sum(frameOf(h, enc)) + "ok" }, false},
	{"Codec().ToBytes", func(m *hsms.DataMessage) string { return sum(m.Codec().ToBytes()) },
		func(h [10]byte, enc []byte, _ *hsms.DataMessage) string { return sum(frameOf(h, enc)) }, false},
	{"HeaderBytes/SystemBytes/SessionID/Stream/Function/WaitBit/ID", func(m *hsms.DataMessage) string {
		return fmt.Sprintf("%x %x %d %d %d %v %d", m.HeaderBytes(), m.SystemBytes(), m.SessionID(), m.Stream(), m.Function(), m.WaitBit(), m.ID())
	}, func(h [10]byte, _ []byte, _ *hsms.DataMessage) string {
		return fmt.Sprintf("%x %x %d %d %d %v %d", h, h[6:10], binary.BigEndian.Uint16(h[0:2]), h[2]&0x7F, h[3], h[2]>>7 != 0, binary.BigEndian.Uint32(h[6:10]))
	}, false},
	{"Item().EncodedLen/DecodeErr", func(m *hsms.DataMessage) string {
		it, err := m.Item()
		if err != nil {
			return "E"
		}
		return fmt.Sprint(it.EncodedLen(), ec(m.DecodeErr()))
	}, func(_ [10]byte, enc []byte, _ *hsms.DataMessage) string { return fmt.Sprint(len(enc), "ok") }, false},
	{"Item().ToBytes", func(m *hsms.DataMessage) string {
		it, err := m.Item()
		if err != nil {
			return "E"
		}
		return sum(it.ToBytes())
	}, func(_ [10]byte, enc []byte, _ *hsms.DataMessage) string { return sum(enc) }, false},
	{"BodyLen+ToBytes (prefix = bytes)", func(m *hsms.DataMessage) string {
		b := m.ToBytes()
		return fmt.Sprint(m.BodyLen(), len(b), binary.BigEndian.Uint32(b[:4]))
	}, func(_ [10]byte, enc []byte, _ *hsms.DataMessage) string {
		return fmt.Sprint(len(enc), 14+len(enc), 10+len(enc))
	}, false},
	{"Equal(twin)", nil, nil, false},
	{"all message accessors (digest)", func(m *hsms.DataMessage) string { v, b := msgSubject{m}.digest(); return sum([]byte(v + b)) },
		func(_ [10]byte, _ []byte, tw *hsms.DataMessage) string {
			v, b := msgSubject{tw}.digest()
			return sum([]byte(v + b))
		}, true},
}

// race releases n goroutines through a barrier; goroutine g runs f(g).
func race(n int, f func(g int) string) []string {
	out := make([]string, n)
	var ready, done sync.WaitGroup
	start := make(chan struct{})
	ready.Add(n)
	done.Add(n)
	for g := 0; g < n; g++ {
		go func(g int) {
			defer done.Done()
			ready.Done()
			<-start
			out[g] = f(g)
		}(g)
	}
	ready.Wait()
	close(start)
	done.Wait()
	return out
}

// judge compares every concurrent result and the later sequential one with the model value, and
// writes the history for the extracted monitor (id 0 = the model value).
func judge(what, input string, want string, got []string, later string) {
	ids := []string{"0"}
	distinct := []string{want}
	bad := -1
	for g, s := range append(append([]string(nil), got...), later) {
		id := -1
		for k, d := range distinct {
			if d == s {
				id = k
			}
		}
		if id < 0 {
			distinct = append(distinct, s)
			id = len(distinct) - 1
		}
		ids = append(ids, fmt.Sprint(id))
		if id != 0 && bad < 0 {
			bad = g
		}
	}
	if bad >= 0 {
		who := fmt.Sprintf("reader %d of %d concurrent first callers", bad, len(got))
		if bad == len(got) {
			who = "a sequential re-observation AFTER the concurrent first calls (poisoned memo)"
		}
		c.Fail(fmt.Sprintf("%s: %s returned a value different from the model value", what, who),
			fmt.Sprintf("F %s want=%s got=%v later=%s", input, want, distinctCounts(got), later))
	}
	line := "O " + strings.Join(ids, " ") + " | " + vh.B01(len(distinct) == 1)
	c.Case(line, what+"/"+input+"/"+fmt.Sprint(len(got))+"/"+fmt.Sprint(c.Sum.Evaluations), true)
}

func distinctCounts(got []string) map[string]int {
	m := map[string]int{}
	for _, s := range got {
		m[s]++
	}
	return m
}

func describe(s *spec, enc []byte) string {
	return fmt.Sprintf("%s[%d] %d bytes", s.kind, s.size(), len(enc))
}

var readerCounts = []int{2, 3, 4, 8, 16, 32}

// lim bounds the work on big values: which observer classes run and how many readers race.
type lim struct {
	heavy, text bool
	maxReaders  int
}

func (l lim) readers() int {
	for {
		n := readerCounts[c.Rng.Intn(len(readerCounts))]
		if n <= l.maxReaders {
			return n
		}
	}
}

// firstCallsItem: one fresh item per observer (plus one fresh item with mixed observers).
func firstCallsItem(s *spec, prov string, l lim) {
	r := c.Rng
	enc := s.encode(nil)
	twin := s.build()
	mk := func() secs2.Item {
		if prov == "decoded" {
			it, err := secs2.Decode(enc)
			if err != nil {
				c.Fail("Decode refused the model encoding of a valid tree", "F "+describe(s, enc))
				return s.build()
			}
			return it
		}
		return s.build()
	}
	obsList := make([]itemObs, 0, len(itemObservers))
	for _, o := range itemObservers {
		if (o.heavy && !l.heavy) || (o.text && !l.text) {
			continue
		}
		if o.name == "Equal(twin)" {
			o.call = func(it secs2.Item) string {
				return fmt.Sprint(secs2.Equal(it, twin), secs2.Equal(twin, it), secs2.Equal(it, it))
			}
			o.model = func(*spec, []byte, secs2.Item) string { return "true true true" }
		}
		obsList = append(obsList, o)
	}
	for _, o := range obsList {
		n := l.readers()
		it := mk()
		want := o.model(s, enc, twin)
		got := race(n, func(int) string { return o.call(it) })
		judge("item/"+prov+"/"+o.name, describe(s, enc), want, got, o.call(it))
		c.Count("first-calls/item/" + prov)
	}
	// mixed observers on ONE fresh value; afterwards every observer sequentially
	_ = r
	n := l.readers()
	it := mk()
	got := race(n, func(g int) string { return obsList[g%len(obsList)].call(it) })
	for g, s2 := range got {
		o := obsList[g%len(obsList)]
		if w := o.model(s, enc, twin); s2 != w {
			c.Fail(fmt.Sprintf("item/%s/mixed observers: %s returned a value different from the model value", prov, o.name),
				fmt.Sprintf("F %s want=%s got=%s", describe(s, enc), w, s2))
		}
	}
	for _, o := range obsList {
		judge("item/"+prov+"/after mixed/"+o.name, describe(s, enc), o.model(s, enc, twin), nil, o.call(it))
	}
}

// firstCallsMessage: messages built from a fresh item; goroutine g reads its OWN re-stamped
// sibling, all siblings created before any observation (they share the body).
func firstCallsMessage(s *spec, prov string, l lim) {
	r := c.Rng
	enc := s.encode(nil)
	h := hdr{stream: uint8(r.Intn(128)), fn: uint8(r.Intn(128))*2 + 1, w: r.Intn(2) == 0, sid: uint16(r.Intn(65536)), sys: randSys()}
	twinBase, err := hsms.NewDataMessage(h.stream, h.fn, h.w, h.sid, h.sys, s.build())
	if err != nil {
		c.Fail("NewDataMessage refused an error-free item", "F "+describe(s, enc))
		return
	}
	mk := func() *hsms.DataMessage {
		switch prov {
		case "decoded":
			m, derr := hsms.DecodeHSMSMessage(frameOf(h.bytes(), enc))
			if derr != nil {
				c.Fail("DecodeHSMSMessage refused the model frame of a valid message", "F "+describe(s, enc))
				return twinBase
			}
			dm, _ := m.ToDataMessage()
			return dm
		case "derived":
			b, _ := hsms.NewDataMessage(1, 1, false, 0, [4]byte{}, s.build())
			d, derr := b.Derive().WithStream(h.stream).WithFunction(h.fn).WithWaitBit(h.w).WithSessionID(h.sid).WithSystemBytes(h.sys).Build()
			if derr != nil {
				return twinBase
			}
			return d
		}
		m, _ := hsms.NewDataMessage(h.stream, h.fn, h.w, h.sid, h.sys, s.build())
		return m
	}
	for _, o := range msgObservers {
		if o.heavy && !l.heavy {
			continue
		}
		n := l.readers()
		base := mk()
		// siblings, before anything has looked at the body
		sibs := make([]*hsms.DataMessage, n)
		wants := make([]string, n)
		for g := range sibs {
			hg := h
			hg.sys = [4]byte{byte(g), 1, 2, 3}
			hg.sid = h.sid + uint16(g)
			switch g % 3 {
			case 0:
				sibs[g] = base.WithSystemBytes(hg.sys).WithSessionID(hg.sid)
			case 1:
				sibs[g] = base.WithSessionID(hg.sid).WithID(binary.BigEndian.Uint32(hg.sys[:]))
			default:
				sibs[g] = base.WithSystemBytes(hg.sys).WithSessionID(hg.sid)
			}
			tw := twinBase.WithSystemBytes(hg.sys).WithSessionID(hg.sid)
			if o.name == "Equal(twin)" {
				wants[g] = "true true"
			} else {
				wants[g] = o.model(hg.bytes(), enc, tw)
			}
		}
		call := o.call
		if o.name == "Equal(twin)" {
			call = nil
		}
		got := race(n, func(g int) string {
			if call == nil {
				tw := twinBase.WithSystemBytes(sibs[g].SystemBytes()).WithSessionID(sibs[g].SessionID())
				return fmt.Sprint(sibs[g].Equal(tw), sibs[g].Equal(sibs[g]))
			}
			return call(sibs[g])
		})
		// per-sibling model values differ in the header: normalise to "matches its own model value"
		norm := make([]string, n)
		for g := range got {
			if got[g] == wants[g] {
				norm[g] = "=model"
			} else {
				norm[g] = got[g] + " (want " + wants[g] + ")"
			}
		}
		later := "=model"
		var l string
		if call == nil {
			l = fmt.Sprint(base.Equal(twinBase), base.Equal(base))
			if l != "true true" {
				later = l
			}
		} else {
			l = call(base)
			if w := o.model(h.bytes(), enc, twinBase); l != w {
				later = l + " (want " + w + ")"
			}
		}
		judge("msg/"+prov+"/"+o.name, describe(s, enc), "=model", norm, later)
		c.Count("first-calls/msg/" + prov)
	}
}

var firstCallNoteDone bool

// concurrentFirstCalls: a few big lists, many small trees.
func concurrentFirstCalls(small int, big bool, slowBuild bool) {
	if !firstCallNoteDone {
		firstCallNoteDone = true
		var in, mn []string
		for _, o := range itemObservers {
			in = append(in, o.name)
		}
		for _, o := range msgObservers {
			mn = append(mn, o.name)
		}
		c.Note("concurrent FIRST calls (2..32 goroutines behind a barrier, fresh value per observer, then mixed observers on one value, then a sequential re-observation; model value from the harness's own encoder over the logical tree): ANY lazily written field reachable from these accessors is covered by this differential, whether or not it is a sync.Once memo (the once-cell theorem covers only sync.Once-style memos). Item observers: " +
			strings.Join(in, "; ") + " — the digest is Type, Size, Error, 17 Is* predicates, ToBinary, AppendBinaryTo, ToBoolean, ToASCII, ToJIS8, ToLocalizedStr, ToLocalizedStrHeader, ToInt, ToUint, ToFloat, ByteAt/BoolAt/IntAt/UintAt/FloatAt/ItemAt at every index and out of range, Bools/Ints/Uints/Floats/Items iterators, ToList, Get, ToSML, EncodedLen, ToBytes, AppendTo. Message observers (each goroutine on its own re-stamped sibling made before any observation): " +
			strings.Join(mn, "; ") + ". Provenances: constructed, decoded (secs2.Decode / hsms.DecodeHSMSMessage), derived (Derive().Build()), re-stamped siblings. Lists up to 10^5 children, flat and nested.")
	}
	if big {
		type shape struct{ total, fan int }
		for _, sh := range []shape{{1000, 1000}, {10000, 100}, {100000, 100000}, {60000, 250}} {
			s := genWide(sh.total, sh.fan)
			l := lim{heavy: sh.total <= 1000, text: sh.total <= 10000, maxReaders: 32}
			if sh.total > 10000 {
				l.maxReaders = 8
			}
			if slowBuild { // under the race detector: the cheap observers only, fewer readers on the widest lists
				if sh.total == 60000 {
					continue
				}
				l = lim{text: sh.total <= 1000, maxReaders: 8}
				if sh.total > 10000 {
					l.maxReaders = 4
				}
			}
			firstCallsItem(s, "constructed", l)
			firstCallsMessage(s, "constructed", l)
			if sh.total <= 10000 && !(slowBuild && sh.total > 1000) {
				firstCallsItem(s, "decoded", l)
				firstCallsMessage(s, "decoded", l)
				firstCallsMessage(s, "derived", lim{maxReaders: 32})
			}
		}
	}
	for i := 0; i < small; i++ {
		s := genSmallTree(3)
		if s.kind != "L" && i%2 == 0 {
			s = &spec{kind: "L", kids: []*spec{s, genSmallTree(2), genLeaf(4)}}
		}
		prov := []string{"constructed", "decoded"}[i%2]
		all := lim{heavy: true, text: true, maxReaders: 32}
		firstCallsItem(s, prov, all)
		firstCallsMessage(s, []string{"constructed", "decoded", "derived"}[i%3], all)
	}
}
