// Harness for C12: operation-sequence differential on the REAL API. For every concrete item and
// message type x provenance (constructed, decoded, re-stamped, derived; plus the
// ownership-transferring entry points as positive control) it mutates every slice / array passed in
// or returned and re-observes EVERYTHING, writes the sequence in model syntax with the observed
// "changed" bits (driver: ocaml/c12_driver.ml), and checks the property itself (nothing may change
// unless ownership was transferred). Second part: the same observations from 2..32 goroutines with
// concurrent first calls (build with -race through checks/C12.py), with identity of the lazily
// decoded body across re-stamped copies.
package main

import (
	"flag"
	"fmt"
	"math"
	"strings"
	"sync"

	"github.com/arloliu/go-secs/v2/hsms"
	"github.com/arloliu/go-secs/v2/secs2"

	"verifharness/vh"
)

var c *vh.Ctx

// buf is something the caller can scribble on: a slice or array it passed in or got back.
type buf struct {
	n      int
	mutate func(i int) byte // change element i to a different value; returns the new low byte
	model  []byte           // contents as the model sees them (exact for byte buffers)
}

func byteBuf(b []byte) *buf {
	return &buf{n: len(b), model: append([]byte(nil), b...), mutate: func(i int) byte {
		b[i] ^= byte(1 + c.Rng.Intn(255))
		return b[i]
	}}
}

// scen records one scenario in model syntax.
type scen struct {
	ops      []string
	flags    []string
	ncv      int
	subjects []subject
	base     [][2]string
	owned    bool
	what     string
}

func (s *scen) newBuf(b *buf) int {
	s.ops = append(s.ops, "new:"+hx(b.model))
	s.ncv++
	return s.ncv - 1
}

func (s *scen) addSubject(sub subject, op string) int {
	s.ops = append(s.ops, op)
	v, b := sub.digest()
	s.subjects = append(s.subjects, sub)
	s.base = append(s.base, [2]string{v, b})
	return len(s.subjects) - 1
}

// addSubjectBase registers a subject WITHOUT touching it: the baseline is the digest of an
// identically built twin, so that the next call on the subject is its very first observation.
func (s *scen) addSubjectBase(sub subject, op string, twin subject) int {
	s.ops = append(s.ops, op)
	v, b := twin.digest()
	s.subjects = append(s.subjects, sub)
	s.base = append(s.base, [2]string{v, b})
	return len(s.subjects) - 1
}

// overwrite rewrites EVERY element of buffer cv.
func (s *scen) overwrite(cv int, b *buf) {
	for i := 0; i < b.n; i++ {
		s.write(cv, b, i)
	}
}

// write mutates element i of buffer cv (both in reality and in the op list).
func (s *scen) write(cv int, b *buf, i int) {
	nv := b.mutate(i)
	s.ops = append(s.ops, fmt.Sprintf("write:%d:%d:%d", cv, i, nv))
}

// scribble mutates up to k random elements of b.
func (s *scen) scribble(cv int, b *buf, k int) {
	if b.n == 0 {
		return
	}
	for j := 0; j < k; j++ {
		s.write(cv, b, c.Rng.Intn(b.n))
	}
}

// observe re-observes every subject and records the changed bits.
func (s *scen) observe(after string) {
	for k, sub := range s.subjects {
		v, b := sub.digest()
		f := ""
		if v != s.base[k][0] {
			f += "1"
		} else {
			f += "0"
		}
		if b != s.base[k][1] {
			f += "1"
		} else {
			f += "0"
		}
		s.ops = append(s.ops, fmt.Sprintf("obs:%d", k))
		s.flags = append(s.flags, f)
		if !s.owned && f != "00" {
			c.Fail(fmt.Sprintf("observation of object %d changed (%s) after %s [%s]", k, f, after, s.what), s.line())
		}
	}
}

func (s *scen) line() string {
	return "T " + strings.Join(s.ops, " ") + " | " + strings.Join(s.flags, " ")
}

func (s *scen) emit() {
	l := s.line()
	c.Case(l, l, true)
	c.Count(s.what)
}

// ---------------------------------------------------------------------------------------------
// building items from caller-owned slices

var leafKinds = []string{"B", "I1", "I2", "I4", "I8", "U1", "U2", "U4", "U8", "F4", "F8", "BOOL", "Bmix", "Imix", "A", "J", "W"}

// mkLeaf builds a leaf item from fresh caller-owned slices; returns the item and the slices.
func mkLeaf(kind string) (secs2.Item, []*buf) {
	r := c.Rng
	n := r.Intn(5)
	if r.Intn(4) == 0 {
		n = 1
	}
	low := func(n int, f func(i int) byte) []byte {
		out := make([]byte, n)
		for i := range out {
			out[i] = f(i)
		}
		return out
	}
	switch kind {
	case "B":
		b := make([]byte, n)
		r.Read(b)
		return secs2.NewBinaryItem(b), []*buf{byteBuf(b)}
	case "Bmix":
		b := make([]byte, n)
		r.Read(b)
		b2 := make([]byte, 1+r.Intn(3))
		r.Read(b2)
		return secs2.B(b, byte(7), b2, 200), []*buf{byteBuf(b), byteBuf(b2)}
	case "I1":
		v := make([]int8, n)
		for i := range v {
			v[i] = int8(r.Intn(256))
		}
		return secs2.I1(v), []*buf{{n: n, model: low(n, func(i int) byte { return byte(v[i]) }), mutate: func(i int) byte { v[i] ^= int8(1 + r.Intn(127)); return byte(v[i]) }}}
	case "I2":
		v := make([]int16, n)
		for i := range v {
			v[i] = int16(r.Intn(65536))
		}
		return secs2.I2(v), []*buf{{n: n, model: low(n, func(i int) byte { return byte(v[i]) }), mutate: func(i int) byte { v[i] ^= int16(1 + r.Intn(255)); return byte(v[i]) }}}
	case "I4":
		v := make([]int32, n)
		for i := range v {
			v[i] = int32(r.Uint32())
		}
		return secs2.I4(v), []*buf{{n: n, model: low(n, func(i int) byte { return byte(v[i]) }), mutate: func(i int) byte { v[i] ^= int32(1 + r.Intn(255)); return byte(v[i]) }}}
	case "I8":
		v := make([]int64, n)
		for i := range v {
			v[i] = int64(r.Uint64())
		}
		return secs2.I8(v), []*buf{{n: n, model: low(n, func(i int) byte { return byte(v[i]) }), mutate: func(i int) byte { v[i] ^= int64(1 + r.Intn(255)); return byte(v[i]) }}}
	case "Imix":
		v := make([]int, n)
		for i := range v {
			v[i] = r.Intn(1000) - 500
		}
		v2 := make([]uint16, 1+r.Intn(3))
		for i := range v2 {
			v2[i] = uint16(r.Intn(65536))
		}
		return secs2.I4(v, 5, v2, "17"), []*buf{
			{n: n, model: low(n, func(i int) byte { return byte(v[i]) }), mutate: func(i int) byte { v[i] ^= 1 + r.Intn(255); return byte(v[i]) }},
			{n: len(v2), model: low(len(v2), func(i int) byte { return byte(v2[i]) }), mutate: func(i int) byte { v2[i] ^= uint16(1 + r.Intn(255)); return byte(v2[i]) }}}
	case "U1":
		v := make([]uint8, n)
		r.Read(v)
		return secs2.U1(v), []*buf{byteBuf(v)}
	case "U2":
		v := make([]uint16, n)
		for i := range v {
			v[i] = uint16(r.Intn(65536))
		}
		return secs2.U2(v), []*buf{{n: n, model: low(n, func(i int) byte { return byte(v[i]) }), mutate: func(i int) byte { v[i] ^= uint16(1 + r.Intn(255)); return byte(v[i]) }}}
	case "U4":
		v := make([]uint32, n)
		for i := range v {
			v[i] = r.Uint32()
		}
		return secs2.U4(v), []*buf{{n: n, model: low(n, func(i int) byte { return byte(v[i]) }), mutate: func(i int) byte { v[i] ^= uint32(1 + r.Intn(255)); return byte(v[i]) }}}
	case "U8":
		v := make([]uint64, n)
		for i := range v {
			v[i] = r.Uint64()
		}
		return secs2.U8(v), []*buf{{n: n, model: low(n, func(i int) byte { return byte(v[i]) }), mutate: func(i int) byte { v[i] ^= uint64(1 + r.Intn(255)); return byte(v[i]) }}}
	case "F4":
		v := make([]float32, n)
		for i := range v {
			v[i] = float32(r.NormFloat64())
		}
		return secs2.F4(v), []*buf{{n: n, model: low(n, func(i int) byte { return byte(math.Float32bits(v[i])) }), mutate: func(i int) byte {
			v[i] = math.Float32frombits(math.Float32bits(v[i]) ^ uint32(1+r.Intn(255)))
			return byte(math.Float32bits(v[i]))
		}}}
	case "F8":
		v := make([]float64, n)
		for i := range v {
			v[i] = r.NormFloat64()
		}
		return secs2.F8(v), []*buf{{n: n, model: low(n, func(i int) byte { return byte(math.Float64bits(v[i])) }), mutate: func(i int) byte {
			v[i] = math.Float64frombits(math.Float64bits(v[i]) ^ uint64(1+r.Intn(255)))
			return byte(math.Float64bits(v[i]))
		}}}
	case "BOOL":
		v := make([]bool, n)
		for i := range v {
			v[i] = r.Intn(2) == 0
		}
		return secs2.BOOLEAN(v), []*buf{{n: n, model: low(n, func(i int) byte {
			if v[i] {
				return 1
			}
			return 0
		}), mutate: func(i int) byte {
			v[i] = !v[i]
			if v[i] {
				return 1
			}
			return 0
		}}}
	case "A", "J", "W":
		// the source bytes of the string: string(b) copies, so mutating b afterwards is a caller write
		b := make([]byte, n)
		for i := range b {
			b[i] = byte(32 + r.Intn(90))
		}
		switch kind {
		case "A":
			return secs2.A(string(b)), []*buf{byteBuf(b)}
		case "J":
			return secs2.J(string(b)), []*buf{byteBuf(b)}
		default:
			return secs2.NewLocalizedStrItem(uint16(r.Intn(65536)), string(b)), []*buf{byteBuf(b)}
		}
	}
	panic("kind " + kind)
}

// mkTree builds a (possibly nested) list from caller-owned slices, including the []Item slices
// handed to NewListItem(kids...).
func mkTree(depth int) (secs2.Item, []*buf) {
	r := c.Rng
	if depth == 0 || r.Intn(3) != 0 {
		return mkLeaf(leafKinds[r.Intn(len(leafKinds))])
	}
	n := r.Intn(4)
	kids := make([]secs2.Item, n)
	var bufs []*buf
	for i := range kids {
		k, b := mkTree(depth - 1)
		kids[i] = k
		bufs = append(bufs, b...)
	}
	it := secs2.NewListItem(kids...) // the variadic call shares kids' backing array with the callee
	model := make([]byte, n)
	for i := range model {
		model[i] = byte(i + 1)
	}
	bufs = append(bufs, &buf{n: n, model: model, mutate: func(i int) byte {
		kids[i] = secs2.A(fmt.Sprintf("intruder-%d", r.Intn(1000)))
		return byte(100 + r.Intn(100))
	}})
	return it, bufs
}

// outputs returns every slice/array-returning accessor result of an item as a scribble-able buffer
// with its model group (0 = values, 1 = serialisation).
func itemOutputs(it secs2.Item) []struct {
	b *buf
	g int
} {
	type ob = struct {
		b *buf
		g int
	}
	var out []ob
	r := c.Rng
	idx := func(n int) []byte {
		m := make([]byte, n)
		for i := range m {
			m[i] = byte(i)
		}
		return m
	}
	if v, err := it.ToBinary(); err == nil {
		out = append(out, ob{byteBuf(v), 0})
	}
	if v, err := it.ToInt(); err == nil {
		out = append(out, ob{&buf{n: len(v), model: idx(len(v)), mutate: func(i int) byte { v[i] ^= int64(1 + r.Intn(255)); return byte(v[i]) }}, 0})
	}
	if v, err := it.ToUint(); err == nil {
		out = append(out, ob{&buf{n: len(v), model: idx(len(v)), mutate: func(i int) byte { v[i] ^= uint64(1 + r.Intn(255)); return byte(v[i]) }}, 0})
	}
	if v, err := it.ToFloat(); err == nil {
		out = append(out, ob{&buf{n: len(v), model: idx(len(v)), mutate: func(i int) byte { v[i] = v[i]*2 + 1; return byte(i + 1) }}, 0})
	}
	if v, err := it.ToBoolean(); err == nil {
		out = append(out, ob{&buf{n: len(v), model: idx(len(v)), mutate: func(i int) byte { v[i] = !v[i]; return byte(i + 1) }}, 0})
	}
	if v, err := it.ToList(); err == nil {
		out = append(out, ob{&buf{n: len(v), model: idx(len(v)), mutate: func(i int) byte { v[i] = secs2.U1(9); return byte(i + 1) }}, 0})
	}
	out = append(out, ob{byteBuf(it.ToBytes()), 1})
	return out
}

// appendStep runs an append helper into a caller buffer with spare capacity and checks that only
// the region behind the destination's elements was written.
func (s *scen) appendStep(o int, g int, name string, f func(dst []byte) []byte) {
	r := c.Rng
	l := r.Intn(4)
	extra := r.Intn(40)
	back := make([]byte, l+extra)
	r.Read(back)
	before := append([]byte(nil), back...)
	dst := back[:l]
	cv := s.newBuf(&buf{n: l, model: append([]byte(nil), dst...)})
	res := f(dst)
	if len(res) < l || string(res[:l]) != string(before[:l]) || string(back[:l]) != string(before[:l]) {
		c.Fail(name+" changed the destination's existing elements", s.line())
	}
	s.ops = append(s.ops, fmt.Sprintf("append:%d:%d:%d", o, g, cv))
	s.ncv++
	rcv := s.ncv - 1
	rb := byteBuf(res)
	s.scribble(rcv, rb, 3)
	// scribble over the whole backing array too (same caller-owned cell in the model)
	for i := range back {
		back[i] ^= 0x5A
	}
	s.observe(name + " + scribbling on the destination")
}

// exerciseItem: mutate inputs, every output, every append helper.
func (s *scen) exerciseItem(o int, it secs2.Item, inputs []*buf, inCV []int) {
	r := c.Rng
	for k, b := range inputs {
		s.scribble(inCV[k], b, 1+r.Intn(3))
		s.observe("mutating a constructor/decoder input")
	}
	for _, ob := range itemOutputs(it) {
		s.ops = append(s.ops, fmt.Sprintf("get:%d:%d", o, ob.g))
		s.ncv++
		s.scribble(s.ncv-1, ob.b, 1+r.Intn(3))
		s.observe("mutating an accessor result")
	}
	s.appendStep(o, 1, "AppendTo", it.AppendTo)
	s.appendStep(o, 0, "AppendBinaryTo", it.AppendBinaryTo)
}

func scenarioConstructedItem() {
	s := &scen{what: "item/constructed"}
	it, bufs := mkTree(2)
	var cvs []int
	var cvNames []string
	for _, b := range bufs {
		cv := s.newBuf(b)
		cvs = append(cvs, cv)
		cvNames = append(cvNames, fmt.Sprint(cv))
	}
	o := s.addSubject(itemSubject{it}, "construct:"+strings.Join(cvNames, ","))
	s.exerciseItem(o, it, bufs, cvs)
	s.emit()
}

// leafLayout returns (kind A|T, header length) for the wire form of a leaf item.
func leafLayout(it secs2.Item, wire []byte) (string, int) {
	lb := int(wire[0] & 3)
	hl := 1 + lb
	switch {
	case it.IsBinary() || it.IsASCII() || it.IsJIS8():
		return "A", hl
	case it.IsLocalizedStr():
		return "A", hl + 2
	default:
		return "T", hl
	}
}

func scenarioDecodedItem(owned bool) {
	s := &scen{what: "item/decoded", owned: owned}
	var src secs2.Item
	if owned {
		s.what = "item/decoded-owned(positive control)"
		for {
			src, _ = mkLeaf(leafKinds[c.Rng.Intn(len(leafKinds))])
			if src.Size() > 0 {
				break
			}
		}
	} else {
		src, _ = mkTree(2)
	}
	wire := src.ToBytes()
	if len(wire) == 0 {
		return
	}
	b := byteBuf(wire)
	cv := s.newBuf(b)
	var it secs2.Item
	var err error
	kind, hl := "T", 0
	if !src.IsList() {
		kind, hl = leafLayout(src, wire)
	}
	var o int
	if owned {
		it, err = secs2.DecodeOwned(wire)
		if err != nil {
			return
		}
		o = s.addSubject(itemSubject{it}, fmt.Sprintf("owned:%d:%s:0:%d", cv, kind, hl))
		// a localized string's 2-byte header is parsed into a value: writes there change only the bytes
	} else {
		it, err = secs2.Decode(wire)
		if err != nil {
			c.Fail("Decode refused ToBytes of a constructed item", "T "+hx(wire))
			return
		}
		o = s.addSubject(itemSubject{it}, fmt.Sprintf("decode:%d:%s:0:%d", cv, kind, hl))
	}
	if owned {
		// the documented misuse: write into the transferred buffer, one byte at a time
		for k := 0; k < 4; k++ {
			s.write(cv, b, c.Rng.Intn(b.n))
			s.observe("writing into a buffer whose ownership was transferred")
		}
		// restore nothing: outputs must still be independent copies
		for _, ob := range itemOutputs(it) {
			s.ops = append(s.ops, fmt.Sprintf("get:%d:%d", o, ob.g))
			s.ncv++
			// the baseline moved with the writes above: only the model can say what is expected now
			s.scribble(s.ncv-1, ob.b, 2)
			s.observe("mutating an accessor result")
		}
	} else {
		s.exerciseItem(o, it, []*buf{b}, []int{cv})
	}
	s.emit()
}

// ---------------------------------------------------------------------------------------------
// messages

func randSys() [4]byte {
	var b [4]byte
	c.Rng.Read(b[:])
	return b
}

func (s *scen) exerciseMessage(o int, m hsms.Message) {
	r := c.Rng
	// value-typed accessors: the caller may do anything to its copies
	hb := m.HeaderBytes()
	s.ops = append(s.ops, fmt.Sprintf("get:%d:0", o))
	s.ncv++
	s.scribble(s.ncv-1, byteBuf(hb[:]), 3)
	sb := m.SystemBytes()
	s.ops = append(s.ops, fmt.Sprintf("get:%d:0", o))
	s.ncv++
	s.scribble(s.ncv-1, byteBuf(sb[:]), 2)
	s.observe("mutating HeaderBytes()/SystemBytes() copies")
	tb := m.ToBytes()
	s.ops = append(s.ops, fmt.Sprintf("get:%d:1", o))
	s.ncv++
	s.scribble(s.ncv-1, byteBuf(tb), 4)
	s.observe("mutating ToBytes()")
	dm, ok := m.ToDataMessage()
	if !ok {
		cm := m.(*hsms.ControlMessage)
		o2 := s.addSubject(msgSubject{cm.WithSessionID(uint16(r.Intn(65536)))}, fmt.Sprintf("share:%d", o))
		o3 := s.addSubject(msgSubject{cm.WithSystemBytes(randSys())}, fmt.Sprintf("share:%d", o))
		_, _ = o2, o3
		s.observe("re-stamping a control message")
		return
	}
	s.appendStep(o, 1, "AppendBodyTo", dm.AppendBodyTo)
	mb, _ := dm.Codec().MarshalBinary()
	s.ops = append(s.ops, fmt.Sprintf("get:%d:1", o))
	s.ncv++
	s.scribble(s.ncv-1, byteBuf(mb), 3)
	s.observe("mutating MarshalBinary()")
	// the body item: its accessor results are copies as well
	if it, err := dm.Item(); err == nil {
		for _, ob := range itemOutputs(it) {
			s.ops = append(s.ops, fmt.Sprintf("get:%d:%d", o, ob.g))
			s.ncv++
			s.scribble(s.ncv-1, ob.b, 2)
		}
		s.observe("mutating accessor results of Item()")
	}
	// re-stamped and derived copies share the body
	sysb := randSys()
	copies := []hsms.Message{dm.WithSessionID(uint16(r.Intn(65536))), dm.WithSystemBytes(sysb), dm.WithID(r.Uint32())}
	sysb[0] ^= 0xFF // the array was passed by value
	if d, err := dm.Derive().Build(); err == nil {
		copies = append(copies, d)
	}
	if d, err := dm.Derive().WithStream(uint8(r.Intn(128))).WithFunction(uint8(r.Intn(128))*2 + 1).WithWaitBit(r.Intn(2) == 0).
		WithSessionID(uint16(r.Intn(65536))).WithSystemBytes(randSys()).Build(); err == nil {
		copies = append(copies, d)
	}
	var cos []int
	for _, cp := range copies {
		cos = append(cos, s.addSubject(msgSubject{cp}, fmt.Sprintf("share:%d", o)))
	}
	s.observe("making re-stamped / derived copies")
	for k, cp := range copies {
		tb := cp.ToBytes()
		s.ops = append(s.ops, fmt.Sprintf("get:%d:1", cos[k]))
		s.ncv++
		s.scribble(s.ncv-1, byteBuf(tb), 3)
		if cdm, ok := cp.ToDataMessage(); ok && k%2 == 0 {
			s.appendStep(cos[k], 1, "AppendBodyTo(copy)", cdm.AppendBodyTo)
		}
	}
	s.observe("mutating serialisations of the copies")
}

func scenarioConstructedMessage() {
	s := &scen{what: "msg/constructed"}
	it, bufs := mkTree(2)
	var cvs []int
	var names []string
	for _, b := range bufs {
		cv := s.newBuf(b)
		cvs = append(cvs, cv)
		names = append(names, fmt.Sprint(cv))
	}
	r := c.Rng
	sys := randSys()
	fn := uint8(r.Intn(256))
	w := fn%2 == 1 && r.Intn(2) == 0
	m, err := hsms.NewDataMessage(uint8(r.Intn(128)), fn, w, uint16(r.Intn(65536)), sys, it)
	if err != nil {
		c.Fail("NewDataMessage refused an error-free item", "M")
		return
	}
	sysBuf := byteBuf(sys[:]) // passed by value: scribbling on the caller's array is a caller write
	sysCV := s.newBuf(sysBuf)
	o := s.addSubject(msgSubject{m}, "constructm:"+strings.Join(append(names, fmt.Sprint(sysCV)), ","))
	for k, b := range bufs {
		s.scribble(cvs[k], b, 2)
	}
	s.scribble(sysCV, sysBuf, 2)
	s.observe("mutating the constructor's inputs")
	s.exerciseMessage(o, m)
	s.emit()
}

// scenarioFirstSerialiser: for a constructed / derived / re-stamped data message whose lazy encode
// memo nobody has fired yet, each serialiser in turn is the FIRST observation; its result and the
// scratch buffer it was given are overwritten completely (and the scratch recycled for another
// message); then everything is observed, on copies made before and after that first call too.
// Baselines come from identically built twins, so nothing touches the message before the call.
func scenarioFirstSerialiser(ser int, prov int) {
	serNames := []string{"ToBytes", "AppendBodyTo(nil)", "AppendBodyTo(spare capacity)", "AppendBodyTo(short capacity)", "MarshalBinary", "Codec.ToBytes", "ToBytes on a re-stamped copy", "AppendBodyTo(spare) on a re-stamped copy"}
	provNames := []string{"constructed", "derived", "re-stamped"}
	s := &scen{what: "msg/first-serialiser/" + provNames[prov] + "/" + serNames[ser]}
	r := c.Rng
	it, bufs := mkTree(2)
	var names []string
	for _, b := range bufs {
		names = append(names, fmt.Sprint(s.newBuf(b)))
	}
	sys := randSys()
	fn := uint8(r.Intn(128))*2 + 1
	stream, sid, w := uint8(r.Intn(128)), uint16(r.Intn(65536)), r.Intn(2) == 0
	sys2, sid2 := randSys(), uint16(r.Intn(65536))
	build := func() *hsms.DataMessage {
		m0, err := hsms.NewDataMessage(stream, fn, w, sid, sys, it)
		if err != nil {
			return nil
		}
		switch prov {
		case 1:
			d, derr := m0.Derive().WithSessionID(sid2).Build()
			if derr != nil {
				return nil
			}
			return d
		case 2:
			return m0.WithSystemBytes(sys2)
		}
		return m0
	}
	m, tw := build(), build()
	if m == nil || tw == nil {
		c.Fail("NewDataMessage / Derive().Build() refused an error-free item", "M")
		return
	}
	o := s.addSubjectBase(msgSubject{m}, "constructm:"+strings.Join(names, ","), msgSubject{tw})
	// a copy made BEFORE the first serialisation shares the (unfired) body
	sysPre := randSys()
	pre := m.WithSystemBytes(sysPre)
	oPre := s.addSubjectBase(msgSubject{pre}, fmt.Sprintf("share:%d", o), msgSubject{tw.WithSystemBytes(sysPre)})

	target, ot := m, o
	if ser >= 6 {
		target, ot = pre, oPre
	}
	var res, scratch []byte
	switch ser {
	case 0, 6:
		res = target.ToBytes()
		s.ops = append(s.ops, fmt.Sprintf("get:%d:1", ot))
		s.ncv++
	case 4:
		res, _ = target.Codec().MarshalBinary()
		s.ops = append(s.ops, fmt.Sprintf("get:%d:1", ot))
		s.ncv++
	case 5:
		res = target.Codec().ToBytes()
		s.ops = append(s.ops, fmt.Sprintf("get:%d:1", ot))
		s.ncv++
	default:
		l := r.Intn(4)
		capacity := l
		switch ser {
		case 1:
			capacity = -1
		case 2, 7:
			capacity = l + 4096
		case 3:
			capacity = l + r.Intn(2)
		}
		if capacity >= 0 {
			scratch = make([]byte, capacity)
			r.Read(scratch)
		}
		var dst []byte
		if scratch != nil {
			dst = scratch[:l]
		}
		prefix := append([]byte(nil), dst...)
		cv := s.newBuf(&buf{n: len(dst), model: append([]byte(nil), dst...)})
		res = target.AppendBodyTo(dst)
		if len(res) < len(prefix) || string(res[:len(prefix)]) != string(prefix) {
			c.Fail("AppendBodyTo changed the destination's existing elements", s.line())
		}
		s.ops = append(s.ops, fmt.Sprintf("append:%d:1:%d", ot, cv))
		s.ncv++
	}
	rcv := s.ncv - 1
	// a copy made AFTER the first serialisation
	sysPost := randSys()
	post := m.WithSystemBytes(sysPost).WithSessionID(sid2)
	s.addSubjectBase(msgSubject{post}, fmt.Sprintf("share:%d", o), msgSubject{tw.WithSystemBytes(sysPost).WithSessionID(sid2)})
	// overwrite the whole result, then the whole scratch array, then recycle the scratch
	s.overwrite(rcv, byteBuf(res))
	for i := range scratch {
		scratch[i] ^= 0xA5
	}
	if scratch != nil {
		other, _ := hsms.NewDataMessage(1, 1, false, 0, [4]byte{}, secs2.A("another message reusing the pooled buffer"))
		_ = other.AppendBodyTo(scratch[:0])
	}
	s.observe("overwriting the result of the FIRST serialisation (" + serNames[ser] + ") and its scratch buffer")
	// the second and later results are independent as well
	res2 := m.ToBytes()
	s.ops = append(s.ops, fmt.Sprintf("get:%d:1", o))
	s.ncv++
	s.overwrite(s.ncv-1, byteBuf(res2))
	s.observe("overwriting a later serialisation")
	s.emit()
}

// scenarioCodec: the mutator-looking public API. A DataMessageCodec wrapping a message is asked to
// UnmarshalBinary the frame of a DIFFERENT message (twice), a zero-value codec likewise; a
// DataMessageBuilder is reused after Build. The originally wrapped message, the copies made before
// and after, and every message a codec pointed at earlier must stay exactly what they were; the
// frame passed to UnmarshalBinary and the slice returned by MarshalBinary are scribbled on.
func scenarioCodec(variant int) {
	s := &scen{what: fmt.Sprintf("msg/codec+builder/%d", variant%4)}
	r := c.Rng
	ncodec := 0
	mkMsg := func() *hsms.DataMessage {
		it, _ := mkTree(2)
		fn := uint8(r.Intn(256))
		m, err := hsms.NewDataMessage(uint8(r.Intn(128)), fn, fn%2 == 1 && r.Intn(2) == 0, uint16(r.Intn(65536)), randSys(), it)
		if err != nil {
			return nil
		}
		return m
	}
	var m *hsms.DataMessage
	var o int
	if variant%2 == 0 {
		it, bufs := mkTree(2)
		var names []string
		for _, b := range bufs {
			names = append(names, fmt.Sprint(s.newBuf(b)))
		}
		fn := uint8(r.Intn(128))*2 + 1
		var err error
		m, err = hsms.NewDataMessage(uint8(r.Intn(128)), fn, r.Intn(2) == 0, uint16(r.Intn(65536)), randSys(), it)
		if err != nil {
			return
		}
		o = s.addSubject(msgSubject{m}, "constructm:"+strings.Join(names, ","))
	} else {
		src := mkMsg()
		if src == nil {
			return
		}
		frame := src.ToBytes()
		cv := s.newBuf(byteBuf(frame))
		dm, err := hsms.DecodeHSMSMessage(frame)
		if err != nil {
			return
		}
		m, _ = dm.ToDataMessage()
		o = s.addSubject(msgSubject{m}, fmt.Sprintf("decode:%d:T:14:0", cv))
	}
	s.addSubject(msgSubject{m.WithSystemBytes(randSys())}, fmt.Sprintf("share:%d", o))

	// the codec: both ways of wrapping share the caller's pointer
	var cd *hsms.DataMessageCodec
	if variant%4 < 2 {
		cd = m.Codec()
	} else {
		cd = &hsms.DataMessageCodec{Message: m}
	}
	s.ops = append(s.ops, fmt.Sprintf("codec:%d", o))
	k := ncodec
	ncodec++
	mb, _ := cd.MarshalBinary()
	s.ops = append(s.ops, fmt.Sprintf("get:%d:1", o))
	s.ncv++
	s.overwrite(s.ncv-1, byteBuf(mb))
	s.observe("overwriting the slice MarshalBinary returned")

	unmarshal := func(cdc *hsms.DataMessageCodec, slot int, after string) {
		other := mkMsg()
		if other == nil {
			return
		}
		f := other.ToBytes()
		fb := byteBuf(f)
		fcv := s.newBuf(fb)
		if err := cdc.UnmarshalBinary(f); err != nil {
			c.Fail("UnmarshalBinary refused ToBytes of a constructed message", s.line())
			return
		}
		s.addSubject(msgSubject{cdc.Message}, fmt.Sprintf("unmarshal:%d:%d:T:14:0", slot, fcv))
		s.addSubject(msgSubject{m.WithSessionID(uint16(r.Intn(65536)))}, fmt.Sprintf("share:%d", o))
		s.scribble(fcv, fb, 6)
		s.observe(after)
	}
	unmarshal(cd, k, "UnmarshalBinary of a DIFFERENT message on the codec that wrapped this one (+ scribbling on that frame)")
	unmarshal(cd, k, "a second UnmarshalBinary on the same codec")
	// a zero-value codec
	z := &hsms.DataMessageCodec{}
	s.ops = append(s.ops, "codec:-")
	zk := ncodec
	ncodec++
	unmarshal(z, zk, "UnmarshalBinary on a zero-value codec")
	unmarshal(z, zk, "a second UnmarshalBinary on the formerly zero-value codec")

	// the builder is a scratch record: reusing it after Build must not reach built messages
	b := m.Derive()
	if d1, err := b.Build(); err == nil {
		s.addSubject(msgSubject{d1}, fmt.Sprintf("build:%d", o))
		otherItem, _ := mkTree(1)
		b.WithItem(otherItem).WithStream(uint8(r.Intn(128))).WithFunction(uint8(r.Intn(128)) * 2).WithWaitBit(false).
			WithSessionID(uint16(r.Intn(65536))).WithSystemBytes(randSys()).WithID(r.Uint32())
		if d2, err2 := b.Build(); err2 == nil {
			s.addSubject(msgSubject{d2}, fmt.Sprintf("build:%d", o))
		}
		s.observe("re-using a DataMessageBuilder (With...) after Build")
	}
	s.emit()
}

func scenarioDecodedMessage(mode int) {
	names := []string{"msg/DecodeHSMSMessage", "msg/DecodeHSMSPayload", "msg/UnmarshalBinary", "msg/DecodeOwnedHSMSPayload(positive control)"}
	s := &scen{what: names[mode], owned: mode == 3}
	r := c.Rng
	var it secs2.Item
	if mode == 3 {
		for {
			it, _ = mkLeaf(leafKinds[r.Intn(len(leafKinds))])
			if it.Size() > 0 {
				break
			}
		}
	} else {
		it, _ = mkTree(2)
	}
	fn := uint8(r.Intn(256))
	src, err := hsms.NewDataMessage(uint8(r.Intn(128)), fn, fn%2 == 1, uint16(r.Intn(65536)), randSys(), it)
	if err != nil {
		return
	}
	frame := src.ToBytes()
	var m hsms.Message
	var b *buf
	var cv, o int
	switch mode {
	case 0:
		b = byteBuf(frame)
		cv = s.newBuf(b)
		m, err = hsms.DecodeHSMSMessage(frame)
		if err == nil {
			o = s.addSubject(msgSubject{m}, fmt.Sprintf("decode:%d:T:14:0", cv))
		}
	case 1:
		payload := append([]byte(nil), frame[4:]...)
		b = byteBuf(payload)
		cv = s.newBuf(b)
		m, err = hsms.DecodeHSMSPayload(payload)
		if err == nil {
			o = s.addSubject(msgSubject{m}, fmt.Sprintf("decode:%d:T:10:0", cv))
		}
	case 2:
		b = byteBuf(frame)
		cv = s.newBuf(b)
		cd := &hsms.DataMessageCodec{}
		err = cd.UnmarshalBinary(frame)
		if err == nil {
			m = cd.Message
			o = s.addSubject(msgSubject{m}, fmt.Sprintf("decode:%d:T:14:0", cv))
		}
	case 3:
		payload := append([]byte(nil), frame[4:]...)
		b = byteBuf(payload)
		cv = s.newBuf(b)
		m, err = hsms.DecodeOwnedHSMSPayload(payload)
		if err == nil {
			kind, hl := "T", 0
			if len(payload) > 10 {
				kind, hl = leafLayout(it, payload[10:])
			}
			o = s.addSubject(msgSubject{m}, fmt.Sprintf("owned:%d:%s:10:%d", cv, kind, hl))
		}
	}
	if err != nil {
		c.Fail("decode entry point refused ToBytes of a constructed message: "+names[mode], "T "+hx(frame))
		return
	}
	if mode == 3 {
		for k := 0; k < 5; k++ {
			s.write(cv, b, r.Intn(b.n))
			s.observe("writing into a payload whose ownership was transferred")
		}
	} else {
		s.scribble(cv, b, 6)
		s.observe("mutating the decoded frame")
		s.exerciseMessage(o, m)
	}
	s.emit()
}

func scenarioControl() {
	s := &scen{what: "msg/control"}
	r := c.Rng
	sys := randSys()
	sid := uint16(r.Intn(65536))
	var m *hsms.ControlMessage
	switch r.Intn(6) {
	case 0:
		m = hsms.NewSelectReq(sid, sys)
	case 1:
		m = hsms.NewDeselectReq(sid, sys)
	case 2:
		m = hsms.NewLinktestReq(sys)
	case 3:
		m = hsms.NewSeparateReq(sid, sys)
	case 4:
		m, _ = hsms.NewSelectRsp(hsms.NewSelectReq(sid, sys), byte(r.Intn(4)))
	default:
		m = hsms.NewRejectReqRaw(sid, 0, byte(r.Intn(10)), sys, byte(1+r.Intn(4)))
	}
	sysBuf := byteBuf(sys[:])
	cv := s.newBuf(sysBuf)
	o := s.addSubject(msgSubject{m}, fmt.Sprintf("construct:%d", cv))
	s.scribble(cv, sysBuf, 2)
	s.observe("mutating the system-bytes array passed to the constructor")
	s.exerciseMessage(o, m)
	// and decoded
	frame := m.ToBytes()
	fb := byteBuf(frame)
	fcv := s.newBuf(fb)
	dm, err := hsms.DecodeHSMSMessage(frame)
	if err != nil {
		c.Fail("DecodeHSMSMessage refused a control frame", "T "+hx(frame))
		return
	}
	o2 := s.addSubject(msgSubject{dm}, fmt.Sprintf("decode:%d:T:14:0", fcv))
	s.scribble(fcv, fb, 4)
	s.observe("mutating the decoded control frame")
	s.exerciseMessage(o2, dm)
	s.emit()
}

// ---------------------------------------------------------------------------------------------
// concurrent readers

func concurrentReaders(rounds int) {
	r := c.Rng
	for round := 0; round < rounds; round++ {
		n := []int{2, 3, 4, 8, 16, 32}[r.Intn(6)]
		it, _ := mkTree(2)
		fn := uint8(r.Intn(128))*2 + 1
		built, err := hsms.NewDataMessage(uint8(r.Intn(128)), fn, true, 7, randSys(), it)
		if err != nil {
			continue
		}
		frame := built.ToBytes()
		// fresh objects whose lazy state nobody has touched: a raw-frame message (decode once-cell)
		// and a tree message (encode once-cell); twins give the sequential expectation
		fresh := func() (hsms.Message, hsms.Message, secs2.Item) {
			dm, _ := hsms.DecodeHSMSMessage(frame)
			tm, _ := hsms.NewDataMessage(built.Stream(), built.Function(), built.WaitBit(), built.SessionID(), built.SystemBytes(), it)
			di, _ := secs2.Decode(it.ToBytes())
			return dm, tm, di
		}
		dm, tm, di := fresh()
		tdm, ttm, tdi := fresh()
		wantD0, wantD1 := msgSubject{tdm}.digest()
		wantT0, wantT1 := msgSubject{ttm}.digest()
		wantI0, wantI1 := itemSubject{tdi}.digest()

		type res struct {
			d0, d1, t0, t1, i0, i1 string
			item                   secs2.Item
		}
		out := make([]res, n)
		var start, done sync.WaitGroup
		start.Add(1)
		for g := 0; g < n; g++ {
			done.Add(1)
			go func(g int) {
				defer done.Done()
				start.Wait()
				// each reader works on its OWN re-stamped copy: copies share body and decode state
				ddm, _ := dm.ToDataMessage()
				my := ddm.WithSystemBytes(ddm.SystemBytes()).WithSessionID(ddm.SessionID())
				it1, _ := my.Item()
				out[g].item = it1
				out[g].d0, out[g].d1 = msgSubject{my}.digest()
				ttm2, _ := tm.ToDataMessage()
				out[g].t0, out[g].t1 = msgSubject{ttm2.WithID(ttm2.ID())}.digest()
				out[g].i0, out[g].i1 = itemSubject{di}.digest()
			}(g)
		}
		// meanwhile one goroutine uses codecs wrapping the very messages the readers read:
		// UnmarshalBinary of another frame must only re-point the codec
		otherFrame := func() []byte {
			oi, _ := mkTree(1)
			om, _ := hsms.NewDataMessage(9, 9, false, 9, [4]byte{9, 9, 9, 9}, oi)
			return om.ToBytes()
		}()
		done.Add(1)
		go func() {
			defer done.Done()
			ddm, _ := dm.ToDataMessage()
			ttm, _ := tm.ToDataMessage()
			c1, c2 := ddm.Codec(), &hsms.DataMessageCodec{Message: ttm}
			start.Wait()
			_ = c1.UnmarshalBinary(otherFrame)
			_ = c2.UnmarshalBinary(otherFrame)
			_, _ = c1.MarshalBinary()
		}()
		start.Done()
		done.Wait()
		ids := make([]string, n)
		var seen []secs2.Item
		for g := 0; g < n; g++ {
			o := out[g]
			if o.d0 != wantD0 || o.d1 != wantD1 || o.t0 != wantT0 || o.t1 != wantT1 || o.i0 != wantI0 || o.i1 != wantI1 {
				c.Fail(fmt.Sprintf("reader %d of %d concurrent readers observed something different from a sequential reader", g, n), "O "+hx(frame))
			}
			id := -1
			for k, s := range seen {
				if s == o.item {
					id = k
				}
			}
			if id < 0 {
				seen = append(seen, o.item)
				id = len(seen) - 1
			}
			ids[g] = fmt.Sprint(id)
		}
		if len(seen) != 1 {
			c.Fail(fmt.Sprintf("%d concurrent first Item() calls over re-stamped copies returned %d distinct decoded items", n, len(seen)), "O "+hx(frame))
		}
		line := "O " + strings.Join(ids, " ") + " | " + vh.B01(len(seen) == 1)
		c.Case(line, fmt.Sprintf("O/%d/%d", n, round), true)
		c.Count(fmt.Sprintf("concurrent/n=%d", n))
	}
}

func main() {
	onlyConc := flag.Bool("conc", false, "run only the concurrent-reader part (used by the -race pass)")
	c = vh.New()
	if !*onlyConc {
		n := c.N
		c.Note("mutator-looking public API on items/messages (exported pointer-receiver methods of secs2/hsms that assign to the receiver, by grep of the non-test sources): (*DataMessageCodec).UnmarshalBinary [c.Message = dm] and the exported field DataMessageCodec.Message; (*DataMessageBuilder).WithStream/WithFunction/WithWaitBit/WithItem/WithSessionID/WithSystemBytes/WithID. No Reset/Set*/Scan/Decode*Into exists; no exported method of any *Item, *DataMessage or *ControlMessage assigns to its receiver. All of them are operations of the sequence differential (codec:/unmarshal:/build:) and of the model layer Alias/Codec.v (C12_codec_noninterference).")
		for v := 0; v < 8; v++ {
			scenarioCodec(v)
		}
		// corpus first: every serialiser as the first observation of every constructed provenance
		for rep := 0; rep < 3; rep++ {
			for prov := 0; prov < 3; prov++ {
				for ser := 0; ser < 8; ser++ {
					scenarioFirstSerialiser(ser, prov)
				}
			}
		}
		for i := 0; i < n; i++ {
			switch i % 10 {
			case 0, 1, 2:
				scenarioConstructedItem()
			case 3, 4:
				scenarioDecodedItem(false)
			case 5:
				scenarioDecodedItem(true)
			case 6:
				if i%20 == 6 {
					scenarioFirstSerialiser(c.Rng.Intn(8), c.Rng.Intn(3))
				} else {
					scenarioConstructedMessage()
				}
			case 7:
				scenarioDecodedMessage(c.Rng.Intn(3))
			case 8:
				if i%20 == 8 {
					scenarioCodec(c.Rng.Intn(4))
				} else {
					scenarioDecodedMessage(3)
				}
			default:
				scenarioControl()
			}
		}
		concurrentReaders(n / 10)
		concurrentFirstCalls(n/40, true, false)
	} else {
		concurrentReaders(c.N)
		concurrentFirstCalls(c.N/15, true, true)
	}
	c.Finish()
}
