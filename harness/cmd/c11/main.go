// Harness for C11 (after any link failure an open connection recovers).
//
// Pass "e2e" (e2e.go): a real hsmsss connection over harness-owned pipes whose link is cut at every
// byte offset of the select / data / linktest exchanges in both directions, stalled under each
// protocol timer, rejected, or refused for runs of k dials; the harness observes the dial
// timestamps, the post-recovery round trip, Reconnects() and the hygiene after Close.
//
// Pass "pure" (default): the real nextBackoffDelay (through the verif hook) on boundary and random
// inputs, and the arithmetic of connectLoop's sleep sequence iterated on the real function. Every
// case line carries the multiplier as the bit pattern of the float64; results are compared exactly
// with the extracted Flocq model by the driver. The implementation-level oracle is the property
// itself: sleeps start at min(initial,T5), never decrease, never exceed T5.
package main

import (
	"flag"
	"fmt"
	"math"
	"strings"
	"time"

	"github.com/arloliu/go-secs/v2/hsms"

	"verifharness/vh"
)

const two53 = int64(1) << 53

var pass = flag.String("pass", "pure", "pure|e2e")

func bitsOf(f float64) string { return fmt.Sprint(math.Float64bits(f)) }

// sleepsOf iterates the three arithmetic statements of connectLoop (sleepFor := delay; cap at T5;
// delay = nextBackoffDelay(...)) on the REAL nextBackoffDelay.
func sleepsOf(init int64, mult float64, t5 int64, n int) []int64 {
	out := make([]int64, 0, n)
	delay := time.Duration(init)
	for i := 0; i < n; i++ {
		sleepFor := delay
		if ceil := time.Duration(t5); sleepFor > ceil {
			sleepFor = ceil
		}
		out = append(out, int64(sleepFor))
		delay = hsms.VerifNextBackoffDelay(delay, mult, time.Duration(t5))
	}
	return out
}

func purePass(c *vh.Ctx) {
	r := c.Rng
	durs := []int64{1, 2, 3, 999, 1000, 1e6, 1e8, 1e9, 1e10, two53 - 2, two53 - 1, two53, two53 + 1, two53 + 2, two53 + 3,
		two53 + 4, 2*two53 - 1, 2 * two53, 2*two53 + 1, 2*two53 + 2, 2*two53 + 3, 1 << 62, 1<<62 + 1, 1<<63 - 1025, 1<<63 - 1024, 1<<63 - 513, 1<<63 - 512, 1<<63 - 2, 1<<63 - 1,
		0, -1, -2, -two53, -two53 - 1, -1 << 62, -1 << 63, -1<<63 + 1}
	mults := []float64{1, math.Nextafter(1, 2), math.Nextafter(1, 0), 1 + 1e-9, 1.5, 2, 3, 10, 1e300, math.MaxFloat64, math.Inf(1), math.Inf(-1),
		math.NaN(), math.Float64frombits(0xFFF8000000000001), 0, math.Copysign(0, -1), 0.5, -1, -2, math.SmallestNonzeroFloat64, 2.2250738585072014e-308,
		1.0000000000000004, 1.9999999999999998, 1 << 10, 1 << 52, 1 << 53, 1<<53 + 2, 9.223372036854775e18, 9.223372036854776e18}
	one := func(cur int64, m float64, ceil int64) {
		got := int64(hsms.VerifNextBackoffDelay(time.Duration(cur), m, time.Duration(ceil)))
		line := vh.Join("B", fmt.Sprint(cur), bitsOf(m), fmt.Sprint(ceil), "|", fmt.Sprint(got))
		c.Case(line, line, true)
		// since /repo 67dfa20 the step bounds hold for EVERY multiplier (the clamp does not depend on
		// the float product); "validated" only labels the histogram
		valid := cur > 0 && ceil > 0
		switch {
		case !valid:
			c.Count("B/non-positive-cur-or-ceil")
		case m < 1.0:
			c.Count("B/multiplier-below-1")
		case cur > two53:
			c.Count("B/cur>2^53")
		default:
			c.Count("B/in-range")
		}
		if valid {
			lo := cur
			if ceil < lo {
				lo = ceil
			}
			tag := "within2p53"
			if cur > two53 {
				tag = "beyond2p53"
			}
			if got > ceil {
				c.Fail("backoff step exceeds the ceiling", tag+" "+line)
			}
			if got < lo {
				c.Fail("backoff step decreases the delay", tag+" "+line)
			}
		}
	}
	// boundary corpus first: full cross product
	for _, cur := range durs {
		for _, m := range mults {
			for _, ceil := range []int64{1, 1e9, 1e10, two53 - 1, two53, two53 + 1, 1 << 62, 1<<63 - 1, 0, -5} {
				one(cur, m, ceil)
			}
		}
	}
	randDur := func() int64 {
		switch r.Intn(6) {
		case 0:
			return durs[r.Intn(len(durs))]
		case 1:
			return two53 + r.Int63n(4096) - 2048
		case 2:
			return r.Int63()
		case 3:
			return 1 + r.Int63n(1e10)
		case 4:
			return int64(1) << uint(r.Intn(63))
		default:
			return 1 + r.Int63n(1<<uint(1+r.Intn(62)))
		}
	}
	randMult := func() float64 {
		switch r.Intn(6) {
		case 0:
			return mults[r.Intn(len(mults))]
		case 1:
			return math.Float64frombits(r.Uint64())
		case 2:
			return 1 + r.Float64()
		case 3:
			return 1 + r.Float64()*r.Float64()*1e-6
		case 4:
			return math.Float64frombits(0x3FF0000000000000 + uint64(r.Intn(64)))
		default:
			return 1 + float64(r.Intn(1000))/100
		}
	}
	for i := 0; i < c.N; i++ {
		one(randDur(), randMult(), randDur())
	}
	// sleep sequences
	nq := c.N / 10
	if nq < 200 {
		nq = 200
	}
	seq := func(init int64, m float64, t5 int64, n int) {
		ss := sleepsOf(init, m, t5, n)
		strs := make([]string, len(ss))
		for i, s := range ss {
			strs[i] = fmt.Sprint(s)
		}
		line := vh.Join("Q", fmt.Sprint(init), bitsOf(m), fmt.Sprint(t5), fmt.Sprint(n), "|", strings.Join(strs, " "))
		c.Case(line, line, true)
		valid := init > 0 && t5 > 0
		if !valid {
			c.Count("Q/non-positive-init-or-T5")
			return
		}
		tag := "within2p53"
		if init > two53 || t5 > two53 {
			tag = "beyond2p53"
		}
		c.Count("Q/" + tag)
		lo := init
		if t5 < lo {
			lo = t5
		}
		if ss[0] != lo {
			c.Fail("first backoff sleep is not min(initial,T5)", tag+" "+line)
		}
		for i := range ss {
			if ss[i] > t5 {
				c.Fail("backoff sleep exceeds T5", tag+" "+line)
			}
			if i > 0 && ss[i] < ss[i-1] {
				c.Fail("backoff sleep decreases", tag+" "+line)
			}
		}
	}
	seq(1e8, 2, 1e10, 12)              // the defaults
	seq(two53+1, 1, 1<<62, 4)          // DESIGN §5 #7
	seq(two53, 1, 1<<62, 4)            // the last exact value
	seq(two53-1, math.Nextafter(1, 2), two53, 6)
	seq(1, math.NaN(), 1e9, 4)
	seq(1, math.Inf(1), 1e9, 4)
	seq(5e6, 1, 5e6, 5)
	for i := 0; i < nq; i++ {
		seq(randDur(), randMult(), randDur(), 2+r.Intn(14))
	}
}

func main() {
	c := vh.New()
	switch *pass {
	case "pure":
		purePass(c)
	case "e2e":
		e2ePass(c)
	default:
		c.Note("unknown pass " + *pass)
	}
	c.Finish()
}
