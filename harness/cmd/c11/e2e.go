package main

import (
	"fmt"
	"math"
	"strings"
	"time"

	"github.com/arloliu/go-secs/v2/hsms"

	"verifharness/cmd/c10/lc"
	"verifharness/vh"
)

const upSlack = 2 * time.Second

var nonRecoveries int

func roleName(active bool) string {
	if active {
		return "active"
	}
	return "passive"
}

// scenario is one e2e run: plans for the first transport connections, then normal peers.
type scenario struct {
	tag    string
	active bool
	e4     bool // SECS-I transport against the E4-speaking peer
	equip  bool // SECS-I role of the library end
	cfg    lc.Cfg
	plans  []lc.Plan // plan of connection attempt i; beyond the slice: Normal
	// expectations
	wantDrops bool // the first generation is expected to be lost involuntarily
	poke      bool // while the scripted failures last, call Open again and again (must be ErrAlreadyOpen, must not disturb the loop)
	tightFirst bool // the first generation lives only milliseconds: the gap to the first re-dial is (nearly) the first wait, so its upper bound applies too
	// live reconfiguration while the loop is retrying: when the liveAt-th dial has been invoked,
	// UpdateConfigOptions(liveOpt); separations after that dial are judged by postUpper (+1 s) / postLower
	liveAt    int
	liveOpt   hsms.ConnOption
	postUpper time.Duration
	postLower func(i int) time.Duration
	body      int  // >0: the driver's data primaries carry an ASCII body of this many characters
	quiet     bool // send nothing until the scripted generations are gone (a link that shows life is never dropped by linktest)
}

// keepConnecting makes peers dial a passive library until stop is closed.
func keepConnecting(r *lc.Rig, stop chan struct{}) {
	for {
		select {
		case <-stop:
			return
		default:
		}
		r.PeerConnect(5 * time.Millisecond)
		time.Sleep(time.Millisecond)
	}
}

// runScenario opens, drives traffic until a round trip succeeds on a generation that uses a Normal
// plan (i.e. after every scripted failure has been consumed), judges, closes and judges again.
func runScenario(c *vh.Ctx, sc scenario) {
	if nonRecoveries >= 12 {
		// the library does not reconnect at all: the verdict is clear, do not spend the whole budget
		c.Count("e2e/skipped-after-12-non-recoveries")
		return
	}
	planFn := func(n int) lc.Plan {
		if n < 0 {
			return lc.Plan{}
		}
		if n < len(sc.plans) {
			return sc.plans[n]
		}
		return lc.Normal()
	}
	var r *lc.Rig
	var err error
	if sc.e4 {
		r, err = lc.NewSecs1E4(sc.active, sc.equip, sc.cfg, planFn)
	} else {
		r, err = lc.New(sc.active, sc.cfg, planFn)
	}
	if err != nil {
		c.Fail("C11: cannot build a connection", sc.tag+": "+err.Error())
		return
	}
	desc := func() string {
		if sc.e4 {
			if sc.equip {
				return sc.tag + " secs1-equipment-" + roleName(sc.active)
			}
			return sc.tag + " secs1-host-" + roleName(sc.active)
		}
		return sc.tag + " " + roleName(sc.active)
	}
	stop := make(chan struct{})
	if !sc.active {
		go keepConnecting(r, stop)
	}
	if o := r.Open(false, 3*time.Second); o.Class != "ok" {
		// an active first dial that is refused under OpenBackground is retried in the background: ok
		c.Fail("C11: Open(background) failed", desc()+": "+o.Class)
		close(stop)
		return
	}
	// drive: keep trying a round trip until one succeeds AFTER all scripted plans were consumed
	// 8 s to recover; once several scenarios have failed to recover the window shrinks so that a
	// library that never reconnects does not cost 8 s per scenario
	recoverWindow := 8 * time.Second
	if nonRecoveries >= 4 {
		recoverWindow = 1500 * time.Millisecond
	}
	deadline := time.Now().Add(recoverWindow)
	recovered := false
	pokes := 0
	shrinkDone := false
	for time.Now().Before(deadline) {
		inScript := !(r.Dials() > len(sc.plans) && scriptedGone(r, len(sc.plans)))
		if sc.liveAt > 0 && !shrinkDone && r.Dials() >= sc.liveAt {
			shrinkDone = true
			if err := r.Conn.UpdateConfigOptions(sc.liveOpt); err != nil {
				c.Fail("C11: UpdateConfigOptions failed", desc()+": "+err.Error())
			}
		}
		if sc.poke && inScript && r.Dials() >= 2 {
			// a reconnect loop is in flight (at least one re-dial has been refused): an "ensure open" call
			if o := r.Open(pokes%2 == 0, 50*time.Millisecond); o.Class != "already" {
				c.Fail("C11: Open on an open, reconnecting connection did not return ErrAlreadyOpen", desc()+": "+o.Class)
			}
			pokes++
			time.Sleep(2 * time.Millisecond)
			continue
		}
		if sc.quiet && inScript {
			time.Sleep(time.Millisecond)
			continue
		}
		var ok bool
		var serr error
		var pn any
		if sc.body > 0 {
			ok, serr = r.SendRoundTripItem(sc.cfg.T3, sc.body)
		} else {
			ok, serr, pn = r.SendRoundTrip(sc.cfg.T3)
		}
		if pn != nil {
			c.Fail("C11: SendDataMessage panicked", desc())
			break
		}
		if serr == lc.ErrSendHung {
			c.Fail("C11: a send on a connection whose link was lost blocked beyond its context (the loss was never reported)",
				fmt.Sprintf("%s state=%v reconnects=%d", desc(), r.Conn.State(), r.Conn.Metrics().Reconnects()))
			break
		}
		// recovered = a round trip succeeded while every scripted (failing) generation is gone and
		// all scripted plans have been consumed, i.e. on a generation served by a Normal peer
		if ok && servedByFresh(r, len(sc.plans)) && scriptedGone(r, len(sc.plans)) {
			recovered = true
			break
		}
		if ok && !sc.wantDrops {
			recovered = true
			break
		}
		time.Sleep(time.Millisecond)
	}
	if !recovered {
		nonRecoveries++
		c.Fail("C11: no working Selected session after the link failures (no successful round trip on a fresh generation within 8 s)",
			fmt.Sprintf("%s plans=%d dials=%d state=%v", desc(), len(sc.plans), r.Dials(), r.Conn.State()))
	} else if st := r.Conn.State(); st != hsms.SelectedState {
		time.Sleep(20 * time.Millisecond)
		c.Fail("C11: round trip succeeded but State() is not Selected", fmt.Sprintf("%s state=%v later=%v dials=%d", desc(), st, r.Conn.State(), r.Dials()))
	}
	// Reconnects() = successful re-establishments: every transport connection that came up after the
	// first one that came up (active: successful dials; passive: successful listens). When Open's own
	// first dial fails under OpenBackground, the first success is made by the non-counting cold-start
	// loop, so the formula is the same: successes - 1.
	evs := r.Events()
	ups, firstUp := int64(0), false
	for _, e := range evs {
		if e.K == "D" && (e.Res == "ok" || e.Res == "listen" || e.Res == "hanglive") {
			if firstUp {
				ups++
			}
			firstUp = true
		}
	}
	// the counter is incremented right after Start returns: give the loop a moment, then compare
	metric := r.Conn.Metrics().Reconnects()
	for i := 0; i < 200 && int64(metric) < ups; i++ {
		time.Sleep(time.Millisecond)
		metric = r.Conn.Metrics().Reconnects()
	}
	if int64(metric) != ups {
		c.Fail("C11: Reconnects() differs from the number of successful re-dials", fmt.Sprintf("%s metric=%d redials=%d", desc(), metric, ups))
	}
	if sc.poke && pokes == 0 {
		c.Fail("C11: harness: no Open call landed while the reconnect loop was in flight", desc())
	}
	if sc.poke {
		c.Count(fmt.Sprintf("e2e/pokes-while-reconnecting>=%d", min(pokes, 3)))
	}
	// a peer that went silent mid-frame must be detected by T8: the next dial follows within T8 + backoff + slack
	for _, e := range evs {
		if e.K != "Z" {
			continue
		}
		next := time.Time{}
		for _, d := range evs {
			if d.K == "D" && d.Seq > e.Seq {
				next = d.T
				break
			}
		}
		if next.IsZero() {
			c.Fail("C11: no re-dial after the peer went silent inside a frame (T8)", fmt.Sprintf("%s stalled_after_bytes=%d", desc(), e.N[0]))
		} else if lim := sc.cfg.T8 + sc.cfg.BackoffInit + upSlack; next.Sub(e.T) > lim {
			c.Fail("C11: re-dial after a mid-frame stall later than T8 + backoff + slack", fmt.Sprintf("%s stalled_after_bytes=%d gap_ms=%d", desc(), e.N[0], next.Sub(e.T).Milliseconds()))
		} else if next.Sub(e.T) < sc.cfg.T8 {
			c.Fail("C11: re-dial earlier than T8 after a mid-frame stall", fmt.Sprintf("%s stalled_after_bytes=%d gap_ns=%d", desc(), e.N[0], next.Sub(e.T)))
		}
	}
	// a peer that stopped READING (link open): the next local frame's write must time out and drop the
	// link — within the linktest interval (if that is what writes next) + writeTimeout + backoff + slack
	for _, e := range evs {
		if e.K != "W" {
			continue
		}
		next := time.Time{}
		for _, d := range evs {
			if d.K == "D" && d.Seq > e.Seq {
				next = d.T
				break
			}
		}
		if next.IsZero() {
			c.Fail("C11: no re-dial after the peer stopped reading (write timeout)", fmt.Sprintf("%s deaf_after_frames=%d", desc(), e.N[0]))
		} else if lim := sc.cfg.Linktest + sc.cfg.T3 + sc.cfg.WriteTimeout + sc.cfg.BackoffInit + upSlack; next.Sub(e.T) > lim {
			c.Fail("C11: re-dial after a write-side stall later than writeTimeout + slack", fmt.Sprintf("%s gap_ms=%d", desc(), next.Sub(e.T).Milliseconds()))
		}
	}
	checkGaps(c, r, sc, evs)
	close(stop)
	res := r.Close()
	if !res.Calm || res.Goroutines != 0 || res.OpenConns != 0 || res.Loops != 0 || res.State != hsms.NotConnectedState {
		c.Fail("C11: connection not clean after Close", fmt.Sprintf("%s calm=%v gor=%d handles=%d loops=%d", desc(), res.Calm, res.Goroutines, res.OpenConns, res.Loops))
	}
	nd := r.Dials()
	time.Sleep(sc.cfg.T5 + 5*time.Millisecond)
	if !sc.active {
		// a passive rig's "dials" are peer connections the harness itself makes; count listens instead
	} else if r.Dials() != nd {
		c.Fail("C11: dial after Close", desc())
	}
	r.Shutdown()
	toks := lc.Tokens(r.Events())
	toks += fmt.Sprintf(" RC %d %d", metric, ups)
	line := "E " + desc() + " | " + toks
	c.Case(line, line, true)
	tr := ""
	if sc.e4 {
		tr = "secs1-"
	}
	c.Count("e2e/" + strings.SplitN(sc.tag, ":", 2)[0] + "/" + tr + roleName(sc.active))
}

// servedByFresh: a data primary reached (and was answered by) a peer beyond the scripted plans.
func servedByFresh(r *lc.Rig, n int) bool {
	for _, p := range r.Peers() {
		if p.N >= n && p.DataSeen.Load() > 0 {
			return true
		}
	}
	return false
}

// scriptedGone: every peer that served one of the first n (scripted) plans has closed its end.
func scriptedGone(r *lc.Rig, n int) bool {
	for _, p := range r.Peers() {
		if p.N < n && p.ClosedAt().IsZero() {
			return false
		}
	}
	return true
}

// checkGaps: dial timestamps against the backoff sleeps computed with the REAL nextBackoffDelay.
// A reconnect loop starts at each involuntary drop ("X" logged by the peer, or a timer expiry the
// harness cannot timestamp); inside one loop consecutive dial attempts are separated by at least
// the k-th sleep. Lower bounds are exact (a timer cannot fire early); upper bounds have slack.
func checkGaps(c *vh.Ctx, r *lc.Rig, sc scenario, evs []lc.Ev) {
	if !sc.active {
		return
	}
	sleeps := sleepsOf(int64(sc.cfg.BackoffInit), sc.cfg.BackoffMult, int64(sc.cfg.T5), 64)
	var dials []lc.Ev
	for _, e := range evs {
		if e.K == "D" {
			dials = append(dials, e)
		}
	}
	// Within one loop the j-th dial attempt is preceded by sleep_j. A new loop begins after a dial
	// that succeeded (the link it made was dropped later) and after Open's own failed first dial
	// (background cold start); a failed dial i>0 continues the loop it belongs to.
	k := 0 // index of the sleep that precedes the NEXT dial
	var gaps []string
	var lo []string
	prevGap := time.Duration(-1)
	shrunk := false
	for i := 0; i+1 < len(dials); i++ {
		failed := dials[i].Res == "refused" || dials[i].Res == "hang"
		if i == 0 || !failed {
			k = 0
			prevGap = -1
		}
		if sc.liveAt > 0 && i >= sc.liveAt-1 {
			// the reconfiguration lands while the wait before dial liveAt is in progress (or is just being
			// computed): that one separation is indeterminate; the later ones obey the NEW configuration
			shrunk = true
			if i >= sc.liveAt {
				g := dials[i+1].T.Sub(dials[i].T)
				if sc.postUpper > 0 && g > sc.postUpper+time.Second {
					c.Fail("C11: a live configuration change is ignored by the running reconnect loop (separation exceeds the NEW T5)",
						fmt.Sprintf("%s dial %d->%d gap_ms=%d new_T5_ms=%d", sc.tag, i, i+1, g.Milliseconds(), sc.postUpper.Milliseconds()))
				}
				if sc.postLower != nil && g < sc.postLower(i) {
					c.Fail("C11: a live configuration change is ignored by the running reconnect loop (separation shorter than the NEW backoff)",
						fmt.Sprintf("%s dial %d->%d gap_ns=%d want_ns>=%d", sc.tag, i, i+1, g, sc.postLower(i)))
				}
			}
		}
		gap := dials[i+1].T.Sub(dials[i].T)
		want := time.Duration(sleeps[k])
		ceil := sc.cfg.T5 // the largest T5 in effect during the scenario
		if !shrunk && gap < want {
			c.Fail("C11: re-dial earlier than the backoff delay", fmt.Sprintf("%s dial %d->%d sleep_index=%d gap_ns=%d want_ns>=%d", sc.tag, i, i+1, k, gap, want))
		}
		tight := failed || (sc.tightFirst && i == 0) || (sc.tightFirst && !failed)
		if tight && !shrunk && gap > want+upSlack+lc.HangCap {
			c.Fail("C11: re-dial later than the backoff delay plus slack", fmt.Sprintf("%s dial %d->%d sleep_index=%d gap_ms=%d want_ms=%d", sc.tag, i, i+1, k, gap.Milliseconds(), want.Milliseconds()))
		}
		if tight && !shrunk && gap > ceil+upSlack+lc.HangCap {
			c.Fail("C11: separation between connect attempts exceeds T5 (plus slack)", fmt.Sprintf("%s dial %d->%d gap_ms=%d T5_ms=%d", sc.tag, i, i+1, gap.Milliseconds(), ceil.Milliseconds()))
		}
		if tight && prevGap >= 0 && sc.liveAt == 0 && gap+upSlack < prevGap {
			c.Fail("C11: separation between connect attempts decreased (beyond slack)", fmt.Sprintf("%s dial %d->%d gap_ms=%d previous_ms=%d", sc.tag, i, i+1, gap.Milliseconds(), prevGap.Milliseconds()))
		}
		if tight {
			prevGap = gap
		}
		up := "0" // 1: the upper bound applies too (the gap contains nothing but the sleep and a failed / short-lived dial)
		if tight && !shrunk {
			up = "1"
		}
		if !shrunk {
			gaps = append(gaps, fmt.Sprint(int64(gap))+" "+up)
			lo = append(lo, fmt.Sprint(k))
		}
		if k+1 < len(sleeps) {
			k++
		}
	}
	if len(gaps) > 0 {
		// G <init> <multbits> <t5> <n> | {<sleep index> <gap_ns> <upper?>}*   (model: gap >= Backoff sleep of that index)
		var sb strings.Builder
		for i := range gaps {
			sb.WriteString(lo[i] + " " + gaps[i] + " ")
		}
		line := vh.Join("G", fmt.Sprint(int64(sc.cfg.BackoffInit)), fmt.Sprint(math.Float64bits(sc.cfg.BackoffMult)), fmt.Sprint(int64(sc.cfg.T5)),
			fmt.Sprint(len(gaps)), "|", strings.TrimSpace(sb.String()))
		c.Case(line, line, true)
	}
}

func e2eCfg() lc.Cfg {
	cfg := lc.DefaultCfg()
	cfg.T3 = 120 * time.Millisecond
	cfg.T5 = 30 * time.Millisecond
	cfg.T6 = 60 * time.Millisecond
	cfg.T7 = 80 * time.Millisecond
	cfg.T8 = 40 * time.Millisecond
	cfg.BackoffInit = 4 * time.Millisecond
	cfg.BackoffMult = 2
	cfg.Linktest = 8 * time.Millisecond
	cfg.LinktestThreshold = 1
	cfg.WriteTimeout = 80 * time.Millisecond
	return cfg
}

func e2ePass(c *vh.Ctx) {
	thorough := c.Tier == "thorough"
	// --- A/B: cut at every byte offset of select + data + linktest, both directions, both roles ---
	const span = 44 // 3 frames of 14 bytes + 2
	for _, active := range []bool{true, false} {
		step := 1
		if !active && !thorough {
			step = 3
		}
		for off := 0; off < span; off += step {
			for _, dir := range []string{"out", "in"} {
				p := lc.Normal()
				if dir == "out" {
					p.CutOut = off
				} else {
					p.CutIn = off
				}
				runScenario(c, scenario{tag: fmt.Sprintf("cut:%s@%d", dir, off), active: active, cfg: e2eCfg(), plans: []lc.Plan{p}, wantDrops: true})
			}
		}
	}
	// --- C: stalls covered by a timer, rejects ---
	mk := func(f func(p *lc.Plan)) lc.Plan { p := lc.Normal(); f(&p); return p }
	for _, active := range []bool{true, false} {
		stalls := map[string]lc.Plan{
			"mute-select(T6/T7)":  mk(func(p *lc.Plan) { p.MuteSelect = true }),
			"mute-linktest":       mk(func(p *lc.Plan) { p.MuteLinktest = true }),
			"stop-reading(write)": mk(func(p *lc.Plan) { p.StopReading = true }),
			"drop-after-5ms":      mk(func(p *lc.Plan) { p.DropAfter = 5 * time.Millisecond }),
		}
		if active {
			stalls["select-rejected"] = mk(func(p *lc.Plan) { p.SelectStatus = 2 })
		}
		for _, name := range vh.SortedKeys(map[string]int{"mute-select(T6/T7)": 0, "mute-linktest": 0, "stop-reading(write)": 0, "drop-after-5ms": 0, "select-rejected": 0}) {
			p, ok := stalls[name]
			if !ok {
				continue
			}
			quiet := name == "mute-linktest"
			runScenario(c, scenario{tag: "stall:" + name, active: active, cfg: e2eCfg(), plans: []lc.Plan{p}, wantDrops: true, quiet: quiet})
			if thorough {
				runScenario(c, scenario{tag: "stall2:" + name, active: active, cfg: e2eCfg(), plans: []lc.Plan{p, p}, wantDrops: true, quiet: quiet})
			}
		}
	}
	// --- C1b: active role: the peer answers our Select.req with each non-zero select-status and then
	// stays silent with the link open. Status 1 (Communication Already Active) is deliberately not a
	// drop for the select procedure: while still NotSelected the T7 dwell timer is the backstop and must
	// drop the link; statuses >= 2 drop at once. Either way the connection re-dials and reaches
	// Selected with the healthy next peer (bound: T7 + backoff + slack, inside the recovery window).
	for _, st := range []byte{1, 2, 3, 255} {
		cfg := e2eCfg()
		cfg.Linktest = 0
		p := lc.Normal()
		p.SelectStatus = st
		t0 := time.Now()
		runScenario(c, scenario{tag: fmt.Sprintf("selstatus:%d", st), active: true, cfg: cfg, plans: []lc.Plan{p}, wantDrops: true, quiet: true})
		if el := time.Since(t0); el > cfg.T7+cfg.T6+cfg.BackoffInit+upSlack+time.Second {
			c.Fail("C11: recovery after a non-zero select-status took longer than T7 + backoff + slack", fmt.Sprintf("selstatus:%d elapsed_ms=%d", st, el.Milliseconds()))
		}
	}
	// --- C2: the peer goes SILENT (no close) at every byte offset inside an inbound data frame; no
	// linktest, so only T8 covers it ---
	for _, active := range []bool{true, false} {
		body := []byte{0x41, 0x03, 'a', 'b', 'c'} // <A "abc">
		for off := 1; off < 14+len(body); off++ {
			cfg := e2eCfg()
			cfg.Linktest = 0
			cfg.T8 = 25 * time.Millisecond
			cfg.T3 = 60 * time.Millisecond
			p := lc.Normal()
			p.ReplyBody = body
			p.StallIn = 14 + off // 14 = the select frame the peer wrote first (Select.rsp / Select.req)
			runScenario(c, scenario{tag: fmt.Sprintf("t8stall:in@%d", off), active: active, cfg: cfg, plans: []lc.Plan{p}, wantDrops: true})
		}
	}
	// --- C2b: WRITE-side stalls: the peer completes Select (and k further exchanges), then stops
	// READING while the link stays open; the next local frame is, in turn, a Linktest.req (auto
	// linktest, quiet driver), a header-only data primary, a data primary with a body, and — peer
	// that never reads at all — the library's Select.req / Select.rsp. Only the write timeout covers it.
	for _, active := range []bool{true, false} {
		for _, kind := range []string{"linktest", "data-header-only", "data-body", "select"} {
			for _, after := range []int{1, 3} {
				cfg := e2eCfg()
				cfg.WriteTimeout = 60 * time.Millisecond
				p := lc.Normal()
				sc := scenario{active: active, cfg: cfg, wantDrops: true}
				switch kind {
				case "linktest":
					sc.cfg.Linktest = 10 * time.Millisecond
					sc.quiet = true
					p.StopReadingAfter = after
				case "data-header-only":
					sc.cfg.Linktest = 0
					p.StopReadingAfter = after
				case "data-body":
					sc.cfg.Linktest = 0
					sc.body = 40
					p.StopReadingAfter = after
				case "select":
					if after != 1 {
						continue
					}
					sc.cfg.Linktest = 0
					p.NoRead = true
				}
				if !active && kind != "select" {
					// passive: frame 1 read by the peer is the library's Select.rsp
					p.StopReadingAfter = after
				}
				sc.tag = fmt.Sprintf("wstall:%s/after%d", kind, after)
				sc.plans = []lc.Plan{p}
				runScenario(c, sc)
			}
		}
	}
	// --- C3: "ensure open" calls while a reconnect loop is in flight (after a drop with the peer
	// unreachable, and on the cold-peer path): ErrAlreadyOpen, and the loop keeps going ---
	for _, cold := range []bool{false, true} {
		cfg := e2eCfg()
		cfg.BackoffInit, cfg.BackoffMult, cfg.T5 = 5*time.Millisecond, 1, 5*time.Millisecond
		var plans []lc.Plan
		if !cold {
			plans = append(plans, mk(func(p *lc.Plan) { p.DropAfter = 3 * time.Millisecond }))
		}
		for i := 0; i < 12; i++ {
			plans = append(plans, lc.Refused())
		}
		tag := "poke:after-drop"
		if cold {
			tag = "poke:cold-peer"
		}
		runScenario(c, scenario{tag: tag, active: true, cfg: cfg, plans: plans, wantDrops: true, poke: true, quiet: true})
	}
	// --- C4: SECS-I: the link dies at EVERY position of the E4 line protocol — in the exchange the
	// library initiates (O1..O6) and in the one the peer initiates (P1..P5) — both ways a pipe can die
	// (the peer closes; the library's own end is closed underneath it), active/passive x equipment/host.
	// This is the correspondence for the model's single abstraction "the transport reports the loss of
	// the link on any I/O error" (LcRecvExit true / LcSpuriousDown).
	for _, active := range []bool{true, false} {
		for _, equip := range []bool{true, false} {
			for _, under := range []bool{false, true} {
				for si, st := range lc.E4Stages {
					if !thorough && !active && under && si%2 == 1 {
						continue // quick: thin out one of the eight combinations
					}
					cfg := e2eCfg()
					cfg.Linktest = 0
					p := lc.Normal()
					p.E4Cut, p.E4Under = st, under
					how := "peer-closes"
					if under {
						how = "closed-underneath"
					}
					runScenario(c, scenario{tag: fmt.Sprintf("e4cut:%s/%s", st, how), active: active, e4: true, equip: equip, cfg: cfg,
						plans: []lc.Plan{p}, wantDrops: true})
				}
			}
		}
	}
	// --- D: runs of k failed dials under several backoff configurations (active) ---
	type bo struct {
		init, t5 time.Duration
		mult     float64
	}
	bos := []bo{{3 * time.Millisecond, 20 * time.Millisecond, 2}, {10 * time.Millisecond, 10 * time.Millisecond, 1},
		{2 * time.Millisecond, 50 * time.Millisecond, 1.5}, {30 * time.Millisecond, 10 * time.Millisecond, 2}, {time.Millisecond, 8 * time.Millisecond, 3},
		// initial ABOVE T5 by more than the slack (nothing validates initial <= T5): every wait is T5
		{4 * time.Second, 20 * time.Millisecond, 2}, {4 * time.Second, 20 * time.Millisecond, 1},
		// initial = T5 and just below it; a tiny T5 under the DEFAULT initial (100 ms)
		{20 * time.Millisecond, 20 * time.Millisecond, 2}, {19 * time.Millisecond, 20 * time.Millisecond, 2}, {19 * time.Millisecond, 20 * time.Millisecond, 1},
		{100 * time.Millisecond, 5 * time.Millisecond, 2}}
	ks := []int{1, 2, 3, 5, 8}
	if thorough {
		ks = []int{1, 2, 3, 4, 5, 6, 8, 12}
	}
	for bi, b := range bos {
		for _, k := range ks {
			if !thorough && (bi+k)%2 == 1 && !(bi >= 5 && (k == 1 || k == 3)) {
				continue
			}
			cfg := e2eCfg()
			cfg.BackoffInit, cfg.T5, cfg.BackoffMult = b.init, b.t5, b.mult
			plans := []lc.Plan{mk(func(p *lc.Plan) { p.DropAfter = 3 * time.Millisecond })}
			for i := 0; i < k; i++ {
				f := lc.Refused()
				if c.Rng.Intn(6) == 0 {
					f = lc.Hang()
					cfg.ConnectTimeout = 10 * time.Millisecond
				}
				plans = append(plans, f)
			}
			runScenario(c, scenario{tag: fmt.Sprintf("run:k=%d/cfg%d", k, bi), active: true, cfg: cfg, plans: plans, wantDrops: true, tightFirst: true})
		}
	}
	// cold start: the very first dial is refused under OpenBackground (loop without counting)
	for _, k := range []int{1, 3} {
		cfg := e2eCfg()
		var plans []lc.Plan
		for i := 0; i < k; i++ {
			plans = append(plans, lc.Refused())
		}
		runScenario(c, scenario{tag: fmt.Sprintf("cold:k=%d", k), active: true, cfg: cfg, plans: plans, wantDrops: true})
	}
	// cold start with initial far above T5: the very first background wait is T5, not the raw initial
	{
		cfg := e2eCfg()
		cfg.BackoffInit, cfg.T5, cfg.BackoffMult = 4*time.Second, 20*time.Millisecond, 2
		runScenario(c, scenario{tag: "cold:init>T5", active: true, cfg: cfg, plans: []lc.Plan{lc.Refused(), lc.Refused()}, wantDrops: true, tightFirst: true})
	}
	// live reconfiguration while the loop is retrying (the loop re-reads the configuration every
	// iteration): (a) T5 shrinks from 5 s to 20 ms after the waits have grown to 800 ms — every later
	// separation is <= 20 ms (+1 s), an ignored change would give 1600 ms; (b) T5 grows from 20 ms to
	// 5 s — later waits double again (exact lower bounds); (c) the multiplier changes from 1 to 3.
	{
		refused := func(n int) []lc.Plan {
			plans := []lc.Plan{mk(func(p *lc.Plan) { p.DropAfter = 3 * time.Millisecond })}
			for i := 0; i < n; i++ {
				plans = append(plans, lc.Refused())
			}
			return plans
		}
		cfg := e2eCfg()
		cfg.BackoffInit, cfg.T5, cfg.BackoffMult = 100*time.Millisecond, 5*time.Second, 2
		runScenario(c, scenario{tag: "run:live-T5-shrink", active: true, cfg: cfg, plans: refused(7), wantDrops: true, tightFirst: true, quiet: true,
			liveAt: 4, liveOpt: hsms.WithT5(20 * time.Millisecond), postUpper: 20 * time.Millisecond})
		cfg = e2eCfg()
		cfg.BackoffInit, cfg.T5, cfg.BackoffMult = 10*time.Millisecond, 20*time.Millisecond, 2
		runScenario(c, scenario{tag: "run:live-T5-grow", active: true, cfg: cfg, plans: refused(7), wantDrops: true, tightFirst: true, quiet: true,
			liveAt: 3, liveOpt: hsms.WithT5(5 * time.Second),
			postLower: func(i int) time.Duration { return 20 * time.Millisecond << uint(i-3) }}) // i=4: 40 ms, 5: 80 ms, 6: 160 ms
		cfg = e2eCfg()
		cfg.BackoffInit, cfg.T5, cfg.BackoffMult = 10*time.Millisecond, 5*time.Second, 1
		runScenario(c, scenario{tag: "run:live-multiplier", active: true, cfg: cfg, plans: refused(7), wantDrops: true, tightFirst: true, quiet: true,
			liveAt: 3, liveOpt: hsms.WithReconnectBackoff(10*time.Millisecond, 3),
			postLower: func(i int) time.Duration { // i=4: 10 ms, 5: 30 ms, 6: 90 ms
				d := 10 * time.Millisecond
				for k := 4; k < i; k++ {
					d *= 3
				}
				return d
			}})
	}
	// --- E: Close during the backoff sleep: returns promptly and nothing dials afterwards ---
	for _, active := range []bool{true} {
		cfg := e2eCfg()
		cfg.BackoffInit, cfg.T5 = 400*time.Millisecond, 400*time.Millisecond
		r, err := lc.New(active, cfg, func(n int) lc.Plan {
			p := lc.Normal()
			if n == 0 {
				p.DropAfter = 3 * time.Millisecond
			}
			return p
		})
		if err != nil {
			continue
		}
		r.Open(false, time.Second)
		time.Sleep(30 * time.Millisecond) // the loop is now inside its 400 ms sleep
		t0 := time.Now()
		res := r.Close()
		if time.Since(t0) > 300*time.Millisecond {
			c.Fail("C11: Close waited out the reconnect backoff", fmt.Sprintf("sleep:%s elapsed_ms=%d", roleName(active), time.Since(t0).Milliseconds()))
		}
		nd := r.Dials()
		time.Sleep(450 * time.Millisecond)
		if r.Dials() != nd || res.Goroutines != 0 {
			c.Fail("C11: reconnect attempted after Close", fmt.Sprintf("sleep:%s dials %d -> %d gor=%d", roleName(active), nd, r.Dials(), res.Goroutines))
		}
		r.Shutdown()
		line := "E sleep " + roleName(active) + " | " + lc.Tokens(r.Events())
		c.Case(line, line, true)
		c.Count("e2e/close-during-backoff")
	}
}
