// Harness for C04. Passes:
//
//	decode : the four decode entry points on arbitrary bytes (X lines, with recover: a panic is an
//	         observation), and the shared lazy body-decode cell on accepted data frames (K lines).
//	reader : the REAL readFrame (hook) over a simulated net.Conn with virtual time, driven by timed
//	         segment scripts (S lines): allocations, frames and the terminal error are recorded.
//	e2e    : a real hsmsss connection fed by a scripted raw peer over net.Pipe with random
//	         segmentation in real time (implementation-level oracle only).
package main

import (
	"bytes"
	"encoding/binary"
	"flag"
	"fmt"
	"strings"
	"time"

	"github.com/arloliu/go-secs/v2/hsms"
	"github.com/arloliu/go-secs/v2/secs2"

	"verifharness/fr"
	"verifharness/vh"
)

var pass = flag.String("pass", "decode", "decode | reader | e2e")

func main() {
	c := vh.New()
	switch *pass {
	case "decode":
		decodePass(c)
	case "reader":
		readerPass(c)
	case "e2e":
		e2ePass(c)
	case "stall": // development aid: loop the e2eStall scenario (local writes on every other link)
		for li := 0; li < c.N; li++ {
			li := li
			confirmed(c, func(t8 time.Duration, fail func(what, kase string)) {
				e2eStall(c, 4+6*(li/2)+li%2, t8, li%2 == 0, fail)
			})
		}
	default:
		panic("unknown pass")
	}
	c.Finish()
}

// ---------------------------------------------------------------------------------------------
// decode pass

func guarded(f func() (hsms.Message, error)) (m hsms.Message, err error, panicked bool) {
	defer func() {
		if r := recover(); r != nil {
			panicked = true
		}
	}()
	m, err = f()
	return
}

func renderGuarded(f func() (hsms.Message, error)) (string, hsms.Message) {
	m, err, p := guarded(f)
	if p {
		return "PANIC", nil
	}
	return fr.RenderDecode(m, err), m
}

// wellFormed is the property's definition, written independently of the library.
func wellFormedPayload(p []byte, cap int) bool {
	if len(p) < 10 || len(p) > cap {
		return false
	}
	if p[4] != 0 {
		return false
	}
	switch p[5] {
	case 0, 1, 2, 3, 4, 5, 6, 7, 9:
		return true
	}
	return false
}

func wellFormedFrame(b []byte, cap int) bool {
	if len(b) < 4 {
		return false
	}
	n := binary.BigEndian.Uint32(b[:4])
	if uint64(n) != uint64(len(b)-4) {
		return false
	}
	return wellFormedPayload(b[4:], cap)
}

func clip(s string) string {
	if len(s) > 80 {
		return s[:80] + "..."
	}
	return s
}

func runDecode(c *vh.Ctx, b []byte, tag string) *hsms.DataMessage {
	cap := hsms.VerifFrameCap()
	in := append([]byte(nil), b...)
	rm, m := renderGuarded(func() (hsms.Message, error) { return hsms.DecodeHSMSMessage(in) })
	rp, mp := renderGuarded(func() (hsms.Message, error) { return hsms.DecodeHSMSPayload(in) })
	own1 := append([]byte(nil), b...)
	ro, _ := renderGuarded(func() (hsms.Message, error) { return hsms.DecodeOwnedHSMSPayload(own1) })
	own2 := append([]byte(nil), b...)
	rv, _ := renderGuarded(func() (hsms.Message, error) { return hsms.VerifFrameDecodeOwned(own2) })
	// the fifth entry point: DataMessageCodec.UnmarshalBinary (a length-prefixed frame, data
	// messages only) — on a zero-value codec and on a codec that already wraps a message
	renderCodec := func(cd *hsms.DataMessageCodec) string {
		prev := cd.Message
		in2 := append([]byte(nil), b...)
		var err error
		panicked := func() (p bool) {
			defer func() {
				if recover() != nil {
					p = true
				}
			}()
			err = cd.UnmarshalBinary(in2)
			return false
		}()
		switch {
		case panicked:
			return "PANIC"
		case err == nil && cd.Message != nil && cd.Message != prev:
			return "OK " + fr.RenderMsg(cd.Message)
		case err == nil:
			return "OK-WITHOUT-MESSAGE"
		}
		if cd.Message != prev {
			return "E-BUT-MESSAGE-REPLACED"
		}
		if cl := fr.DecErr(err); cl != "B" || m == nil {
			return "E " + cl
		}
		return "E C" // the frame decodes, to a control message: refused by the data-message codec
	}
	rc := renderCodec(&hsms.DataMessageCodec{})
	wrapped := hsms.NewEmptyDataMessage().Codec()
	rc2 := renderCodec(wrapped)
	line := fmt.Sprintf("X %s | %s | %s | %s | %s | %s", fr.Hex(b), rm, rp, ro, rv, rc)
	c.Case(line, line, true)
	{
		want := rm // same acceptance and same message as DecodeHSMSMessage ...
		if m != nil {
			if _, isData := m.ToDataMessage(); !isData {
				want = "E C" // ... except that a control frame is not a data message
			}
		}
		if rc != want || rc2 != want {
			c.Fail(fmt.Sprintf("DataMessageCodec.UnmarshalBinary (zero codec: %s; codec wrapping a message: %s) disagrees with DecodeHSMSMessage (%s) on the same bytes",
				clip(rc), clip(rc2), clip(want)), line)
		}
	}
	c.Count("X/" + tag + "/msg=" + strings.Fields(rm)[0] + "/payload=" + strings.Fields(rp)[0])

	// ---- implementation-level oracle ----
	if rm == "PANIC" || rp == "PANIC" || ro == "PANIC" || rv == "PANIC" {
		c.Fail("a decode entry point panicked", line)
	}
	if !bytes.Equal(in, b) {
		c.Fail("a copying decode entry point modified its input", line)
	}
	if (m != nil) != wellFormedFrame(b, cap) {
		c.Fail(fmt.Sprintf("DecodeHSMSMessage acceptance (%v) differs from well-formedness (%v)", m != nil, wellFormedFrame(b, cap)), line)
	}
	if (mp != nil) != wellFormedPayload(b, cap) {
		c.Fail(fmt.Sprintf("DecodeHSMSPayload acceptance (%v) differs from well-formedness (%v)", mp != nil, wellFormedPayload(b, cap)), line)
	}
	if rp != ro {
		c.Fail("DecodeHSMSPayload and DecodeOwnedHSMSPayload disagree", line)
	}
	if m != nil {
		// the copy is owned: scribbling over the caller's buffer must not reach the message
		before := m.ToBytes()
		for i := range in {
			in[i] ^= 0xff
		}
		if !bytes.Equal(m.ToBytes(), before) {
			c.Fail("DecodeHSMSMessage result aliases the caller's buffer", line)
		}
		if dm, ok := m.ToDataMessage(); ok {
			if !bytes.Equal(before, b) {
				c.Fail("an accepted data frame does not re-serialise to itself", line)
			}
			return dm
		}
	}
	if mp != nil {
		if dm, ok := mp.ToDataMessage(); ok {
			if f := dm.ToBytes(); !bytes.Equal(f[4:], b) {
				c.Fail("an accepted data payload does not re-serialise to itself", line)
			}
			return dm
		}
	}
	return nil
}

// the shared decode cell: every holder, every call, the same outcome
func runCell(c *vh.Ctx, _ []byte, dm *hsms.DataMessage) {
	r := c.Rng
	frame := dm.ToBytes()
	body := frame[14:]
	_, refErr := secs2.Decode(append([]byte(nil), body...))
	refOK := refErr == nil
	holders := []*hsms.DataMessage{dm}
	n := 2 + r.Intn(8)
	ops := make([]string, 0, n)
	obs := make([]string, 0, n)
	var firstErr error
	var firstItem []byte
	seen := false
	for i := 0; i < n; i++ {
		h := r.Intn(len(holders))
		switch r.Intn(4) {
		case 0, 1:
			it, err := holders[h].Item()
			ops = append(ops, fmt.Sprintf("item:%d", h))
			obs = append(obs, vh.B01(err == nil))
			var ib []byte
			if err == nil && it != nil {
				ib = it.ToBytes()
			}
			if !seen {
				seen, firstErr, firstItem = true, err, ib
			} else {
				if fmt.Sprint(err) != fmt.Sprint(firstErr) {
					c.Fail("Item()/DecodeErr() of holders of one message report different errors", fr.Hex(frame))
				}
				if err == nil && !bytes.Equal(ib, firstItem) {
					c.Fail("Item() of holders of one message return different items", fr.Hex(frame))
				}
			}
		case 2:
			err := holders[h].DecodeErr()
			ops = append(ops, fmt.Sprintf("err:%d", h))
			obs = append(obs, vh.B01(err == nil))
			if !seen {
				seen, firstErr = true, err
				if err == nil {
					it, _ := holders[h].Item()
					if it != nil {
						firstItem = it.ToBytes()
					}
				}
			} else if fmt.Sprint(err) != fmt.Sprint(firstErr) {
				c.Fail("Item()/DecodeErr() of holders of one message report different errors", fr.Hex(frame))
			}
		default:
			var nh *hsms.DataMessage
			switch r.Intn(3) {
			case 0:
				v := uint16(r.Intn(65536))
				nh = holders[h].WithSessionID(v)
				ops = append(ops, fmt.Sprintf("stamp:%d:sid:%d", h, v))
			case 1:
				var sb [4]byte
				binary.BigEndian.PutUint32(sb[:], r.Uint32())
				nh = holders[h].WithSystemBytes(sb)
				ops = append(ops, fmt.Sprintf("stamp:%d:sys:%d,%d,%d,%d", h, sb[0], sb[1], sb[2], sb[3]))
			default:
				v := r.Uint32()
				nh = holders[h].WithID(v)
				ops = append(ops, fmt.Sprintf("stamp:%d:id:%d", h, v))
			}
			holders = append(holders, nh)
			obs = append(obs, "-")
		}
	}
	// the headers of all holders at the end (the model tracks them)
	hs := make([]string, len(holders))
	for i, h := range holders {
		hb := h.HeaderBytes()
		hs[i] = fr.Hex(hb[:])
		if !bytes.Equal(h.AppendBodyTo(nil), body) {
			c.Fail("a re-stamped holder does not share the body bytes", fr.Hex(frame))
		}
	}
	line := fmt.Sprintf("K %s %s %d %s | %s | %s", fr.Hex(frame), vh.B01(refOK), len(ops), strings.Join(ops, " "),
		strings.Join(obs, " "), strings.Join(hs, " "))
	c.Case(line, line, true)
	c.Count("K/bodyok=" + vh.B01(refOK))
	if seen && (firstErr == nil) != refOK {
		c.Fail("lazy body decode outcome differs from secs2.Decode of the same bytes", line)
	}
}

func dataFrame(r interface{ Intn(int) int }, c *vh.Ctx) []byte {
	rr := c.Rng
	var sb [4]byte
	binary.BigEndian.PutUint32(sb[:], rr.Uint32())
	fn := byte(rr.Intn(256))
	w := rr.Intn(2) == 0 && fn%2 == 1
	m, err := hsms.NewDataMessage(byte(rr.Intn(128)), fn, w, uint16(rr.Intn(65536)), sb, fr.RandItem(rr, 3))
	if err != nil {
		panic(err)
	}
	return m.ToBytes()
}

func ctrlFrame(c *vh.Ctx) []byte {
	r := c.Rng
	f := make([]byte, 14)
	f[3] = 10
	for i := 4; i < 14; i++ {
		f[i] = byte(r.Intn(256))
	}
	f[8] = 0
	f[9] = []byte{1, 2, 3, 4, 5, 6, 7, 9}[r.Intn(8)]
	return f
}

func mutate(c *vh.Ctx, f []byte) ([]byte, string) {
	r := c.Rng
	b := append([]byte(nil), f...)
	cap := uint32(hsms.VerifFrameCap())
	switch r.Intn(12) {
	case 0: // length field rewrite
		vals := []uint32{0, 1, 9, 10, 11, uint32(len(b) - 5), uint32(len(b) - 3), cap - 1, cap, cap + 1, 1 << 31, 1<<32 - 1, uint32(len(b))}
		binary.BigEndian.PutUint32(b[:4], vals[r.Intn(len(vals))])
		return b, "len"
	case 1:
		b[8] = byte(r.Intn(256))
		return b, "ptype"
	case 2:
		b[9] = byte(r.Intn(256))
		return b, "stype"
	case 3: // truncation
		return b[:r.Intn(len(b))], "trunc"
	case 4: // extension (with and without fixing the length)
		ext := make([]byte, 1+r.Intn(20))
		for i := range ext {
			ext[i] = byte(r.Intn(256))
		}
		b = append(b, ext...)
		if r.Intn(2) == 0 {
			binary.BigEndian.PutUint32(b[:4], uint32(len(b)-4))
			return b, "ext-fixed"
		}
		return b, "ext"
	case 5: // corrupt the body (frame-level acceptance must not care)
		if len(b) > 14 {
			for k := 0; k < 1+r.Intn(3); k++ {
				b[14+r.Intn(len(b)-14)] = byte(r.Intn(256))
			}
		}
		return b, "body"
	case 6: // truncate the body but fix the length: undecodable body in a well-formed frame
		if len(b) > 15 {
			b = b[:14+r.Intn(len(b)-14)]
			binary.BigEndian.PutUint32(b[:4], uint32(len(b)-4))
		}
		return b, "body-trunc"
	case 8: // a second frame right behind the first (the length field covers only the first)
		var g []byte
		if r.Intn(2) == 0 {
			g = dataFrame(r, c)
		} else {
			g = ctrlFrame(c)
		}
		return append(b, g...), "concat"
	case 9: // 1..4 stray bytes behind a valid frame
		for k := 1 + r.Intn(4); k > 0; k-- {
			b = append(b, byte(r.Intn(256)))
		}
		return b, "stray"
	case 10: // the length field lowered / raised by 1..4 (still >= 10 when it can be)
		n := int64(binary.BigEndian.Uint32(b[:4])) + int64([]int{-4, -3, -2, -1, 1, 2, 3, 4}[r.Intn(8)])
		if n < 0 {
			n = 0
		}
		binary.BigEndian.PutUint32(b[:4], uint32(n))
		return b, "len+-k"
	case 7: // single random byte anywhere
		b[r.Intn(len(b))] = byte(r.Intn(256))
		return b, "byte"
	default:
		return b, "valid"
	}
}

// capOracle: the size cap itself, at every decode entry point, on frames of cap-4 .. cap+1 bytes of
// length field. Oracle only (a 16 MiB hex case line per frame would dwarf the case file; the model
// side of the cap is the bridged constant and the thorough tier's cap-sized case).
func capOracle(c *vh.Ctx) {
	cap := hsms.VerifFrameCap()
	for _, l := range []int{cap - 4, cap - 3, cap - 1, cap, cap + 1} {
		frame := make([]byte, 4+l)
		frame[0], frame[1], frame[2], frame[3] = byte(l>>24), byte(l>>16), byte(l>>8), byte(l)
		frame[6], frame[7] = 0x81, 0x01 // S1F1 W, PType 0, SType 0
		frame[13] = 1
		want := l <= cap
		tag := fmt.Sprintf("cap-edge length-field=%d (cap=%d)", l, cap)
		_, m := renderGuarded(func() (hsms.Message, error) { return hsms.DecodeHSMSMessage(frame) })
		_, mp := renderGuarded(func() (hsms.Message, error) { return hsms.DecodeHSMSPayload(frame[4:]) })
		own := append([]byte(nil), frame[4:]...)
		_, mo := renderGuarded(func() (hsms.Message, error) { return hsms.DecodeOwnedHSMSPayload(own) })
		c.Count(fmt.Sprintf("cap-edge/accepted=%v", m != nil))
		if (m != nil) != want {
			c.Fail(fmt.Sprintf("DecodeHSMSMessage acceptance (%v) at the size cap differs from well-formedness (%v)", m != nil, want), tag)
		}
		if (mp != nil) != want || (mo != nil) != want {
			c.Fail(fmt.Sprintf("payload decode acceptance (%v/%v) at the size cap differs from well-formedness (%v)", mp != nil, mo != nil, want), tag)
		}
	}
}

func decodePass(c *vh.Ctx) {
	capOracle(c)
	r := c.Rng
	// corpus: lengths 0..15, every SType x PType in {0,1,255}, control frames with a body
	for n := 0; n <= 15; n++ {
		b := make([]byte, n)
		if n >= 4 {
			binary.BigEndian.PutUint32(b[:4], uint32(n-4))
		}
		runDecode(c, b, "short")
	}
	for st := 0; st < 256; st++ {
		for _, pt := range []byte{0, 1, 255} {
			f := []byte{0, 0, 0, 10, 0x12, 0x34, 0x81, 0x07, pt, byte(st), 1, 2, 3, 4}
			runDecode(c, f, "stype")
			g := append(append([]byte(nil), f...), 0x41, 0x01, 0x61)
			g[3] = 13
			if dm := runDecode(c, g, "stype+body"); dm != nil && pt == 0 {
				runCell(c, g, dm)
			}
		}
	}
	for i := 0; i < c.N; i++ {
		var f []byte
		tag := ""
		switch k := r.Intn(10); {
		case k < 6:
			f, tag = mutate(c, dataFrame(r, c))
		case k < 8:
			f, tag = mutate(c, ctrlFrame(c))
			tag = "c-" + tag
		default:
			f = make([]byte, r.Intn(40))
			for j := range f {
				f[j] = byte(r.Intn(256))
			}
			if len(f) >= 4 && r.Intn(2) == 0 {
				binary.BigEndian.PutUint32(f[:4], uint32(len(f)-4))
			}
			tag = "random"
		}
		if len(f) >= 4 && r.Intn(3) == 0 { // payload-shaped input: no length prefix
			f, tag = f[4:], "p-"+tag
		}
		if dm := runDecode(c, f, tag); dm != nil {
			runCell(c, f, dm)
		}
	}
}
