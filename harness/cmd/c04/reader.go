package main

import (
	"context"
	"encoding/binary"
	"errors"
	"fmt"
	"io"
	"net"
	"os"
	"strings"
	"sync"
	"time"

	"github.com/arloliu/go-secs/v2/hsms"
	"github.com/arloliu/go-secs/v2/hsmsss"

	"verifharness/fr"
	"verifharness/vh"
)

// ---------------------------------------------------------------------------------------------
// simulated conn with virtual time

type seg struct {
	gap  time.Duration
	data []byte
}

var errBlockedForever = errors.New("sim: read blocked forever (idle, no deadline)")

// simConn plays a script of timed segments. Time is virtual: it advances only when a Read has to
// wait for the next segment (or for the deadline). A Read never returns bytes of two segments; a
// segment without bytes is a Read returning (0, nil).
type simConn struct {
	t0          time.Time
	now         time.Time // virtual clock
	lastArrival time.Time
	segs        []seg
	pending     []byte
	deadline    time.Time // zero = none
	eof         bool      // true: peer closes eofGap after the last segment; false: silence forever
	eofGap      time.Duration
	deadlines   int // SetReadDeadline calls with a non-zero time
	clears      int
	// behaviours a real net.Conn may show and the receive loop must be indifferent to:
	chop        []int // if non-empty: cap on the size of successive Reads (cycled)
	chopAt      int
	eofWithData bool // deliver the final bytes together with io.EOF when the peer closes at once
	sawEOF      bool
	// local frame writes (virtual times, ascending): while a Read is parked and the clock passes
	// one, onWrite performs the write-deadline bracket of the REAL transport on this conn
	writes  []time.Time
	onWrite func(c *simConn)
	fired   int

	emptyReads int
}

// settle fires the local writes that fall inside the wait of a parked Read (strictly before
// the instant the Read would wake: next arrival / close, or the read deadline).
func (c *simConn) settle() {
	for {
		for len(c.writes) > 0 && !c.writes[0].After(c.now) {
			c.writes = c.writes[1:] // between two Reads: the next Read re-arms its deadline anyway
		}
		if len(c.writes) == 0 || c.onWrite == nil {
			return
		}
		var wake time.Time // zero = never
		switch {
		case len(c.segs) > 0:
			wake = c.lastArrival.Add(c.segs[0].gap)
		case c.eof:
			wake = c.lastArrival.Add(c.eofGap)
		}
		if !c.deadline.IsZero() && (wake.IsZero() || c.deadline.Before(wake)) {
			wake = c.deadline
		}
		w := c.writes[0]
		if !wake.IsZero() && !w.Before(wake) {
			return
		}
		c.advance(w)
		c.writes = c.writes[1:]
		c.fired++
		c.onWrite(c)
	}
}

func (c *simConn) clock() time.Time { return c.now }

func (c *simConn) SetReadDeadline(t time.Time) error {
	c.deadline = t
	if t.IsZero() {
		c.clears++
	} else {
		c.deadlines++
	}
	return nil
}

func (c *simConn) advance(to time.Time) {
	if to.After(c.now) {
		c.now = to
	}
}

func (c *simConn) Read(p []byte) (int, error) {
	if len(p) == 0 {
		return 0, nil
	}
	if c.sawEOF {
		return 0, io.EOF
	}
	for len(c.pending) == 0 {
		c.settle()
		if len(c.segs) == 0 {
			if !c.eof {
				if !c.deadline.IsZero() {
					c.advance(c.deadline)
					return 0, os.ErrDeadlineExceeded
				}
				return 0, errBlockedForever
			}
			at := c.lastArrival.Add(c.eofGap)
			if !c.deadline.IsZero() && at.After(c.deadline) {
				c.advance(c.deadline)
				return 0, os.ErrDeadlineExceeded
			}
			c.advance(at)
			return 0, io.EOF
		}
		s := c.segs[0]
		at := c.lastArrival.Add(s.gap)
		if !c.deadline.IsZero() && at.After(c.deadline) {
			c.advance(c.deadline)
			return 0, os.ErrDeadlineExceeded
		}
		c.segs = c.segs[1:]
		c.lastArrival = at
		c.advance(at)
		if len(s.data) == 0 {
			// a Read that returns no byte and no error (net.Pipe hands a peer's zero-length
			// Write to the parked reader like this; wrapped conns may do it too)
			c.emptyReads++
			return 0, nil
		}
		c.pending = s.data
	}
	lim := len(p)
	if len(c.chop) > 0 {
		if k := c.chop[c.chopAt%len(c.chop)]; k < lim {
			lim = k
		}
		c.chopAt++
	}
	n := copy(p[:lim], c.pending)
	c.pending = c.pending[n:]
	if c.eofWithData && c.eof && c.eofGap == 0 && len(c.pending) == 0 && len(c.segs) == 0 {
		c.sawEOF = true
		return n, io.EOF
	}
	return n, nil
}

func (c *simConn) Write(p []byte) (int, error)      { return len(p), nil }
func (c *simConn) Close() error                     { return nil }
func (c *simConn) LocalAddr() net.Addr              { return nil }
func (c *simConn) RemoteAddr() net.Addr             { return nil }
func (c *simConn) SetDeadline(t time.Time) error    { return c.SetReadDeadline(t) }
func (c *simConn) SetWriteDeadline(time.Time) error { return nil }

// ---------------------------------------------------------------------------------------------
// scripts

const unit = time.Millisecond

type script struct {
	t8          int // in units
	segs        []seg
	eof         bool
	eofGap      int
	chop        []int
	eofWithData bool
	writes      []time.Duration // local frame writes, offsets from the start of the script
	// what the generator knows independently of the library:
	wantFrames [][]byte // frames that must be delivered
	wantEnd    string   // I | E | T | L
}

func (s script) lhs() string {
	var sb strings.Builder
	fmt.Fprintf(&sb, "S %d %d", s.t8, len(s.segs))
	for _, g := range s.segs {
		fmt.Fprintf(&sb, " %d %s", int64(g.gap/unit), fr.Hex(g.data))
	}
	if s.eof {
		fmt.Fprintf(&sb, " E%d", s.eofGap)
	} else {
		sb.WriteString(" Z")
	}
	return sb.String()
}

// genScript builds a stream of frames, cuts it at random points (also inside the length prefix)
// and assigns gaps: any duration at a frame boundary, <= T8 inside a frame unless a stall is
// planted. It computes the expected outcome from its own knowledge of the frame boundaries.
func genScript(c *vh.Ctx) script {
	r := c.Rng
	cap := hsms.VerifFrameCap()
	s := script{t8: 1 + r.Intn(20)}
	nf := r.Intn(5)
	var stream []byte
	boundary := map[int]bool{0: true}
	var frames [][]byte
	for i := 0; i < nf; i++ {
		n := 10 + r.Intn(30)
		if r.Intn(8) == 0 {
			n = 10
		}
		if r.Intn(20) == 0 {
			n = 300 + r.Intn(3000)
		}
		f := make([]byte, n)
		for j := range f {
			f[j] = byte(r.Intn(256))
		}
		frames = append(frames, f)
		stream = binary.BigEndian.AppendUint32(stream, uint32(n))
		stream = append(stream, f...)
		boundary[len(stream)] = true
	}
	// tail: nothing, a bad length, or a truncated frame
	tail := r.Intn(6)
	switch tail {
	case 0: // length below 10
		stream = binary.BigEndian.AppendUint32(stream, uint32(r.Intn(10)))
		stream = append(stream, make([]byte, r.Intn(6))...)
	case 1: // length above the cap
		v := []uint32{uint32(cap) + 1, uint32(cap) + 1 + uint32(r.Intn(1000)), 1 << 31, 1<<32 - 1, 0x01000000}[r.Intn(5)]
		stream = binary.BigEndian.AppendUint32(stream, v)
		stream = append(stream, make([]byte, r.Intn(6))...)
	case 2: // truncated frame
		n := 10 + r.Intn(30)
		part := make([]byte, 4+r.Intn(n))
		binary.BigEndian.PutUint32(part[:4], uint32(n))
		part = part[:1+r.Intn(len(part))]
		stream = append(stream, part...)
	}
	// cut
	cuts := []int{0}
	for p := 1; p < len(stream); p++ {
		if r.Intn(6) == 0 || (len(stream) < 40 && r.Intn(3) == 0) {
			cuts = append(cuts, p)
		}
	}
	stallAllowed := r.Intn(3) == 0
	stallAt := -1 // stream offset of the first in-frame gap > T8
	for i, p := range cuts {
		end := len(stream)
		if i+1 < len(cuts) {
			end = cuts[i+1]
		}
		var gap int
		if boundary[p] {
			switch r.Intn(3) {
			case 0:
				gap = 0
			case 1:
				gap = r.Intn(2 * s.t8)
			default:
				gap = s.t8 * (10 + r.Intn(100000)) // a long idle period
			}
		} else {
			gap = r.Intn(s.t8 + 1)
			if r.Intn(5) == 0 {
				gap = s.t8 // exactly T8 is not a timeout
			}
			if stallAllowed && stallAt < 0 && r.Intn(6) == 0 {
				gap = s.t8 + 1 + r.Intn(3*s.t8)
				stallAt = p
			}
		}
		s.segs = append(s.segs, seg{gap: time.Duration(gap) * unit, data: stream[p:end]})
	}
	if len(stream) == 0 {
		s.segs = nil
	}
	if r.Intn(2) == 0 {
		// Reads that return no byte, anywhere: before a frame, inside the length prefix, between
		// the prefix and the rest, mid-body, after the last frame, several in a row. Between
		// frames they come with gaps of any length (an idle wait must stay idle after them);
		// inside a frame mostly within T8 (they restart the T8 clock), sometimes beyond.
		var out []seg
		off := 0
		empties := func(at int) {
			if r.Intn(4) != 0 {
				return
			}
			for k := 1 + r.Intn(3); k > 0; k-- {
				var gap int
				if boundary[at] {
					gap = []int{0, r.Intn(2 * s.t8), s.t8 * (2 + r.Intn(1000))}[r.Intn(3)]
				} else {
					gap = r.Intn(s.t8 + 1)
					if r.Intn(8) == 0 {
						gap = s.t8 + 1 + r.Intn(2*s.t8)
					}
				}
				out = append(out, seg{gap: time.Duration(gap) * unit})
			}
		}
		for _, g := range s.segs {
			empties(off)
			if boundary[off] && len(out) > 0 && len(out[len(out)-1].data) == 0 && r.Intn(2) == 0 {
				g.gap = time.Duration(s.t8*(2+r.Intn(1000))) * unit // a long idle wait right after an empty Read
			}
			out = append(out, g)
			off += len(g.data)
		}
		empties(off)
		s.segs = out
	}
	s.eof = r.Intn(2) == 0
	atBoundary := boundary[len(stream)]
	if s.eof {
		if atBoundary || r.Intn(2) == 0 {
			s.eofGap = r.Intn(3 * s.t8)
		} else {
			s.eofGap = r.Intn(s.t8 + 1)
		}
	}
	if r.Intn(3) == 0 { // short reads
		s.chop = make([]int, 1+r.Intn(4))
		for i := range s.chop {
			s.chop[i] = 1 + r.Intn(7)
		}
	}
	s.eofWithData = r.Intn(3) == 0
	if r.Intn(2) == 0 { // local frame writes while the reader waits (must not disturb T8)
		var at time.Duration
		for _, g := range s.segs {
			if g.gap > 0 && r.Intn(2) == 0 {
				k := r.Int63n(int64(g.gap / unit))
				if k > int64(4*s.t8) {
					k = r.Int63n(int64(4*s.t8) + 1)
				}
				s.writes = append(s.writes, at+time.Duration(k)*unit+unit/2)
			}
			at += g.gap
		}
		if r.Intn(2) == 0 { // and after the last segment
			s.writes = append(s.writes, at+time.Duration(r.Intn(2*s.t8+1))*unit+unit/2)
		}
	}
	s.wantFrames, s.wantEnd = expect(s, cap)
	return s
}

// expect is the generator's own reading of the property on a script: bytes with arrival times,
// frames cut by the length prefix, a deadline of T8 after the previous byte once a frame has
// begun and none before. Written over an array of (byte, time), independent of the library.
func expect(s script, cap int) (frames [][]byte, end string) {
	type tb struct {
		b     byte
		at    int64
		empty bool // a Read that returned no byte
	}
	var all []tb
	t := int64(0)
	for _, g := range s.segs {
		t += int64(g.gap / unit)
		if len(g.data) == 0 {
			all = append(all, tb{at: t, empty: true})
		}
		for _, b := range g.data {
			all = append(all, tb{b: b, at: t})
		}
	}
	endAt := t + int64(s.eofGap)
	pos := 0
	started := false
	last := int64(0)
	// take k bytes; returns nil and the terminal event if the stream ends or stalls first.
	// A Read without bytes never starts a frame (an idle wait stays idle, however long); inside a
	// frame it is line activity like any other Read return: T8 counts from it.
	take := func(k int) ([]byte, string) {
		out := make([]byte, 0, k)
		for len(out) < k {
			if pos == len(all) {
				switch {
				case started && (!s.eof || endAt-last > int64(s.t8)):
					return nil, "T"
				case s.eof:
					return nil, "E"
				default:
					return nil, "I"
				}
			}
			if started && all[pos].at-last > int64(s.t8) {
				return nil, "T"
			}
			last = all[pos].at
			if all[pos].empty {
				pos++
				continue
			}
			started = true
			out = append(out, all[pos].b)
			pos++
		}
		return out, ""
	}
	for {
		started = false
		lb, e := take(4)
		if e != "" {
			return frames, e
		}
		n := int(binary.BigEndian.Uint32(lb))
		if n < 10 || n > cap {
			return frames, "L"
		}
		f, e := take(n)
		if e != "" {
			return frames, e
		}
		frames = append(frames, f)
	}
}

func runScript(c *vh.Ctx, s script) {
	cap := hsms.VerifFrameCap()
	t0 := time.Unix(1_700_000_000, 0)
	conn := &simConn{t0: t0, now: t0, lastArrival: t0, segs: append([]seg(nil), s.segs...), eof: s.eof, eofGap: time.Duration(s.eofGap) * unit,
		chop: s.chop, eofWithData: s.eofWithData}
	for _, w := range s.writes {
		conn.writes = append(conn.writes, t0.Add(w))
	}
	conn.onWrite = func(sc *simConn) { _ = hsmsss.VerifTransportWriteBracket(sc, sc.now.Add(30*time.Second)) }
	var ev []string
	badAlloc := 0
	alloc := func(n int) []byte {
		ev = append(ev, fmt.Sprintf("A%d", n))
		if n < 10 || n > cap {
			badAlloc = n
			return make([]byte, 1)
		}
		return make([]byte, n)
	}
	read := hsmsss.VerifFrameReader(time.Duration(s.t8)*unit, conn.clock, alloc)
	var got [][]byte
	end := ""
	for steps := 0; ; steps++ {
		f, err := read(conn)
		if err != nil {
			switch {
			case errors.Is(err, errBlockedForever):
				end = "I"
			case errors.Is(err, os.ErrDeadlineExceeded):
				end = "T"
			case errors.Is(err, io.EOF):
				end = "E"
			default:
				end = "L"
			}
			break
		}
		got = append(got, f)
		ev = append(ev, "F"+fr.Hex(f))
		if steps > 1000 {
			end = "?"
			break
		}
	}
	if end == "I" {
		ev = append(ev, "I")
	} else {
		ev = append(ev, "X"+end)
	}
	line := s.lhs() + " | " + strings.Join(ev, " ")
	c.Case(line, line, len(s.segs) > 0)
	c.Count(fmt.Sprintf("S/frames=%d/end=%s", len(got), end))
	if conn.fired > 0 {
		c.Count("S/local-writes-during-a-parked-read")
	}
	if conn.emptyReads > 0 {
		c.Count("S/reads-returning-no-byte")
	}

	// ---- implementation-level oracle (the generator's own knowledge, no model) ----
	// failing cases carry the conn behaviours the model is indifferent to, so a replay is complete
	if len(s.writes) > 0 || len(s.chop) > 0 || s.eofWithData {
		line += fmt.Sprintf("   [local frame writes (write-deadline bracket through the real transport) at %v after script start; read-size caps %v; final bytes with EOF %v]", s.writes, s.chop, s.eofWithData)
	}
	if badAlloc != 0 {
		c.Fail(fmt.Sprintf("readFrame asked the allocator for %d bytes (outside [10, cap])", badAlloc), line)
	}
	if len(got) != len(s.wantFrames) {
		c.Fail(fmt.Sprintf("readFrame delivered %d frames, the stream/timing calls for %d", len(got), len(s.wantFrames)), line)
	} else {
		for i := range got {
			if string(got[i]) != string(s.wantFrames[i]) {
				c.Fail("readFrame delivered a frame that differs from the one sent", line)
				break
			}
		}
	}
	if end != s.wantEnd {
		c.Fail(fmt.Sprintf("receive loop ended with %s, expected %s (I idle-blocked, E eof, T T8, L length)", end, s.wantEnd), line)
	}
}

func readerPass(c *vh.Ctx) {
	// corpus: one frame, every cut position, every in-frame gap in {0, T8, T8+1}
	frame := []byte{0, 0, 0, 12, 0, 1, 0x81, 1, 0, 0, 0, 0, 0, 9, 0x21, 0}
	for cut := 1; cut < len(frame); cut++ {
		for _, g := range []int{0, 5, 6} {
			s := script{t8: 5, segs: []seg{{gap: 777 * unit, data: frame[:cut]}, {gap: time.Duration(g) * unit, data: frame[cut:]}}, eof: false}
			if g <= 5 {
				s.wantFrames, s.wantEnd = [][]byte{frame[4:]}, "I"
			} else {
				s.wantEnd = "T"
			}
			runScript(c, s)
		}
	}
	// an in-frame stall with local frame writes inside the gap: T8 still counts from the last byte
	for cut := 1; cut < len(frame); cut++ {
		runScript(c, script{t8: 5, segs: []seg{{gap: 3 * unit, data: frame[:cut]}, {gap: 9 * unit, data: frame[cut:]}}, eof: false,
			writes: []time.Duration{3*unit + unit/2, 5*unit + unit/2, 7*unit + unit/2}, wantEnd: "T"})
		runScript(c, script{t8: 5, segs: []seg{{gap: 3 * unit, data: frame[:cut]}}, eof: false,
			writes: []time.Duration{4*unit + unit/2}, wantEnd: "T"})
	}
	// Reads returning no byte: between frames followed by an idle gap far beyond T8 (must stay
	// idle), at every position inside a frame within T8 (no-op for the bytes, restarts T8), and
	// inside a frame after more than T8 (the deadline fired first)
	for _, k := range []int{1, 2, 3} {
		var es []seg
		for i := 0; i < k; i++ {
			es = append(es, seg{gap: time.Duration(i) * unit})
		}
		segs := append(append([]seg{{0, frame}}, es...), seg{1000 * unit, frame})
		runScript(c, script{t8: 5, segs: segs, eof: false, wantFrames: [][]byte{frame[4:], frame[4:]}, wantEnd: "I"})
		segs = append(append([]seg(nil), es...), seg{1000 * unit, frame})
		runScript(c, script{t8: 5, segs: segs, eof: true, eofGap: 77, wantFrames: [][]byte{frame[4:]}, wantEnd: "E"})
	}
	for cut := 1; cut < len(frame); cut++ {
		runScript(c, script{t8: 5, segs: []seg{{0, frame[:cut]}, {4 * unit, nil}, {4 * unit, nil}, {5 * unit, frame[cut:]}, {3 * unit, nil}, {900 * unit, frame}},
			eof: false, wantFrames: [][]byte{frame[4:], frame[4:]}, wantEnd: "I"})
		runScript(c, script{t8: 5, segs: []seg{{0, frame[:cut]}, {6 * unit, nil}, {1 * unit, frame[cut:]}}, eof: false, wantEnd: "T"})
	}
	// two frames in one segment, then idle for a very long time, then a third
	two := append(append([]byte(nil), frame...), frame...)
	runScript(c, script{t8: 5, segs: []seg{{0, two}, {1 << 40, frame}}, eof: true, eofGap: 1 << 30,
		wantFrames: [][]byte{frame[4:], frame[4:], frame[4:]}, wantEnd: "E"})
	// nothing at all
	runScript(c, script{t8: 5, eof: false, wantEnd: "I"})
	runScript(c, script{t8: 5, eof: true, eofGap: 100, wantEnd: "E"})
	// every length value around the bounds
	cap := uint32(hsms.VerifFrameCap())
	for _, v := range []uint32{0, 1, 9, cap + 1, cap + 2, 1 << 24, 1 << 31, 1<<32 - 1} {
		b := binary.BigEndian.AppendUint32(nil, v)
		runScript(c, script{t8: 5, segs: []seg{{0, b[:2]}, {3 * unit, b[2:]}, {1 * unit, []byte{1, 2, 3}}}, eof: true, wantEnd: "L"})
	}
	for i := 0; i < c.N; i++ {
		runScript(c, genScript(c))
	}
	if c.Tier == "thorough" {
		// a frame of exactly the cap, cut in 3; and the 16 MB claim that must not be allocated
		big := make([]byte, 4+int(cap))
		binary.BigEndian.PutUint32(big[:4], cap)
		conn := &simConn{segs: []seg{{0, big[:3]}, {2 * unit, big[3:1000]}, {5 * unit, big[1000:]}}, eof: true}
		n := 0
		read := hsmsss.VerifFrameReader(5*unit, conn.clock, func(k int) []byte { n = k; return make([]byte, k) })
		f, err := read(conn)
		if err != nil || len(f) != int(cap) || n != int(cap) {
			c.Fail("a frame of exactly the cap is not delivered", fmt.Sprintf("cap=%d err=%v", cap, err))
		}
		c.Count("S/cap-frame")
	}
}

// ---------------------------------------------------------------------------------------------
// e2e: a real connection fed by a scripted peer in random segmentation (real time)

func e2ePass(c *vh.Ctx) {
	nLinks := c.N
	if nLinks < 4 {
		nLinks = 4
	}
	for li := 0; li < nLinks; li++ {
		li := li
		if li%6 >= 4 {
			confirmed(c, func(t8 time.Duration, fail func(what, kase string)) { e2eStall(c, li, t8, li%6 == 4, fail) })
			continue
		}
		confirmed(c, func(t8 time.Duration, fail func(what, kase string)) { e2eLink(c, li, t8, fail) })
	}
}

// e2eT8 is the T8 of the real-time scenarios: in-frame gaps are 100x below it, idle gaps 2.5x and
// stalls 4x above it.
const e2eT8 = 200 * time.Millisecond

// confirmed runs one real-time scenario. Real-time outcomes are load-sensitive (a descheduled
// writer stretches an in-frame gap; a loaded machine closes a socket seconds late), so a failing
// scenario is run once more with every duration scaled by 4 (T8 = 800 ms) and reported only if it
// fails again; the first run's failure is quoted. Failures that cannot be a matter of load (a
// drop EARLIER than T8) bypass this and are reported at once by the scenario itself.
func confirmed(c *vh.Ctx, run func(t8 time.Duration, fail func(what, kase string))) {
	collect := func(dst *[]vh.Failure) func(what, kase string) {
		return func(what, kase string) { *dst = append(*dst, vh.Failure{What: what, Case: kase}) }
	}
	var first, second []vh.Failure
	run(e2eT8, collect(&first))
	if len(first) == 0 {
		return
	}
	c.Count("E/re-run-at-4xT8")
	run(4*e2eT8, collect(&second))
	if len(second) == 0 {
		c.Note(fmt.Sprintf("e2e: not confirmed at 4 x T8 (load): %s | %s", first[0].What, first[0].Case))
		return
	}
	for _, f := range second {
		c.Fail(f.What, f.Case+"   [confirmed: first run at T8=200ms failed with: "+first[0].What+"]")
	}
}

// e2eLink: one link, one scenario (li%6: 0 clean, 1 in-frame stall > T8, 2 bad length, 3 long idle
// gaps only), the stream written in random segments.
func e2eLink(c *vh.Ctx, li int, t8 time.Duration, fail func(what, kase string)) {
	r := c.Rng
	l, err := fr.OpenLink(uint16(li+1), nil, hsms.WithT8(t8))
	if err != nil {
		fail("e2e: cannot open a link over net.Pipe: "+err.Error(), fmt.Sprint(li))
		return
	}
	var mu sync.Mutex
	var got []string
	l.Conn.AddDataMessageHandler(func(m *hsms.DataMessage, _ hsms.SECS2Endpoint) {
		h := m.HeaderBytes()
		mu.Lock()
		got = append(got, fr.Hex(h[:])+"/"+fr.Hex(m.AppendBodyTo(nil)))
		mu.Unlock()
	})
	peer := l.Peer()
	// the stream: data frames (valid and undecodable bodies), a linktest and an undefined
	// SType in between (answered, not delivered), then the scenario's ending
	scenario := li % 6 // 4, 5: e2eStall; 0 clean, 1 in-frame stall > T8, 2 bad length, 3 long idle gaps only
	nf := 3 + r.Intn(6)
	var stream []byte
	var want []string
	bounds := map[int]bool{0: true}
	for i := 0; i < nf; i++ {
		var f []byte
		switch r.Intn(6) {
		case 0: // Linktest.req
			f = []byte{0, 0, 0, 10, 0xff, 0xff, 0, 0, 0, 5, 0, 0, byte(li), byte(i)}
		case 1: // undefined SType -> Reject, link stays up
			f = []byte{0, 0, 0, 10, 0, 1, 0, 0, 0, 8, 0, 0, byte(li), byte(i)}
		default:
			var sb [4]byte
			binary.BigEndian.PutUint32(sb[:], r.Uint32())
			m, _ := hsms.NewDataMessage(byte(r.Intn(128)), byte(r.Intn(128))*2+1, false, uint16(li+1), sb, fr.RandItem(r, 2))
			f = m.ToBytes()
			if r.Intn(4) == 0 && len(f) > 15 { // undecodable body, well-formed frame
				f = f[:len(f)-1]
				binary.BigEndian.PutUint32(f[:4], uint32(len(f)-4))
			}
			want = append(want, fr.Hex(f[4:14])+"/"+fr.Hex(f[14:]))
		}
		stream = append(stream, f...)
		bounds[len(stream)] = true
	}
	stallFrom := -1
	if scenario == 2 {
		stream = append(stream, 0xff, 0xff, 0xff, 0xf0, 1, 2, 3)
	}
	// the segmentation plan is drawn here (single PRNG, single goroutine), then played
	type chunk struct {
		n     int
		sleep time.Duration
		zero  int // zero-length Writes before the sleep (between frames, then idle: must stay up)
	}
	var plan []chunk
	idles := 0
	for p := 0; p < len(stream); {
		n := 1 + r.Intn(9)
		if r.Intn(4) == 0 {
			n = 1 + r.Intn(60)
		}
		if p+n > len(stream) {
			n = len(stream) - p
		}
		var sl time.Duration
		if bounds[p] {
			if idles < 3 && (scenario == 3 || r.Intn(6) == 0) {
				idles++
				sl = 5 * t8 / 2 // idle for 2.5 x T8: must not time out
			}
		} else if scenario == 1 && stallFrom < 0 && p > len(stream)/2 {
			stallFrom = p
			sl = 4 * t8 // in-frame stall: must drop
		} else if r.Intn(3) == 0 {
			sl = time.Duration(r.Intn(3)) * time.Millisecond
		}
		zero := 0
		if (bounds[p] && r.Intn(2) == 0) || r.Intn(8) == 0 {
			zero = 1 + r.Intn(3)
		}
		plan = append(plan, chunk{n, sl, zero})
		p += n
	}
	if scenario == 1 && stallFrom < 0 {
		scenario = 0 // no in-frame cut point after the middle of the stream: nothing was planted
	}
	go func() {
		p := 0
		for _, ch := range plan {
			for z := 0; z < ch.zero; z++ {
				_ = peer.Write(nil) // a zero-length Write: the parked reader's Read returns (0, nil)
			}
			if ch.sleep > 0 {
				time.Sleep(ch.sleep)
			}
			if err := peer.Write(stream[p : p+ch.n]); err != nil {
				return
			}
			p += ch.n
		}
	}()
	// outcome
	deadline := time.Now().Add(8*time.Second + 8*t8)
	wantDrop := scenario == 1 || scenario == 2
	for time.Now().Before(deadline) {
		mu.Lock()
		n := len(got)
		mu.Unlock()
		if wantDrop && peer.ReadClosed() {
			break
		}
		if !wantDrop && n >= len(want) {
			break
		}
		time.Sleep(5 * time.Millisecond)
	}
	if !wantDrop {
		time.Sleep(2 * t8) // the link must survive being idle after the last frame
	}
	mu.Lock()
	gotCopy := append([]string(nil), got...)
	mu.Unlock()
	desc := fmt.Sprintf("e2e link=%d scenario=%d frames=%d streamlen=%d", li, scenario, nf, len(stream))
	c.Case("# "+desc, desc, true)
	c.Count(fmt.Sprintf("E/scenario=%d", scenario))
	switch scenario {
	case 0, 3:
		if strings.Join(gotCopy, " ") != strings.Join(want, " ") {
			fail(fmt.Sprintf("e2e: delivered messages differ from the stream sent (got %d, want %d)", len(gotCopy), len(want)), desc)
		}
		if peer.ReadClosed() || l.Conn.State() != hsms.SelectedState {
			fail("e2e: link dropped although every in-frame gap was far below T8 (idle gaps only)", desc)
		}
	case 2:
		if strings.Join(gotCopy, " ") != strings.Join(want, " ") {
			fail("e2e: frames before the bad length were not all delivered in order", desc)
		}
		if !peer.ReadClosed() {
			fail("e2e: link not dropped after a length field above the cap", desc)
		}
	case 1:
		if !peer.ReadClosed() {
			fail("e2e: link not dropped after an in-frame stall of 4 x T8", desc)
		}
		// what was delivered must be a prefix of what was sent
		if len(gotCopy) > len(want) || strings.Join(gotCopy, " ") != strings.Join(want[:len(gotCopy)], " ") {
			fail("e2e: delivered messages are not a prefix of the stream sent", desc)
		}
	}
	_ = l.Conn.Close()
}

// e2eStall: the peer sends one whole frame, then part of a frame, then stalls. The link must be
// dropped T8 after the last received byte: NOT EARLIER (exact: a timer cannot fire early; reported
// at once) and not much later. With localWrites the local side WRITES frames during the gap (an
// async data send and a synchronous forward, issued as soon as the partial frame is in) - writing
// must not move the receive side's deadline; without, it is the control.
//
// The drop is observed as an event (the peer's read loop ending). Lateness is a matter of load:
// the wait has a 10 s ceiling, a drop later than T8 + 2 s is a (re-run-confirmed) failure.
func e2eStall(c *vh.Ctx, li int, t8 time.Duration, localWrites bool, fail func(what, kase string)) {
	r := c.Rng
	const slack = 2 * time.Second
	const ceiling = 10 * time.Second
	l, err := fr.OpenLink(uint16(li+1), nil, hsms.WithT8(t8))
	if err != nil {
		fail("e2e: cannot open a link over net.Pipe: "+err.Error(), fmt.Sprint(li))
		return
	}
	defer l.Conn.Close()
	var mu sync.Mutex
	delivered := 0
	l.Conn.AddDataMessageHandler(func(m *hsms.DataMessage, _ hsms.SECS2Endpoint) {
		mu.Lock()
		delivered++
		mu.Unlock()
	})
	peer := l.Peer()
	mk := func() []byte {
		var sb [4]byte
		binary.BigEndian.PutUint32(sb[:], r.Uint32())
		m, _ := hsms.NewDataMessage(byte(r.Intn(128)), byte(r.Intn(128))*2+1, false, uint16(li+1), sb, fr.RandItem(r, 2))
		return m.ToBytes()
	}
	whole, part := mk(), mk()
	cut := 1 + r.Intn(len(part)-1)
	if r.Intn(3) == 0 {
		cut = 1 + r.Intn(4) // inside the length prefix
	}
	outItem := fr.RandItem(r, 1)
	fwd, _ := hsms.NewDataMessage(5, 7, false, uint16(li+1), [4]byte{0, 0, 9, byte(li)}, fr.RandItem(r, 1))
	desc := fmt.Sprintf("e2e-stall link=%d local-writes=%v cut=%d/%d T8=%s", li, localWrites, cut, len(part), t8)
	c.Case("# "+desc, desc, true)
	c.Count(fmt.Sprintf("E/stall/local-writes=%v", localWrites))
	if err := peer.Write(whole); err != nil {
		fail("e2e: peer cannot write on an open link", desc)
		return
	}
	a0 := time.Now()
	if err := peer.Write(part[:cut]); err != nil {
		fail("e2e: peer cannot write on an open link", desc)
		return
	}
	a1 := time.Now()
	lwDone := make(chan time.Time, 1)
	if localWrites {
		go func() {
			_ = l.Conn.SendDataMessageAsync(context.Background(), 1, 1, false, outItem)
			ctx, cancel := context.WithTimeout(context.Background(), time.Second)
			_ = l.Conn.ForwardDataMessage(ctx, fwd)
			cancel()
			lwDone <- time.Now()
		}()
	}
	dataFramesAtPeer := func() int {
		cnt := 0
		for _, f := range peer.Snapshot() {
			if len(f) >= 14 && f[9] == 0 {
				cnt++
			}
		}
		return cnt
	}
	select {
	case <-peer.Done:
		d := time.Now()
		if d.Sub(a0) < t8 {
			// not a matter of load: reported at once
			c.Fail(fmt.Sprintf("e2e: link dropped %s after the peer began writing the partial frame: earlier than T8", d.Sub(a0)), desc)
		}
		if d.Sub(a1) > t8+slack {
			fail(fmt.Sprintf("e2e: link dropped only %s after the last received byte (T8 + %s allowed; State=%v)", d.Sub(a1), slack, l.Conn.State()), desc)
		}
	case <-time.After(ceiling):
		fail(fmt.Sprintf("e2e: link not dropped T8 after the last received byte of a partial frame (receiver parked mid-frame): still up %s later (State=%v, frames at the peer %d)",
			ceiling, l.Conn.State(), len(peer.Snapshot())), desc)
	}
	mu.Lock()
	n := delivered
	mu.Unlock()
	if n != 1 {
		fail(fmt.Sprintf("e2e: %d messages delivered, exactly the one complete frame expected", n), desc)
	}
	if localWrites {
		// the scenario happened as intended only if both local frames went out inside the gap
		select {
		case at := <-lwDone:
			if cnt := dataFramesAtPeer(); cnt != 2 || at.Sub(a0) >= t8 {
				c.Count("E/stall/void: local writes not inside the gap (load)")
			} else {
				c.Count("E/stall/local-writes-inside-the-gap")
			}
		case <-time.After(2 * time.Second):
			c.Count("E/stall/void: local writes not inside the gap (load)")
		}
	}
}
