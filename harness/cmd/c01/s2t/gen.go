package s2t

import (
	"math"
	"math/rand"
)

var widths = []int{1, 2, 4, 8}

// LeafKinds lists every leaf type as (kind, width).
var LeafKinds = [][2]int{
	{'B', 0}, {'O', 0}, {'A', 0}, {'J', 0}, {'W', 0},
	{'I', 1}, {'I', 2}, {'I', 4}, {'I', 8},
	{'U', 1}, {'U', 2}, {'U', 4}, {'U', 8},
	{'F', 4}, {'F', 8},
}

func intBounds(w int) (int64, int64) {
	if w == 8 {
		return math.MinInt64, math.MaxInt64
	}
	return -1 << (8*uint(w) - 1), 1<<(8*uint(w)-1) - 1
}

func uintMax(w int) uint64 {
	if w == 8 {
		return math.MaxUint64
	}
	return 1<<(8*uint(w)) - 1
}

// interesting float bit patterns (quiet NaNs only for F4: see quiet32)
var f4special = []uint64{0, 0x80000000, 0x3f800000, 0xbf800000, 0x7f800000, 0xff800000, 0x7fc00000, 0xffc00001, 0x7fffffff,
	0x00000001, 0x007fffff, 0x00800000, 0x7f7fffff, 0xff7fffff, 0x3eaaaaab, 0x4b800000}
var f8special = []uint64{0, 1 << 63, 0x3ff0000000000000, 0xbff0000000000000, 0x7ff0000000000000, 0xfff0000000000000,
	0x7ff8000000000000, 0x7ff0000000000001, 0xfff7ffffffffffff, 1, 0x000fffffffffffff, 0x0010000000000000,
	0x7fefffffffffffff, 0x3fd5555555555555, 0x4340000000000000, 0x4340000000000001}

func randInt(w int, r *rand.Rand) int64 {
	lo, hi := intBounds(w)
	switch r.Intn(6) {
	case 0:
		return []int64{0, 1, -1, lo, hi, lo + 1, hi - 1}[r.Intn(7)]
	case 1:
		return int64(r.Intn(256)) - 128
	default:
		v := int64(r.Uint64())
		if w < 8 {
			v >>= 64 - 8*uint(w)
		}
		return v
	}
}

func randUint(w int, r *rand.Rand) uint64 {
	hi := uintMax(w)
	switch r.Intn(6) {
	case 0:
		return []uint64{0, 1, hi, hi - 1, hi >> 1, hi>>1 + 1}[r.Intn(6)]
	case 1:
		return uint64(r.Intn(256))
	default:
		return r.Uint64() >> (64 - 8*uint(w))
	}
}

func randFloatBits(w int, r *rand.Rand) uint64 {
	if r.Intn(3) == 0 {
		if w == 4 {
			return f4special[r.Intn(len(f4special))]
		}
		return f8special[r.Intn(len(f8special))]
	}
	if r.Intn(3) == 0 { // small integers / simple fractions, as float patterns
		v := float64(r.Intn(2001)-1000) / float64([]int{1, 2, 4, 8}[r.Intn(4)])
		if w == 4 {
			return uint64(math.Float32bits(float32(v)))
		}
		return math.Float64bits(v)
	}
	u := r.Uint64() >> (64 - 8*uint(w))
	if w == 4 {
		return uint64(quiet32(uint32(u)))
	}
	return u
}

// Leaf makes a leaf of the given kind/width with count elements, spelled out.
func Leaf(kind, w, count int, r *rand.Rand) *Node {
	n := &Node{Kind: byte(kind), W: w}
	switch kind {
	case 'B', 'J', 'W':
		n.Bytes = make([]byte, count)
		for i := range n.Bytes {
			n.Bytes[i] = byte(r.Intn(256))
		}
		if kind == 'W' {
			n.LSH = []uint16{2, 2, 2, 0, 1, 3, 8, 14, 255, 256, 65535}[r.Intn(11)]
		}
	case 'A':
		n.Bytes = make([]byte, count)
		for i := range n.Bytes {
			if r.Intn(10) == 0 {
				n.Bytes[i] = byte(r.Intn(256))
			} else {
				n.Bytes[i] = byte(0x20 + r.Intn(0x5f))
			}
		}
	case 'O':
		n.Bools = make([]bool, count)
		for i := range n.Bools {
			n.Bools[i] = r.Intn(2) == 0
		}
	case 'I':
		n.Ints = make([]int64, count)
		for i := range n.Ints {
			n.Ints[i] = randInt(w, r)
		}
	case 'U':
		n.Uints = make([]uint64, count)
		for i := range n.Uints {
			n.Uints[i] = randUint(w, r)
		}
	case 'F':
		n.Uints = make([]uint64, count)
		for i := range n.Uints {
			n.Uints[i] = randFloatBits(w, r)
		}
	}
	return n
}

// InexactF4 makes an F4 leaf constructed from float64 arguments that need rounding to binary32
// (magnitudes within the binary32 range, so clamping — C16's subject — is not involved).
func InexactF4(count int, r *rand.Rand) *Node {
	n := &Node{Kind: 'F', W: 4, Uints: make([]uint64, count), F64: make([]float64, count)}
	for i := range n.F64 {
		var v float64
		switch r.Intn(4) {
		case 0:
			v = []float64{0.1, -0.1, 1.0 / 3, 2.0 / 3, math.Pi, -math.E, 1e-40, 1e38, 16777217, 1e-46, 0.30000000000000004}[r.Intn(11)]
		case 1:
			v = (r.Float64()*2 - 1) * math.Pow(10, float64(r.Intn(70)-35))
		case 2: // just beside a binary32 value: ties and near-ties
			f := math.Float32frombits(r.Uint32()&0x7f7fffff | uint32(r.Intn(2))<<31)
			v = math.Nextafter(float64(f), float64(f)*2)
		default:
			v = r.NormFloat64() * 1000
		}
		if math.IsInf(v, 0) || math.IsNaN(v) || math.Abs(v) > math.MaxFloat32 {
			v = 0.1
		}
		n.F64[i] = v
		n.Uints[i] = uint64(math.Float32bits(float32(v)))
	}
	return n
}

// GenLeaf makes a "#seed,count" leaf (expanded identically by the OCaml driver).
func GenLeaf(kind, w, count int, r *rand.Rand) *Node {
	n := &Node{Kind: byte(kind), W: w, Seed: r.Uint64() >> 1}
	if kind == 'W' {
		n.LSH = 2
	}
	n.Expand(count)
	return n
}

// RandLeaf picks a kind and a small count (mostly 0..4, sometimes around the 255/256 boundary).
func RandLeaf(r *rand.Rand) *Node {
	k := LeafKinds[r.Intn(len(LeafKinds))]
	var c int
	switch x := r.Intn(40); {
	case x < 6:
		c = 0
	case x < 16:
		c = 1
	case x < 24:
		c = 2
	case x < 36:
		c = 3 + r.Intn(14)
	case x < 39:
		c = 30 + r.Intn(40)
	default:
		w := max(k[1], 1)
		c = 255/w - 1 + r.Intn(3)
	}
	if k[0] == 'F' && k[1] == 4 && c > 0 && r.Intn(3) == 0 {
		return InexactF4(c, r)
	}
	return Leaf(k[0], k[1], c, r)
}

// RandTree builds a random tree with at most about budget nodes and nesting <= maxDepth.
func RandTree(r *rand.Rand, budget *int, maxDepth int) *Node {
	*budget--
	if maxDepth <= 0 || *budget <= 0 || r.Intn(5) < 2 {
		return RandLeaf(r)
	}
	n := &Node{Kind: 'L'}
	fan := []int{0, 1, 1, 2, 2, 3, 4, 5, 6, 9, 17, 22}[r.Intn(12)]
	for i := 0; i < fan && *budget > 0; i++ {
		n.Kids = append(n.Kids, RandTree(r, budget, maxDepth-1))
	}
	return n
}

// Lengthen rewrites up to k random item headers of a VALID encoding with a longer (non-canonical)
// length field carrying the same value.
func Lengthen(enc []byte, k int, r *rand.Rand) []byte {
	for ; k > 0; k-- {
		var offs []int
		var walk func(pos int) int
		walk = func(pos int) int {
			offs = append(offs, pos)
			fc, nl := int(enc[pos]>>2), int(enc[pos]&3)
			l := 0
			for i := 0; i < nl; i++ {
				l = l<<8 | int(enc[pos+1+i])
			}
			pos += 1 + nl
			if fc == 0 {
				for i := 0; i < l; i++ {
					pos = walk(pos)
				}
				return pos
			}
			return pos + l
		}
		walk(0)
		o := offs[r.Intn(len(offs))]
		nl := int(enc[o] & 3)
		if nl == 3 {
			continue
		}
		add := 1 + r.Intn(3-nl)
		out := append([]byte(nil), enc[:o]...)
		out = append(out, enc[o]&^3|byte(nl+add))
		out = append(out, make([]byte, add)...)
		out = append(out, enc[o+1:]...)
		enc = out
	}
	return enc
}

// Decoded wraps a logical value as an 'R' node: the item secs2.Decode returns for an encoding
// (canonical, or with some non-canonical length fields) of that value.
func Decoded(v *Node, r *rand.Rand) *Node {
	raw := RefEncode(v, nil)
	if r.Intn(2) == 0 {
		raw = Lengthen(raw, 1+r.Intn(3), r)
	}
	return &Node{Kind: 'R', Bytes: raw, Kids: []*Node{v}}
}

// WithDecoded returns a copy of the tree in which some subtrees (never the root, never one
// containing an EmptyItem) are replaced by decoded items.
func WithDecoded(n *Node, r *rand.Rand, root bool) *Node {
	if !root && n.Kind != 'E' && !n.HasEmptyChild() && n.Depth() <= 64 && !n.Gen && r.Intn(3) == 0 {
		return Decoded(n, r)
	}
	if n.Kind != 'L' {
		return n
	}
	cp := *n
	cp.Kids = make([]*Node, len(n.Kids))
	for i, k := range n.Kids {
		cp.Kids[i] = WithDecoded(k, r, false)
	}
	return &cp
}

// Nest wraps x in k single-child lists.
func Nest(k int, x *Node) *Node {
	for i := 0; i < k; i++ {
		x = &Node{Kind: 'L', Kids: []*Node{x}}
	}
	return x
}

// ListOf makes a list of n copies produced by f.
func ListOf(n int, f func(i int) *Node) *Node {
	l := &Node{Kind: 'L', Kids: make([]*Node, n)}
	for i := range l.Kids {
		l.Kids[i] = f(i)
	}
	return l
}

// BoundaryCounts returns element counts whose payload byte length sits on the length-field
// boundaries for width w: 0,1,2,3 and around 255/256 (and 65535/65536 when big).
func BoundaryCounts(w int, big bool) []int {
	w = max(w, 1)
	out := []int{0, 1, 2, 3, 255 / w, 255/w + 1, 256 / w, 256/w + 1}
	if big {
		out = append(out, 65535/w, 65535/w+1, 65536/w, 65536/w+1)
	}
	return out
}

// Corpus is the deterministic boundary set run before the random cases.
func Corpus(r *rand.Rand, tier string) []*Node {
	var out []*Node
	out = append(out, &Node{Kind: 'E'})
	// DESIGN 5 #6: error-free for the constructors, undecodable
	out = append(out, &Node{Kind: 'L', Kids: []*Node{{Kind: 'E'}}})
	out = append(out, &Node{Kind: 'L', Kids: []*Node{Leaf('A', 0, 2, r), {Kind: 'E'}, Leaf('U', 1, 1, r)}})
	for _, k := range LeafKinds {
		for _, c := range BoundaryCounts(k[1], false) {
			if k[0] == 'W' && c >= 2 {
				c -= 2 // the 2-byte LSH counts towards the length field
			}
			out = append(out, Leaf(k[0], k[1], c, r))
		}
		for _, c := range BoundaryCounts(k[1], true)[8:] {
			if k[0] == 'W' {
				c -= 2
			}
			out = append(out, GenLeaf(k[0], k[1], c, r))
		}
	}
	// every value class per numeric type, as scalar items and as one array
	for _, w := range widths {
		lo, hi := intBounds(w)
		vals := []int64{0, 1, -1, lo, hi, lo + 1, hi - 1, 127, 128, -128, -129}
		var in []int64
		for _, v := range vals {
			if v >= lo && v <= hi {
				in = append(in, v)
				out = append(out, &Node{Kind: 'I', W: w, Ints: []int64{v}})
			}
		}
		out = append(out, &Node{Kind: 'I', W: w, Ints: in})
		um := uintMax(w)
		uv := []uint64{0, 1, um, um - 1, um >> 1, um>>1 + 1, 255, 256}
		var un []uint64
		for _, v := range uv {
			if v <= um {
				un = append(un, v)
				out = append(out, &Node{Kind: 'U', W: w, Uints: []uint64{v}})
			}
		}
		out = append(out, &Node{Kind: 'U', W: w, Uints: un})
	}
	for _, u := range f4special {
		out = append(out, &Node{Kind: 'F', W: 4, Uints: []uint64{u}})
	}
	out = append(out, &Node{Kind: 'F', W: 4, Uints: f4special})
	for _, u := range f8special {
		out = append(out, &Node{Kind: 'F', W: 8, Uints: []uint64{u}})
	}
	out = append(out, &Node{Kind: 'F', W: 8, Uints: f8special})
	// nesting 0..66 around the decoder's limit (64 accepted, 65+ rejected by Decode)
	for _, d := range []int{0, 1, 2, 3, 31, 62, 63, 64, 65, 66} {
		out = append(out, Nest(d, Leaf('U', 2, 1, r)))
		out = append(out, Nest(d, &Node{Kind: 'L'}))
	}
	// sibling counts crossing the decoder's slab chunk boundaries (1, 5, 21, 85, 213, 341)
	for _, c := range []int{1, 2, 4, 5, 6, 20, 21, 22, 84, 85, 86, 212, 213, 214, 340, 341, 342, 470} {
		k := LeafKinds[r.Intn(len(LeafKinds))]
		out = append(out, ListOf(c, func(int) *Node { return Leaf(k[0], k[1], 1, r) }))
		out = append(out, ListOf(c, func(int) *Node { return RandLeaf(r) }))
	}
	// list child counts on the length-field boundaries
	for _, c := range []int{255, 256, 257} {
		out = append(out, ListOf(c, func(i int) *Node { return Leaf('B', 0, i%2, r) }))
	}
	// 3-byte length fields whose MIDDLE byte is non-zero (65792 = 0x010100, 65793 = 0x010101,
	// 70000 = 0x011170), alone and followed by a sibling; 0x7F8081 in the thorough tier
	for _, l := range []int{65792, 65793, 70000} {
		out = append(out, GenLeaf('B', 0, l, r))
		out = append(out, &Node{Kind: 'L', Kids: []*Node{GenLeaf('A', 0, l, r), Leaf('U', 1, 1, r)}})
	}
	out = append(out, GenLeaf('U', 4, 20000, r), GenLeaf('O', 0, 65793, r), GenLeaf('I', 2, 35000, r), GenLeaf('F', 8, 8224, r))
	out = append(out, &Node{Kind: 'L', Kids: []*Node{GenLeaf('W', 0, 65790, r), GenLeaf('J', 0, 66049, r), Leaf('I', 1, 2, r)}})
	if tier == "thorough" {
		out = append(out, GenLeaf('B', 0, 0x7F8081, r))
	}
	bigLists := []int{65535, 65536, 66000}
	if tier == "thorough" {
		bigLists = append(bigLists, 65537, 70001)
	}
	for _, c := range bigLists {
		out = append(out, ListOf(c, func(i int) *Node {
			if i%1000 == 7 {
				return &Node{Kind: 'L'}
			}
			return &Node{Kind: 'B'}
		}))
	}
	return out
}
