// Package s2t holds what the C01 and C02 harnesses share: logical SECS-II trees, their textual
// case-line syntax, construction through the PUBLIC secs2 constructors with varied argument
// shapes, a canonical rendering of any secs2.Item through its public accessors, and an
// independent reference encoder (SEMI E5 section 9) used only by implementation-level oracles.
package s2t

import (
	"crypto/md5"
	"encoding/hex"
	"fmt"
	"math"
	"strconv"
	"strings"

	"github.com/arloliu/go-secs/v2/secs2"
)

// Node is a logical SECS-II item. Kind: 'L' list, 'B' binary, 'O' boolean, 'A' ascii, 'J' jis8,
// 'W' localized string, 'I' signed, 'U' unsigned, 'F' float (bit patterns), 'E' empty item,
// 'R' an item obtained from secs2.Decode(Bytes) (Kids[0] is its logical value) used as a child.
type Node struct {
	Kind  byte
	W     int    // element width for I/U/F
	LSH   uint16 // W only
	Kids  []*Node
	Bytes []byte   // B A J W
	Bools []bool   // O
	Ints  []int64  // I
	Uints []uint64 // U, and F as IEEE bit patterns (32-bit patterns for F4)
	// F64, when set on an F4 leaf, holds the float64 ARGUMENTS to construct it from: values that
	// are not exactly representable in binary32, whose narrowing float32(v) has the bits in Uints.
	F64 []float64
	// Generated leaves are written as "#seed,count" in case lines instead of being spelled out.
	Gen  bool
	Seed uint64
}

// lcg is the element stream both the harness and the OCaml driver expand "#seed,count" with.
func lcg(s uint64) uint64 { return s*6364136223846793005 + 1442695040888963407 }

// Expand fills a generated leaf from (seed, count).
func (n *Node) Expand(count int) {
	n.Gen = true
	s := n.Seed
	switch n.Kind {
	case 'B', 'A', 'J', 'W':
		n.Bytes = make([]byte, count)
		for i := range n.Bytes {
			s = lcg(s)
			n.Bytes[i] = byte(s >> 56)
		}
	case 'O':
		n.Bools = make([]bool, count)
		for i := range n.Bools {
			s = lcg(s)
			n.Bools[i] = s>>63 == 1
		}
	case 'I':
		n.Ints = make([]int64, count)
		sh := uint(64 - 8*n.W)
		for i := range n.Ints {
			s = lcg(s)
			n.Ints[i] = int64(s) >> sh // arithmetic shift = signed value of the top 8w bits
		}
	case 'U':
		n.Uints = make([]uint64, count)
		sh := uint(64 - 8*n.W)
		for i := range n.Uints {
			s = lcg(s)
			n.Uints[i] = s >> sh
		}
	case 'F':
		n.Uints = make([]uint64, count)
		sh := uint(64 - 8*n.W)
		for i := range n.Uints {
			s = lcg(s)
			u := s >> sh
			if n.W == 4 {
				u &^= 0x00800000 // exponent never all ones: no NaN/Inf among generated elements
			} else {
				u &^= 1 << 52
			}
			n.Uints[i] = u
		}
	}
}

// Count returns the element count of a leaf / child count of a list.
func (n *Node) Count() int {
	switch n.Kind {
	case 'L':
		return len(n.Kids)
	case 'B', 'A', 'J', 'W':
		return len(n.Bytes)
	case 'O':
		return len(n.Bools)
	case 'I':
		return len(n.Ints)
	case 'U', 'F':
		return len(n.Uints)
	}
	return 0
}

// Depth is the list nesting depth (a leaf is 0).
func (n *Node) Depth() int {
	if n.Kind == 'R' {
		return n.Kids[0].Depth()
	}
	if n.Kind != 'L' {
		return 0
	}
	d := 0
	for _, k := range n.Kids {
		if kd := k.Depth(); kd > d {
			d = kd
		}
	}
	return d + 1
}

// HasEmptyChild reports an EmptyItem below the root.
func (n *Node) HasEmptyChild() bool {
	if n.Kind == 'R' {
		return false
	}
	for _, k := range n.Kids {
		if k.Kind == 'E' || k.HasEmptyChild() {
			return true
		}
	}
	return false
}

// HasDecoded reports a decoded ('R') item anywhere in the tree.
func (n *Node) HasDecoded() bool {
	if n.Kind == 'R' {
		return true
	}
	for _, k := range n.Kids {
		if k.HasDecoded() {
			return true
		}
	}
	return false
}

// Nodes counts the nodes of the tree.
func (n *Node) Nodes() int {
	if n.Kind == 'R' {
		return 1
	}
	c := 1
	for _, k := range n.Kids {
		c += k.Nodes()
	}
	return c
}

// Spec writes the tree in case-line syntax (prefix notation, space separated tokens).
func (n *Node) Spec(sb *strings.Builder) {
	if sb.Len() > 0 {
		sb.WriteByte(' ')
	}
	head := ""
	switch n.Kind {
	case 'E':
		sb.WriteString("E")
		return
	case 'R':
		sb.WriteString("R:" + hex.EncodeToString(n.Bytes))
		return
	case 'L':
		fmt.Fprintf(sb, "L%d", len(n.Kids))
		for _, k := range n.Kids {
			k.Spec(sb)
		}
		return
	case 'B', 'A', 'J':
		head = string(n.Kind)
	case 'W':
		head = fmt.Sprintf("W%d", n.LSH)
	case 'O':
		head = "O"
	case 'I', 'U', 'F':
		head = fmt.Sprintf("%c%d", n.Kind, n.W)
	}
	sb.WriteString(head)
	if n.Gen {
		fmt.Fprintf(sb, "#%d,%d", n.Seed, n.Count())
		return
	}
	sb.WriteByte(':')
	switch n.Kind {
	case 'B', 'A', 'J', 'W':
		sb.WriteString(hex.EncodeToString(n.Bytes))
	case 'O':
		for _, b := range n.Bools {
			if b {
				sb.WriteByte('1')
			} else {
				sb.WriteByte('0')
			}
		}
	case 'I':
		for i, v := range n.Ints {
			if i > 0 {
				sb.WriteByte(',')
			}
			sb.WriteString(strconv.FormatInt(v, 10))
		}
	case 'U', 'F':
		for i, v := range n.Uints {
			if i > 0 {
				sb.WriteByte(',')
			}
			sb.WriteString(strconv.FormatUint(v, 10))
		}
	}
}

// SpecString is Spec into a fresh string.
func (n *Node) SpecString() string {
	var sb strings.Builder
	n.Spec(&sb)
	return sb.String()
}

// quiet32 sets the quiet bit of a binary32 NaN pattern: Go's float32<->float64 conversions
// quiet signalling NaNs, which is outside the codec model (both sides canonicalise).
func quiet32(u uint32) uint32 {
	if u&0x7f800000 == 0x7f800000 && u&0x007fffff != 0 {
		return u | 0x00400000
	}
	return u
}

// Show renders any item through its public accessors in the same syntax as Spec (never "#").
// ok=false if an accessor fails or the type string is unknown.
func Show(it secs2.Item, sb *strings.Builder) bool {
	if sb.Len() > 0 {
		sb.WriteByte(' ')
	}
	switch it.Type() {
	case secs2.EmptyType:
		sb.WriteString("E")
	case secs2.ListType:
		kids, err := it.ToList()
		if err != nil || len(kids) != it.Size() {
			return false
		}
		fmt.Fprintf(sb, "L%d", len(kids))
		for _, k := range kids {
			if !Show(k, sb) {
				return false
			}
		}
	case secs2.BinaryType:
		b, err := it.ToBinary()
		if err != nil || len(b) != it.Size() {
			return false
		}
		sb.WriteString("B:" + hex.EncodeToString(b))
	case secs2.ASCIIType:
		s, err := it.ToASCII()
		if err != nil || len(s) != it.Size() {
			return false
		}
		sb.WriteString("A:" + hex.EncodeToString([]byte(s)))
	case secs2.JIS8Type:
		s, err := it.ToJIS8()
		if err != nil || len(s) != it.Size() {
			return false
		}
		sb.WriteString("J:" + hex.EncodeToString([]byte(s)))
	case secs2.LocalizedStrType:
		s, err := it.ToLocalizedStr()
		h, err2 := it.ToLocalizedStrHeader()
		if err != nil || err2 != nil || len(s)+2 != it.Size() {
			return false
		}
		fmt.Fprintf(sb, "W%d:%s", h, hex.EncodeToString([]byte(s)))
	case secs2.BooleanType:
		v, err := it.ToBoolean()
		if err != nil || len(v) != it.Size() {
			return false
		}
		sb.WriteString("O:")
		for i, b := range v {
			at, err := it.BoolAt(i)
			if err != nil || at != b {
				return false
			}
			if b {
				sb.WriteByte('1')
			} else {
				sb.WriteByte('0')
			}
		}
	case secs2.Int8Type, secs2.Int16Type, secs2.Int32Type, secs2.Int64Type:
		v, err := it.ToInt()
		if err != nil || len(v) != it.Size() {
			return false
		}
		sb.WriteString("I" + it.Type()[1:] + ":")
		i := 0
		for x := range it.Ints() { // iterator and slice accessor must agree
			if i >= len(v) || v[i] != x {
				return false
			}
			if i > 0 {
				sb.WriteByte(',')
			}
			sb.WriteString(strconv.FormatInt(x, 10))
			i++
		}
		if i != len(v) {
			return false
		}
	case secs2.Uint8Type, secs2.Uint16Type, secs2.Uint32Type, secs2.Uint64Type:
		v, err := it.ToUint()
		if err != nil || len(v) != it.Size() {
			return false
		}
		sb.WriteString("U" + it.Type()[1:] + ":")
		for i, x := range v {
			if i < 3 {
				at, err := it.UintAt(i)
				if err != nil || at != x {
					return false
				}
			}
			if i > 0 {
				sb.WriteByte(',')
			}
			sb.WriteString(strconv.FormatUint(x, 10))
		}
	case secs2.Float32Type:
		v, err := it.ToFloat()
		if err != nil || len(v) != it.Size() {
			return false
		}
		sb.WriteString("F4:")
		for i, x := range v {
			if i > 0 {
				sb.WriteByte(',')
			}
			sb.WriteString(strconv.FormatUint(uint64(quiet32(math.Float32bits(float32(x)))), 10))
		}
	case secs2.Float64Type:
		v, err := it.ToFloat()
		if err != nil || len(v) != it.Size() {
			return false
		}
		sb.WriteString("F8:")
		for i, x := range v {
			if i > 0 {
				sb.WriteByte(',')
			}
			sb.WriteString(strconv.FormatUint(math.Float64bits(x), 10))
		}
	default:
		return false
	}
	return true
}

// ShowString renders an item; "?" if an accessor misbehaved.
func ShowString(it secs2.Item) string {
	var sb strings.Builder
	if !Show(it, &sb) {
		return "?"
	}
	return sb.String()
}

// Digest shortens long texts for case lines: the driver applies the same rule to its own text.
func Digest(s string) string {
	if len(s) <= 4096 {
		return s
	}
	sum := md5.Sum([]byte(s))
	return fmt.Sprintf("H%s:%d", hex.EncodeToString(sum[:]), len(s))
}

// HexDigest renders bytes as hex, shortened by Digest's rule ("-" for empty).
func HexDigest(b []byte) string {
	if len(b) == 0 {
		return "-"
	}
	return Digest(hex.EncodeToString(b))
}

// RefEncode is an independent SEMI E5 encoder over the logical tree (oracle only).
func RefEncode(n *Node, out []byte) []byte {
	hdr := func(fc int, l int) {
		switch {
		case l <= 0xff:
			out = append(out, byte(fc<<2|1), byte(l))
		case l <= 0xffff:
			out = append(out, byte(fc<<2|2), byte(l>>8), byte(l))
		default:
			out = append(out, byte(fc<<2|3), byte(l>>16), byte(l>>8), byte(l))
		}
	}
	be := func(u uint64, w int) {
		for i := w - 1; i >= 0; i-- {
			out = append(out, byte(u>>(8*uint(i))))
		}
	}
	switch n.Kind {
	case 'E':
	case 'R':
		out = append(out, n.Bytes...)
	case 'L':
		hdr(0o00, len(n.Kids))
		for _, k := range n.Kids {
			out = RefEncode(k, out)
		}
	case 'B':
		hdr(0o10, len(n.Bytes))
		out = append(out, n.Bytes...)
	case 'O':
		hdr(0o11, len(n.Bools))
		for _, b := range n.Bools {
			if b {
				out = append(out, 1)
			} else {
				out = append(out, 0)
			}
		}
	case 'A':
		hdr(0o20, len(n.Bytes))
		out = append(out, n.Bytes...)
	case 'J':
		hdr(0o21, len(n.Bytes))
		out = append(out, n.Bytes...)
	case 'W':
		hdr(0o22, len(n.Bytes)+2)
		out = append(out, byte(n.LSH>>8), byte(n.LSH))
		out = append(out, n.Bytes...)
	case 'I':
		hdr(map[int]int{1: 0o31, 2: 0o32, 4: 0o34, 8: 0o30}[n.W], len(n.Ints)*n.W)
		for _, v := range n.Ints {
			be(uint64(v), n.W)
		}
	case 'U':
		hdr(map[int]int{1: 0o51, 2: 0o52, 4: 0o54, 8: 0o50}[n.W], len(n.Uints)*n.W)
		for _, v := range n.Uints {
			be(v, n.W)
		}
	case 'F':
		hdr(map[int]int{4: 0o44, 8: 0o40}[n.W], len(n.Uints)*n.W)
		for _, v := range n.Uints {
			be(v, n.W)
		}
	}
	return out
}
