package s2t

import (
	"math"
	"math/rand"
	"strconv"

	"github.com/arloliu/go-secs/v2/secs2"
)

// Build constructs the tree through the PUBLIC constructors. The argument shape (scalar
// varargs, one slice, mixed slices and scalars of every Go integer/float type that can hold the
// value exactly, numeric strings) is drawn from r and is not part of the logical value.
// shapes collects a short tag per leaf for the distribution histogram.
// OnDecodedChildFailure is called when secs2.Decode/DecodeOwned rejects the bytes of an 'R' node.
var OnDecodedChildFailure func(raw []byte, err error)

func Build(n *Node, r *rand.Rand, shapes func(string)) secs2.Item {
	switch n.Kind {
	case 'E':
		return secs2.NewEmptyItem()
	case 'R':
		shapes("R/decoded")
		var it secs2.Item
		var err error
		if r.Intn(2) == 0 {
			it, err = secs2.Decode(n.Bytes)
		} else {
			it, err = secs2.DecodeOwned(append([]byte(nil), n.Bytes...))
		}
		if err != nil {
			// implementation misbehaviour is reported, never fatal: the raw bytes are a valid
			// (possibly non-canonical) encoding by construction
			if OnDecodedChildFailure != nil {
				OnDecodedChildFailure(n.Bytes, err)
			}
			return nil // skipped by NewListItem; the tree's own checks then report the difference too
		}
		return it
	case 'L':
		kids := make([]secs2.Item, 0, len(n.Kids)+2)
		withNil := r.Intn(8) == 0
		for _, k := range n.Kids {
			if withNil && r.Intn(3) == 0 {
				kids = append(kids, nil) // nil children are skipped by NewListItem
			}
			kids = append(kids, Build(k, r, shapes))
		}
		if r.Intn(2) == 0 {
			return secs2.L(kids...)
		}
		return secs2.NewListItem(kids...)
	case 'A':
		if r.Intn(2) == 0 {
			return secs2.A(string(n.Bytes))
		}
		return secs2.NewASCIIItem(string(n.Bytes))
	case 'J':
		if r.Intn(2) == 0 {
			return secs2.J(string(n.Bytes))
		}
		return secs2.NewJIS8Item(string(n.Bytes))
	case 'W':
		if n.LSH == secs2.LSHUTF8 {
			switch r.Intn(3) {
			case 0:
				return secs2.W(string(n.Bytes))
			case 1:
				return secs2.NewUTF8StrItem(string(n.Bytes))
			}
		}
		return secs2.NewLocalizedStrItem(n.LSH, string(n.Bytes))
	case 'B':
		args := binaryArgs(n.Bytes, r, shapes)
		if r.Intn(2) == 0 {
			return secs2.B(args...)
		}
		return secs2.NewBinaryItem(args...)
	case 'O':
		args := boolArgs(n.Bools, r, shapes)
		if r.Intn(2) == 0 {
			return secs2.BOOLEAN(args...)
		}
		return secs2.NewBooleanItem(args...)
	case 'I':
		args := intArgs(n.Ints, r, shapes)
		if r.Intn(2) == 0 {
			return secs2.NewIntItem(n.W, args...)
		}
		switch n.W {
		case 1:
			return secs2.I1(args...)
		case 2:
			return secs2.I2(args...)
		case 4:
			return secs2.I4(args...)
		}
		return secs2.I8(args...)
	case 'U':
		args := uintArgs(n.Uints, r, shapes)
		if r.Intn(2) == 0 {
			return secs2.NewUintItem(n.W, args...)
		}
		switch n.W {
		case 1:
			return secs2.U1(args...)
		case 2:
			return secs2.U2(args...)
		case 4:
			return secs2.U4(args...)
		}
		return secs2.U8(args...)
	case 'F':
		args := floatArgs(n.Uints, n.W, r, shapes)
		if n.F64 != nil {
			args = inexactArgs(n.F64, r, shapes)
		}
		if r.Intn(2) == 0 {
			return secs2.NewFloatItem(n.W, args...)
		}
		if n.W == 4 {
			return secs2.F4(args...)
		}
		return secs2.F8(args...)
	}
	panic("s2t.Build: bad kind")
}

// chunks cuts [0,n) into random consecutive pieces (each >= 1) for mixed-shape argument lists.
func chunks(n int, r *rand.Rand) [][2]int {
	var out [][2]int
	for i := 0; i < n; {
		l := 1
		if r.Intn(2) == 0 {
			l = 1 + r.Intn(5)
		}
		if i+l > n {
			l = n - i
		}
		out = append(out, [2]int{i, i + l})
		i += l
	}
	return out
}

func binaryArgs(b []byte, r *rand.Rand, shapes func(string)) []any {
	big := len(b) > 64
	switch s := r.Intn(5); {
	case s == 0 || big:
		shapes("B/slice")
		if len(b) == 0 && r.Intn(2) == 0 {
			return nil
		}
		return []any{append([]byte(nil), b...)}
	case s == 1:
		shapes("B/bytes")
		out := make([]any, len(b))
		for i, v := range b {
			out[i] = v
		}
		return out
	case s == 2:
		shapes("B/ints")
		out := make([]any, len(b))
		for i, v := range b {
			out[i] = int(v)
		}
		return out
	case s == 3:
		shapes("B/strings")
		out := make([]any, len(b))
		for i, v := range b {
			switch r.Intn(4) {
			case 0:
				out[i] = strconv.Itoa(int(v))
			case 1:
				out[i] = "0x" + strconv.FormatInt(int64(v), 16)
			case 2:
				out[i] = "0b" + strconv.FormatInt(int64(v), 2)
			default:
				out[i] = "0o" + strconv.FormatInt(int64(v), 8)
			}
		}
		return out
	default:
		shapes("B/mixed")
		var out []any
		for _, c := range chunks(len(b), r) {
			if c[1]-c[0] == 1 {
				switch r.Intn(3) {
				case 0:
					out = append(out, b[c[0]])
				case 1:
					out = append(out, int(b[c[0]]))
				default:
					out = append(out, strconv.Itoa(int(b[c[0]])))
				}
			} else {
				out = append(out, append([]byte(nil), b[c[0]:c[1]]...))
			}
		}
		return out
	}
}

func boolArgs(b []bool, r *rand.Rand, shapes func(string)) []any {
	switch s := r.Intn(3); {
	case s == 0 || len(b) > 64:
		shapes("O/slice")
		if len(b) == 0 && r.Intn(2) == 0 {
			return nil
		}
		return []any{append([]bool(nil), b...)}
	case s == 1:
		shapes("O/scalars")
		out := make([]any, len(b))
		for i, v := range b {
			out[i] = v
		}
		return out
	default:
		shapes("O/mixed")
		var out []any
		for _, c := range chunks(len(b), r) {
			if c[1]-c[0] == 1 && r.Intn(2) == 0 {
				out = append(out, b[c[0]])
			} else {
				out = append(out, append([]bool(nil), b[c[0]:c[1]]...))
			}
		}
		return out
	}
}

// intScalar returns v as a randomly chosen Go type that holds it exactly (or a numeric string).
type intn interface{ Intn(n int) int }

func intScalar(v int64, r intn) any {
	for {
		switch r.Intn(12) {
		case 0:
			return v
		case 1:
			return int(v)
		case 2:
			if v >= math.MinInt32 && v <= math.MaxInt32 {
				return int32(v)
			}
		case 3:
			if v >= math.MinInt16 && v <= math.MaxInt16 {
				return int16(v)
			}
		case 4:
			if v >= math.MinInt8 && v <= math.MaxInt8 {
				return int8(v)
			}
		case 5:
			if v >= 0 {
				return uint64(v)
			}
		case 6:
			if v >= 0 {
				return uint(v)
			}
		case 7:
			if v >= 0 && v <= math.MaxUint32 {
				return uint32(v)
			}
		case 8:
			if v >= 0 && v <= math.MaxUint16 {
				return uint16(v)
			}
		case 9:
			if v >= 0 && v <= math.MaxUint8 {
				return uint8(v)
			}
		case 10:
			return strconv.FormatInt(v, 10)
		case 11:
			if v >= 0 {
				return "0x" + strconv.FormatInt(v, 16)
			}
			return "-0x" + strconv.FormatUint(uint64(-(v+1))+1, 16)
		}
	}
}

func intSlice(vs []int64, r *rand.Rand) any {
	lo, hi := int64(0), int64(0)
	for _, v := range vs {
		lo, hi = min(lo, v), max(hi, v)
	}
	for {
		switch r.Intn(11) {
		case 0:
			return append([]int64(nil), vs...)
		case 1:
			out := make([]int, len(vs))
			for i, v := range vs {
				out[i] = int(v)
			}
			return out
		case 2:
			if lo >= math.MinInt32 && hi <= math.MaxInt32 {
				out := make([]int32, len(vs))
				for i, v := range vs {
					out[i] = int32(v)
				}
				return out
			}
		case 3:
			if lo >= math.MinInt16 && hi <= math.MaxInt16 {
				out := make([]int16, len(vs))
				for i, v := range vs {
					out[i] = int16(v)
				}
				return out
			}
		case 4:
			if lo >= math.MinInt8 && hi <= math.MaxInt8 {
				out := make([]int8, len(vs))
				for i, v := range vs {
					out[i] = int8(v)
				}
				return out
			}
		case 5:
			if lo >= 0 {
				out := make([]uint64, len(vs))
				for i, v := range vs {
					out[i] = uint64(v)
				}
				return out
			}
		case 6:
			if lo >= 0 {
				out := make([]uint, len(vs))
				for i, v := range vs {
					out[i] = uint(v)
				}
				return out
			}
		case 7:
			if lo >= 0 && hi <= math.MaxUint32 {
				out := make([]uint32, len(vs))
				for i, v := range vs {
					out[i] = uint32(v)
				}
				return out
			}
		case 8:
			if lo >= 0 && hi <= math.MaxUint16 {
				out := make([]uint16, len(vs))
				for i, v := range vs {
					out[i] = uint16(v)
				}
				return out
			}
		case 9:
			if lo >= 0 && hi <= math.MaxUint8 {
				out := make([]uint8, len(vs))
				for i, v := range vs {
					out[i] = uint8(v)
				}
				return out
			}
		case 10:
			if len(vs) <= 4096 {
				out := make([]string, len(vs))
				for i, v := range vs {
					out[i] = strconv.FormatInt(v, 10)
				}
				return out
			}
		}
	}
}

func intArgs(vs []int64, r *rand.Rand, shapes func(string)) []any {
	switch s := r.Intn(3); {
	case s == 0 || len(vs) > 64:
		shapes("I/slice")
		if len(vs) == 0 && r.Intn(2) == 0 {
			return nil
		}
		return []any{intSlice(vs, r)}
	case s == 1:
		shapes("I/scalars")
		out := make([]any, len(vs))
		for i, v := range vs {
			out[i] = intScalar(v, r)
		}
		return out
	default:
		shapes("I/mixed")
		var out []any
		for _, c := range chunks(len(vs), r) {
			if c[1]-c[0] == 1 && r.Intn(2) == 0 {
				out = append(out, intScalar(vs[c[0]], r))
			} else {
				out = append(out, intSlice(vs[c[0]:c[1]], r))
			}
		}
		return out
	}
}

func uintScalar(v uint64, r intn) any {
	for {
		switch r.Intn(12) {
		case 0:
			return v
		case 1:
			return uint(v)
		case 2:
			if v <= math.MaxUint32 {
				return uint32(v)
			}
		case 3:
			if v <= math.MaxUint16 {
				return uint16(v)
			}
		case 4:
			if v <= math.MaxUint8 {
				return uint8(v)
			}
		case 5:
			if v <= math.MaxInt64 {
				return int64(v)
			}
		case 6:
			if v <= math.MaxInt64 {
				return int(v)
			}
		case 7:
			if v <= math.MaxInt32 {
				return int32(v)
			}
		case 8:
			if v <= math.MaxInt16 {
				return int16(v)
			}
		case 9:
			if v <= math.MaxInt8 {
				return int8(v)
			}
		case 10:
			return strconv.FormatUint(v, 10)
		case 11:
			return "0x" + strconv.FormatUint(v, 16)
		}
	}
}

func uintSlice(vs []uint64, r *rand.Rand) any {
	hi := uint64(0)
	for _, v := range vs {
		hi = max(hi, v)
	}
	for {
		switch r.Intn(11) {
		case 0:
			return append([]uint64(nil), vs...)
		case 1:
			out := make([]uint, len(vs))
			for i, v := range vs {
				out[i] = uint(v)
			}
			return out
		case 2:
			if hi <= math.MaxUint32 {
				out := make([]uint32, len(vs))
				for i, v := range vs {
					out[i] = uint32(v)
				}
				return out
			}
		case 3:
			if hi <= math.MaxUint16 {
				out := make([]uint16, len(vs))
				for i, v := range vs {
					out[i] = uint16(v)
				}
				return out
			}
		case 4:
			if hi <= math.MaxUint8 {
				out := make([]uint8, len(vs))
				for i, v := range vs {
					out[i] = uint8(v)
				}
				return out
			}
		case 5:
			if hi <= math.MaxInt64 {
				out := make([]int64, len(vs))
				for i, v := range vs {
					out[i] = int64(v)
				}
				return out
			}
		case 6:
			if hi <= math.MaxInt64 {
				out := make([]int, len(vs))
				for i, v := range vs {
					out[i] = int(v)
				}
				return out
			}
		case 7:
			if hi <= math.MaxInt32 {
				out := make([]int32, len(vs))
				for i, v := range vs {
					out[i] = int32(v)
				}
				return out
			}
		case 8:
			if hi <= math.MaxInt16 {
				out := make([]int16, len(vs))
				for i, v := range vs {
					out[i] = int16(v)
				}
				return out
			}
		case 9:
			if hi <= math.MaxInt8 {
				out := make([]int8, len(vs))
				for i, v := range vs {
					out[i] = int8(v)
				}
				return out
			}
		case 10:
			if len(vs) <= 4096 {
				out := make([]string, len(vs))
				for i, v := range vs {
					out[i] = strconv.FormatUint(v, 10)
				}
				return out
			}
		}
	}
}

func uintArgs(vs []uint64, r *rand.Rand, shapes func(string)) []any {
	switch s := r.Intn(3); {
	case s == 0 || len(vs) > 64:
		shapes("U/slice")
		if len(vs) == 0 && r.Intn(2) == 0 {
			return nil
		}
		return []any{uintSlice(vs, r)}
	case s == 1:
		shapes("U/scalars")
		out := make([]any, len(vs))
		for i, v := range vs {
			out[i] = uintScalar(v, r)
		}
		return out
	default:
		shapes("U/mixed")
		var out []any
		for _, c := range chunks(len(vs), r) {
			if c[1]-c[0] == 1 && r.Intn(2) == 0 {
				out = append(out, uintScalar(vs[c[0]], r))
			} else {
				out = append(out, uintSlice(vs[c[0]:c[1]], r))
			}
		}
		return out
	}
}

// fval is the float64 carrying bit pattern u of width w (exact widening for w = 4).
func fval(u uint64, w int) float64 {
	if w == 4 {
		return float64(math.Float32frombits(uint32(u)))
	}
	return math.Float64frombits(u)
}

// floatScalar returns the value as a Go type/literal that denotes it EXACTLY (narrowing of
// inexact float64 arguments to F4 is outside this check).
func floatScalar(u uint64, w int, r *rand.Rand) any {
	v := fval(u, w)
	nan := v != v
	for {
		switch r.Intn(6) {
		case 0:
			if !(w == 4 && nan) { // float64(NaN32) keeps the payload only up to quieting; use float32 for those
				return v
			}
		case 1:
			if w == 4 {
				return math.Float32frombits(uint32(u))
			}
			if !nan && float64(float32(v)) == v && !(v == 0 && math.Signbit(v)) {
				return float32(v)
			}
		case 2:
			if !nan && v == math.Trunc(v) && math.Abs(v) <= 1<<53 && !(v == 0 && math.Signbit(v)) {
				i := int64(v)
				if i >= 0 && r.Intn(2) == 0 {
					return uintScalar(uint64(i), r2num{r})
				}
				return intScalar(i, r2num{r})
			}
		case 3:
			if !nan {
				return strconv.FormatFloat(v, 'g', -1, 64)
			}
		case 4:
			if !nan && !math.IsInf(v, 0) {
				return strconv.FormatFloat(v, 'e', -1, 64)
			}
		case 5:
			if w == 8 {
				return v
			}
			return math.Float32frombits(uint32(u))
		}
	}
}

// r2num wraps the PRNG so that int/uint scalar pickers never return a string for floats
// (NewFloatItem parses strings as floats: "0x10" is a hex FLOAT literal there).
type r2num struct{ r *rand.Rand }

func (x r2num) Intn(n int) int {
	for {
		v := x.r.Intn(n)
		if n == 12 && v >= 10 {
			continue
		}
		return v
	}
}

func floatArgs(us []uint64, w int, r *rand.Rand, shapes func(string)) []any {
	slice := func(part []uint64) any {
		if w == 4 {
			out := make([]float32, len(part))
			for i, u := range part {
				out[i] = math.Float32frombits(uint32(u))
			}
			return out
		}
		out := make([]float64, len(part))
		for i, u := range part {
			out[i] = math.Float64frombits(u)
		}
		return out
	}
	// []float64 for F4 is exact when no element is a NaN (quieting) — use it sometimes
	slice64 := func(part []uint64) any {
		out := make([]float64, len(part))
		for i, u := range part {
			out[i] = fval(u, w)
			if out[i] != out[i] && w == 4 {
				return slice(part)
			}
		}
		return out
	}
	switch s := r.Intn(4); {
	case s == 0 || len(us) > 64:
		shapes("F/slice")
		if len(us) == 0 && r.Intn(2) == 0 {
			return nil
		}
		if r.Intn(2) == 0 {
			return []any{slice64(us)}
		}
		return []any{slice(us)}
	case s == 1:
		shapes("F/scalars")
		out := make([]any, len(us))
		for i, u := range us {
			out[i] = floatScalar(u, w, r)
		}
		return out
	default:
		shapes("F/mixed")
		var out []any
		for _, c := range chunks(len(us), r) {
			if c[1]-c[0] == 1 && r.Intn(2) == 0 {
				out = append(out, floatScalar(us[c[0]], w, r))
			} else if r.Intn(2) == 0 {
				out = append(out, slice64(us[c[0]:c[1]]))
			} else {
				out = append(out, slice(us[c[0]:c[1]]))
			}
		}
		return out
	}
}

// inexactArgs passes float64 values that are NOT exactly representable in binary32 to an F4
// constructor (as float64 scalars, []float64, or decimal strings): the item narrows them at
// encode time.
func inexactArgs(vs []float64, r *rand.Rand, shapes func(string)) []any {
	shapes("F/inexact64")
	var out []any
	for _, c := range chunks(len(vs), r) {
		if c[1]-c[0] == 1 {
			if r.Intn(2) == 0 {
				out = append(out, vs[c[0]])
			} else {
				out = append(out, strconv.FormatFloat(vs[c[0]], 'g', -1, 64))
			}
		} else {
			out = append(out, append([]float64(nil), vs[c[0]:c[1]]...))
		}
	}
	return out
}
