// Harness for C01: builds logical SECS-II trees through the PUBLIC constructors (varied argument
// shapes), observes ToBytes / EncodedLen / AppendTo / Decode / DecodeOwned / Equal / accessors on
// the real code, writes one case line per tree for the extracted Coq model, and checks the
// property itself on the implementation (oracle, no model involved).
//
// Case line:  T <tree> | <err> <enclen> <bytes> <dec> <equal> <dirty> | <decoded tree>
//
//	dirty  1 if AppendTo over every destination with non-zero spare capacity gave prefix ++ ToBytes
//
//	err    1 if item.Error() != nil (then the other fields are "-")
//	bytes  hex of ToBytes (digest when long), dec = ok|err for Decode(ToBytes)
//	equal  secs2.Equal(original, decoded)
package main

import (
	"bytes"
	"fmt"
	"math/rand"
	"strings"

	"github.com/arloliu/go-secs/v2/secs2"

	"verifharness/cmd/c01/s2t"
	"verifharness/vh"
)

type runner struct {
	c       *vh.Ctx
	r       *rand.Rand
	scratch []byte // destination with DIRTY spare capacity for the AppendTo pass
	recycle []byte // one buffer re-used across cases: buf = item.AppendTo(buf[:0])
}

// dirtyAppend runs AppendTo over destinations whose spare capacity holds non-zero bytes (0xFF,
// 0x5A, random) behind prefixes of length 0, 1 and 7, and over a buffer recycled from the
// previous cases (buf = item.AppendTo(buf[:0])). Every result must be prefix ++ enc byte for
// byte, with the prefix untouched. Returns a description of the first deviation, or "".
func (x *runner) dirtyAppend(it secs2.Item, enc []byte) string {
	for k, p := range []int{0, 1, 7} {
		need := p + len(enc) + 9
		if k == 1 {
			need = p + len(enc) // spare capacity exactly the encoded length
		}
		if cap(x.scratch) < need {
			x.scratch = make([]byte, need+need/2)
		}
		buf := x.scratch[:need:need]
		switch k {
		case 0:
			for i := range buf {
				buf[i] = 0xff
			}
		case 1:
			for i := range buf {
				buf[i] = 0x5a
			}
		default:
			for i := range buf {
				buf[i] = byte(1 + x.r.Intn(255))
			}
		}
		prefix := append([]byte(nil), buf[:p]...)
		got := it.AppendTo(buf[:p])
		if len(got) != p+len(enc) || !bytes.Equal(got[:p], prefix) {
			return fmt.Sprintf("AppendTo(dst with spare capacity pre-filled with non-zero bytes) changed the prefix or has the wrong length|dst len %d", p)
		}
		if !bytes.Equal(got[p:], enc) {
			i := 0
			for i < len(enc) && got[p+i] == enc[i] {
				i++
			}
			return fmt.Sprintf("AppendTo(dst with spare capacity pre-filled with non-zero bytes) is not dst ++ ToBytes|dst len %d, first difference at encoding offset %d: got %02x want %02x", p, i, got[p+i], enc[i])
		}
	}
	x.recycle = it.AppendTo(x.recycle[:0])
	if !bytes.Equal(x.recycle, enc) {
		return "recycled buffer (buf = item.AppendTo(buf[:0]) after earlier encodes) differs from ToBytes"
	}
	return ""
}

// one never lets implementation misbehaviour abort the run: a panic anywhere below is an oracle
// failure for this tree and the run continues.
func (x *runner) one(n *s2t.Node, class string) {
	defer func() {
		if p := recover(); p != nil {
			x.c.Fail("implementation panicked while the tree was built/encoded/decoded", "T "+trunc(n.SpecString())+fmt.Sprintf(" (%v)", p))
		}
	}()
	x.oneTree(n, class)
}

func (x *runner) oneTree(n *s2t.Node, class string) {
	c := x.c
	spec := n.SpecString()
	it := s2t.Build(n, x.r, func(s string) { c.Count("shape/" + s) })
	c.Count("class/" + class)
	c.Count(fmt.Sprintf("depth/%02d", min(n.Depth(), 66)))
	key := spec
	if len(key) > 200 {
		key = s2t.Digest(spec + strings.Repeat(" ", 4097))
	}
	if it.Error() != nil {
		// constructors refuse only oversize items in this generator; the model must agree
		c.Case("T "+spec+" | 1 - - - - | -", key, true)
		c.Count("outcome/ctor-error")
		return
	}
	enc := it.ToBytes()
	encLen := it.EncodedLen()
	decStatus, equal, decTree := "err", "0", "-"
	dec, derr := secs2.Decode(enc)
	if derr == nil {
		decStatus = "ok"
		equal = vh.B01(secs2.Equal(it, dec))
		decTree = s2t.Digest(s2t.ShowString(dec))
	}
	dirty := x.dirtyAppend(it, enc)
	line := fmt.Sprintf("T %s | 0 %d %s %s %s %s | %s", spec, encLen, s2t.HexDigest(enc), decStatus, equal, vh.B01(dirty == ""), decTree)
	c.Case(line, key, n.Count() > 0)
	c.Count("outcome/decode-" + decStatus)
	if x.r.Intn(3) == 0 {
		defer x.equalCases(n)
	}

	// ---------------- implementation-level oracle (the property, no model) ----------------
	fail := func(what string) { c.Fail(what, "T "+trunc(spec)) }
	ref := s2t.RefEncode(n, nil)
	if !bytes.Equal(enc, ref) {
		fail(fmt.Sprintf("ToBytes differs from the SEMI E5 encoding of the intended value: got %s want %s", trunc(vh.Hex(enc)), trunc(vh.Hex(ref))))
	}
	if encLen != len(enc) {
		fail(fmt.Sprintf("EncodedLen %d != len(ToBytes) %d", encLen, len(enc)))
	}
	if again := it.ToBytes(); !bytes.Equal(again, enc) {
		fail("ToBytes is not deterministic")
	}
	if dirty != "" {
		what, detail, _ := strings.Cut(dirty, "|")
		c.Fail(what, "T "+trunc(spec)+" ("+detail+")")
	}
	// AppendTo: exact-capacity prefix, and a prefix with spare capacity holding sentinel bytes
	prefix := []byte{0xde, 0xad, 0xbe, 0xef, 0x00, 0xff}
	p1 := append([]byte(nil), prefix...)
	got := it.AppendTo(p1)
	if len(got) != len(prefix)+len(enc) || !bytes.Equal(got[:len(prefix)], prefix) || !bytes.Equal(got[len(prefix):], enc) {
		fail("AppendTo(prefix) is not prefix ++ ToBytes")
	}
	if !bytes.Equal(p1, prefix) {
		fail("AppendTo modified the caller's prefix")
	}
	buf := make([]byte, len(prefix), len(prefix)+len(enc)+16)
	copy(buf, prefix)
	got = it.AppendTo(buf)
	if !bytes.Equal(got[:len(prefix)], prefix) || !bytes.Equal(got[len(prefix):], enc) {
		fail("AppendTo(prefix with spare capacity) is not prefix ++ ToBytes")
	}
	inProperty := n.Depth() <= secs2.MaxListDepth // the property covers nesting up to the decoder's limit
	if derr != nil {
		if inProperty {
			fail("Decode rejects the encoding of an error-free item: " + class)
		}
		return
	}
	if !inProperty {
		fail("Decode accepted nesting deeper than MaxListDepth")
	}
	if equal != "1" {
		fail("decoded item is not Equal to the original")
	}
	if !secs2.Equal(dec, it) {
		fail("Equal is not symmetric on (decoded, original)")
	}
	if dec.Type() != it.Type() || dec.Size() != it.Size() {
		fail("decoded item differs in Type/Size")
	}
	var want strings.Builder
	showNode(n, &want)
	if got := s2t.ShowString(dec); got != want.String() {
		fail("decoded element values differ from the intended values")
	}
	if s2t.ShowString(it) != want.String() {
		fail("accessors of the constructed item do not return the intended values")
	}
	if re := dec.ToBytes(); !bytes.Equal(re, enc) {
		fail("re-encoding the decoded item differs from the original bytes")
	}
	if dec.EncodedLen() != len(enc) {
		fail("EncodedLen of the decoded item differs")
	}
	own, oerr := secs2.DecodeOwned(append([]byte(nil), enc...))
	if oerr != nil || !secs2.Equal(own, dec) || !bytes.Equal(own.ToBytes(), enc) {
		fail("DecodeOwned disagrees with Decode")
	}
	// a decoded subtree used as a child of a constructed list re-emits its retained bytes
	if n.Kind != 'E' && x.r.Intn(8) == 0 {
		wrap := secs2.L(dec, it)
		w := wrap.ToBytes()
		exp := append([]byte{0x01, 0x02}, enc...)
		exp = append(exp, enc...)
		if !bytes.Equal(w, exp) || wrap.EncodedLen() != len(exp) {
			fail("list of (decoded, constructed) twin items does not encode as two copies")
		}
	}
}

// showNode renders the logical tree in Show's syntax (never "#", EmptyItem children as Go
// would decode them is not applicable: such trees never reach this point).
func showNode(n *s2t.Node, sb *strings.Builder) {
	if n.Kind == 'R' {
		showNode(n.Kids[0], sb)
		return
	}
	g := n.Gen
	n.Gen = false
	if n.Kind == 'L' {
		if sb.Len() > 0 {
			sb.WriteByte(' ')
		}
		fmt.Fprintf(sb, "L%d", len(n.Kids))
		for _, k := range n.Kids {
			showNode(k, sb)
		}
	} else {
		n.Spec(sb)
	}
	n.Gen = g
}

// perturb returns a tree that differs from n in exactly one logical respect (an element value,
// the element count, the element width, the item type, the LSH), or nil.
func perturb(n *s2t.Node, r *rand.Rand) *s2t.Node {
	cp := *n
	cp.Gen = false
	cp.F64 = nil
	switch n.Kind {
	case 'L':
		if len(n.Kids) > 0 && r.Intn(3) > 0 {
			i := r.Intn(len(n.Kids))
			k := perturb(n.Kids[i], r)
			if k == nil {
				return nil
			}
			cp.Kids = append([]*s2t.Node(nil), n.Kids...)
			cp.Kids[i] = k
			return &cp
		}
		cp.Kids = append(append([]*s2t.Node(nil), n.Kids...), &s2t.Node{Kind: 'L'})
		return &cp
	case 'B', 'A', 'J', 'W':
		switch r.Intn(4) {
		case 0:
			cp.Kind = map[byte]byte{'B': 'A', 'A': 'J', 'J': 'B', 'W': 'A'}[n.Kind]
		case 1:
			if n.Kind == 'W' {
				cp.LSH = n.LSH ^ 1
				break
			}
			fallthrough
		case 2:
			cp.Bytes = append(append([]byte(nil), n.Bytes...), 0)
		default:
			if len(n.Bytes) == 0 {
				return nil
			}
			cp.Bytes = append([]byte(nil), n.Bytes...)
			cp.Bytes[r.Intn(len(cp.Bytes))] ^= 1 << uint(r.Intn(8))
		}
		return &cp
	case 'O':
		if len(n.Bools) == 0 || r.Intn(3) == 0 {
			cp.Bools = append(append([]bool(nil), n.Bools...), false)
			return &cp
		}
		cp.Bools = append([]bool(nil), n.Bools...)
		i := r.Intn(len(cp.Bools))
		cp.Bools[i] = !cp.Bools[i]
		return &cp
	case 'I':
		switch {
		case r.Intn(4) == 0 && n.W < 8: // same values, wider type
			cp.W = n.W * 2
		case len(n.Ints) == 0 || r.Intn(4) == 0:
			cp.Ints = append(append([]int64(nil), n.Ints...), 0)
		default:
			cp.Ints = append([]int64(nil), n.Ints...)
			i := r.Intn(len(cp.Ints))
			if cp.Ints[i] > 0 {
				cp.Ints[i]--
			} else {
				cp.Ints[i]++
			}
		}
		return &cp
	case 'U':
		switch {
		case r.Intn(4) == 0 && n.W < 8:
			cp.W = n.W * 2
		case len(n.Uints) == 0 || r.Intn(4) == 0:
			cp.Uints = append(append([]uint64(nil), n.Uints...), 0)
		default:
			cp.Uints = append([]uint64(nil), n.Uints...)
			cp.Uints[r.Intn(len(cp.Uints))] ^= 1
		}
		return &cp
	case 'F':
		if len(n.Uints) == 0 || r.Intn(4) == 0 {
			cp.Uints = append(append([]uint64(nil), n.Uints...), 0)
			return &cp
		}
		cp.Uints = append([]uint64(nil), n.Uints...)
		i := r.Intn(len(cp.Uints))
		if r.Intn(2) == 0 {
			cp.Uints[i] ^= 1 << uint(8*n.W-1) // sign bit: +0 / -0 and +x / -x are different values
		} else {
			cp.Uints[i] ^= 2 // a low mantissa bit (never turns a quiet NaN into a signalling one)
		}
		return &cp
	}
	return nil
}

// equalCases: Equal must be true for the same logical value built by a different argument shape,
// and false for a tree that differs in one respect.  Case line:  Q <tree> | <tree'> | <equal>
func (x *runner) equalCases(n *s2t.Node) {
	c := x.c
	if n.HasEmptyChild() || n.Nodes() > 400 || n.Gen || n.HasDecoded() {
		return
	}
	a := s2t.Build(n, x.r, func(string) {})
	b := s2t.Build(n, x.r, func(string) {})
	if a.Error() != nil || b.Error() != nil {
		return
	}
	spec := n.SpecString()
	if len(spec) > 3000 {
		return
	}
	eq := secs2.Equal(a, b)
	c.Case(fmt.Sprintf("Q %s | %s | %s", spec, spec, vh.B01(eq)), "Q"+spec, true)
	c.Count("equal/same-value")
	if !eq {
		c.Fail("Equal is false for the same logical value built by two argument shapes", "Q "+trunc(spec))
	}
	p := perturb(n, x.r)
	if p == nil {
		return
	}
	pi := s2t.Build(p, x.r, func(string) {})
	if pi.Error() != nil {
		return
	}
	ps := p.SpecString()
	if len(ps) > 3000 {
		return
	}
	eq = secs2.Equal(a, pi)
	c.Case(fmt.Sprintf("Q %s | %s | %s", spec, ps, vh.B01(eq)), "Q"+spec+"|"+ps, true)
	c.Count("equal/perturbed")
	if eq || secs2.Equal(pi, a) {
		c.Fail("Equal is true for items that differ in one element/type/size", "Q "+trunc(spec)+" | "+trunc(ps))
	}
}

func trunc(s string) string {
	if len(s) > 600 {
		return s[:600] + "..."
	}
	return s
}

func main() {
	c := vh.New()
	x := &runner{c: c, r: c.Rng}
	s2t.OnDecodedChildFailure = func(raw []byte, err error) {
		c.Fail("Decode rejects a valid (possibly non-canonical) encoding used as a decoded child", "D "+trunc(vh.Hex(raw)))
	}
	r := c.Rng
	for _, n := range s2t.Corpus(r, c.Tier) {
		x.one(n, "corpus")
	}
	for i := 0; c.Sum.Evaluations < c.N; i++ {
		switch k := r.Intn(20); {
		case k < 10:
			b := 1 + r.Intn(40)
			x.one(s2t.RandTree(r, &b, 6), "random-tree")
		case k < 12:
			b := 2 + r.Intn(30)
			t := s2t.WithDecoded(s2t.RandTree(r, &b, 6), r, true)
			if t.HasDecoded() {
				x.one(t, "with-decoded-children")
			}
		case k < 15:
			x.one(s2t.RandLeaf(r), "random-leaf")
		case k < 17:
			b := 1 + r.Intn(12)
			d := r.Intn(66)
			x.one(s2t.Nest(d, s2t.RandTree(r, &b, 66-d)), "deep")
		case k < 18:
			lk := s2t.LeafKinds[r.Intn(len(s2t.LeafKinds))]
			x.one(s2t.Leaf(lk[0], lk[1], 200+r.Intn(400), r), "medium-leaf")
		case k < 19:
			cnt := []int{4, 5, 6, 20, 21, 22, 85, 86, 213, 214, 341, 342}[r.Intn(12)]
			x.one(s2t.ListOf(cnt, func(int) *s2t.Node { return s2t.RandLeaf(r) }), "slab-boundary")
		default:
			if i%10 == 0 {
				lk := s2t.LeafKinds[r.Intn(len(s2t.LeafKinds))]
				w := max(lk[1], 1)
				x.one(s2t.GenLeaf(lk[0], lk[1], (65530+r.Intn(12))/w, r), "big-leaf")
			}
		}
	}
	if c.Tier == "thorough" {
		// the E5 size cap: 2^24-1 payload bytes accepted, one more refused by the constructor
		for _, lk := range s2t.LeafKinds {
			w := max(lk[1], 1)
			top := (1<<24 - 1) / w
			if lk[0] == 'W' {
				top -= 2
			}
			// the full round trip at the cap is run for four representative kinds (the extracted
			// model needs a minute or more per 16 MiB leaf); the refusal at cap+1 for every kind
			if lk[0] == 'B' || lk[0] == 'O' || lk[0] == 'W' || (lk[0] == 'U' && lk[1] == 2) {
				x.one(s2t.GenLeaf(lk[0], lk[1], top, r), "cap")
			}
			if !(lk[0] == 'J' || (lk[0] == 'U' && lk[1] == 1)) {
				x.one(s2t.GenLeaf(lk[0], lk[1], top+1, r), "cap+1")
			}
		}
	}
	c.Finish()
}
